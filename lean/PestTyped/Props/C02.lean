/-
Props.C02 — Pair tree equals pest's, minus the documented pruning under atomic rules.

Property (properties.jsonl, C02): "Whenever a parse succeeds, the token tree exposed through the
Pair/Pairs API (rule, start, end, children in order) is the tree pest produces for the same grammar
and input, after removing the descendants of tokens whose rule is atomic or compound-atomic (the
one documented difference).  Lookahead never contributes tokens, silent rules are transparent, EOI
and non-silent WHITESPACE/COMMENT tokens appear where pest puts them."

STRUCTURAL PART (this file, typed side only: `tokens` of `Model/Tokens.lean` over the values built
by `parse`; every grammar, fuel, cursor, state):
* `C02_lookahead_empty`, `C02_lookahead_parse` — `&e` / `!e` contribute no token, whatever is below.
* `C02_silent_transparent`, `C02_silent_parse` — a silent rule hands its content's tokens on.
* `C02_rule_token` — a non-silent rule reference yields exactly one token `(r, entry, exit)`; its
  children are the tokens of the content, or none for the `impl_pair_with_empty` arm.
* `C02_atomic_pruned`, `C02_content_kept`, `C02_hasContent_isAtomicId` — under the generator that
  arm is taken exactly for `@` and `$` rules: their tokens have no children; this is the set
  `pruneAtomic` prunes.
* `C02_eoi_token` — a successful `EOI` reference yields the token `(EOI, p, p)`, `p` the cursor.
* `C02_skipped_before_matched` — inside `Skipped { skipped, matched }` the tokens of the skip values
  precede those of the matched value.
* `C02_seq_order`, `C02_rep_order` — the tokens of a sequence / repetition are the concatenation,
  in element / iteration order, of (skip tokens, element tokens); the first slot has no skip tokens.
* `C02_skip_tokens` — the tokens of one implicit skip are those of the WHITESPACE / COMMENT matches
  in match order (none for silent skip rules).

SPEC SIDE: `Model/SpecTokens.lean` defines `specTok` (pest's token emission on top of the reference
semantics) and `pruneAtomic`; `C02_specTok_forget` (= `specTok_forget`): its token-free projection
is the `spec` of C01.

THE TOKEN-TREE THEOREM (full strength; proof: the simulation with tokens `Tok.tokSim_all` of
`Lemmas/SimTok.lean`, which extends C01's simulation by the token component — all expressions incl.
lookahead, implicit skipping with defined WHITESPACE / COMMENT, every built-in incl. `EOI`, all six
repetition forms, stack operations; all rule kinds in any nesting; every typed fuel and every Spec
fuel, every cursor, stack, tracker):
* `C02_tree_expr` — expression level: whenever the typed run of `genExpr pg sk e` (flag meaning the
  Spec's atomicity: `sk.eval inh = am.na`) and `specTok` both succeed, they end at the same cursor with
  the same stack and, outside an `Atomic` context, `tokens (gen pg) v = pruneAtomic pg ts`.
* `C02_tree_expr_verdict` — … and they never disagree on the verdict (ok vs fail).
* `C02_tree` — entry point `try_parse_partial` of rule `name` vs `specTokPartial` (pest's
  `Parser::parse(Rule::name, input)`): token tree equal after pruning, same end cursor, same stack.
* `C02_tree_verdict` — entry point, verdicts.
* `C02_tree_full` — entry point `try_parse` (trailing skip + end-of-input step): its value is the
  value of the prefix parse, so its token tree is pest's pruned; the tokens of the trailing skip are
  dropped and the `EOI` step only touches the tracker (no token).
* `C02_tree_full_cursor` — the trailing skip of `try_parse` ends where pest's implicit skip ends.
"Whenever both give a definite answer" is the compatibility form; that a definite answer of one side
forces one of the other is C01 (`C01_forward`, `C01_backward`).

Hypothesis `SkipRulesAtomicLike pg` (finding F-WS): the rule a skip name WHITESPACE / COMMENT resolves
to is `@` / `$`, or has a "simple" body (`SimpleSkipBody`: no sequence, no repetition, no reference
to a rule of the grammar, no `EOI`; literals, ranges, other built-ins, choice, optional, lookahead,
`PUSH`, stack slices allowed; defined in Lemmas/SkipLike.lean).  It is the hypothesis of C01 too, and is
WEAKER than `SkipRulesAtomic` "every rule so named is `@` / `$`" (`C02_atomicLike_of_atomic`):
`WHITESPACE = { " " }`, `WHITESPACE = _{ " " | "\t" }`, `COMMENT = !{ "#" }` satisfy it
(`C02_tree_ws_normal_example`: the grammar `s_skip_tokens` of the T-run corpus).  What it excludes is needed:
pest forces `Atomic` inside rules with these names, pest-typed gives them their declared kind, so
- a sequence / repetition in the body skips on one side only (`C01_counterexample_F_WS`),
- a rule called from the body emits a token on one side only (`C02_counterexample_ws_inner`),
- so does `EOI`, which is a rule call (`C02_counterexample_ws_eoi`).
`C02_skipFree_atomicLike`: grammars without skip rules satisfy the hypothesis, so
`C02_tree_partial` (kept, with its independent proof `frag_sim`) is a special case of `C02_tree`.

`C02_tree_example` checks the equation on a concrete grammar with a `$` rule, a nested normal rule,
a lookahead and a non-silent WHITESPACE by evaluation.
-/
import PestTyped.Lemmas.SkipSites
import PestTyped.Lemmas.SpecTokensLemmas
import PestTyped.Lemmas.SimTok
import PestTyped.Props.C15
namespace PestTyped

/-! ### lookahead -/

/-- A lookahead value carries no token, whatever values are below it. -/
theorem C02_lookahead_empty (g : NodeGrammar) (kids : List Val) :
    tokens g (.mk .pos kids) = [] ∧ tokens g (.mk .neg kids) = [] :=
  C15_lookahead_none g kids

/-- `&e` and `!e`: a successful parse contributes no token (and consumes nothing). -/
theorem C02_lookahead_parse (g : NodeGrammar) (uni : Uni) (n : Nat) (inh : Bool) (x : Node)
    (i : Inp) (m : M) (i' : Inp) (m' : M) (v : Val)
    (h : parse g uni n inh (.pos x) i m = .ok i' m' v ∨ parse g uni n inh (.neg x) i m = .ok i' m' v) :
    tokens g v = [] ∧ i' = i := by
  cases n with
  | zero => rcases h with h | h <;> cases h
  | succ n =>
    rcases h with h | h
    · simp only [parse] at h
      split at h
      · cases h
      · cases h
      · injection h with a b c; subst a b c; exact ⟨by simp [tokens], rfl⟩
    · simp only [parse] at h
      split at h
      · cases h
      · injection h with a b c; subst a b c; exact ⟨by simp [tokens, Val.leaf], rfl⟩
      · cases h

/-! ### silent rules -/

/-- Silent rules are transparent: the value of a silent rule hands the tokens of its content on. -/
theorem C02_silent_transparent (g : NodeGrammar) (r : RuleId) (boxed : Bool) (s e : Nat) (kids : List Val) :
    tokens g (.mk (.rule r .expression boxed s e) kids) = tokensList g kids :=
  (C15_silent_transparent g r boxed s e kids).1

/-- A successful reference to a silent rule has exactly the tokens of its body's value. -/
theorem C02_silent_parse (g : NodeGrammar) (uni : Uni) (n : Nat) (inh : Bool) (r : RuleId) (f : Flag)
    (d : RuleDef) (i : Inp) (m : M) (i' : Inp) (m' : M) (v : Val)
    (hd : g.rule? r = some d) (hemit : d.emit = .expression)
    (h : parse g uni (n+1) inh (.ref r f) i m = .ok i' m' v) :
    ∃ vb, parse g uni n (f.eval inh) d.body i m = .ok i' m' vb ∧ tokens g v = tokens g vb := by
  simp only [parse, hd, hemit] at h
  split at h
  · cases h
  · cases h
  · next i1 m1 vb hb =>
    injection h with a b c; subst a b c
    exact ⟨vb, hb, by simp [tokens, tokensList]⟩

/-! ### rule tokens -/

/-- A non-silent rule reference yields exactly ONE token: the rule, from the entry cursor to the
cursor where the body ended; its children are the tokens of the content value (emission `Both`),
or none when the rule takes the `impl_pair_with_empty` arm (`hasContentPairs = false`) or is
matched through the check path (emission `Span`). -/
theorem C02_rule_token (g : NodeGrammar) (uni : Uni) (n : Nat) (inh : Bool) (r : RuleId) (f : Flag)
    (d : RuleDef) (i : Inp) (m : M) (i' : Inp) (m' : M) (v : Val)
    (hd : g.rule? r = some d) (hemit : d.emit ≠ .expression)
    (h : parse g uni (n+1) inh (.ref r f) i m = .ok i' m' v) :
    ∃ kids, v = .mk (.rule r d.emit d.boxed i.pos i'.pos) kids ∧
      tokens g v = [.mk r i.pos i'.pos (if hasContentPairs g r then tokensList g kids else [])] ∧
      (d.emit = .span → kids = []) ∧
      (d.emit = .both → ∃ vb mB, kids = [vb] ∧
        parse g uni n (f.eval inh) d.body i { m with trk := m.trk.enter r i.pos } = .ok i' mB vb) := by
  simp only [parse, hd] at h
  split at h
  · next he => exact absurd he hemit
  · next he =>
    split at h
    · cases h
    · cases h
    · injection h with a b c; subst a b c
      refine ⟨[], by rw [he], ?_, fun _ => rfl, fun hb => by rw [he] at hb; cases hb⟩
      simp [tokens, tokensList]
  · next he =>
    split at h
    · cases h
    · cases h
    · next i1 m1 vb hb =>
      injection h with a b c; subst a b c
      refine ⟨[vb], by rw [he], ?_, fun hs => (by rw [he] at hs; cases hs), fun _ => ⟨vb, m1, rfl, hb⟩⟩
      simp [tokens]

/-- Under the generator the children are dropped exactly for `@` and `$` rules: the token of such
a rule has no children, whatever its content value holds. -/
theorem C02_atomic_pruned (pg : PGrammar) (k : Nat) (pr : PRule) (hr : pg[k]? = some pr)
    (hk : pr.kind = .atomic ∨ pr.kind = .compoundAtomic)
    (emit : Emission) (boxed : Bool) (s e : Nat) (kids : List Val) (hemit : emit ≠ .expression) :
    hasContentPairs (gen pg) (k+1) = false ∧
    tokens (gen pg) (.mk (.rule (k+1) emit boxed s e) kids) = [.mk (k+1) s e []] := by
  have h0 : hasContentPairs (gen pg) (k+1) = false := by
    simp only [hasContentPairs, NodeGrammar.rule?, gen, List.getElem?_cons_succ, List.getElem?_map, hr,
      Option.map_some, genRule]
    rcases hk with hk | hk <;> simp [hk, kindAtomicity]
  refine ⟨h0, ?_⟩
  have := (C15_children (gen pg) (k+1) emit boxed s e kids hemit).2.2
  simpa [h0] using this

/-- … and kept for every other kind. -/
theorem C02_content_kept (pg : PGrammar) (k : Nat) (pr : PRule) (hr : pg[k]? = some pr)
    (hk : pr.kind ≠ .atomic ∧ pr.kind ≠ .compoundAtomic)
    (emit : Emission) (boxed : Bool) (s e : Nat) (kids : List Val) (hemit : emit ≠ .expression) :
    hasContentPairs (gen pg) (k+1) = true ∧
    tokens (gen pg) (.mk (.rule (k+1) emit boxed s e) kids) = [.mk (k+1) s e (tokensList (gen pg) kids)] := by
  have h0 : hasContentPairs (gen pg) (k+1) = true := by
    simp only [hasContentPairs, NodeGrammar.rule?, gen, List.getElem?_cons_succ, List.getElem?_map, hr,
      Option.map_some, genRule]
    cases hkind : pr.kind <;> simp_all [kindAtomicity]
  refine ⟨h0, ?_⟩
  have := (C15_children (gen pg) (k+1) emit boxed s e kids hemit).2.2
  simpa [h0] using this

/-- The rules whose tokens lose their children in pest-typed are exactly those `pruneAtomic`
prunes on pest's side. -/
theorem C02_hasContent_isAtomicId (pg : PGrammar) (k : Nat) (pr : PRule) (hr : pg[k]? = some pr) :
    hasContentPairs (gen pg) (k+1) = !pg.isAtomicId (k+1) :=
  hasContentPairs_gen pg k pr hr

/-! ### EOI -/

/-- A successful `EOI` reference (rule 0 defined as in every generated module) at a cursor with
nothing left yields exactly the token `(EOI, p, p)` without children, `p` the cursor position —
and consumes nothing. -/
theorem C02_eoi_token (g : NodeGrammar) (uni : Uni) (n : Nat) (inh : Bool) (f : Flag) (i : Inp) (m : M)
    (hd : g.rule? 0 = some eoiDef) (hend : i.rest = []) :
    ∃ m' v, parse g uni (n+2) inh (.ref 0 f) i m = .ok i m' v ∧ tokens g v = [.mk 0 i.pos i.pos []] := by
  simp only [parse, hd, eoiDef, Inp.atEnd, hend, List.isEmpty_nil, if_true]
  exact ⟨_, _, rfl, by simp [tokens, hasContentPairs, hd]⟩

/-- … and `EOI` fails when input is left. -/
theorem C02_eoi_fail (g : NodeGrammar) (uni : Uni) (n : Nat) (inh : Bool) (f : Flag) (i : Inp) (m : M)
    (hd : g.rule? 0 = some eoiDef) (hend : i.rest ≠ []) :
    ∃ m', parse g uni (n+2) inh (.ref 0 f) i m = .fail m' := by
  have : i.rest.isEmpty = false := by cases h : i.rest <;> simp_all
  simp only [parse, hd, eoiDef, Inp.atEnd, this]
  exact ⟨_, rfl⟩

/-! ### order -/

/-- Inside a `Skipped { skipped, matched }` value the tokens of the skip values come first, in
order, then the tokens of the matched value. -/
theorem C02_skipped_before_matched (g : NodeGrammar) (sk : List Val) (a : Val) :
    tokens g (mkSkipped sk a) = tokensList g sk ++ tokens g a :=
  tokens_mkSkipped g sk a

/-- The tokens of a parsed sequence are the concatenation, in element order, of the tokens of the
skip run in front of each element followed by the element's own tokens; the first element has no
skip tokens (no skip runs in front of it, its slot holds default values). -/
theorem C02_seq_order (g : NodeGrammar) (uni : Uni) (fuel : Nat) (inh : Bool) (sk : Flag) (items : List Node)
    (i : Inp) (m : M) (i' : Inp) (m' : M) (w : Val)
    (h : parse g uni (fuel+1) inh (.seq sk items) i m = .ok i' m' w) :
    ∃ l, SeqRunAll (parse g uni fuel inh) (skipRuns (parse g uni fuel false g.skipped) (skipCount sk inh))
          (List.replicate (skipCount sk inh) (defaultSkipVal g)) items i m l i' m' ∧
      tokens g w = (l.map (fun it => tokensList g it.skips ++ tokens g it.matched)).flatten ∧
      (∀ it, l.head? = some it → tokensList g it.skips = []) := by
  obtain ⟨l, hr, rfl⟩ := (parse_seq_run_iff g uni fuel inh sk items i m i' m' w).mp h
  refine ⟨l, hr, by simp [tokens, tokensList_iters], ?_⟩
  intro it hit
  cases hr with
  | nil => simp at hit
  | cons _ _ =>
    simp at hit; subst hit
    exact tokensList_replicate_nil g _ (tokens_defaultSkipVal g) _

/-- The same for a repetition, in iteration order. -/
theorem C02_rep_order (g : NodeGrammar) (uni : Uni) (fuel : Nat) (inh : Bool) (sk : Flag) (min : Nat)
    (max : Option Nat) (x : Node) (i : Inp) (m : M) (i' : Inp) (m' : M) (w : Val)
    (h : parse g uni (fuel+1) inh (.rep sk min max x) i m = .ok i' m' w) :
    ∃ l mL, RepRun (skipRuns (parse g uni fuel false g.skipped) (skipCount sk inh)) (parse g uni fuel inh x)
          (List.replicate (skipCount sk inh) (defaultSkipVal g)) 0 i m l i' mL ∧
      tokens g w = (l.map (fun it => tokensList g it.skips ++ tokens g it.matched)).flatten ∧
      (∀ it, l.head? = some it → tokensList g it.skips = []) := by
  obtain ⟨l, mL, hr, _, rfl, _⟩ := parse_rep_run g uni fuel inh sk min max x i m i' m' w h
  refine ⟨l, mL, hr, by simp [tokens, tokensList_iters], ?_⟩
  intro it hit
  cases l with
  | nil => simp at hit
  | cons it0 l =>
    simp at hit; subst hit
    rw [hr.head_zero.2.2.1]
    exact tokensList_replicate_nil g _ (tokens_defaultSkipVal g) _

/-- The tokens of one run of a generated skip type `AtomicRepeat<…>` are the tokens of the
successive WHITESPACE / COMMENT matches, in match order. -/
theorem C02_skip_tokens (g : NodeGrammar) (vs : List Val) :
    tokens g (.mk .atomicRepeat vs) = tokensList g vs := by
  simp [tokens]

/-! ### spec side -/

/-- The token-free projection of pest's token semantics is the reference semantics of C01. -/
theorem C02_specTok_forget (g : PGrammar) (uni : Uni) (n : Nat) (am : Atom3) (e : PExpr) (i : Inp) (S : List Sp) :
    (specTok g uni n am e i S).forget = spec g uni n am.na e i S :=
  specTok_forget g uni n am e i S

/-! ### the target theorem on the lookahead-free, skip-free fragment -/

/-- On the fragment the typed parser and pest's token semantics agree whenever neither runs out of
fuel (`SimG`, `Lemmas/SpecTokensLemmas.lean`): both fail, or both succeed at the same cursor with
the same stack and — outside an `Atomic` context — the typed tokens are pest's tokens pruned.
Every expression of the fragment, every `#skip` token, inherited flag, atomicity, cursor, state. -/
theorem C02_frag_agree (pg : PGrammar) (uni : Uni) (hsf : SkipFree pg) (n N : Nat) (e : PExpr)
    (hF : Frag pg e) (sk : Flag) (inh : Bool) (am : Atom3) (i : Inp) (m : M) :
    SimG pg am (tokens (gen pg)) [] (parse (gen pg) uni n inh (genExpr pg sk e) i m)
      (specTok pg uni N am e i m.stk) :=
  frag_sim pg uni hsf n N e hF sk inh am i m

/-- `C02_tree` for the lookahead-free, skip-free fragment: whenever the typed prefix parse of rule
`name` and pest's token semantics both succeed, they end at the same cursor with the same stack, and
the token tree of the typed value is pest's token tree with the descendants of `@` / `$` tokens
removed. -/
theorem C02_tree_partial (pg : PGrammar) (uni : Uni) (hsf : SkipFree pg) (n N : Nat) (name : String) (k : Nat)
    (i i' j' : Inp) (m' : M) (v : Val) (S' : List Sp) (ts : List Token)
    (hk : pg.indexOf name = some k)
    (h1 : tryParsePartial (gen pg) uni n (k+1) i = .ok i' m' v)
    (h2 : specTokPartial pg uni N name i = .ok j' S' ts) :
    tokens (gen pg) v = pruneAtomic pg ts ∧ i' = j' ∧ m'.stk = S' := by
  have h := frag_sim pg uni hsf n N (.ident name) (Or.inl (defines_of_indexOf pg name k hk)) .one true
    .nonAtomic i (M.init i)
  have e1 : genExpr pg .one (.ident name) = .ref (k+1) .one := by simp [genExpr, hk]
  rw [e1] at h
  unfold tryParsePartial at h1
  unfold specTokPartial at h2
  rw [h1, show (M.init i).stk = [] from rfl, h2] at h
  obtain ⟨g1, g2, g3⟩ := SimG.ok_ok.mp h
  exact ⟨by simpa using g3 (by simp), g1, g2⟩

/-- … and on the fragment the two sides cannot disagree on the verdict: if the typed parse fails
and pest's semantics returns (is not out of fuel), it fails too; if the typed parse succeeds, pest's
does not fail. -/
theorem C02_tree_partial_verdict (pg : PGrammar) (uni : Uni) (hsf : SkipFree pg) (n N : Nat) (name : String)
    (k : Nat) (i : Inp) (hk : pg.indexOf name = some k) :
    (∀ mf, tryParsePartial (gen pg) uni n (k+1) i = .fail mf →
      ∀ j' S' ts, specTokPartial pg uni N name i ≠ .ok j' S' ts) ∧
    (∀ i' m' v, tryParsePartial (gen pg) uni n (k+1) i = .ok i' m' v →
      specTokPartial pg uni N name i ≠ .fail) := by
  have h := frag_sim pg uni hsf n N (.ident name) (Or.inl (defines_of_indexOf pg name k hk)) .one true
    .nonAtomic i (M.init i)
  have e1 : genExpr pg .one (.ident name) = .ref (k+1) .one := by simp [genExpr, hk]
  rw [e1] at h
  constructor
  · intro mf h1 j' S' ts h2
    unfold tryParsePartial at h1
    unfold specTokPartial at h2
    rw [h1, show (M.init i).stk = [] from rfl, h2] at h
    exact SimG.fail_ok h
  · intro i' m' v h1 h2
    unfold tryParsePartial at h1
    unfold specTokPartial at h2
    rw [h1, show (M.init i).stk = [] from rfl, h2] at h
    exact SimG.ok_fail h

/-! ### non-vacuity -/

/-- `a = { "x" ~ &b ~ b* ~ EOI }  b = ${ "y" ~ c }  c = { "z" }  s = _{ c }  WHITESPACE = { " " }`
as generated (WHITESPACE is NOT silent here: its tokens show between elements). -/
def c02PG : PGrammar :=
  [{ name := "a", kind := .normal,
     expr := .seq (.str ['x']) (.seq (.posPred (.ident "b")) (.seq (.rep (.ident "b")) (.ident "EOI"))) },
   { name := "b", kind := .compoundAtomic, expr := .seq (.str ['y']) (.ident "c") },
   { name := "c", kind := .normal, expr := .str ['z'] },
   { name := "s", kind := .silent, expr := .ident "c" },
   { name := "WHITESPACE", kind := .normal, expr := .str [' '] }]

def c02G : NodeGrammar :=
  { rules := [eoiDef,
      { name := "a", atom := .inherited, emit := .both, boxed := true,
        body := .seq .inh [.str ['x'], .pos (.ref 2 .inh), .rep .inh 0 none (.ref 2 .inh), .ref 0 .one] },
      { name := "b", atom := .atomic, emit := .both, boxed := true,
        body := .seq .zero [.str ['y'], .ref 3 .zero] },
      { name := "c", atom := .inherited, emit := .both, boxed := true, body := .str ['z'] },
      { name := "s", atom := .inherited, emit := .expression, boxed := true, body := .ref 3 .inh },
      { name := "WHITESPACE", atom := .inherited, emit := .both, boxed := true, body := .str [' '] }],
    skipped := .atomicRepeat (.ref 5 .zero) }

theorem c02_gen : gen c02PG = c02G := by
  simp [gen, genRule, genExpr, genSeqSpine, genSkipped, PGrammar.indexOf, PGrammar.indexOf.go,
    c02PG, c02G, kindAtomicity, kindEmission, atomFlag, builtinNode]

def c02U : Uni := fun _ _ => false
def c02In (s : List Char) : Inp := { start := 0, pos := 0, rest := s, after := [] }

def c02Tokens : R Val → Option (List Token)
  | .ok _ _ v => some (tokens c02G v)
  | _ => none

/-- `x yz yz` parsed by `a`: the lookahead's `b` contributes nothing, the two WHITESPACE tokens sit
before the `b` they precede, the `$` rule `b` has no children (its `c` is dropped), `EOI` is the
token `(0, 7, 7)`. -/
example : c02Tokens (tryParsePartial c02G c02U 20 1 (c02In ['x', ' ', 'y', 'z', ' ', 'y', 'z'])) =
    some [.mk 1 0 7 [.mk 5 1 2 [], .mk 2 2 4 [], .mk 5 4 5 [], .mk 2 5 7 [], .mk 0 7 7 []]] := by decide

/-- The silent rule `s = _{ c }` run directly: the token of `c` is handed on. -/
example : c02Tokens (parse c02G c02U 9 true (.ref 4 .one) (c02In ['z']) (M.init (c02In ['z']))) =
    some [.mk 3 0 1 []] := by decide

/-- pest's tree for the same input (what `specTok` computes: `b[c]` twice, WHITESPACE tokens, EOI),
pruned: the equation of the target theorem on this instance. -/
example : pruneAtomic c02PG
    [.mk 1 0 7 [.mk 5 1 2 [], .mk 2 2 4 [.mk 3 3 4 []], .mk 5 4 5 [], .mk 2 5 7 [.mk 3 6 7 []], .mk 0 7 7 []]] =
    [.mk 1 0 7 [.mk 5 1 2 [], .mk 2 2 4 [], .mk 5 4 5 [], .mk 2 5 7 [], .mk 0 7 7 []]] := by decide

example : hasContentPairs (gen c02PG) 2 = false ∧ hasContentPairs (gen c02PG) 1 = true :=
  ⟨(C02_atomic_pruned c02PG 1 _ rfl (Or.inr rfl) .both true 0 0 [] (by simp)).1,
   (C02_content_kept c02PG 0 _ rfl ⟨by simp, by simp⟩ .both true 0 0 [] (by simp)).1⟩

/-- The equation of the target theorem `C02_tree`, checked on `c02PG` with input `x yz yz` (a `$`
rule with a nested normal rule, a lookahead, non-silent WHITESPACE tokens, EOI): the tokens of the
typed parse are pest's tokens (`specTokPartial`) pruned. -/
theorem C02_tree_example :
    (tryParsePartial (gen c02PG) c02U 20 1 (c02In ['x', ' ', 'y', 'z', ' ', 'y', 'z'])).val?.map (tokens (gen c02PG)) =
      (specTokPartial c02PG c02U 20 "a" (c02In ['x', ' ', 'y', 'z', ' ', 'y', 'z'])).toks?.map (pruneAtomic c02PG) ∧
    (specTokPartial c02PG c02U 20 "a" (c02In ['x', ' ', 'y', 'z', ' ', 'y', 'z'])).toks? =
      some [.mk 1 0 7 [.mk 5 1 2 [], .mk 2 2 4 [.mk 3 3 4 []], .mk 5 4 5 [], .mk 2 5 7 [.mk 3 6 7 []], .mk 0 7 7 []]] := by
  rw [c02_gen]; decide

/-- `specTok_forget` on the same instance: pest's token semantics and the reference semantics of C01
end at the same cursor. -/
example : (specTokPartial c02PG c02U 20 "a" (c02In ['x', ' ', 'y', 'z', ' ', 'y', 'z'])).forget =
    specPartial c02PG c02U 20 "a" (c02In ['x', ' ', 'y', 'z', ' ', 'y', 'z']) :=
  specTokPartial_forget _ _ _ _ _

/-! ### what does not hold: inner tokens of skip rules (F-WS, case c) -/

/-- `WHITESPACE = { wsx }   wsx = { " " }   m = { "a" ~ "b" }`. -/
def c02WsPG : PGrammar :=
  [{ name := "WHITESPACE", kind := .normal, expr := .ident "wsx" },
   { name := "wsx", kind := .normal, expr := .str [' '] },
   { name := "m", kind := .normal, expr := .seq (.str ['a']) (.str ['b']) }]

def c02WsG : NodeGrammar :=
  { rules := [eoiDef,
      { name := "WHITESPACE", atom := .inherited, emit := .both, boxed := true, body := .ref 2 .inh },
      { name := "wsx", atom := .inherited, emit := .both, boxed := true, body := .str [' '] },
      { name := "m", atom := .inherited, emit := .both, boxed := true,
        body := .seq .inh [.str ['a'], .str ['b']] }],
    skipped := .atomicRepeat (.ref 1 .zero) }

theorem c02Ws_gen : gen c02WsPG = c02WsG := by
  simp [gen, genRule, genExpr, genSeqSpine, genSkipped, PGrammar.indexOf, PGrammar.indexOf.go,
    c02WsPG, c02WsG, kindAtomicity, kindEmission, atomFlag]

/-- F-WS (c): pest forces `Atomic` inside a rule NAMED WHITESPACE, so the normal rule `wsx` called
from it emits no token: pest's tree for `a b` is `m[WHITESPACE]`; the typed parser gives WHITESPACE
its declared kind and keeps the inner token: `m[WHITESPACE[wsx]]`.  `pruneAtomic` does not remove it
(WHITESPACE is not `@`/`$`): without the hypothesis `SkipRulesAtomicLike` the equation of `C02_tree`
fails. -/
theorem C02_counterexample_ws_inner :
    (tryParsePartial (gen c02WsPG) c02U 20 3 (c02In ['a', ' ', 'b'])).val?.map (tokens (gen c02WsPG)) =
      some [.mk 3 0 3 [.mk 1 1 2 [.mk 2 1 2 []]]] ∧
    (specTokPartial c02WsPG c02U 20 "m" (c02In ['a', ' ', 'b'])).toks?.map (pruneAtomic c02WsPG) =
      some [.mk 3 0 3 [.mk 1 1 2 []]] := by
  rw [c02Ws_gen]; decide

/-! ### non-vacuity of `C02_tree_partial` -/

/-- A grammar of the fragment with every rule kind:
`a = { "x" ~ b ~ (d | s | n)* ~ EOI }  b = ${ "y" ~ c }  c = { "z" }  d = @{ c ~ c }  s = _{ c }
n = !{ PUSH("p") ~ PEEK[0..1] }`. -/
def c02FragPG : PGrammar :=
  [{ name := "a", kind := .normal,
     expr := .seq (.str ['x']) (.seq (.ident "b")
       (.seq (.rep (.choice (.ident "d") (.choice (.ident "s") (.ident "n")))) (.ident "EOI"))) },
   { name := "b", kind := .compoundAtomic, expr := .seq (.str ['y']) (.ident "c") },
   { name := "c", kind := .normal, expr := .str ['z'] },
   { name := "d", kind := .atomic, expr := .seq (.ident "c") (.ident "c") },
   { name := "s", kind := .silent, expr := .ident "c" },
   { name := "n", kind := .nonAtomic, expr := .seq (.push (.str ['p'])) (.peekSlice 0 (some 1)) }]

def c02FragG : NodeGrammar :=
  { rules := [eoiDef,
      { name := "a", atom := .inherited, emit := .both, boxed := true,
        body := .seq .inh [.str ['x'], .ref 2 .inh,
          .rep .inh 0 none (.choice [.ref 4 .inh, .ref 5 .inh, .ref 6 .inh]), .ref 0 .one] },
      { name := "b", atom := .atomic, emit := .both, boxed := true,
        body := .seq .zero [.str ['y'], .ref 3 .zero] },
      { name := "c", atom := .inherited, emit := .both, boxed := true, body := .str ['z'] },
      { name := "d", atom := .atomic, emit := .span, boxed := true,
        body := .seq .zero [.ref 3 .zero, .ref 3 .zero] },
      { name := "s", atom := .inherited, emit := .expression, boxed := true, body := .ref 3 .inh },
      { name := "n", atom := .nonAtomic, emit := .both, boxed := true,
        body := .seq .one [.push (.str ['p']), .peekSlice 0 (some 1)] }],
    skipped := .empty }

theorem c02Frag_gen : gen c02FragPG = c02FragG := by
  simp [gen, genRule, genExpr, genSeqSpine, genChoiceSpine, genSkipped, PGrammar.indexOf, PGrammar.indexOf.go,
    c02FragPG, c02FragG, kindAtomicity, kindEmission, atomFlag, builtinNode]

theorem c02Frag_skipFree : SkipFree c02FragPG := by
  refine ⟨by decide, by decide, ?_⟩
  intro pr hpr
  simp only [c02FragPG, List.mem_cons, List.not_mem_nil, or_false] at hpr
  rcases hpr with rfl | rfl | rfl | rfl | rfl | rfl <;>
    simp [Frag, PGrammar.defines, PGrammar.indexOf, PGrammar.indexOf.go, c02FragPG]

def c02FragInput : Inp := c02In ['x', 'y', 'z', 'z', 'z', 'z', 'p', 'p']

/-- Both sides succeed on `xyz zz z pp` (written without blanks): pest's tree has `c` under `b` and,
under the `@` rule `d`, nothing (its `c`s are called in `Atomic` mode); the typed tree is the same
with the child of `b` removed. -/
example : (specTokPartial c02FragPG c02U 20 "a" c02FragInput).toks? =
      some [.mk 1 0 8 [.mk 2 1 3 [.mk 3 2 3 []], .mk 4 3 5 [], .mk 3 5 6 [], .mk 6 6 8 [], .mk 0 8 8 []]] ∧
    (tryParsePartial (gen c02FragPG) c02U 20 1 c02FragInput).val?.map (tokens (gen c02FragPG)) =
      some [.mk 1 0 8 [.mk 2 1 3 [], .mk 4 3 5 [], .mk 3 5 6 [], .mk 6 6 8 [], .mk 0 8 8 []]] := by
  rw [c02Frag_gen]; decide

/-- `C02_tree_partial` applies to that run. -/
example (i' j' : Inp) (m' : M) (v : Val) (S' : List Sp) (ts : List Token)
    (h1 : tryParsePartial (gen c02FragPG) c02U 20 1 c02FragInput = .ok i' m' v)
    (h2 : specTokPartial c02FragPG c02U 20 "a" c02FragInput = .ok j' S' ts) :
    tokens (gen c02FragPG) v = pruneAtomic c02FragPG ts :=
  (C02_tree_partial c02FragPG c02U c02Frag_skipFree 20 20 "a" 0 _ i' j' m' v S' ts (by decide) h1 h2).1

/-! ### the token-tree theorem at full strength -/

/-- The stronger `SkipRulesAtomic` (every rule named WHITESPACE / COMMENT is `@` / `$`) implies the
hypothesis used here (and by C01). -/
theorem C02_atomicLike_of_atomic (pg : PGrammar)
    (h : ∀ r ∈ pg, (r.name = "WHITESPACE" ∨ r.name = "COMMENT") → (r.kind = .atomic ∨ r.kind = .compoundAtomic)) :
    SkipRulesAtomicLike pg :=
  SkipRulesAtomicLike.of_atomic pg h

/-- Grammars of the skip-free fragment satisfy the hypothesis (vacuously: no skip rule). -/
theorem C02_skipFree_atomicLike (pg : PGrammar) (hsf : SkipFree pg) : SkipRulesAtomicLike pg :=
  SkipRulesAtomicLike.of_undefined pg hsf.noW hsf.noC

/-- C02 (expression level).  For every pest expression `e`: if the typed run of the generated node
`genExpr pg sk e` — under an `INHERITED` argument such that the static flag means pest's atomicity
(`sk.eval inh = am.na`) — succeeds with value `v`, and pest's token semantics succeeds with token
forest `ts` (at any two fuels), then both end at the same cursor with the same stack and, unless
the call is made in pest's `Atomic` mode (where pest-typed is on the check path of an `@` rule),
the token forest of `v` is `ts` with the descendants of `@` / `$` tokens removed. -/
theorem C02_tree_expr (pg : PGrammar) (uni : Uni) (hws : SkipRulesAtomicLike pg) (n N : Nat) (e : PExpr)
    (sk : Flag) (inh : Bool) (am : Atom3) (i : Inp) (m : M) (hsk : sk.eval inh = am.na)
    (i' : Inp) (m' : M) (v : Val) (j' : Inp) (S' : List Sp) (ts : List Token)
    (h1 : parse (gen pg) uni n inh (genExpr pg sk e) i m = .ok i' m' v)
    (h2 : specTok pg uni N am e i m.stk = .ok j' S' ts) :
    i' = j' ∧ m'.stk = S' ∧ (am ≠ .atomic → tokens (gen pg) v = pruneAtomic pg ts) := by
  have h := Tok.tokSim_all (uni := uni) hws n N e sk inh am i m hsk
  rw [h1, h2] at h
  obtain ⟨g1, g2, g3⟩ := SimG.ok_ok.mp h
  exact ⟨g1, g2, fun ha => by simpa using g3 ha⟩

/-- C02 (expression level, verdicts): a typed failure is never a success of pest's semantics, a typed
success never a failure. -/
theorem C02_tree_expr_verdict (pg : PGrammar) (uni : Uni) (hws : SkipRulesAtomicLike pg) (n N : Nat) (e : PExpr)
    (sk : Flag) (inh : Bool) (am : Atom3) (i : Inp) (m : M) (hsk : sk.eval inh = am.na) :
    (∀ mf, parse (gen pg) uni n inh (genExpr pg sk e) i m = .fail mf →
      ∀ j' S' ts, specTok pg uni N am e i m.stk ≠ .ok j' S' ts) ∧
    (∀ i' m' v, parse (gen pg) uni n inh (genExpr pg sk e) i m = .ok i' m' v →
      specTok pg uni N am e i m.stk ≠ .fail) := by
  have h := Tok.tokSim_all (uni := uni) hws n N e sk inh am i m hsk
  constructor
  · intro mf h1 j' S' ts h2
    rw [h1, h2] at h
    exact SimG.fail_ok h
  · intro i' m' v h1 h2
    rw [h1, h2] at h
    exact SimG.ok_fail h

/-- C02 (the token-tree theorem).  `R::try_parse_partial(input)` for the rule named `name` (the
`k`-th rule, rule id `k+1`) against pest's `Parser::parse(Rule::name, input)`: whenever both succeed
(at any two fuels), the token tree of the typed value is pest's token tree with the descendants of
`@` / `$` tokens removed — rule, start, end, children in order, at every depth — and both stop at the
same cursor with the same stack. -/
theorem C02_tree (pg : PGrammar) (uni : Uni) (hws : SkipRulesAtomicLike pg) (n N : Nat) (name : String) (k : Nat)
    (i i' j' : Inp) (m' : M) (v : Val) (S' : List Sp) (ts : List Token)
    (hk : pg.indexOf name = some k)
    (h1 : tryParsePartial (gen pg) uni n (k+1) i = .ok i' m' v)
    (h2 : specTokPartial pg uni N name i = .ok j' S' ts) :
    tokens (gen pg) v = pruneAtomic pg ts ∧ i' = j' ∧ m'.stk = S' := by
  have e1 : genExpr pg .one (.ident name) = .ref (k+1) .one := by simp [genExpr, hk]
  unfold tryParsePartial at h1
  unfold specTokPartial at h2
  rw [← e1] at h1
  obtain ⟨g1, g2, g3⟩ := C02_tree_expr pg uni hws n N (.ident name) .one true .nonAtomic i (M.init i) rfl
    i' m' v j' S' ts h1 h2
  exact ⟨g3 (by decide), g1, g2⟩

/-- C02 (entry point, verdicts). -/
theorem C02_tree_verdict (pg : PGrammar) (uni : Uni) (hws : SkipRulesAtomicLike pg) (n N : Nat) (name : String)
    (k : Nat) (i : Inp) (hk : pg.indexOf name = some k) :
    (∀ mf, tryParsePartial (gen pg) uni n (k+1) i = .fail mf →
      ∀ j' S' ts, specTokPartial pg uni N name i ≠ .ok j' S' ts) ∧
    (∀ i' m' v, tryParsePartial (gen pg) uni n (k+1) i = .ok i' m' v →
      specTokPartial pg uni N name i ≠ .fail) := by
  have e1 : genExpr pg .one (.ident name) = .ref (k+1) .one := by simp [genExpr, hk]
  have h := C02_tree_expr_verdict pg uni hws n N (.ident name) .one true .nonAtomic i (M.init i) rfl
  rw [e1] at h
  exact h

/-- A successful full parse `R::try_parse(input)` returns the value of the prefix parse, with the
cursor at the end of the input: the trailing skip's value is dropped and the end-of-input step
(`eoiStep`) only touches the tracker. -/
theorem tryParse_ok_partial (g : NodeGrammar) (uni : Uni) (n : Nat) (r : RuleId) (i i' : Inp) (m' : M) (v : Val)
    (h : tryParse g uni n r i = .ok i' m' v) :
    i'.atEnd = true ∧ ∃ d i1 m1, g.rule? r = some d ∧ tryParsePartial g uni n r i = .ok i1 m1 v ∧
      ((noTrailingSkip r d = true ∧ i' = i1) ∨
       (noTrailingSkip r d = false ∧ ∃ m2 sv, parse g uni n false g.skipped i1 m1 = .ok i' m2 sv)) := by
  unfold tryParse at h
  split at h
  · cases h
  · next d hd =>
    split at h
    · cases h
    · cases h
    · next i1 m1 v1 h1 =>
      split at h
      · next hs =>
        cases hb : i1.atEnd <;> simp [eoiStep, hb] at h
        obtain ⟨h0, _, hv⟩ := h; subst h0 hv
        exact ⟨hb, d, i1, m1, hd, h1, Or.inl ⟨hs, rfl⟩⟩
      · next hs =>
        split at h
        · cases h
        · cases h
        · next i2 m2 v2 h2 =>
          cases hb : i2.atEnd <;> simp [eoiStep, hb] at h
          obtain ⟨h0, _, hv⟩ := h; subst h0 hv
          exact ⟨hb, d, i1, m1, hd, h1, Or.inr ⟨by simpa using hs, m2, v2, h2⟩⟩

/-- C02 (full entry point).  `R::try_parse(input)` — prefix parse, trailing implicit skip unless the
rule is `@` / `$`, end-of-input test — against pest's parse of `name`: whenever both succeed, the
token tree of the typed value is pest's token tree pruned (the trailing skip contributes no token to
the value, the `EOI` step emits none), and the typed cursor is at the end of the input. -/
theorem C02_tree_full (pg : PGrammar) (uni : Uni) (hws : SkipRulesAtomicLike pg) (n N : Nat) (name : String)
    (k : Nat) (i i' j' : Inp) (m' : M) (v : Val) (S' : List Sp) (ts : List Token)
    (hk : pg.indexOf name = some k)
    (h1 : tryParse (gen pg) uni n (k+1) i = .ok i' m' v)
    (h2 : specTokPartial pg uni N name i = .ok j' S' ts) :
    tokens (gen pg) v = pruneAtomic pg ts ∧ i'.atEnd = true := by
  obtain ⟨hend, d, i1, m1, _, hp, _⟩ := tryParse_ok_partial (gen pg) uni n (k+1) i i' m' v h1
  exact ⟨(C02_tree pg uni hws n N name k i i1 j' m1 v S' ts hk hp h2).1, hend⟩

/-- C02 (full entry point, cursor).  Where `try_parse` stops: at pest's end cursor for `@` / `$`
entry rules (no trailing skip), otherwise where pest's implicit skip `(WHITESPACE | COMMENT)*`, run
from pest's end cursor, stops (whenever that skip answers). -/
theorem C02_tree_full_cursor (pg : PGrammar) (uni : Uni) (hws : SkipRulesAtomicLike pg) (n N N2 : Nat)
    (name : String) (k : Nat) (i i' j' : Inp) (m' : M) (v : Val) (S' : List Sp) (ts : List Token)
    (hk : pg.indexOf name = some k)
    (h1 : tryParse (gen pg) uni n (k+1) i = .ok i' m' v)
    (h2 : specTokPartial pg uni N name i = .ok j' S' ts) :
    i' = j' ∨ (∀ j2 S2 t2, Tok.specTokSkipN pg uni N2 j' S' = .ok j2 S2 t2 → i' = j2) ∧
      Tok.specTokSkipN pg uni N2 j' S' ≠ .fail := by
  obtain ⟨_, d, i1, m1, _, hp, hcase⟩ := tryParse_ok_partial (gen pg) uni n (k+1) i i' m' v h1
  obtain ⟨_, e1, e2⟩ := C02_tree pg uni hws n N name k i i1 j' m1 v S' ts hk hp h2
  subst e1 e2
  rcases hcase with ⟨_, h⟩ | ⟨_, m2, sv, hs⟩
  · exact Or.inl h
  · right
    have hI : ∀ k', k' ≤ n → Tok.IdentSkip pg uni k' :=
      fun k' _ => Tok.identSkip_of (n := k') hws (fun j _ => Tok.tokSim_all hws j) k' (by omega)
    have hsim := Tok.skipped_simT (uni := uni) hI N2 i1 m1
    rw [hs] at hsim
    constructor
    · intro j2 S2 t2 h3
      rw [h3] at hsim
      exact (SimG.ok_ok.mp hsim).1
    · intro h3
      rw [h3] at hsim
      exact SimG.ok_fail hsim

/-- `C02_tree_partial` (the skip-free, lookahead-free fragment) is a special case of `C02_tree`. -/
example (pg : PGrammar) (uni : Uni) (hsf : SkipFree pg) (n N : Nat) (name : String) (k : Nat)
    (i i' j' : Inp) (m' : M) (v : Val) (S' : List Sp) (ts : List Token) (hk : pg.indexOf name = some k)
    (h1 : tryParsePartial (gen pg) uni n (k+1) i = .ok i' m' v)
    (h2 : specTokPartial pg uni N name i = .ok j' S' ts) :
    tokens (gen pg) v = pruneAtomic pg ts ∧ i' = j' ∧ m'.stk = S' :=
  C02_tree pg uni (C02_skipFree_atomicLike pg hsf) n N name k i i' j' m' v S' ts hk h1 h2

/-! ### non-vacuity of `C02_tree`: non-silent skip rules of every admitted shape -/

/-- The grammar `s_skip_tokens` of the T-run corpus, extended:
`main = { "x" ~ &b ~ b* ~ d ~ EOI }  b = ${ "y" ~ c }  c = { "z" }  d = @{ c ~ c }
WHITESPACE = { " " }  COMMENT = ${ "#" }` — WHITESPACE is a NORMAL rule (not `@`/`$`, so the stronger
`SkipRulesAtomic` does not hold) with a simple body. -/
def c02SkPG : PGrammar :=
  [{ name := "main", kind := .normal,
     expr := .seq (.str ['x']) (.seq (.posPred (.ident "b")) (.seq (.rep (.ident "b"))
       (.seq (.ident "d") (.ident "EOI")))) },
   { name := "b", kind := .compoundAtomic, expr := .seq (.str ['y']) (.ident "c") },
   { name := "c", kind := .normal, expr := .str ['z'] },
   { name := "d", kind := .atomic, expr := .seq (.ident "c") (.ident "c") },
   { name := "WHITESPACE", kind := .normal, expr := .str [' '] },
   { name := "COMMENT", kind := .compoundAtomic, expr := .str ['#'] }]

def c02SkG : NodeGrammar :=
  { rules := [eoiDef,
      { name := "main", atom := .inherited, emit := .both, boxed := true,
        body := .seq .inh [.str ['x'], .pos (.ref 2 .inh), .rep .inh 0 none (.ref 2 .inh), .ref 4 .inh,
          .ref 0 .one] },
      { name := "b", atom := .atomic, emit := .both, boxed := true,
        body := .seq .zero [.str ['y'], .ref 3 .zero] },
      { name := "c", atom := .inherited, emit := .both, boxed := true, body := .str ['z'] },
      { name := "d", atom := .atomic, emit := .span, boxed := true,
        body := .seq .zero [.ref 3 .zero, .ref 3 .zero] },
      { name := "WHITESPACE", atom := .inherited, emit := .both, boxed := true, body := .str [' '] },
      { name := "COMMENT", atom := .atomic, emit := .both, boxed := true, body := .str ['#'] }],
    skipped := .atomicRepeat (.choice [.ref 5 .zero, .ref 6 .zero]) }

theorem c02Sk_gen : gen c02SkPG = c02SkG := by
  simp [gen, genRule, genExpr, genSeqSpine, genSkipped, PGrammar.indexOf, PGrammar.indexOf.go,
    c02SkPG, c02SkG, kindAtomicity, kindEmission, atomFlag, builtinNode]

/-- The hypothesis of `C02_tree` holds: WHITESPACE has a simple body, COMMENT is `$`. -/
theorem c02Sk_like : SkipRulesAtomicLike c02SkPG := by
  intro nm r hnm hf
  rcases hnm with rfl | rfl
  · simp [PGrammar.find?, PGrammar.indexOf, PGrammar.indexOf.go, c02SkPG] at hf
    subst hf
    exact Or.inr (by simp [SimpleSkipBody])
  · simp [PGrammar.find?, PGrammar.indexOf, PGrammar.indexOf.go, c02SkPG] at hf
    subst hf
    exact Or.inl (Or.inr rfl)

/-- … while the stronger hypothesis `SkipRulesAtomic` does not (WHITESPACE is a normal rule). -/
theorem c02Sk_not_atomic :
    ¬ (∀ r ∈ c02SkPG, (r.name = "WHITESPACE" ∨ r.name = "COMMENT") → (r.kind = .atomic ∨ r.kind = .compoundAtomic)) := by
  intro h
  have := h ⟨"WHITESPACE", .normal, .str [' ']⟩ (by simp [c02SkPG]) (Or.inl rfl)
  simp at this

/-- The input `x yz #yz zz`. -/
def c02SkInput : Inp := c02In ['x', ' ', 'y', 'z', ' ', '#', 'y', 'z', ' ', 'z', 'z']

set_option maxRecDepth 100000 in
/-- Both sides succeed on `x yz #yz zz`: pest's tree has the WHITESPACE and COMMENT tokens between
the elements (none for the lookahead), `c` under the `$` rule `b`, nothing under the `@` rule `d`,
`EOI` last; the typed tree is the same with the children of `b` removed. -/
theorem C02_tree_ws_normal_example :
    (specTokPartial c02SkPG c02U 20 "main" c02SkInput).toks? =
      some [.mk 1 0 11 [.mk 5 1 2 [], .mk 2 2 4 [.mk 3 3 4 []], .mk 5 4 5 [], .mk 6 5 6 [],
        .mk 2 6 8 [.mk 3 7 8 []], .mk 5 8 9 [], .mk 4 9 11 [], .mk 0 11 11 []]] ∧
    (tryParsePartial (gen c02SkPG) c02U 20 1 c02SkInput).val?.map (tokens (gen c02SkPG)) =
      some [.mk 1 0 11 [.mk 5 1 2 [], .mk 2 2 4 [], .mk 5 4 5 [], .mk 6 5 6 [],
        .mk 2 6 8 [], .mk 5 8 9 [], .mk 4 9 11 [], .mk 0 11 11 []]] := by
  rw [c02Sk_gen]; decide

/-- `C02_tree` applies to that run (and to the full entry point `try_parse`). -/
example (i' j' : Inp) (m' : M) (v : Val) (S' : List Sp) (ts : List Token)
    (h1 : tryParsePartial (gen c02SkPG) c02U 20 1 c02SkInput = .ok i' m' v)
    (h2 : specTokPartial c02SkPG c02U 20 "main" c02SkInput = .ok j' S' ts) :
    tokens (gen c02SkPG) v = pruneAtomic c02SkPG ts ∧ i' = j' ∧ m'.stk = S' :=
  C02_tree c02SkPG c02U c02Sk_like 20 20 "main" 0 _ i' j' m' v S' ts (by decide) h1 h2

set_option maxRecDepth 100000 in
/-- The full entry point succeeds on that input (so `C02_tree_full` is not vacuous). -/
example : (tryParse (gen c02SkPG) c02U 20 1 c02SkInput).val?.map (tokens (gen c02SkPG)) =
    some [.mk 1 0 11 [.mk 5 1 2 [], .mk 2 2 4 [], .mk 5 4 5 [], .mk 6 5 6 [],
      .mk 2 6 8 [], .mk 5 8 9 [], .mk 4 9 11 [], .mk 0 11 11 []]] := by
  rw [c02Sk_gen]; decide

example (i' j' : Inp) (m' : M) (v : Val) (S' : List Sp) (ts : List Token)
    (h1 : tryParse (gen c02SkPG) c02U 20 1 c02SkInput = .ok i' m' v)
    (h2 : specTokPartial c02SkPG c02U 20 "main" c02SkInput = .ok j' S' ts) :
    tokens (gen c02SkPG) v = pruneAtomic c02SkPG ts ∧ i'.atEnd = true :=
  C02_tree_full c02SkPG c02U c02Sk_like 20 20 "main" 0 _ i' j' m' v S' ts (by decide) h1 h2

/-- The earlier example grammar `c02PG` (normal `WHITESPACE = { " " }`) satisfies the hypothesis too. -/
theorem c02_like : SkipRulesAtomicLike c02PG := by
  intro nm r hnm hf
  rcases hnm with rfl | rfl
  · simp [PGrammar.find?, PGrammar.indexOf, PGrammar.indexOf.go, c02PG] at hf
    subst hf
    exact Or.inr (by simp [SimpleSkipBody])
  · simp [PGrammar.find?, PGrammar.indexOf, PGrammar.indexOf.go, c02PG] at hf

/-- The hypothesis excludes the F-WS (c) witness: `WHITESPACE = { wsx }` calls a rule. -/
theorem c02Ws_not_like : ¬ SkipRulesAtomicLike c02WsPG := by
  intro h
  have := h "WHITESPACE" ⟨"WHITESPACE", .normal, .ident "wsx"⟩ (Or.inl rfl)
    (by simp [PGrammar.find?, PGrammar.indexOf, PGrammar.indexOf.go, c02WsPG])
  simp [SimpleSkipBody, PGrammar.defines, PGrammar.indexOf, PGrammar.indexOf.go, c02WsPG] at this

/-! ### `EOI` inside a skip rule (why `SimpleSkipBody` excludes it) -/

/-- `WHITESPACE = { EOI }   m = { WHITESPACE }`. -/
def c02WsEoiPG : PGrammar :=
  [{ name := "WHITESPACE", kind := .normal, expr := .ident "EOI" },
   { name := "m", kind := .normal, expr := .ident "WHITESPACE" }]

def c02WsEoiG : NodeGrammar :=
  { rules := [eoiDef,
      { name := "WHITESPACE", atom := .inherited, emit := .both, boxed := true, body := .ref 0 .one },
      { name := "m", atom := .inherited, emit := .both, boxed := true, body := .ref 1 .inh }],
    skipped := .atomicRepeat (.ref 1 .zero) }

theorem c02WsEoi_gen : gen c02WsEoiPG = c02WsEoiG := by
  simp [gen, genRule, genExpr, genSkipped, PGrammar.indexOf, PGrammar.indexOf.go,
    c02WsEoiPG, c02WsEoiG, kindAtomicity, kindEmission, atomFlag, builtinNode]

/-- `EOI` is a rule call: inside a rule NAMED WHITESPACE pest runs it in `Atomic` mode and emits no
token for it; the typed parser keeps the `EOI` token under the WHITESPACE token.  On the empty input
`m` gives `m[WHITESPACE]` in pest and `m[WHITESPACE[EOI]]` in pest-typed. -/
theorem C02_counterexample_ws_eoi :
    (tryParsePartial (gen c02WsEoiPG) c02U 20 2 (c02In [])).val?.map (tokens (gen c02WsEoiPG)) =
      some [.mk 2 0 0 [.mk 1 0 0 [.mk 0 0 0 []]]] ∧
    (specTokPartial c02WsEoiPG c02U 20 "m" (c02In [])).toks?.map (pruneAtomic c02WsEoiPG) =
      some [.mk 2 0 0 [.mk 1 0 0 []]] := by
  rw [c02WsEoi_gen]; decide

end PestTyped
