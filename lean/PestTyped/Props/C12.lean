/-
Props.C12 — Line, column and line text of every position agree with pest.

"For every string and every character-boundary offset in it, Position::line_col and
Position::line_of return what pest::Position returns: lines end at LF, CRLF counts as one line
break, a lone CR as a column, columns count characters not bytes, and the offset at end of input
belongs to the last line."

pest's file is the same algorithm, so "agrees with pest" is carried by the tie T-text (model vs
pest-typed vs pest 2.7.14 on every short string); the theorems say what the code computes, for
ALL strings and ALL offsets.  The model (`Model/Text.lean`) is the Rust as written: the CR/LF
state machine with the `pos == 1` branch and checked `pos -= …`, the two `char_indices` scans
with the `len - 1` shortcut, slicing that can panic.  A boundary offset is given as a split
`s = pre ++ suf` with `p = blen pre` (`IsBoundary s p`), which is what a boundary is.

* `C12_new`             Position::new answers exactly on boundaries (incl. 0 and len)
* `C12_line_col`        line = 1 + #LF before p, column = 1 + #characters since the last LF
* `C12_line_col_step`   the same, one character at a time: LF → (l+1, 1); any other character,
                        CR included, → (l, c+1): CRLF is one break, a lone CR a column
* `C12_line_col_total`  line_col panics exactly off the boundaries (so never on a `Position`)
* `C12_line_of`         line_of = (text since the last LF before p) ++ (text through the next LF)
* `C12_line_of_segment` that text is a maximal line of the input around p
* `C12_line_of_eoi`     the offset at end of input belongs to the last line (the empty line after a
                        final LF, as in pest)
* `C12_line_of_total`   line_of panics exactly beyond the end of input
-/
import PestTyped.Lemmas.TextPosition
namespace PestTyped
open Text

/-- `Position::new(s, p)` is `Some` (with offset `p`) exactly when `p` is a character boundary. -/
theorem C12_new (s : List Char) (p : Nat) :
    (posNew s p = some p ↔ IsBoundary s p) ∧ (posNew s p = none ↔ ¬ IsBoundary s p) := by
  unfold posNew
  constructor
  · rw [← dropBytes_isSome_iff]; cases dropBytes p s <;> simp
  · rw [← dropBytes_none_iff]; cases dropBytes p s <;> simp

example : posNew ['a', '中', '\n'] 4 = some 4 ∧ posNew ['a', '中', '\n'] 2 = none := by decide
example : IsBoundary ['a', '中', '\n'] 4 := ⟨['a', '中'], ['\n'], rfl, by decide⟩

/-- At every boundary: the line is one more than the number of LFs before the offset, the column
one more than the number of characters (not bytes) after the last of them. -/
theorem C12_line_col (pre suf : List Char) :
    lineCol (pre ++ suf) (blen pre) =
      .ok (1 + pre.count '\n', 1 + (afterLastLF pre).length) :=
  lineCol_of_split pre suf

example : lineCol (['a', '\r', 'b', '\n', 'c', '\r', '\n', 'd', '嗨'] ++ ['x']) 11 = .ok (3, 3) := by
  decide
example : blen ['a', '\r', 'b', '\n', 'c', '\r', '\n', 'd', '嗨'] = 11 := by decide

/-- One character at a time: an LF ends the line, every other character — a CR too, whether or
not an LF follows — is one column.  Hence CRLF is a single line break and a lone CR a column. -/
theorem C12_line_col_step (pre suf : List Char) (c : Char) (l col : Nat)
    (h : lineCol (pre ++ c :: suf) (blen pre) = .ok (l, col)) :
    lineCol (pre ++ c :: suf) (blen pre + c.utf8Size) =
      .ok (if c = '\n' then (l + 1, 1) else (l, col + 1)) := by
  have h1 := lineCol_of_split pre (c :: suf)
  have h2 := lineCol_of_split (pre ++ [c]) suf
  rw [h] at h1
  simp only [List.append_assoc, List.singleton_append, blen_append, blen_cons, blen_nil,
    Nat.add_zero] at h2
  rw [h2, afterLastLF_append_singleton, List.count_append]
  injection h1 with h1
  injection h1 with hl hc
  by_cases hcn : c = '\n'
  · subst hcn; simp; omega
  · have : ([c] : List Char).count '\n' = 0 := by simp [hcn]
    simp [hcn, this]; omega

example : lineCol (['a'] ++ '\r' :: ['\n', 'b']) (blen ['a']) = .ok (1, 2) := by decide
example : lineCol (['a'] ++ '\r' :: ['\n', 'b']) (blen ['a'] + ('\r' : Char).utf8Size) = .ok (1, 3) := by decide
example : lineCol (['a', '\r'] ++ '\n' :: ['b']) (blen ['a', '\r'] + ('\n' : Char).utf8Size) = .ok (2, 1) := by
  decide

/-- `line_col` is total on positions: it panics exactly when the offset is not a boundary of
the input (which `Position::new` excludes). -/
theorem C12_line_col_total (s : List Char) (p : Nat) : lineCol s p = .panic ↔ ¬ IsBoundary s p :=
  lineCol_panic_iff s p

example : lineCol ['中', 'a'] 1 = .panic ∧ lineCol ['中', 'a'] 3 = .ok (1, 2) := by decide

/-- At every boundary `line_of` is the text after the last LF before the offset followed by the
text up to and including the next LF (or the end of input). -/
theorem C12_line_of (pre suf : List Char) :
    lineOf (pre ++ suf) (blen pre) = .ok (afterLastLF pre ++ throughLF suf) ∧
    findLineStart (pre ++ suf) (blen pre) = blen pre - blen (afterLastLF pre) ∧
    findLineEnd (pre ++ suf) (blen pre) = blen pre + blen (throughLF suf) :=
  ⟨lineOf_of_split pre suf, findLineStart_of_split pre suf, findLineEnd_of_split pre suf⟩

example : lineOf (['a', '\n', 'c', '\r'] ++ ['\n', 'd']) 4 = .ok ['c', '\r', '\n'] := by decide
example : afterLastLF ['a', '\n', 'c', '\r'] ++ throughLF ['\n', 'd'] = ['c', '\r', '\n'] := by decide

/-- The text is a maximal line: it starts at the beginning of the input or right after an LF,
has no LF except possibly as its last character, ends with LF or at the end of input, and
contains the offset — strictly before its end, except at end of input, which belongs to the
last (LF-less, possibly empty) line. -/
theorem C12_line_of_segment (pre suf : List Char) :
    ∃ before line after,
      lineOf (pre ++ suf) (blen pre) = .ok line ∧
      pre ++ suf = before ++ line ++ after ∧
      (before = [] ∨ before.getLast? = some '\n') ∧
      '\n' ∉ line.dropLast ∧
      (line.getLast? = some '\n' ∨ after = []) ∧
      blen before ≤ blen pre ∧
      (blen pre < blen before + blen line ∨
        (suf = [] ∧ after = [] ∧ line.getLast? ≠ some '\n')) := by
  obtain ⟨before, after, h⟩ := lineSegment_props pre suf
  exact ⟨before, _, after, lineOf_of_split pre suf, h⟩

example : lineOf (['a', '\n', 'c'] ++ ['d', '\n', 'e']) 3 = .ok ['c', 'd', '\n'] := by decide

/-- The offset at end of input belongs to the last line: the text after the last LF (empty when
the input ends with LF or is empty). -/
theorem C12_line_of_eoi (s : List Char) : lineOf s (blen s) = .ok (afterLastLF s) := by
  have := lineOf_of_split s []
  simpa [throughLF] using this

example : lineOf ['a', '\n', 'b', 'c'] 4 = .ok ['b', 'c'] ∧ lineOf ['a', '\n'] 2 = .ok [] := by decide

/-- `line_of` panics exactly for an offset beyond the end of input (offsets up to the end
being boundaries, as in every `Position`). -/
theorem C12_line_of_total (s : List Char) (p : Nat) (hb : p ≤ blen s → IsBoundary s p) :
    lineOf s p = .panic ↔ p > blen s :=
  lineOf_panic_iff s p hb

example : lineOf ['a', 'b'] 3 = .panic ∧ lineOf ['a', 'b'] 2 = .ok ['a', 'b'] := by decide

end PestTyped
