/-
Props.C10 — Error reports are in bounds, not before consumed input, and truthful.

"When a parse fails, the reported location lies in the input on a character boundary and is not
before the end of the prefix the rule did match; every rule the report lists as expected really fails
to match at that location in the context it was tried, and every rule listed as unexpected really
matches there; rendering the error never panics.  The same report is produced for the same input
every time."

The report is `Tracker::finish()` = (`position`, `attempts`) of the tracker a failing entry point
leaves behind (`Res.fail m`, `m.trk`).  Theorems (all grammars, rules, nodes, inputs, states, fuel):

* `C10_bounds_node`, `C10_bounds`, `C10_bounds_check`, `C10_bounds_partial_entry`,
  `C10_bounds_check_partial_entry` — the final position is the entry position or the offset of a
  cursor of the run: inside `[i.pos, i.endPos]`, on a character boundary of the remaining text.
  `C10_location_valid` : hence `pest::Position::new` in `Tracker::collect` succeeds (the
  "Internal error (invalid character index)" branch is dead).
* `C10_monotone_node`, `C10_monotone_check` — the position never decreases along a run;
  `C10_record_position` — a `record` at `pos` leaves the position `≥ pos` (and `≥` the old one), so
  every position at which an attempt is recorded is `≤` the final position;
  `C10_monotone_full` (+ `C10_monotone_full_generated`) — a failing full parse whose prefix parse
  succeeded ending at `p` reports a position `≥ p`, provided the trailing skip does not fail (it never
  does for the skip types the generator emits); `C10_monotone_full_needs_total_skip` shows the
  proviso is needed for hand-written skip types.
* `C10_attempts_at_position`, `C10_polarity_agree`, `C10_polarity_positives`,
  `C10_polarity_negatives` — structural facts of `prepare`/`record`: advancing clears the attempts;
  nothing is inserted when the outcome agrees with the polarity or the position is behind; a rule
  enters `positives` only under polarity `true` with outcome *failed*, `negatives` only under
  polarity `false` with outcome *succeeded*, at the (new) furthest position.
* `C10_truthful_node`, `C10_expected_partial`, `C10_unexpected_partial` (+ `_check` versions) — every
  rule listed as expected in the final report was run, as `.ref rule f`, from a state whose cursor is
  a cursor of this input standing at the reported position, under positive polarity, and that run
  FAILED; every rule listed as unexpected was so run under negative polarity and SUCCEEDED (rule `0`
  = EOI may instead be justified by the end-of-input test of the full-parse wrapper).
  `_partial`: the state is existentially quantified; superseded by the next item (kept).
* `C10_expected`, `C10_unexpected` (+ `_check`, `_partial_entry`, `_check_partial_entry` versions) — the
  full statement of DESIGN.md, over the event log of the run (`Lemmas/TrackerTrace.lean`:
  `tryParseEvs g uni n r i` = the calls `parse g uni n' inh' (.ref x f) j mj` of framed rules the run
  makes, in order, each with the fuel, `INHERITED` value, cursor, stack and tracker — rule stack
  included — it was made with).  Every rule `x` listed as expected under the upper rule `k` has an
  event IN THAT LOG: a call of `x` at a cursor standing at the reported position, positive polarity,
  `get_entry` key `k`, leaf (the call made no call of a framed rule on its tracker: `LeafEv`), and that
  very call FAILED; unexpected: negative polarity, SUCCEEDED.  Rule `0` (EOI) may instead be
  justified by the end-of-input test of the wrapper at the cursor where the run made it (`eoiAt`).
  The events of the check-only entry points are stated on the parse path (`check = parse.forget`,
  C03: same states).  `C10_leaf_flag`: the `has_children` flag the code consults is set exactly when
  the log of the body is non-empty.
* `C10_det` — the report is a function of (grammar, rule, input): any two fuels that give an answer
  give the same answer (with the same tracker); every entry starts from the fresh `M.init`.
* `C10_render`, `C10_render_no_panic` — rendering: for the report of a failing run of any of the four
  entry points, `Tracker::collect` / `collect_to_message` (`Model/Message.lean`: `line_col`, `line_of`,
  `char_indices().nth`, the slice `&line_string[..index]`, `Position::new`) do not panic; the message
  starts with the text of the line up to the reported column followed by `^---`, the error's
  line/column are (1 + LFs before, 1 + characters since the last LF).
  `C10_render_needs_boundary`: off a boundary `collect_to_message` does panic (non-vacuity of the
  hypothesis the bounds theorems discharge).
-/
import PestTyped.Lemmas.TrackerLemmas
import PestTyped.Lemmas.TrackerTrace
import PestTyped.Lemmas.MessageLemmas
import PestTyped.Lemmas.Mono
import PestTyped.Props.C03
namespace PestTyped

/-- Offset `p` lies in the input `i` at or after its cursor, on a character boundary. -/
def InInput (i : Inp) (p : Nat) : Prop :=
  i.pos ≤ p ∧ p ≤ i.endPos ∧ ∃ pre, pre <+: i.rest ∧ p = i.pos + blen pre

theorem InInput.self (i : Inp) : InInput i i.pos :=
  ⟨Nat.le_refl _, by simp [Inp.endPos], [], List.nil_prefix, by simp [blen]⟩

theorem TrkStep.inInput {i : Inp} {t : Tracker} (h : TrkStep i (Tracker.new i) t) : InInput i t.position := by
  rcases h.bounds with h | h
  · rw [h]; exact InInput.self i
  · exact h

/-! ### bounds -/

/-- Any node, any state: the position a run leaves is the one it found or a boundary offset of the
remaining input. -/
theorem C10_bounds_node (g : NodeGrammar) (uni : Uni) (n : Nat) (inh : Bool) (node : Node) (i : Inp) (m : M) :
    RlOk (fun t => t.position = m.trk.position ∨ InInput i t.position) (parse g uni n inh node i m) :=
  (parse_rel (trkStep_runRel g uni i) n inh node i m (Inp.Adv.refl i)).mono (fun _ h => h.bounds)

theorem tryParse_trkStep (g : NodeGrammar) (uni : Uni) (n : Nat) (r : RuleId) (i : Inp) :
    RlOk (TrkStep i (Tracker.new i)) (tryParse g uni n r i) :=
  tryParse_rel (trkStep_runRel g uni i) (fun j t _ => trkStep_eoi j t) n r

/-- `try_parse`: the reported location is in the input, at or after the start, on a boundary. -/
theorem C10_bounds (g : NodeGrammar) (uni : Uni) (n : Nat) (r : RuleId) (i : Inp) (m : M)
    (h : tryParse g uni n r i = .fail m) : InInput i m.trk.position := by
  have := tryParse_trkStep g uni n r i
  rw [h] at this; exact this.inInput

/-- `try_check`. -/
theorem C10_bounds_check (g : NodeGrammar) (uni : Uni) (n : Nat) (r : RuleId) (i : Inp) (m : M)
    (h : tryCheck g uni n r i = .fail m) : InInput i m.trk.position := by
  have := (tryParse_trkStep g uni n r i).forget
  rw [← C03_full_agree, h] at this; exact this.inInput

/-- `try_parse_partial`. -/
theorem C10_bounds_partial_entry (g : NodeGrammar) (uni : Uni) (n : Nat) (r : RuleId) (i : Inp) (m : M)
    (h : tryParsePartial g uni n r i = .fail m) : InInput i m.trk.position := by
  have := parse_rel (trkStep_runRel g uni i) n true (.ref r .one) i (M.init i) (Inp.Adv.refl i)
  unfold tryParsePartial at h
  rw [h] at this; exact TrkStep.inInput this

/-- `try_check_partial`. -/
theorem C10_bounds_check_partial_entry (g : NodeGrammar) (uni : Uni) (n : Nat) (r : RuleId) (i : Inp) (m : M)
    (h : tryCheckPartial g uni n r i = .fail m) : InInput i m.trk.position := by
  have := check_rel (trkStep_runRel g uni i) n true (.ref r .one) i (M.init i) (Inp.Adv.refl i)
  unfold tryCheckPartial at h
  rw [h] at this; exact TrkStep.inInput this

/-- `Tracker::collect` re-validates the location with `pest::Position::new(input, pos)`, i.e.
`input.get(pos..).is_some()`: `pos ≤ len` and `pos` on a character boundary.  For the text
`pre0 ++ i.rest ++ i.after` of the whole input (`blen pre0 = i.pos`) the reported position splits it
into two character lists, so the check succeeds. -/
theorem C10_location_valid (g : NodeGrammar) (uni : Uni) (n : Nat) (r : RuleId) (i : Inp) (m : M)
    (pre0 : List Char) (hpre : blen pre0 = i.pos) (h : tryParse g uni n r i = .fail m) :
    ∃ a c, pre0 ++ i.rest ++ i.after = a ++ c ∧ blen a = m.trk.position := by
  obtain ⟨_, _, pre, ⟨suf, hp⟩, he⟩ := C10_bounds g uni n r i m h
  refine ⟨pre0 ++ pre, suf ++ i.after, ?_, ?_⟩
  · rw [← hp]; simp [List.append_assoc]
  · rw [blen_append, hpre, he]

/-! ### monotone -/

/-- The furthest position never decreases along a run. -/
theorem C10_monotone_node (g : NodeGrammar) (uni : Uni) (n : Nat) (inh : Bool) (node : Node) (i : Inp) (m : M) :
    RlOk (fun t => m.trk.position ≤ t.position) (parse g uni n inh node i m) :=
  (parse_rel (trkStep_runRel g uni i) n inh node i m (Inp.Adv.refl i)).mono (fun _ h => h.1)

theorem C10_monotone_check (g : NodeGrammar) (uni : Uni) (n : Nat) (inh : Bool) (node : Node) (i : Inp) (m : M) :
    RlOk (fun t => m.trk.position ≤ t.position) (check g uni n inh node i m) :=
  (check_rel (trkStep_runRel g uni i) n inh node i m (Inp.Adv.refl i)).mono (fun _ h => h.1)

/-- Recording an attempt at `pos` leaves the position at `max old pos`: at least `pos`, at least the
old one.  With `C10_monotone_node`: every position at which an attempt is recorded is `≤` the final
position. -/
theorem C10_record_position (t : Tracker) (rule : RuleId) (pos : Nat) (succeeded : Bool) :
    (t.record rule pos succeeded).position = max t.position pos ∧
    pos ≤ (t.record rule pos succeeded).position ∧ t.position ≤ (t.record rule pos succeeded).position := by
  rw [Tracker.record_position]; omega

/-- A failing full parse whose prefix parse succeeded ending at `i'` reports a location at or after
`i'`, unless the trailing skip itself fails. -/
theorem C10_monotone_full (g : NodeGrammar) (uni : Uni) (n : Nat) (r : RuleId) (i i' : Inp) (m1 m : M) (v : Val)
    (hp : tryParsePartial g uni n r i = .ok i' m1 v)
    (hsk : ∀ m', parse g uni n false g.skipped i' m1 ≠ .fail m')
    (h : tryParse g uni n r i = .fail m) : i'.pos ≤ m.trk.position := by
  unfold tryParsePartial at hp
  unfold tryParse at h
  cases hd : g.rule? r with
  | none =>
    cases n with
    | zero => simp [parse] at hp
    | succ n => simp [parse, hd] at hp
  | some d =>
    rw [hd] at h
    simp only [hp] at h
    have key : ∀ (j : Inp) (mj : M), i'.pos ≤ j.pos →
        (match eoiStep j mj with
          | (m', ok) => if ok = true then (Res.ok j m' v : R Val) else Res.fail m') = Res.fail m →
        i'.pos ≤ m.trk.position := by
      intro j mj hj h
      generalize hx : eoiStep j mj = x at h
      obtain ⟨mx, ok⟩ := x
      simp only [] at h
      cases ok with
      | true => simp at h
      | false =>
        simp only [Bool.false_eq_true, if_false] at h
        injection h with h; subst h
        have h1 : mx.trk = (mj.trk.enter 0 j.pos).leave 0 j.pos j.atEnd :=
          (congrArg (fun p => p.1.trk) hx).symm
        rw [h1, Tracker.enter_leave_position]; omega
    split at h
    · exact key i' m1 (Nat.le_refl _) h
    · cases hr2 : parse g uni n false g.skipped i' m1 with
      | oof => rw [hr2] at h; cases h
      | fail m' => exact absurd hr2 (hsk m')
      | ok i'' m'' sv =>
        rw [hr2] at h
        exact key i'' m'' (parse_adv g uni n _ _ _ _ _ _ _ hr2).pos_le h

/-- For the skip types the generator emits the proviso holds. -/
theorem C10_monotone_full_generated (g : NodeGrammar) (hs : SkipShape g) (uni : Uni) (n : Nat) (r : RuleId)
    (i i' : Inp) (m1 m : M) (v : Val) (hp : tryParsePartial g uni n r i = .ok i' m1 v)
    (h : tryParse g uni n r i = .fail m) : i'.pos ≤ m.trk.position :=
  C10_monotone_full g uni n r i i' m1 m v hp (fun m' => skipped_no_fail hs uni n false i' m1 m') h

/-! ### structure of `prepare` / `record`: attempts live at the furthest position, polarity -/

/-- Advancing the furthest position clears the attempts; otherwise `prepare` changes nothing. -/
theorem C10_attempts_at_position (t : Tracker) (pos : Nat) :
    (t.position < pos → (t.prepare pos).1.attempts = [] ∧ (t.prepare pos).1.position = pos) ∧
    (pos ≤ t.position → (t.prepare pos).1 = t) := by
  constructor
  · intro h
    rw [Tracker.prepare_attempts, Tracker.prepare_position, if_pos h]
    exact ⟨rfl, by omega⟩
  · intro h
    unfold Tracker.prepare
    split
    · rfl
    · split
      · rfl
      · omega

/-- Nothing is inserted when the outcome agrees with the polarity, or when the position is behind. -/
theorem C10_polarity_agree (t : Tracker) (rule : RuleId) (pos : Nat) (succeeded : Bool) :
    (succeeded = t.positive → t.record rule pos succeeded = (t.prepare pos).1) ∧
    (pos < t.position → t.record rule pos succeeded = t) := by
  constructor
  · intro h
    rw [Tracker.record_eq, Tracker.prepare_positive, h]
    simp
  · intro h
    have hok : (t.prepare pos).2 = false := by
      cases hq : (t.prepare pos).2
      · rfl
      · have := (Tracker.prepare_ok t pos).mp hq; omega
    rw [Tracker.record_eq, hok]
    simp only [Bool.false_and]
    exact ((C10_attempts_at_position t pos).2 (by omega))

/-- A rule enters some `positives` only as the recorded rule, under polarity `true`, with outcome
failed, at a position not behind the furthest one (which then is the new furthest position). -/
theorem C10_polarity_positives (t : Tracker) (rule : RuleId) (pos : Nat) (succeeded : Bool)
    (k : Option RuleId) (e : Tracked) (x : RuleId)
    (hm : (k, e) ∈ (t.record rule pos succeeded).attempts) (hx : x ∈ e.positives) :
    (∃ e0, (k, e0) ∈ (t.prepare pos).1.attempts ∧ x ∈ e0.positives) ∨
    (x = rule ∧ t.positive = true ∧ succeeded = false ∧ t.position ≤ pos ∧
      (t.record rule pos succeeded).position = pos) := by
  rw [Tracker.record_eq] at hm
  split at hm
  · next hc =>
    simp only [Bool.and_eq_true, bne_iff_ne, ne_eq] at hc
    obtain ⟨hok, hsp⟩ := hc
    have hle := (Tracker.prepare_ok t pos).mp hok
    rw [Tracker.prepare_positive] at hsp
    split at hm
    · next hpv =>
      rw [Tracker.prepare_positive] at hpv
      rcases Tracker.mem_modifyEntry hm with hm | ⟨hk, e0, h0, he⟩
      · exact Or.inl ⟨e, hm, hx⟩
      · subst he
        rcases Tracker.mem_pushNoDup hx with hx | hx
        · rcases h0 with h0 | h0
          · exact Or.inl ⟨e0, hk ▸ h0, hx⟩
          · subst h0; cases hx
        · refine Or.inr ⟨hx, hpv, ?_, hle, ?_⟩
          · cases succeeded
            · rfl
            · exact absurd hpv.symm hsp
          · rw [Tracker.record_position]; omega
    · rcases Tracker.mem_modifyEntry hm with hm | ⟨hk, e0, h0, he⟩
      · exact Or.inl ⟨e, hm, hx⟩
      · subst he
        rcases h0 with h0 | h0
        · exact Or.inl ⟨e0, hk ▸ h0, hx⟩
        · subst h0; cases hx
  · exact Or.inl ⟨e, hm, hx⟩

/-- A rule enters some `negatives` only as the recorded rule, under polarity `false`, with outcome
succeeded. -/
theorem C10_polarity_negatives (t : Tracker) (rule : RuleId) (pos : Nat) (succeeded : Bool)
    (k : Option RuleId) (e : Tracked) (x : RuleId)
    (hm : (k, e) ∈ (t.record rule pos succeeded).attempts) (hx : x ∈ e.negatives) :
    (∃ e0, (k, e0) ∈ (t.prepare pos).1.attempts ∧ x ∈ e0.negatives) ∨
    (x = rule ∧ t.positive = false ∧ succeeded = true ∧ t.position ≤ pos ∧
      (t.record rule pos succeeded).position = pos) := by
  rw [Tracker.record_eq] at hm
  split at hm
  · next hc =>
    simp only [Bool.and_eq_true, bne_iff_ne, ne_eq] at hc
    obtain ⟨hok, hsp⟩ := hc
    have hle := (Tracker.prepare_ok t pos).mp hok
    rw [Tracker.prepare_positive] at hsp
    split at hm
    · rcases Tracker.mem_modifyEntry hm with hm | ⟨hk, e0, h0, he⟩
      · exact Or.inl ⟨e, hm, hx⟩
      · subst he
        rcases h0 with h0 | h0
        · exact Or.inl ⟨e0, hk ▸ h0, hx⟩
        · subst h0; cases hx
    · next hpv =>
      rw [Tracker.prepare_positive] at hpv
      have hpf : t.positive = false := by
        cases hq : t.positive
        · rfl
        · exact absurd hq hpv
      rcases Tracker.mem_modifyEntry hm with hm | ⟨hk, e0, h0, he⟩
      · exact Or.inl ⟨e, hm, hx⟩
      · subst he
        rcases Tracker.mem_pushNoDup hx with hx | hx
        · rcases h0 with h0 | h0
          · exact Or.inl ⟨e0, hk ▸ h0, hx⟩
          · subst h0; cases hx
        · refine Or.inr ⟨hx, hpf, ?_, hle, ?_⟩
          · cases succeeded
            · exact absurd hpf.symm hsp
            · rfl
          · rw [Tracker.record_position]; omega
  · exact Or.inl ⟨e, hm, hx⟩

/-! ### truthful -/

/-- Any node, any state, any base cursor `b` the entry cursor is reachable from: a run keeps the
report truthful. -/
theorem C10_truthful_node (g : NodeGrammar) (uni : Uni) (b : Inp) (n : Nat) (inh : Bool) (node : Node)
    (i : Inp) (m : M) (hb : b.Adv i) (ht : m.trk.Truthful (Just g uni b)) :
    RlOk (fun t => t.Truthful (Just g uni b)) (parse g uni n inh node i m) :=
  (parse_rel (truthRel_runRel g uni b) n inh node i m hb).mono (fun _ h => h ht)

theorem tryParse_truthful (g : NodeGrammar) (uni : Uni) (n : Nat) (r : RuleId) (i : Inp) :
    RlOk (fun t => t.Truthful (Just g uni i)) (tryParse g uni n r i) :=
  (tryParse_rel (truthRel_runRel g uni i) (fun j t hj => truthRel_eoi g uni i j t hj) n r).mono
    (fun _ h => h (Tracker.Truthful.new i))

/-- FULL STATEMENT (DESIGN.md `C10_expected`): `x ∈ expected(finish tr)` → there is an event
`(x, pos, stack, inh)` *in the run* at `pos = (finish tr).pos`, positive polarity, leaf, with
`parse (ref x inh)` at that state `= fail`.
PROVED (`_partial`): the same with the state existentially quantified instead of taken from the
trace (cursor reachable from the entry cursor and standing at the reported position; polarity
positive; verdict failed) and without the leaf clause.  For rule `0` (EOI) the justification may be
the end-of-input test of the wrapper: a reachable cursor at that position that is not at the end. -/
theorem C10_expected_partial (g : NodeGrammar) (uni : Uni) (n : Nat) (r : RuleId) (i : Inp) (m : M)
    (h : tryParse g uni n r i = .fail m) (k : Option RuleId) (e : Tracked) (x : RuleId)
    (hm : (k, e) ∈ m.trk.attempts) (hx : x ∈ e.positives) :
    (∃ (n' : Nat) (inh : Bool) (f : Flag) (j : Inp) (mj : M), i.Adv j ∧ j.pos = m.trk.position ∧
        mj.trk.positive = true ∧ (∃ d, g.rule? x = some d ∧ d.emit ≠ .expression) ∧
        ∃ m', parse g uni n' inh (.ref x f) j mj = .fail m') ∨
    (x = 0 ∧ ∃ j, i.Adv j ∧ j.pos = m.trk.position ∧ j.atEnd = false) := by
  have ht := tryParse_truthful g uni n r i
  rw [h] at ht
  rcases (ht k e hm).1 x hx with ⟨n', inh, f, j, mj, hj, hp, hpol, hd, hv⟩ | ⟨h0, j, hj, hp, he⟩
  · refine Or.inl ⟨n', inh, f, j, mj, hj, hp, hpol, hd, ?_⟩
    cases hr : parse g uni n' inh (.ref x f) j mj with
    | oof => rw [hr] at hv; exact hv.elim
    | fail m' => exact ⟨m', rfl⟩
    | ok _ _ _ => rw [hr] at hv; cases hv
  · exact Or.inr ⟨h0, j, hj, hp, he⟩

/-- Same for the rules listed as unexpected: run under negative polarity, and SUCCEEDED. -/
theorem C10_unexpected_partial (g : NodeGrammar) (uni : Uni) (n : Nat) (r : RuleId) (i : Inp) (m : M)
    (h : tryParse g uni n r i = .fail m) (k : Option RuleId) (e : Tracked) (x : RuleId)
    (hm : (k, e) ∈ m.trk.attempts) (hx : x ∈ e.negatives) :
    (∃ (n' : Nat) (inh : Bool) (f : Flag) (j : Inp) (mj : M), i.Adv j ∧ j.pos = m.trk.position ∧
        mj.trk.positive = false ∧ (∃ d, g.rule? x = some d ∧ d.emit ≠ .expression) ∧
        ∃ j' m' v, parse g uni n' inh (.ref x f) j mj = .ok j' m' v) ∨
    (x = 0 ∧ ∃ j, i.Adv j ∧ j.pos = m.trk.position ∧ j.atEnd = true) := by
  have ht := tryParse_truthful g uni n r i
  rw [h] at ht
  rcases (ht k e hm).2 x hx with ⟨n', inh, f, j, mj, hj, hp, hpol, hd, hv⟩ | ⟨h0, j, hj, hp, he⟩
  · refine Or.inl ⟨n', inh, f, j, mj, hj, hp, hpol, hd, ?_⟩
    cases hr : parse g uni n' inh (.ref x f) j mj with
    | oof => rw [hr] at hv; exact hv.elim
    | fail m' => rw [hr] at hv; cases hv
    | ok j' m' v => exact ⟨j', m', v, rfl⟩
  · exact Or.inr ⟨h0, j, hj, hp, he⟩

/-- The check-only entry point leaves the same tracker (C03), hence the same truthful report. -/
theorem C10_truthful_check (g : NodeGrammar) (uni : Uni) (n : Nat) (r : RuleId) (i : Inp) (m : M)
    (h : tryCheck g uni n r i = .fail m) : m.trk.Truthful (Just g uni i) := by
  have := (tryParse_truthful g uni n r i).forget
  rw [← C03_full_agree, h] at this; exact this

/-- `try_parse_partial` / `try_check_partial`. -/
theorem C10_truthful_partial_entry (g : NodeGrammar) (uni : Uni) (n : Nat) (r : RuleId) (i : Inp) (m : M)
    (h : tryParsePartial g uni n r i = .fail m) : m.trk.Truthful (Just g uni i) := by
  have := C10_truthful_node g uni i n true (.ref r .one) i (M.init i) (Inp.Adv.refl i) (Tracker.Truthful.new i)
  unfold tryParsePartial at h
  rw [h] at this; exact this

/-! ### truthful, over the event log of the run -/

/-- What `C10_expected` / `C10_unexpected` say of one listed rule `x` (key `k`, position `pos`): an event
of the log `L` that is a call of `x` at `pos`, reachable from `b`, under polarity `pol`, with
`get_entry` key `k`, a leaf, whose verdict is `succ`. -/
def C10Event (g : NodeGrammar) (uni : Uni) (b : Inp) (L : List Ev) (k : Option RuleId) (x : RuleId) (pos : Nat)
    (succ pol : Bool) : Prop :=
  ∃ ev ∈ L, ev.r = x ∧ ev.i.pos = pos ∧ b.Adv ev.i ∧ ev.m.trk.positive = pol ∧ ev.m.trk.upper pos = k ∧
    LeafEv g uni ev ∧
    (if succ then ∃ j' m' v, parse g uni ev.n ev.inh (.ref ev.r ev.f) ev.i ev.m = .ok j' m' v
     else ∃ m', parse g uni ev.n ev.inh (.ref ev.r ev.f) ev.i ev.m = .fail m')

theorem evJ_c10Event {g : NodeGrammar} {uni : Uni} {b : Inp} {L : List Ev} {k : Option RuleId} {x : RuleId}
    {pos : Nat} {succ pol : Bool} (h : EvJ g uni b L k x pos succ pol) : C10Event g uni b L k x pos succ pol := by
  obtain ⟨ev, hm, h1, h2, h3, h4, h5, h6, hv⟩ := h
  refine ⟨ev, hm, h1, h2, h3, h4, h5, h6, ?_⟩
  cases hr : parse g uni ev.n ev.inh (.ref ev.r ev.f) ev.i ev.m with
  | oof => rw [hr] at hv; exact hv.elim
  | fail m' =>
    rw [hr] at hv
    have : succ = false := hv
    subst this; exact ⟨m', rfl⟩
  | ok j' m' v =>
    rw [hr] at hv
    have : succ = true := hv
    subst this; exact ⟨j', m', v, rfl⟩

/-- `C10_expected` (DESIGN.md): `try_parse` fails with report `m.trk`; a rule `x` listed as expected under
the upper rule `k` has an event in the log of THIS run (`tryParseEvs g uni n r i`): a call
`parse g uni ev.n ev.inh (.ref x ev.f) ev.i ev.m` made by the run — with that fuel, `INHERITED` value,
cursor, stack `ev.m.stk` and tracker `ev.m.trk` —, at the reported position, under positive polarity,
below the upper rule `k`, a leaf (no child rule attempt), and that call failed.  For rule `0` (EOI) the
event may be the end-of-input test of the wrapper, at the cursor where the run made it. -/
theorem C10_expected (g : NodeGrammar) (uni : Uni) (n : Nat) (r : RuleId) (i : Inp) (m : M)
    (h : tryParse g uni n r i = .fail m) (k : Option RuleId) (e : Tracked) (x : RuleId)
    (hm : (k, e) ∈ m.trk.attempts) (hx : x ∈ e.positives) :
    C10Event g uni i (tryParseEvs g uni n r i) k x m.trk.position false true ∨
    (x = 0 ∧ ∃ j, eoiAt g uni n r i = some j ∧ i.Adv j ∧ j.pos = m.trk.position ∧ j.atEnd = false) := by
  have ht := tryParse_truthE g uni n r i
  rw [h] at ht
  rcases (ht k e hm).1 x hx with hj | hj
  · exact Or.inl (evJ_c10Event hj)
  · exact Or.inr hj

/-- `C10_unexpected`: symmetric — negative polarity, and the call succeeded. -/
theorem C10_unexpected (g : NodeGrammar) (uni : Uni) (n : Nat) (r : RuleId) (i : Inp) (m : M)
    (h : tryParse g uni n r i = .fail m) (k : Option RuleId) (e : Tracked) (x : RuleId)
    (hm : (k, e) ∈ m.trk.attempts) (hx : x ∈ e.negatives) :
    C10Event g uni i (tryParseEvs g uni n r i) k x m.trk.position true false ∨
    (x = 0 ∧ ∃ j, eoiAt g uni n r i = some j ∧ i.Adv j ∧ j.pos = m.trk.position ∧ j.atEnd = true) := by
  have ht := tryParse_truthE g uni n r i
  rw [h] at ht
  rcases (ht k e hm).2 x hx with hj | hj
  · exact Or.inl (evJ_c10Event hj)
  · exact Or.inr hj

/-- `try_check`: the same report (C03); the events are those of the parse path (same states). -/
theorem C10_expected_check (g : NodeGrammar) (uni : Uni) (n : Nat) (r : RuleId) (i : Inp) (m : M)
    (h : tryCheck g uni n r i = .fail m) (k : Option RuleId) (e : Tracked) (x : RuleId)
    (hm : (k, e) ∈ m.trk.attempts) :
    (x ∈ e.positives →
      C10Event g uni i (tryParseEvs g uni n r i) k x m.trk.position false true ∨
      (x = 0 ∧ ∃ j, eoiAt g uni n r i = some j ∧ i.Adv j ∧ j.pos = m.trk.position ∧ j.atEnd = false)) ∧
    (x ∈ e.negatives →
      C10Event g uni i (tryParseEvs g uni n r i) k x m.trk.position true false ∨
      (x = 0 ∧ ∃ j, eoiAt g uni n r i = some j ∧ i.Adv j ∧ j.pos = m.trk.position ∧ j.atEnd = true)) := by
  have ht := (tryParse_truthE g uni n r i).forget
  rw [← C03_full_agree, h] at ht
  constructor
  · intro hx
    rcases (ht k e hm).1 x hx with hj | hj
    · exact Or.inl (evJ_c10Event hj)
    · exact Or.inr hj
  · intro hx
    rcases (ht k e hm).2 x hx with hj | hj
    · exact Or.inl (evJ_c10Event hj)
    · exact Or.inr hj

/-- `try_parse_partial`: no end-of-input attempt; the log is that of the rule's own run. -/
theorem C10_expected_partial_entry (g : NodeGrammar) (uni : Uni) (n : Nat) (r : RuleId) (i : Inp) (m : M)
    (h : tryParsePartial g uni n r i = .fail m) (k : Option RuleId) (e : Tracked) (x : RuleId)
    (hm : (k, e) ∈ m.trk.attempts) :
    (x ∈ e.positives →
      C10Event g uni i (evs g uni n true (.ref r .one) i (M.init i)) k x m.trk.position false true) ∧
    (x ∈ e.negatives →
      C10Event g uni i (evs g uni n true (.ref r .one) i (M.init i)) k x m.trk.position true false) := by
  have ht := parse_truthE g uni i (fun _ _ _ _ _ => False) n true (.ref r .one) i (M.init i) (Inp.Adv.refl i) []
    (Tracker.TruthfulK.new i)
  unfold tryParsePartial at h
  rw [h, List.nil_append] at ht
  constructor
  · intro hx
    rcases (ht k e hm).1 x hx with hj | hj
    · exact evJ_c10Event hj
    · exact hj.elim
  · intro hx
    rcases (ht k e hm).2 x hx with hj | hj
    · exact evJ_c10Event hj
    · exact hj.elim

/-- `try_check_partial`. -/
theorem C10_expected_check_partial_entry (g : NodeGrammar) (uni : Uni) (n : Nat) (r : RuleId) (i : Inp) (m : M)
    (h : tryCheckPartial g uni n r i = .fail m) (k : Option RuleId) (e : Tracked) (x : RuleId)
    (hm : (k, e) ∈ m.trk.attempts) :
    (x ∈ e.positives →
      C10Event g uni i (evs g uni n true (.ref r .one) i (M.init i)) k x m.trk.position false true) ∧
    (x ∈ e.negatives →
      C10Event g uni i (evs g uni n true (.ref r .one) i (M.init i)) k x m.trk.position true false) := by
  have ht := (parse_truthE g uni i (fun _ _ _ _ _ => False) n true (.ref r .one) i (M.init i) (Inp.Adv.refl i) []
    (Tracker.TruthfulK.new i)).forget
  unfold tryCheckPartial at h
  rw [← check_eq_parse_forget, h, List.nil_append] at ht
  constructor
  · intro hx
    rcases (ht k e hm).1 x hx with hj | hj
    · exact evJ_c10Event hj
    · exact hj.elim
  · intro hx
    rcases (ht k e hm).2 x hx with hj | hj
    · exact evJ_c10Event hj
    · exact hj.elim

/-- The flag `record_during_with` consults (`has_children` of the frame it pops) against the log: a run
started on a tracker whose top frame is `(r, p, false)` leaves that frame on top, its flag set exactly
when the run made a call of a framed rule — so "recorded" = "leaf" in the sense of `LeafEv`. -/
theorem C10_leaf_flag (g : NodeGrammar) (uni : Uni) (n : Nat) (inh : Bool) (node : Node) (i : Inp) (m : M)
    (r : RuleId) (p : Nat) (rest : List (RuleId × Nat × Bool)) (hs : m.trk.stack = (r, p, false) :: rest) :
    RlOk (fun t => t.stack = (r, p, !(evs g uni n inh node i m).isEmpty) :: rest) (parse g uni n inh node i m) := by
  refine (parse_stack g uni n inh node i m).mono (fun t ht => ?_)
  rw [ht, hs]; simp [markIf]

/-! ### rendering -/

/-- A reported location (`InInput`) is a character boundary of the whole input text
`pre0 ++ i.rest ++ i.after` (`pre0` = what precedes the cursor: `blen pre0 = i.pos`). -/
theorem InInput.split {i : Inp} {p : Nat} (h : InInput i p) (pre0 : List Char) (hpre : blen pre0 = i.pos) :
    ∃ a c, pre0 ++ i.rest ++ i.after = a ++ c ∧ p = blen a := by
  obtain ⟨_, _, pre, ⟨suf, hp⟩, he⟩ := h
  refine ⟨pre0 ++ pre, suf ++ i.after, ?_, ?_⟩
  · rw [← hp]; simp [List.append_assoc]
  · rw [Text.blen_append, hpre, he]

/-- Rendering a report whose location is in the input: `collect_to_message` and `collect` do not
panic; the message is the text of the line up to the location, `^---`, then the blocks; the error's
line/column are `1 +` the LFs before the location and `1 +` the characters since the last of them. -/
theorem C10_render (ruleName : RuleId → List Char) (i : Inp) (pre0 : List Char) (hpre : blen pre0 = i.pos)
    (t : Tracker) (h : InInput i t.position) :
    ∃ a c, pre0 ++ i.rest ++ i.after = a ++ c ∧ t.position = blen a ∧
      Message.collectToMessage ruleName (pre0 ++ i.rest ++ i.after) t =
        .ok (Text.afterLastLF a ++ "^---".toList ++ Message.body ruleName (1 + a.count '\n') t) ∧
      Message.collect ruleName (pre0 ++ i.rest ++ i.after) t =
        .ok (Text.afterLastLF a ++ "^---".toList ++ Message.body ruleName (1 + a.count '\n') t,
          (1 + a.count '\n', 1 + (Text.afterLastLF a).length)) := by
  obtain ⟨a, c, hs, hp⟩ := h.split pre0 hpre
  refine ⟨a, c, hs, hp, ?_, ?_⟩
  · rw [hs]; exact Message.collectToMessage_of_split ruleName a c t hp
  · rw [hs]; exact Message.collect_of_split ruleName a c t hp

/-- "Rendering the error never panics": for the report of a failing run of any of the four entry
points on the input `pre0 ++ i.rest ++ i.after`. -/
theorem C10_render_no_panic (g : NodeGrammar) (uni : Uni) (n : Nat) (r : RuleId) (i : Inp) (m : M)
    (ruleName : RuleId → List Char) (pre0 : List Char) (hpre : blen pre0 = i.pos)
    (h : tryParse g uni n r i = .fail m ∨ tryCheck g uni n r i = .fail m ∨
      tryParsePartial g uni n r i = .fail m ∨ tryCheckPartial g uni n r i = .fail m) :
    Message.collectToMessage ruleName (pre0 ++ i.rest ++ i.after) m.trk ≠ .panic ∧
    Message.collect ruleName (pre0 ++ i.rest ++ i.after) m.trk ≠ .panic := by
  have hin : InInput i m.trk.position := by
    rcases h with h | h | h | h
    · exact C10_bounds g uni n r i m h
    · exact C10_bounds_check g uni n r i m h
    · exact C10_bounds_partial_entry g uni n r i m h
    · exact C10_bounds_check_partial_entry g uni n r i m h
  obtain ⟨a, c, _, _, h1, h2⟩ := C10_render ruleName i pre0 hpre m.trk hin
  rw [h1, h2]
  exact ⟨by nofun, by nofun⟩

/-- The hypothesis is needed: off a character boundary `collect_to_message` panics (in `line_col`). -/
theorem C10_render_needs_boundary :
    Message.collectToMessage (fun _ => []) ['é', 'q'] { position := 1 } = .panic := by decide

/-! ### deterministic -/

/-- The outcome (verdict, cursor, stack, tracker — hence the report — and value) does not depend on
the fuel once there is an answer; every entry starts from the fresh state `M.init i`, so it is a
function of grammar, rule and input alone. -/
theorem C10_det (g : NodeGrammar) (uni : Uni) (n1 n2 : Nat) (r : RuleId) (i : Inp)
    (h1 : tryParse g uni n1 r i ≠ .oof) (h2 : tryParse g uni n2 r i ≠ .oof) :
    tryParse g uni n1 r i = tryParse g uni n2 r i := by
  have a := tryParse_mono (rfl : tryParse g uni n1 r i = _) h1 n2
  have b := tryParse_mono (rfl : tryParse g uni n2 r i = _) h2 n1
  rw [← a, ← b, Nat.add_comm]

theorem C10_det_check (g : NodeGrammar) (uni : Uni) (n1 n2 : Nat) (r : RuleId) (i : Inp)
    (h1 : tryCheck g uni n1 r i ≠ .oof) (h2 : tryCheck g uni n2 r i ≠ .oof) :
    tryCheck g uni n1 r i = tryCheck g uni n2 r i := by
  have a := tryCheck_mono (rfl : tryCheck g uni n1 r i = _) h1 n2
  have b := tryCheck_mono (rfl : tryCheck g uni n2 r i = _) h2 n1
  rw [← a, ← b, Nat.add_comm]

/-! ### non-vacuity -/

/-- `a = ${ "é" ~ (b | !c ~ "w") }  b = { "y" }  c = @{ "q" }`, no skip rules. -/
def c10Grammar : NodeGrammar :=
  { rules := [eoiDef,
      { name := "a", atom := .nonAtomic, emit := .both, boxed := true,
        body := .seq .inh [.str ['é'], .choice [.ref 2 .inh, .seq .inh [.neg (.ref 3 .inh), .str ['w']]]] },
      { name := "b", atom := .inherited, emit := .both, boxed := true, body := .str ['y'] },
      { name := "c", atom := .inherited, emit := .span, boxed := true, body := .str ['q'] }],
    skipped := .empty }

def Res.c10FailTrk? {α} : R α → Option Tracker
  | .fail m => some m.trk
  | _ => none

/-- 0 out of fuel, 1 failure, 2 success. -/
def Res.c10Kind {σ α} : Res σ α → Nat
  | .oof => 0
  | .fail _ => 1
  | .ok _ _ _ => 2

def c10Uni : Uni := fun _ _ => false

/-- "éq": after the two-byte `é`, `b` is expected and `c` is unexpected, both at offset 2. -/
example : (tryParse c10Grammar c10Uni 20 1 ⟨0, 0, ['é', 'q'], []⟩).c10FailTrk? =
    some { position := 2, positive := true,
           attempts := [(some 1, { positives := [2], negatives := [3], specials := [] })], stack := [] } := by
  decide

/-- The justifications `C10_expected_partial` / `C10_unexpected_partial` promise, on that run. -/
example : (parse c10Grammar c10Uni 2 true (.ref 2 .inh) ⟨0, 2, ['q'], []⟩ (M.init ⟨0, 2, ['q'], []⟩)).c10Kind = 1 := by
  decide
example : (parse c10Grammar c10Uni 2 true (.ref 3 .inh) ⟨0, 2, ['q'], []⟩
    { stk := [], trk := { position := 2, positive := false } }).c10Kind = 2 := by decide

/-- "éyé": the prefix parse succeeds ending at 3; the full parse fails at EOI, reported at 3 ≥ 3. -/
example : (tryParsePartial c10Grammar c10Uni 20 1 ⟨0, 0, ['é', 'y', 'é'], []⟩).endPos? = some 3 := by decide
example : (tryParse c10Grammar c10Uni 20 1 ⟨0, 0, ['é', 'y', 'é'], []⟩).c10FailTrk? =
    some { position := 3, positive := true,
           attempts := [(none, { positives := [0], negatives := [], specials := [] })], stack := [] } := by
  decide
example : SkipShape c10Grammar := Or.inl rfl

/-- `record` under both polarities (hypotheses of `C10_polarity_*`). -/
example : (({ position := 2 } : Tracker).record 7 2 false).attempts = [(none, { positives := [7] })] := by decide
example : (({ position := 2, positive := false } : Tracker).record 7 2 true).attempts =
    [(none, { negatives := [7] })] := by decide
example : (({ position := 2, attempts := [(none, { positives := [7] })] } : Tracker).record 8 4 true).attempts = [] := by
  decide

/-- Two different fuels, same report (`C10_det`). -/
example : (tryParse c10Grammar c10Uni 20 1 ⟨0, 0, ['é', 'q'], []⟩).c10Kind = 1 ∧
    (tryParse c10Grammar c10Uni 9 1 ⟨0, 0, ['é', 'q'], []⟩).c10Kind = 1 := by
  constructor <;> decide

/-- The event log of the run on "éq": the calls of `a` at 0, of `b` at 2 (positive), of `c` at 2
(negative, inside `!c`), with the tracker's rule stack at entry (`a`'s frame, flag set by `b`). -/
example : (tryParseEvs c10Grammar c10Uni 20 1 ⟨0, 0, ['é', 'q'], []⟩).map
      (fun ev => (ev.r, ev.i.pos, ev.m.trk.positive, ev.inh)) =
    [(1, 0, true, true), (2, 2, true, true), (3, 2, false, true)] := by decide
example : (tryParseEvs c10Grammar c10Uni 20 1 ⟨0, 0, ['é', 'q'], []⟩).map (fun ev => (ev.m.stk, ev.m.trk.stack)) =
    [([], []), ([], [(1, 0, false)]), ([], [(1, 0, true)])] := by decide

/-- The events `C10_expected` / `C10_unexpected` promise for that report (`b` expected, `c`
unexpected, both under `a`): in the log, leaf, key `some 1`, verdicts failed / matched. -/
example : ∃ ev ∈ tryParseEvs c10Grammar c10Uni 20 1 ⟨0, 0, ['é', 'q'], []⟩,
    ev.r = 2 ∧ ev.i.pos = 2 ∧ ev.m.trk.positive = true ∧ ev.m.trk.upper 2 = some 1 ∧
    evs c10Grammar c10Uni (ev.n - 1) (ev.f.eval ev.inh) (.str ['y']) ev.i
      { ev.m with trk := ev.m.trk.enter ev.r ev.i.pos } = [] ∧
    (parse c10Grammar c10Uni ev.n ev.inh (.ref ev.r ev.f) ev.i ev.m).c10Kind = 1 := by decide
example : ∃ ev ∈ tryParseEvs c10Grammar c10Uni 20 1 ⟨0, 0, ['é', 'q'], []⟩,
    ev.r = 3 ∧ ev.i.pos = 2 ∧ ev.m.trk.positive = false ∧ ev.m.trk.upper 2 = some 1 ∧
    (parse c10Grammar c10Uni ev.n ev.inh (.ref ev.r ev.f) ev.i ev.m).c10Kind = 2 := by decide

/-- "éyé": the EOI attempt is made at the cursor standing at 3, not at the end. -/
example : (eoiAt c10Grammar c10Uni 20 1 ⟨0, 0, ['é', 'y', 'é'], []⟩).map (fun j => (j.pos, j.atEnd)) =
    some (3, false) := by decide

/-- A non-leaf attempt is not recorded: `a` fails on "éq" but only `b` / `c` are listed (above), and
the flag of `a`'s frame is set by its children (`C10_leaf_flag`). -/
example : (evs c10Grammar c10Uni 19 true (.str ['é']) ⟨0, 0, ['é', 'q'], []⟩ (M.init ⟨0, 0, ['é', 'q'], []⟩)).isEmpty = true ∧
    (evs c10Grammar c10Uni 19 true (.ref 2 .inh) ⟨0, 2, ['q'], []⟩ (M.init ⟨0, 2, ['q'], []⟩)).isEmpty = false := by
  decide

def c10Names : RuleId → List Char
  | 0 => ['E', 'O', 'I']
  | 1 => ['a']
  | 2 => ['b']
  | 3 => ['c']
  | _ => ['?']

/-- The rendered report of "éq" (`C10_render`): line 1, column 2 (characters, not bytes), first line
`é^---`. -/
example : (tryParse c10Grammar c10Uni 20 1 ⟨0, 0, ['é', 'q'], []⟩).c10FailTrk?.map
      (Message.collect c10Names ['é', 'q']) =
    some (.ok ("é^---\n    Unexpected [c], expected [b], by a.".toList, (1, 2))) := by decide

set_option maxRecDepth 8192 in
/-- A report on the second line, with a special error and no rule: key order, `sort`/`dedup`. -/
example : Message.collect c10Names ['x', '\r', '\n', 'é', 'z']
      { position := 5, attempts := [(some 2, { positives := [3, 1, 3], specials := [.emptyStack] }),
                                    (none, { negatives := [0], specials := [.sliceOutOfBound (-1) (some 2)] })] } =
    .ok ("é^---\n    Unexpected [EOI].\n    Peek slice -1..2 out of bound.\n    Expected [a, c], by b.\n    Nothing to pop or drop. (By b)".toList,
      (2, 2)) := by decide

/-- The proviso of `C10_monotone_full` is needed for a hand-written skip type that can fail: the
prefix parse ends at 1, the trailing skip fails, the report stays at 0. -/
def c10BadSkip : NodeGrammar :=
  { rules := [eoiDef, { name := "a", atom := .nonAtomic, emit := .both, boxed := true, body := .str ['x'] }],
    skipped := .alwaysFail }

theorem C10_monotone_full_needs_total_skip :
    (tryParsePartial c10BadSkip c10Uni 5 1 ⟨0, 0, ['x'], []⟩).endPos? = some 1 ∧
    (tryParse c10BadSkip c10Uni 5 1 ⟨0, 0, ['x'], []⟩).failPos? = some 0 := by
  constructor <;> decide

end PestTyped
