/-
Props.C01Src — T-src obligations for C01: the built-in aliases regenerated from the CURRENT text of
`/repo/main/src/predefined_node/mod.rs` (Generated/AliasSrc.lean, rewritten by checks/tsrc.py on
every run: every top-level `pub type NAME = TYPE;`, `CharRange<'a','b'>` ↦ `Node.range`,
`ChoiceN<…>` ↦ `Node.choice […]`, earlier aliases inlined) are what the hand-written table
`builtinNode` of Model/Gen.lean (used by `gen`, hence by every C01 theorem) says.  An edit to an alias
changes `builtinAliasSrc`, hence the subject of these theorems.

* `C01_src_aliases` — for every `(name, node)` of the source, `builtinNode name = node`.
* `C01_src_alias_names` — the source defines exactly these ten aliases, in this order (so a deleted or
  added alias breaks the proof instead of silently shrinking / growing the first theorem's range).
* `C01_src_alias_complete` — conversely every name `builtinNode` maps to a `range` / `choice` node is one
  of the source's aliases.
-/
import PestTyped.Generated.AliasSrc
import PestTyped.Model.Gen
namespace PestTyped
open PestTyped.Src

theorem C01_src_aliases : ∀ p ∈ builtinAliasSrc, builtinNode p.1 = p.2 := by
  unfold builtinAliasSrc
  simp only [List.forall_mem_cons, List.not_mem_nil, false_imp_iff, implies_true, and_true]
  repeat' apply And.intro
  all_goals rfl

theorem C01_src_alias_names :
    builtinAliasSrc.map (·.1) =
      ["ASCII_DIGIT", "ASCII_NONZERO_DIGIT", "ASCII_BIN_DIGIT", "ASCII_OCT_DIGIT", "ASCII_HEX_DIGIT",
       "ASCII_ALPHA_LOWER", "ASCII_ALPHA_UPPER", "ASCII_ALPHA", "ASCII_ALPHANUMERIC", "ASCII"] := by
  rfl

/-- `range` or `choice` at the root. -/
def Node.isAliasShape : Node → Bool
  | .range _ _ => true
  | .choice _ => true
  | _ => false

theorem C01_src_alias_complete (name : String) (h : (builtinNode name).isAliasShape = true) :
    name ∈ builtinAliasSrc.map (·.1) := by
  rw [C01_src_alias_names]
  apply Classical.byContradiction
  intro hn
  simp only [List.mem_cons, List.mem_nil_iff, or_false, not_or] at hn
  obtain ⟨h1, h2, h3, h4, h5, h6, h7, h8, h9, h10⟩ := hn
  have : (builtinNode name).isAliasShape = false := by
    simp only [builtinNode, h1, h2, h3, h4, h5, h6, h7, h8, h9, h10, if_false]
    repeat (first | rfl | rw [apply_ite Node.isAliasShape])
    simp only [Node.isAliasShape, ite_self]
  rw [this] at h; cases h

/-- Non-vacuity: the list is not empty and mentions a nested alias resolved through two levels. -/
example : builtinAliasSrc.length = 10 := by rfl
example : ("ASCII_ALPHANUMERIC", Node.choice [.choice [.range 'a' 'z', .range 'A' 'Z'], .range '0' '9']) ∈ builtinAliasSrc := by
  simp [builtinAliasSrc]

end PestTyped
