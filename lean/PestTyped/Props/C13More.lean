/-
Props.C13More — additions to C13 (and the junction C12 / C13 / C14) answering the review
(/verif/build/review/REVIEW.md, "C12 / C13 / C14"):

  "lines: proved in a reinterpreted form (closed at `end`)"; "merge: assumes a.input = b.input, the
  conclusion is the model's own `if`; overlapping-or-adjacent / hull have no independent statement";
  "all theorems assume Span.Valid, which the public Position::span does not guarantee";
  "the three notions of last line are never related".

* `C13_lines_vs_touched`     `lines_span` yields, in order, EXACTLY: the lines the span touches
                             (`touches`: the byte ranges intersect; an empty span touches the line
                             holding its offset) and — when the span is not empty — the line, if
                             any, that starts exactly at its end.  As an equation of lists and as an
                             iff on the entries of the line table.
* `C13_lines_touched_then_extra`  … the touched lines first, then that extra line (at most one)
* `C13_lines_once`           no line twice
* `C13_lines_extra_witness`  the extra line exists: `"a\nb"[0..2]` (pest's behaviour too)
* `C13_lines_eoi_empty`      an empty span at the end of input touches nothing and yields nothing
* `C13_merge_iff`            `merge_spans a b = Some c` iff the `if` holds and `Span::new` accepts the
                             hull ON `a`'s INPUT; no hypothesis — `b`'s input is never looked at
* `C13_merge_iff_same_input` for valid spans of one input: `Some` iff `a.end ≥ b.start ∧ a.start ≤ b.end`
* `C13_merge_cond_iff`       that condition says: the closed intervals share an offset (overlapping
                             or adjacent)
* `C13_merge_hull`           the result is the hull: covers both, is covered by every span covering
                             both, and every offset of it belongs to `a` or to `b` (no gap)
* `C13_merge_different_inputs`  what happens when the inputs differ (Rust does not check): a hull
                             that is out of range of `a`'s input gives `None` although the condition
                             holds; otherwise a span on `a`'s input with `b`'s offsets
* `C13_position_span_valid`  `Position::span` (`new_unchecked`): the result is a valid span iff the
                             positions are ordered; `C13_position_span_invalid_witness`: `"ab"`, 2, 1
* `C13_parser_spans_valid`   the parser only calls `start.span(end)` with `start ≤ end` (`parse_adv`):
                             the span of every successful run — and every span stored in its value —
                             is a valid `Span` of the whole string, `as_str` = the stored text
* `C12_C13_C14_last_line_consistent` (= `C13_line_of_offset_consistent`)
                             strictly inside the input the three notions of "the line holding
                             offset p" agree: C12 `line_of`, the only line `lines` yields for the empty
                             span at p, the line `display_position` shows — with C12's line number
* `C13_line_of_offset_eoi`   at the end of input they DO NOT all agree: `lines` yields nothing;
                             `line_of` gives the text after the last LF; `display_position` shows the
                             last line of the table; the latter two agree iff the input does not end
                             with LF.  `C13_counterexample_last_line`: `"a\n"`.

What the model assumes: a `Span`'s input is its text (`List Char`); "the same input" is equality
of texts, which pointer identity (`ptr::eq` in `Position::span`, nothing in `merge_spans`) implies.
-/
import PestTyped.Lemmas.TextSpanMore
import PestTyped.Lemmas.ResProj
namespace PestTyped
open Text

/-! ### (a) `lines` against "the lines the span touches" -/

/-- `lines_span` of a valid span, read off the line table `[(u, v)]` of its input: in order,
the lines `[u, v)` that the span touches and, if the span is not empty, the line that starts
exactly at its end — nothing else.  Second part: the same as an iff. -/
theorem C13_lines_vs_touched (sp : Span) (hv : sp.Valid) :
    sp.linesSpan.map (fun l => (l.start, l.stop)) =
      (lineTable sp.input).filter (fun r =>
        decide (touches r.1 r.2 sp.start sp.stop) || decide (sp.start < sp.stop ∧ r.1 = sp.stop)) ∧
    (∀ u v, (u, v) ∈ sp.linesSpan.map (fun l => (l.start, l.stop)) ↔
      (u, v) ∈ lineTable sp.input ∧
        (touches u v sp.start sp.stop ∨ (sp.start < sp.stop ∧ u = sp.stop))) ∧
    ∀ l ∈ sp.linesSpan, l.input = sp.input := by
  refine ⟨linesSpan_touched sp hv, ?_, (linesSpan_eq_filter sp hv).2⟩
  intro u v
  rw [linesSpan_touched sp hv, List.mem_filter]
  simp

example : (Span.mk ['a', 'b', '\n', 'c', '\n', 'd', '\n', 'e'] 1 4).linesSpan.map (fun l => (l.start, l.stop)) =
    [(0, 3), (3, 5)] ∧ lineTable ['a', 'b', '\n', 'c', '\n', 'd', '\n', 'e'] = [(0, 3), (3, 5), (5, 7), (7, 8)] ∧
    touches 0 3 1 4 ∧ touches 3 5 1 4 ∧ ¬ touches 5 7 1 4 := by decide

/-- The touched lines come first, then the extra line, of which there is at most one. -/
theorem C13_lines_touched_then_extra (sp : Span) (hv : sp.Valid) :
    sp.linesSpan.map (fun l => (l.start, l.stop)) =
      (lineTable sp.input).filter (fun r => decide (touches r.1 r.2 sp.start sp.stop)) ++
      (lineTable sp.input).filter (fun r => decide (sp.start < sp.stop ∧ r.1 = sp.stop)) ∧
    ((lineTable sp.input).filter (fun r => decide (sp.start < sp.stop ∧ r.1 = sp.stop))).length ≤ 1 :=
  ⟨linesSpan_touched_split sp hv, lineTable_filter_start_le_one _ _ _⟩

/-- The extra line is real: `"a\nb"[0..2]` = `"a\n"` does not touch line 2, which is yielded. -/
theorem C13_lines_extra_witness :
    (Span.mk ['a', '\n', 'b'] 0 2).linesSpan.map (fun l => (l.start, l.stop)) = [(0, 2), (2, 3)] ∧
    (lineTable ['a', '\n', 'b']).filter (fun r => decide (touches r.1 r.2 0 2)) = [(0, 2)] ∧
    (lineTable ['a', '\n', 'b']).filter (fun r => decide (0 < 2 ∧ r.1 = 2)) = [(2, 3)] ∧
    ¬ touches 2 3 0 2 := by decide

/-- No line is yielded twice. -/
theorem C13_lines_once (sp : Span) (hv : sp.Valid) :
    (sp.linesSpan.map (fun l => (l.start, l.stop))).Nodup := by
  rw [(C13_lines_vs_touched sp hv).1]
  exact (lineTable_nodup sp.input).filter _

example : ((Span.mk ['a', '\n', 'b'] 0 3).linesSpan.map (fun l => (l.start, l.stop))) = [(0, 2), (2, 3)] := by
  decide

/-- For a non-empty span and a (non-empty) line, `touches` is: the two ranges share a byte. -/
theorem C13_touches_iff (u v start stop : Nat) (huv : u < v) (h : start < stop) :
    touches u v start stop ↔ ∃ x, u ≤ x ∧ x < v ∧ start ≤ x ∧ x < stop :=
  touches_iff_common_byte huv h

example : touches 3 5 4 9 ∧ ¬ touches 3 5 5 9 ∧ touches 3 5 4 4 ∧ ¬ touches 3 5 5 5 := by decide

/-- An empty span at the end of the input touches no line, and `lines` yields none (C12's
`line_of` and C14's display do assign a line to that offset: see `C13_line_of_offset_eoi`). -/
theorem C13_lines_eoi_empty (s : List Char) :
    (Span.mk s (blen s) (blen s)).lines = .ok [] ∧
    ∀ r ∈ lineTable s, ¬ touches r.1 r.2 (blen s) (blen s) := by
  refine ⟨lines_empty_span_eoi s, ?_⟩
  intro r hr
  have h := mem_rangesFrom hr
  rw [flatten_splitLines] at h
  unfold touches
  omega

example : (Span.mk ['a', '\n', 'b'] 3 3).lines = .ok [] ∧ (Span.mk ['a', '\n', 'b'] 2 2).lines = .ok [['b']] := by
  decide

/-! ### (b) `merge_spans` -/

/-- `merge_spans(a, b)` with NO hypothesis on the two spans: `Some(c)` iff the `if` of the
function holds and `Span::new(a.get_input(), min starts, max ends)` succeeds, and then `c` is that
span — on `a`'s input; `b.input` does not occur (Rust never compares the inputs). -/
theorem C13_merge_iff (a b c : Span) :
    mergeSpans a b = some c ↔
      (a.stop ≥ b.start ∧ a.start ≤ b.stop) ∧
      min a.start b.start ≤ max a.stop b.stop ∧
      IsBoundary a.input (min a.start b.start) ∧ IsBoundary a.input (max a.stop b.stop) ∧
      c = ⟨a.input, min a.start b.start, max a.stop b.stop⟩ :=
  mergeSpans_eq_some_iff

example : mergeSpans ⟨['a', '中', 'b'], 0, 1⟩ ⟨['a', '中', 'b'], 1, 4⟩ = some ⟨['a', '中', 'b'], 0, 4⟩ := by decide

/-- Two valid spans of ONE input (the assumption the Rust leaves to the caller): merging succeeds
exactly when `a.end ≥ b.start ∧ a.start ≤ b.end`. -/
theorem C13_merge_iff_same_input (a b : Span) (ha : a.Valid) (hb : b.Valid) (hi : a.input = b.input) :
    (∃ c, mergeSpans a b = some c) ↔ (a.stop ≥ b.start ∧ a.start ≤ b.stop) := by
  constructor
  · rintro ⟨c, hc⟩; exact ((C13_merge_iff a b c).mp hc).1
  · intro h
    refine ⟨⟨a.input, min a.start b.start, max a.stop b.stop⟩, (C13_merge_iff a b _).mpr
      ⟨h, ?_, isBoundary_min ha.2.1 (hi ▸ hb.2.1), isBoundary_max ha.2.2 (hi ▸ hb.2.2), rfl⟩⟩
    have := ha.1; have := hb.1; omega

example : (∃ c, mergeSpans ⟨['a', 'b', 'c', 'd'], 3, 4⟩ ⟨['a', 'b', 'c', 'd'], 0, 3⟩ = some c) :=
  ⟨⟨['a', 'b', 'c', 'd'], 0, 4⟩, by decide⟩
example : mergeSpans ⟨['a', 'b', 'c', 'd'], 0, 1⟩ ⟨['a', 'b', 'c', 'd'], 2, 4⟩ = none := by decide
example : (Span.mk ['a', 'b', 'c', 'd'] 3 4).Valid :=
  ⟨by decide, ⟨['a', 'b', 'c'], ['d'], rfl, by decide⟩, ⟨['a', 'b', 'c', 'd'], [], rfl, by decide⟩⟩

/-- The condition, independently: the two closed offset intervals have a common offset — the
spans overlap (a common byte) or are adjacent (one ends where the other starts). -/
theorem C13_merge_cond_iff (a b : Span) (ha : a.start ≤ a.stop) (hb : b.start ≤ b.stop) :
    (a.stop ≥ b.start ∧ a.start ≤ b.stop) ↔
      ∃ x, a.start ≤ x ∧ x ≤ a.stop ∧ b.start ≤ x ∧ x ≤ b.stop := by
  constructor
  · intro h
    rcases Nat.le_total a.start b.start with h' | h'
    · exact ⟨b.start, by omega, by omega, by omega, by omega⟩
    · exact ⟨a.start, by omega, by omega, by omega, by omega⟩
  · rintro ⟨x, h1, h2, h3, h4⟩; omega

example : ∃ x, (Span.mk ['a', 'b', 'c'] 0 1).start ≤ x ∧ x ≤ (Span.mk ['a', 'b', 'c'] 0 1).stop ∧
    (Span.mk ['a', 'b', 'c'] 1 3).start ≤ x ∧ x ≤ (Span.mk ['a', 'b', 'c'] 1 3).stop := ⟨1, by decide⟩

/-- The result is the hull of the two spans: a valid span of the same input that covers both,
is covered by every span covering both, and has no offset outside `a` and `b` (they overlap
or touch, so their union has no gap). -/
theorem C13_merge_hull (a b c : Span) (ha : a.Valid) (hb : b.Valid) (h : mergeSpans a b = some c) :
    c.input = a.input ∧ c.start = min a.start b.start ∧ c.stop = max a.stop b.stop ∧ c.Valid ∧
    (c.start ≤ a.start ∧ a.stop ≤ c.stop) ∧ (c.start ≤ b.start ∧ b.stop ≤ c.stop) ∧
    (∀ lo hi, lo ≤ a.start → a.stop ≤ hi → lo ≤ b.start → b.stop ≤ hi → lo ≤ c.start ∧ c.stop ≤ hi) ∧
    (∀ x, c.start ≤ x → x ≤ c.stop → (a.start ≤ x ∧ x ≤ a.stop) ∨ (b.start ≤ x ∧ x ≤ b.stop)) := by
  obtain ⟨hc, hle, hb1, hb2, rfl⟩ := (C13_merge_iff a b c).mp h
  have := ha.1; have := hb.1
  refine ⟨rfl, rfl, rfl, ⟨hle, hb1, hb2⟩, ?_, ?_, ?_, ?_⟩ <;> simp only [] <;> omega

example : mergeSpans ⟨['a', 'b', 'c', 'd'], 1, 3⟩ ⟨['a', 'b', 'c', 'd'], 0, 2⟩ = some ⟨['a', 'b', 'c', 'd'], 0, 3⟩ := by
  decide

/-- Rust never checks that the two spans are on the same input.  With different inputs: the
condition can hold and the result be `None` (the hull is out of range of `a`'s input), or the
result can be a span of `a`'s input carrying an offset of `b`. -/
theorem C13_merge_different_inputs :
    mergeSpans ⟨['a', 'b'], 0, 1⟩ ⟨['a', 'b', 'c', 'd', 'e', 'f'], 1, 6⟩ = none ∧
    ((Span.mk ['a', 'b'] 0 1).stop ≥ (Span.mk ['a', 'b', 'c', 'd', 'e', 'f'] 1 6).start ∧
      (Span.mk ['a', 'b'] 0 1).start ≤ (Span.mk ['a', 'b', 'c', 'd', 'e', 'f'] 1 6).stop) ∧
    mergeSpans ⟨['a', 'b', 'c', 'd'], 0, 1⟩ ⟨['x', 'y'], 1, 2⟩ = some ⟨['a', 'b', 'c', 'd'], 0, 2⟩ := by
  decide

/-! ### (c) `Position::span` and the spans of the parser -/

/-- `Position::span(&self, other)` builds `Span::new_unchecked(input, self.pos, other.pos)`:
for two positions (valid, same input) the result is a valid span EXACTLY when
`self.pos ≤ other.pos`.  So `Span.Valid` is an invariant of the public API only for ordered
positions. -/
theorem C13_position_span_valid (p q : Pos) (hp : p.Valid) (hq : q.Valid) (sp : Span)
    (h : p.span q = .ok sp) :
    (sp.Valid ↔ p.pos ≤ q.pos) ∧ sp = ⟨p.input, p.pos, q.pos⟩ := by
  refine ⟨Pos.span_valid_iff hp hq h, ?_⟩
  unfold Pos.span at h
  split at h
  · injection h with h; exact h.symm
  · cases h

example : (Pos.mk ['a', 'b'] 1).span ⟨['a', 'b'], 2⟩ = .ok ⟨['a', 'b'], 1, 2⟩ ∧
    (Pos.mk ['a', 'b'] 1).span ⟨['a', 'c'], 2⟩ = .panic := by decide
example : (Pos.mk ['a', 'b'] 1).Valid := ⟨['a'], ['b'], rfl, by decide⟩

/-- `Position::new("ab", 2).span(&Position::new("ab", 1))`: a `Span` with `start > end`; its
`as_str` panics (`&input[2..1]`). -/
theorem C13_position_span_invalid_witness :
    (Pos.mk ['a', 'b'] 2).span ⟨['a', 'b'], 1⟩ = .ok ⟨['a', 'b'], 2, 1⟩ ∧
    (Span.mk ['a', 'b'] 2 1).asStr = .panic ∧ ¬ (Span.mk ['a', 'b'] 2 1).Valid := by
  refine ⟨by decide, by decide, ?_⟩
  intro h; have := h.1; simp at this

/-- The parser calls `Input::span` (`input.rs:29`: `self.as_position().span(&end.as_position())`)
only as `start.span(end)` with `end` reached from `start` by a run, so `start ≤ end`
(`parse_adv`).  For every successful run from cursor `i` (at byte `blen pre` of the string
`pre ++ i.rest ++ i.after`):
* `Position::span` of the two cursors does not panic and is a valid span whose text is the
  text consumed;
* every span stored in the value (`Val.SpansIn`) and every span left on the stack is a piece of
  the input (`Sp.In`), and every piece is a valid `Span` with that text. -/
theorem C13_parser_spans_valid (g : NodeGrammar) (uni : Uni) (n : Nat) (inh : Bool) (node : Node)
    (i : Inp) (m : M) (i' : Inp) (m' : M) (v : Val)
    (h : parse g uni n inh node i m = .ok i' m' v) (hst : StkIn i m.stk)
    (pre : List Char) (hpre : blen pre = i.pos) :
    let w := pre ++ i.rest ++ i.after
    (Pos.mk w i.pos).Valid ∧ (Pos.mk w i'.pos).Valid ∧ i.pos ≤ i'.pos ∧
    (Pos.mk w i.pos).span ⟨w, i'.pos⟩ = .ok ⟨w, i.pos, i'.pos⟩ ∧
    (Span.mk w i.pos i'.pos).Valid ∧ (Span.mk w i.pos i'.pos).asStr = .ok (i.spanTo i').txt ∧
    Val.SpansIn i v ∧ StkIn i m'.stk ∧
    ∀ sp : Sp, sp.In i → (Span.mk w sp.s sp.e).Valid ∧ (Span.mk w sp.s sp.e).asStr = .ok sp.txt := by
  intro w
  have hadv := parse_adv g uni n inh node i m i' m' v h
  have hin : (i.spanTo i').In i := Inp.spanTo_in (Inp.Adv.refl i) hadv
  have hsp := parse_spans g uni i n inh node i m (Inp.Adv.refl i) hst
  rw [h] at hsp
  have hv := Sp.In.span_valid hin pre hpre
  refine ⟨hv.1.2.1, hv.1.2.2, hadv.pos_le, by simp [Pos.span], hv.1, hv.2, hsp.2, hsp.1, ?_⟩
  intro sp hsp'
  exact Sp.In.span_valid hsp' pre hpre

/-- `a = { "x" ~ "中" }` on `"x中!"` from offset 0. -/
example : (parse ⟨[{ name := "EOI", atom := .inherited, emit := .both, boxed := false, body := .eoi },
      { name := "a", atom := .inherited, emit := .both, boxed := true, body := .seq .inh [.str ['x'], .str ['中']] }],
      .empty⟩ (fun _ _ => false) 5 false (.ref 1 .inh) ⟨0, 0, ['x', '中', '!'], []⟩
      (M.init ⟨0, 0, ['x', '中', '!'], []⟩)).okPos? = some 4 ∧ StkIn ⟨0, 0, ['x', '中', '!'], []⟩ (M.init ⟨0, 0, ['x', '中', '!'], []⟩).stk :=
  ⟨by decide, StkIn.nil _⟩

/-! ### (d) the line holding an offset: C12, C13, C14 -/

/-- Strictly inside the input (`suf ≠ []`) the three notions of "the line holding the offset
`p = blen pre`" agree, and so do the line numbers:
* C12: `line_of` = `afterLastLF pre ++ throughLF suf`, `line_col` gives line `1 + #LF in pre`;
* C13: `lines` of the empty span at `p` yields exactly that one line (and `lines` of any span
  starting at `p` yields it first: `C13_lines`);
* C14: `display_position` shows exactly that line, split at the offset, under that number. -/
theorem C12_C13_C14_last_line_consistent (width : Char → Nat) (pre suf : List Char) (hsuf : suf ≠ []) :
    let s := pre ++ suf
    let line := afterLastLF pre ++ throughLF suf
    let n := 1 + pre.count '\n'
    lineOf s (blen pre) = .ok line ∧
    (∃ col, lineCol s (blen pre) = .ok (n, col)) ∧
    (Span.mk s (blen pre) (blen pre)).lines = .ok [line] ∧
    (dispLines s)[n - 1]? = some line ∧
    positionSnippet width s (blen pre) =
      .ok (some ⟨ceilLog10 n,
        [.gutter, .text n (visualize (afterLastLF pre)) none (visualize (throughLF suf)),
         .mark (strWidth width (visualize (afterLastLF pre))) ['^']]⟩) := by
  intro s line n
  obtain ⟨a, ha, hlen, hfl, hdl⟩ := dispLines_at_boundary pre suf hsuf
  have hbl : blen pre = blen (splitLines a).flatten + blen (afterLastLF pre) := by
    rw [hfl]; conv => lhs; rw [ha, Text.blen_append]
  refine ⟨lineOf_of_split pre suf, ⟨_, lineCol_of_split pre suf⟩, lines_empty_span pre suf hsuf, ?_, ?_⟩
  · show (dispLines (pre ++ suf))[1 + pre.count '\n' - 1]? = _
    rw [hdl, ← hlen]
    have : 1 + (splitLines a).length - 1 = (splitLines a).length := by omega
    rw [this]; exact getElem?_mid _ _ _
  · have h := positionSnippet_of_decomp width (pre ++ suf) (splitLines a) (splitLines (afterLF suf))
      (afterLastLF pre) (throughLF suf) hdl (Or.inl (throughLF_ne_nil hsuf))
    rw [← hbl, hlen] at h
    show positionSnippet width (pre ++ suf) (blen pre) = _
    rw [h]
    have : pre.count '\n' + 1 = 1 + pre.count '\n' := by omega
    simp only [snippetSinglePos, this]
    rfl

/-- The same theorem under a name the index registers for C13. -/
theorem C13_line_of_offset_consistent (width : Char → Nat) (pre suf : List Char) (hsuf : suf ≠ []) :
    let s := pre ++ suf
    let line := afterLastLF pre ++ throughLF suf
    let n := 1 + pre.count '\n'
    lineOf s (blen pre) = .ok line ∧
    (∃ col, lineCol s (blen pre) = .ok (n, col)) ∧
    (Span.mk s (blen pre) (blen pre)).lines = .ok [line] ∧
    (dispLines s)[n - 1]? = some line ∧
    positionSnippet width s (blen pre) =
      .ok (some ⟨ceilLog10 n,
        [.gutter, .text n (visualize (afterLastLF pre)) none (visualize (throughLF suf)),
         .mark (strWidth width (visualize (afterLastLF pre))) ['^']]⟩) :=
  C12_C13_C14_last_line_consistent width pre suf hsuf

example : lineOf (['a', '\n', 'b'] ++ ['c', '\n', 'd']) 3 = .ok ['b', 'c', '\n'] ∧
    (Span.mk (['a', '\n', 'b'] ++ ['c', '\n', 'd']) 3 3).lines = .ok [['b', 'c', '\n']] ∧
    positionSnippet (fun _ => 1) (['a', '\n', 'b'] ++ ['c', '\n', 'd']) 3 =
      .ok (some ⟨1, [.gutter, .text 2 ['b'] none ['c', '␊'], .mark 1 ['^']]⟩) ∧
    blen ['a', '\n', 'b'] = 3 := by decide

/-- At the end of the input the three notions do NOT all agree:
* C13: `lines` of the empty span there yields nothing;
* C12: `line_of` gives the text after the last LF (the empty line after a final LF);
* C14: `display_position` shows the LAST line of the table (which after a final LF is the line
  that ends with it), caret after its last cell;
and C12's and C14's lines are the same text exactly when the input does not end with LF. -/
theorem C13_line_of_offset_eoi (width : Char → Nat) (s : List Char) :
    lineOf s (blen s) = .ok (afterLastLF s) ∧
    (Span.mk s (blen s) (blen s)).lines = .ok [] ∧
    ∃ last, (dispLines s).getLast? = some last ∧
      positionSnippet width s (blen s) =
        .ok (some ⟨ceilLog10 (dispLines s).length,
          [.gutter, .text (dispLines s).length (visualize last) none [],
           .mark (strWidth width (visualize last)) ['^']]⟩) ∧
      (last = afterLastLF s ↔ s.getLast? ≠ some '\n') := by
  have h1 : lineOf s (blen s) = .ok (afterLastLF s) := by
    have := lineOf_of_split s []
    simpa [throughLF] using this
  refine ⟨h1, lines_empty_span_eoi s, ?_⟩
  obtain ⟨last, hlast, hiff⟩ := dispLines_getLast s
  refine ⟨last, hlast, ?_, hiff⟩
  have hne := dispLines_ne_nil s
  have hdl := List.dropLast_concat_getLast hne
  have hl : (dispLines s).getLast hne = last := by
    rw [List.getLast?_eq_some_getLast hne] at hlast; exact Option.some.inj hlast
  rw [hl] at hdl
  have hsplit : dispLines s = (dispLines s).dropLast ++ (last ++ []) :: [] := by simpa using hdl.symm
  have h := positionSnippet_of_decomp width s (dispLines s).dropLast [] last [] hsplit (Or.inr rfl)
  have hb : blen (dispLines s).dropLast.flatten + blen last = blen s := by
    have := congrArg (fun l => blen l.flatten) hdl
    simp only [List.flatten_append, List.flatten_cons, List.flatten_nil, List.append_nil,
      Text.blen_append, flatten_dispLines] at this
    exact this
  have hlen : (dispLines s).dropLast.length + 1 = (dispLines s).length := by
    have := List.length_pos_iff.mpr hne
    rw [List.length_dropLast]; omega
  rw [hb, hlen] at h
  rw [h]
  simp only [snippetSinglePos, visualize, List.map_nil]
  rw [← hlen]

example : lineOf ['a', '\n', 'b'] 3 = .ok ['b'] ∧ (dispLines ['a', '\n', 'b']).getLast? = some ['b'] ∧
    positionSnippet (fun _ => 1) ['a', '\n', 'b'] 3 = .ok (some ⟨1, [.gutter, .text 2 ['b'] none [], .mark 1 ['^']]⟩) := by
  decide

/-- The disagreement on a witness: at the end of `"a\n"` `line_of` is the empty line 2 (and
`line_col` says line 2), `display_position` shows line 1 `a␊`, `lines` nothing. -/
theorem C13_counterexample_last_line :
    lineOf ['a', '\n'] 2 = .ok [] ∧ lineCol ['a', '\n'] 2 = .ok (2, 1) ∧
    (Span.mk ['a', '\n'] 2 2).lines = .ok [] ∧
    positionSnippet (fun _ => 1) ['a', '\n'] 2 =
      .ok (some ⟨1, [.gutter, .text 1 ['a', '␊'] none [], .mark 2 ['^']]⟩) ∧
    lineTable ['a', '\n'] = [(0, 2)] := by decide

end PestTyped
