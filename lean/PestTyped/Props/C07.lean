/-
Props.C07 — Atomicity is inherited and implicit skipping applied exactly as in pest.

Property (properties.jsonl, C07): "WHITESPACE/COMMENT are skipped between the elements of a sequence
and between the iterations of a repetition and nowhere else; never at the start or end of a rule,
never in an atomic or compound-atomic context, and a skip made before an iteration that then fails
is given back.  Atomic and compound-atomic rules switch skipping off for everything they reach
through normal and silent rules, a non-atomic rule switches it back on, and WHITESPACE/COMMENT
themselves are always matched atomically."

All theorems are about the typed side (`parse`, `tryParse`, `gen`); none depends on the simulation
theorem C01.  Every grammar `g : NodeGrammar` (generated or written by hand from the runtime
generics), Unicode table, fuel, cursor (`Inp` = &str / Position / Span) and state (any stack, any
tracker).  The only places where `parse` runs the skip type `g.skipped` are the skip function
`skipRuns (parse … false g.skipped) (skipCount sk inh)` of `.seq` / `.rep` and the trailing skip of
`tryParse`: "nowhere else" is stated OBSERVATIONALLY, site by site:

Where the skip runs (any grammar)
* `C07_atomic_context_skip_fn`, `C07_atomic_context_unit`, `C07_atomic_context_no_skip_seq`,
  `C07_atomic_context_no_skip_seq_fail`, `C07_atomic_context_no_skip_rep` — when the `SKIP` flag
  evaluates to `false` the skip function is `noSkip` whatever the skip parser: a sequence succeeds
  iff its elements succeed back to back (`SeqB2B`), fails iff one fails right where its predecessor
  ended; a repetition is a back-to-back run of its element (`B2B`).
* `C07_first_no_skip_seq`, `C07_first_no_skip_seq_fail`, `C07_first_no_skip_unit`,
  `C07_first_no_skip_rep`, `C07_first_no_skip_rep_fail` — the first element / iteration 0 runs at
  the entry cursor in the entry state whatever the flag.
* `C07_rule_edges`, `C07_rule_span` — a rule reference has the verdict, end cursor and stack of its
  body run from the same cursor; the `.rule` value spans exactly `[entry, exit of the body]`.
* `C07_between_seq`, `C07_between_rep` — when the flag evaluates to `true`, before every element
  but the first (every iteration but iteration 0) exactly ONE run of `g.skipped` is made, at the
  cursor where the previous element stopped; its value is the single skip value of the `.skipped 1`
  slot.
* `C07_giveback` — the cursor (and stack) a repetition returns are those the last successful
  iteration left, also when the next unit's skip consumed input before its element failed.
* `C07_trailing`, `C07_trailing_gen` — `try_parse` runs one trailing skip iff `noTrailingSkip` is
  false; under the generator: for every rule but `@` / `$` ones.

Which flag is in force (generator, S5)
* `C07_flag`, `C07_flag_atomic`, `C07_flag_nonAtomic`, `C07_flag_inherited` — every `SKIP` and every
  `INHERITED` argument in the body of a generated rule is the rule's own token: `0` for `@`/`$`,
  `1` for `!`, `INHERITED` for normal/silent (`EOI<'i,1>` is the only other reference).
* `C07_inh_only_through_flags` — the inherited atomicity enters `parse` only through those flags.
* `C07_inherit`, `C07_atomic_off`, `C07_nonAtomic_on`, `C07_inherited_passes` — hence the body of
  an `@`/`$` rule runs as under `false` whatever the caller, of a `!` rule as under `true`, of a
  normal/silent rule as under the caller's value.
* `C07_inherit_chain`, `C07_pathFlag_last`, `C07_inherit_chain_entry` — along a reference path the
  flag in force inside the last body is that of the LAST `@`/`$`/`!` rule on the path (`true` if
  none, for the entry points, which start with `INHERITED = 1`).
* `C07_skip_rules_atomic`, `C07_skip_rules_atomic_run` — inside `generics::Skipped` every reference
  carries `0`: WHITESPACE/COMMENT of kind normal / silent / `@` / `$` run with every flag `false`.

What does NOT hold (known finding F-WS, DESIGN.md §7; pest forces Atomic inside rules NAMED
WHITESPACE/COMMENT, pest-typed gives them their declared kind)
* `C07_counterexample_ws_explicit` — `WHITESPACE = { "a" ~ "b" }  r = { "x" ~ WHITESPACE }` on
  `xaabb`: the typed parser skips INSIDE the explicitly referenced WHITESPACE and accepts at 5; the
  reference semantics (`Model.Spec`, = pest) rejects.
* `C07_counterexample_ws_nonatomic` — `WHITESPACE = !{ " " ~ "-" }  r = { "x" ~ "y" }` on
  `x␠␠--y`: during IMPLICIT skipping a `!` WHITESPACE runs with skipping on; typed accepts at 6,
  the reference semantics rejects.
-/
import PestTyped.Lemmas.SkipSites
import PestTyped.Props.C04
import PestTyped.Model.Spec
namespace PestTyped

/-! ### concrete instances for the non-vacuity examples -/

/-- ```
a = { "x" ~ "y" }   b = @{ "x" ~ "y" ~ a }   c = ${ a ~ n }   n = !{ "x"+ }   s = _{ "x" ~ "y" }
WHITESPACE = _{ " " }
``` -/
def c07PG : PGrammar :=
  [{ name := "a", kind := .normal, expr := .seq (.str ['x']) (.str ['y']) },
   { name := "b", kind := .atomic, expr := .seq (.str ['x']) (.seq (.str ['y']) (.ident "a")) },
   { name := "c", kind := .compoundAtomic, expr := .seq (.ident "a") (.ident "n") },
   { name := "n", kind := .nonAtomic, expr := .repOnce (.str ['x']) },
   { name := "s", kind := .silent, expr := .seq (.str ['x']) (.str ['y']) },
   { name := "WHITESPACE", kind := .silent, expr := .str [' '] }]

/-- The module generated for `c07PG`. -/
def c07G : NodeGrammar :=
  { rules := [eoiDef,
      { name := "a", atom := .inherited, emit := .both, boxed := true,
        body := .seq .inh [.str ['x'], .str ['y']] },
      { name := "b", atom := .atomic, emit := .span, boxed := true,
        body := .seq .zero [.str ['x'], .str ['y'], .ref 1 .zero] },
      { name := "c", atom := .atomic, emit := .both, boxed := true,
        body := .seq .zero [.ref 1 .zero, .ref 4 .zero] },
      { name := "n", atom := .nonAtomic, emit := .both, boxed := true,
        body := .rep .one 1 none (.str ['x']) },
      { name := "s", atom := .inherited, emit := .expression, boxed := true,
        body := .seq .inh [.str ['x'], .str ['y']] },
      { name := "WHITESPACE", atom := .inherited, emit := .expression, boxed := true,
        body := .str [' '] }],
    skipped := .atomicRepeat (.ref 6 .zero) }

theorem c07_gen : gen c07PG = c07G := by
  simp [gen, genRule, genExpr, genSeqSpine, genSkipped, PGrammar.indexOf, PGrammar.indexOf.go,
    c07PG, c07G, kindAtomicity, kindEmission, atomFlag]

def c07U : Uni := fun _ _ => false
def c07In (s : List Char) : Inp := { start := 0, pos := 0, rest := s, after := [] }
/-- Rule `r` as entry point (prefix parse) on the text `s`. -/
def c07Run (r : RuleId) (s : List Char) : R Val := tryParsePartial c07G c07U 12 r (c07In s)
/-- A node run directly under the inherited atomicity `inh`. -/
def c07Node (inh : Bool) (n : Node) (s : List Char) : R Val :=
  parse c07G c07U 12 inh n (c07In s) (M.init (c07In s))

/-! ### (a) atomic context: the skip type is not run -/

/-- When the `SKIP` flag evaluates to `false`, the skip function of the sequence / repetition is
`noSkip` — whatever skip parser `sf` the grammar has, it is not called. -/
theorem C07_atomic_context_skip_fn (sf : Inp → M → R Val) (sk : Flag) (inh : Bool)
    (h : sk.eval inh = false) : skipRuns sf (skipCount sk inh) = noSkip := by
  rw [skipCount_eq_zero h]; rfl

example : skipRuns (parse c07G c07U 5 false c07G.skipped) (skipCount .inh false) = noSkip :=
  C07_atomic_context_skip_fn _ _ _ rfl

/-- … and the repetition unit is the element alone, for every iteration number. -/
theorem C07_atomic_context_unit (sf body : Inp → M → R Val) (dflt : Val) (sk : Flag) (inh : Bool)
    (h : sk.eval inh = false) (idx : Nat) (i : Inp) (m : M) :
    repUnitP sf body dflt (skipCount sk inh) idx i m =
      match body i m with
      | .oof => .oof
      | .fail m' => .fail m'
      | .ok i' m' v => .ok i' m' (mkSkipped [] v) := by
  rw [skipCount_eq_zero h]; exact repUnitP_zero sf body dflt idx i m

/-- Iteration 3 of `"x"*` at `␠x`: with the flag `0` the unit is the element alone and fails on the
blank; with the flag `1` the blank is skipped first. -/
example : (repUnitP (parse c07G c07U 5 false c07G.skipped) (parse c07G c07U 5 true (.str ['x']))
      (defaultSkipVal c07G) (skipCount .zero true) 3 (c07In [' ', 'x']) (M.init (c07In [' ', 'x']))).isFail = true ∧
    (repUnitP (parse c07G c07U 5 false c07G.skipped) (parse c07G c07U 5 true (.str ['x']))
      (defaultSkipVal c07G) (skipCount .one true) 3 (c07In [' ', 'x']) (M.init (c07In [' ', 'x']))).endPos? = some 2 := by
  decide

/-- In an atomic context a sequence succeeds iff its elements succeed BACK TO BACK: each starts
exactly at the cursor and in the state its predecessor returned; every skip slot is empty. -/
theorem C07_atomic_context_no_skip_seq (g : NodeGrammar) (uni : Uni) (fuel : Nat) (inh : Bool) (sk : Flag)
    (items : List Node) (i : Inp) (m : M) (i' : Inp) (m' : M) (w : Val) (h : sk.eval inh = false) :
    parse g uni (fuel+1) inh (.seq sk items) i m = .ok i' m' w ↔
      ∃ vs, SeqB2B (parse g uni fuel inh) items i m vs i' m' ∧ w = .mk .seq (vs.map (mkSkipped [])) := by
  simp only [parse, skipCount_eq_zero h]
  cases items with
  | nil =>
    simp only []
    constructor
    · intro hh; injection hh with a b c; subst a b c
      exact ⟨[], SeqB2B.nil _ _, rfl⟩
    · rintro ⟨vs, hr, rfl⟩; cases hr; rfl
  | cons n0 ns =>
    simp only []
    rw [show (fun i m => skipLoop (parse g uni fuel false g.skipped) 0 i m []) = noSkip from rfl]
    cases h0 : parse g uni fuel inh n0 i m with
    | oof =>
      constructor
      · intro hh; cases hh
      · rintro ⟨vs, hr, _⟩; cases hr with | cons h1 _ => rw [h0] at h1; cases h1
    | fail mf =>
      constructor
      · intro hh; cases hh
      · rintro ⟨vs, hr, _⟩; cases hr with | cons h1 _ => rw [h0] at h1; cases h1
    | ok i1 m1 v0 =>
      simp only []
      constructor
      · intro hh
        split at hh
        · cases hh
        · cases hh
        · next i2 m2 vs hl =>
          injection hh with a b c; subst a b c
          obtain ⟨ws, hr, ho⟩ := (seqLoop_noSkip_ok_iff _ _ _ _ _ _ _ _).mp hl
          exact ⟨v0 :: ws, SeqB2B.cons h0 hr, by rw [ho]; simp⟩
      · rintro ⟨vs, hr, rfl⟩
        cases hr with
        | cons h1 h2 =>
          rw [h0] at h1; injection h1 with a b c; subst a b c
          rw [(seqLoop_noSkip_ok_iff (parse g uni fuel inh) ns i1 m1 [] i' m' _).mpr ⟨_, h2, rfl⟩]
          simp

/-- `b = @{ "x" ~ "y" ~ a }`: `xyxy` matches back to back; blanks are not skipped, neither in `b`
nor in the normal rule `a` reached from it. -/
example : (c07Run 2 ['x', 'y', 'x', 'y']).endPos? = some 4 ∧ (c07Run 2 ['x', ' ', 'y', 'x', 'y']).isFail = true ∧
    (c07Run 2 ['x', 'y', 'x', ' ', 'y']).isFail = true := by decide

/-- In an atomic context a sequence fails iff one element fails right where its predecessors, run
back to back, ended. -/
theorem C07_atomic_context_no_skip_seq_fail (g : NodeGrammar) (uni : Uni) (fuel : Nat) (inh : Bool) (sk : Flag)
    (items : List Node) (i : Inp) (m : M) (mf : M) (h : sk.eval inh = false) :
    parse g uni (fuel+1) inh (.seq sk items) i m = .fail mf ↔
      ∃ pre n post vs i1 m1, items = pre ++ n :: post ∧ SeqB2B (parse g uni fuel inh) pre i m vs i1 m1 ∧
        parse g uni fuel inh n i1 m1 = .fail mf := by
  simp only [parse, skipCount_eq_zero h]
  cases items with
  | nil =>
    simp only []
    constructor
    · intro hh; cases hh
    · rintro ⟨pre, n, post, vs, i1, m1, hh, _⟩; simp at hh
  | cons n0 ns =>
    simp only []
    rw [show (fun i m => skipLoop (parse g uni fuel false g.skipped) 0 i m []) = noSkip from rfl]
    cases h0 : parse g uni fuel inh n0 i m with
    | oof =>
      constructor
      · intro hh; cases hh
      · rintro ⟨pre, n, post, vs, i1, m1, hh, hr, hx⟩
        cases pre with
        | nil => simp at hh; obtain ⟨rfl, rfl⟩ := hh; cases hr; rw [h0] at hx; cases hx
        | cons p ps =>
          simp at hh; obtain ⟨rfl, rfl⟩ := hh
          cases hr with | cons h1 _ => rw [h0] at h1; cases h1
    | fail mf' =>
      constructor
      · intro hh; injection hh with hh; subst hh
        exact ⟨[], n0, ns, [], i, m, rfl, SeqB2B.nil _ _, h0⟩
      · rintro ⟨pre, n, post, vs, i1, m1, hh, hr, hx⟩
        cases pre with
        | nil => simp at hh; obtain ⟨rfl, rfl⟩ := hh; cases hr; rw [h0] at hx; rw [hx]
        | cons p ps =>
          simp at hh; obtain ⟨rfl, rfl⟩ := hh
          cases hr with | cons h1 _ => rw [h0] at h1; cases h1
    | ok i1 m1 v0 =>
      simp only []
      have key := seqLoop_noSkip_fail_iff (parse g uni fuel inh) ns i1 m1 [] mf
      constructor
      · intro hh
        have hl : seqLoop (parse g uni fuel inh) noSkip mkSkipped ns i1 m1 [] = .fail mf := by
          split at hh
          · cases hh
          · next mf' hl => injection hh with hh; subst hh; exact hl
          · cases hh
        obtain ⟨pre, n, post, vs, i2, m2, e, hr, hx⟩ := key.mp hl
        exact ⟨n0 :: pre, n, post, v0 :: vs, i2, m2, by rw [e]; rfl, SeqB2B.cons h0 hr, hx⟩
      · rintro ⟨pre, n, post, vs, i2, m2, hh, hr, hx⟩
        cases pre with
        | nil => simp at hh; obtain ⟨rfl, rfl⟩ := hh; cases hr; rw [h0] at hx; cases hx
        | cons p ps =>
          simp at hh; obtain ⟨rfl, rfl⟩ := hh
          cases hr with
          | cons h1 h2 =>
            rw [h0] at h1; injection h1 with a b c; subst a b c
            rw [key.mpr ⟨ps, n, post, _, i2, m2, rfl, h2, hx⟩]

example : (c07Node false (.seq .inh [.str ['x'], .str ['y']]) ['x', ' ', 'y']).isFail = true ∧
    (c07Node true (.seq .inh [.str ['x'], .str ['y']]) ['x', ' ', 'y']).endPos? = some 3 := by decide

/-- In an atomic context a repetition is a back-to-back run of its element: every iteration starts
exactly where the previous one ended, the skip slots are empty, and the loop stopped at `MAX` or
because the element failed at the very cursor returned. -/
theorem C07_atomic_context_no_skip_rep (g : NodeGrammar) (uni : Uni) (fuel : Nat) (inh : Bool) (sk : Flag)
    (min : Nat) (max : Option Nat) (x : Node) (i : Inp) (m : M) (i' : Inp) (m' : M) (w : Val)
    (h : sk.eval inh = false)
    (hp : parse g uni (fuel+1) inh (.rep sk min max x) i m = .ok i' m' w) :
    ∃ vs mL, B2B (parse g uni fuel inh x) i m vs i' mL ∧ w = .mk (.rep min max) (vs.map (mkSkipped [])) ∧
      m'.stk = mL.stk ∧ min ≤ vs.length ∧ (∀ mx, max = some mx → vs.length ≤ mx) ∧
      (max = some vs.length ∨ ∃ mf, parse g uni fuel inh x i' mL = .fail mf) := by
  obtain ⟨l, mL, hr, hs, rfl, hmin, hmx, hstop⟩ := parse_rep_run g uni fuel inh sk min max x i m i' m' w hp
  simp only [skipCount_eq_zero h] at hr hstop
  have hr' : RepRun noSkip (parse g uni fuel inh x) [] 0 i m l i' mL := hr
  obtain ⟨vs, hc, hv, hl⟩ := hr'.b2b
  refine ⟨vs, mL, hc, by rw [hv], hs, by omega, ?_, ?_⟩
  · intro mx hmax; rw [hl]; exact hmx mx hmax
  · rcases hstop with ⟨hmax, _⟩ | ⟨_, mf, hf, _⟩
    · left; rw [hl]; exact hmax
    · right
      rw [repUnitP_zero] at hf
      cases hb : parse g uni fuel inh x i' mL with
      | oof => rw [hb] at hf; cases hf
      | fail mf' => exact ⟨mf', rfl⟩
      | ok _ _ _ => rw [hb] at hf; cases hf

example : (c07Node false (.rep .inh 0 none (.str ['x'])) ['x', 'x', ' ', 'x']).endPos? = some 2 ∧
    (c07Node true (.rep .inh 0 none (.str ['x'])) ['x', 'x', ' ', 'x']).endPos? = some 4 := by decide

/-! ### (b) no skip before the first element / iteration 0 -/

/-- The first element of a sequence runs at the entry cursor in the entry state, whatever the flag;
its skip slot holds only `Skip::default()` values. -/
theorem C07_first_no_skip_seq (g : NodeGrammar) (uni : Uni) (fuel : Nat) (inh : Bool) (sk : Flag)
    (n0 : Node) (ns : List Node) (i : Inp) (m : M) (i' : Inp) (m' : M) (w : Val)
    (h : parse g uni (fuel+1) inh (.seq sk (n0 :: ns)) i m = .ok i' m' w) :
    ∃ i1 m1 v0 rest, parse g uni fuel inh n0 i m = .ok i1 m1 v0 ∧
      w = .mk .seq (mkSkipped (List.replicate (skipCount sk inh) (defaultSkipVal g)) v0 :: rest) := by
  simp only [parse] at h
  split at h
  · cases h
  · cases h
  · next i1 m1 v0 h0 =>
    split at h
    · cases h
    · cases h
    · injection h with a b c; subst a b c
      exact ⟨i1, m1, v0, _, h0, rfl⟩

/-- If the first element fails at the entry cursor the sequence fails with the state it left:
nothing was tried in front of it. -/
theorem C07_first_no_skip_seq_fail (g : NodeGrammar) (uni : Uni) (fuel : Nat) (inh : Bool) (sk : Flag)
    (n0 : Node) (ns : List Node) (i : Inp) (m mf : M)
    (h : parse g uni fuel inh n0 i m = .fail mf) :
    parse g uni (fuel+1) inh (.seq sk (n0 :: ns)) i m = .fail mf := by
  simp only [parse, h]

/-- `a = { "x" ~ "y" }` entered non-atomically: no skip in front of `"x"`. -/
example : (c07Run 1 [' ', 'x', 'y']).isFail = true ∧ (c07Run 1 ['x', ' ', 'y']).endPos? = some 3 := by decide

/-- Iteration 0 of a repetition does not involve the skip parser at all. -/
theorem C07_first_no_skip_unit (sf sf' body : Inp → M → R Val) (dflt : Val) (k : Nat) (i : Inp) (m : M) :
    repUnitP sf body dflt k 0 i m = repUnitP sf' body dflt k 0 i m := by
  rw [repUnitP_first, repUnitP_first]

/-- The first iteration of a successful repetition is the element run at the entry cursor in the
entry state. -/
theorem C07_first_no_skip_rep (g : NodeGrammar) (uni : Uni) (fuel : Nat) (inh : Bool) (sk : Flag)
    (min : Nat) (max : Option Nat) (x : Node) (i : Inp) (m : M) (i' : Inp) (m' : M) (v1 : Val) (rest : List Val)
    (h : parse g uni (fuel+1) inh (.rep sk min max x) i m = .ok i' m' (.mk (.rep min max) (v1 :: rest))) :
    ∃ i1 m1 v, parse g uni fuel inh x i m = .ok i1 m1 v ∧
      v1 = mkSkipped (List.replicate (skipCount sk inh) (defaultSkipVal g)) v := by
  obtain ⟨l, mL, hr, _, hw, _⟩ := parse_rep_run g uni fuel inh sk min max x i m i' m' _ h
  injection hw with _ hw
  cases l with
  | nil => simp at hw
  | cons it l =>
    simp only [List.map_cons, List.cons.injEq] at hw
    obtain ⟨_, h2, h3, m1, hb⟩ := hr.head_zero
    refine ⟨it.stop, m1, it.matched, hb, ?_⟩
    rw [hw.1, Iter.val, h3]

/-- `"x"*` with skipping on `x x`: per iteration (number of whitespace matches in the skip slot,
…): iteration 0 holds the default skip value (0 matches), iteration 1 one match. -/
example : (c07Node true (.rep .one 0 none (.str ['x'])) ['x', ' ', 'x']).val?.map
    (fun v => v.kids.map (fun k => k.kids.map (fun s => s.kids.length))) = some [[0, 0], [1, 0]] := by decide

/-- If the element fails at the entry cursor, the repetition returns the ENTRY cursor (or fails
when `MIN > 0`): nothing was skipped in front of iteration 0. -/
theorem C07_first_no_skip_rep_fail (g : NodeGrammar) (uni : Uni) (fuel : Nat) (inh : Bool) (sk : Flag)
    (min : Nat) (max : Option Nat) (x : Node) (i : Inp) (m mf : M) (hmax : max ≠ some 0)
    (h : parse g uni (fuel+1) inh x i m = .fail mf) :
    parse g uni (fuel+2) inh (.rep sk min max x) i m =
      if 0 < min then .fail { mf with stk := m.stk }
      else .ok i { mf with stk := m.stk } (.mk (.rep min max) []) := by
  simp only [parse, repLoop, hmax, if_false, repUnitP_first]
  rw [show parse g uni (fuel+1) inh x i m = .fail mf from h]
  simp only [restoreOnNone]
  by_cases hm : 0 < min <;> simp [hm, repDone_eq_of_length]

example : (c07Node true (.rep .one 0 none (.str ['x'])) [' ', 'x']).endPos? = some 0 := by decide

/-! ### (c) no skip at the start or end of a rule -/

/-- A rule reference has the verdict, the end cursor and the stack of its body run from the SAME
cursor and state under `f.eval inh` (`noTrk` drops the tracker, `forget` the value): nothing is
consumed before the body starts or after it ends. -/
theorem C07_rule_edges (g : NodeGrammar) (uni : Uni) (fuel : Nat) (inh : Bool) (r : RuleId) (f : Flag)
    (d : RuleDef) (hd : g.rule? r = some d) (i : Inp) (m : M) :
    (parse g uni (fuel+1) inh (.ref r f) i m).noTrk.forget =
      (parse g uni fuel (f.eval inh) d.body i m).noTrk.forget :=
  ref_run_eq g uni fuel inh r f d hd i m

/-- The `.rule` value of a successful reference spans exactly `[s, e]` with `s` the entry cursor and
`e` the cursor at which the body, started at the entry cursor, ended. -/
theorem C07_rule_span (g : NodeGrammar) (uni : Uni) (fuel : Nat) (inh : Bool) (r : RuleId) (f : Flag)
    (i : Inp) (m : M) (i' : Inp) (m' : M) (v : Val)
    (h : parse g uni (fuel+1) inh (.ref r f) i m = .ok i' m' v) :
    ∃ d kids mB vB, g.rule? r = some d ∧ v = .mk (.rule r d.emit d.boxed i.pos i'.pos) kids ∧
      parse g uni fuel (f.eval inh) d.body i m = .ok i' mB vB ∧ mB.stk = m'.stk := by
  obtain ⟨d, kids, hd, hv⟩ := ref_value g uni _ inh r f i m i' m' v h
  have := ref_run_eq g uni fuel inh r f d hd i m
  rw [h] at this
  cases hb : parse g uni fuel (f.eval inh) d.body i m with
  | oof => rw [hb] at this; cases this
  | fail _ => rw [hb] at this; cases this
  | ok i1 mB vB =>
    rw [hb] at this
    simp only [Res.noTrk_ok, Res.forget_ok, Res.ok.injEq] at this
    obtain ⟨rfl, hs, _⟩ := this
    exact ⟨d, kids, mB, vB, hd, hv, hb, hs.symm⟩

/-- `"x" ~ a` under skipping on `x xy ` : the token of `a` is `[2, 4]` — it neither starts at the
blank before it nor extends over the blank after it. -/
example : ((c07Node true (.seq .one [.str ['x'], .ref 1 .one]) ['x', ' ', 'x', 'y', ' ']).val?.map
    (fun v => (v.kids.map (fun k => (k.kids.map Val.tag).getLast?)))) =
      some [some .str, some (.rule 1 .both true 2 4)] := by decide

/-! ### (d) exactly one skip between elements / before later iterations -/

/-- When the flag evaluates to `true`: the elements run one after the other (`SeqRunAll`, cursors
`Linked`), and before every element but the first exactly ONE run of the skip type is made, at the
cursor where the previous element stopped; the value it returns is the only skip value of that
element's `.skipped 1` slot. -/
theorem C07_between_seq (g : NodeGrammar) (uni : Uni) (fuel : Nat) (inh : Bool) (sk : Flag)
    (items : List Node) (i : Inp) (m : M) (i' : Inp) (m' : M) (w : Val) (h : sk.eval inh = true)
    (hp : parse g uni (fuel+1) inh (.seq sk items) i m = .ok i' m' w) :
    ∃ l, SeqRunAll (parse g uni fuel inh) (oneSkip (parse g uni fuel false g.skipped))
          [defaultSkipVal g] items i m l i' m' ∧
      w = .mk .seq (l.map Iter.val) ∧ Linked i l i' ∧
      ∀ (j : Nat) (n : Node) (it prev : Iter), items[j+1]? = some n → l[j+1]? = some it → l[j]? = some prev →
        it.start = prev.stop ∧
        ∃ mj mj1 mj2 a, parse g uni fuel false g.skipped it.start mj = .ok it.mid mj1 a ∧
          it.skips = [a] ∧ it.val = .mk (.skipped 1) [a, it.matched] ∧
          parse g uni fuel inh n it.mid mj1 = .ok it.stop mj2 it.matched := by
  obtain ⟨l, hr, hw⟩ := (parse_seq_run_iff g uni fuel inh sk items i m i' m' w).mp hp
  simp only [skipCount_eq_one h, skipRuns_one] at hr
  have hr' : SeqRunAll (parse g uni fuel inh) (oneSkip (parse g uni fuel false g.skipped))
      [defaultSkipVal g] items i m l i' m' := hr
  refine ⟨l, hr', hw, hr'.linked, ?_⟩
  intro j n it prev hn hit hprev
  refine ⟨hr'.linked.next j prev it hprev hit, ?_⟩
  obtain ⟨mj, mj1, mj2, hrun, hcase⟩ := hr'.getElem (j+1) n it hn hit
  rcases hcase with ⟨h0, _⟩ | ⟨_, hskip⟩
  · omega
  · obtain ⟨a, ha, hs⟩ := oneSkip_ok hskip
    exact ⟨mj, mj1, mj2, a, ha, hs, by simp [Iter.val, mkSkipped, hs], hrun⟩

/-- `a = { "x" ~ "y" }` on `x  y`: one run of the skip type (it eats both blanks) between the two
elements. -/
example : (c07Run 1 ['x', ' ', ' ', 'y']).endPos? = some 4 := by decide

/-- The same for repetitions: before every iteration but iteration 0 exactly one run of the skip
type, at the cursor where the previous iteration stopped. -/
theorem C07_between_rep (g : NodeGrammar) (uni : Uni) (fuel : Nat) (inh : Bool) (sk : Flag)
    (min : Nat) (max : Option Nat) (x : Node) (i : Inp) (m : M) (i' : Inp) (m' : M) (w : Val)
    (h : sk.eval inh = true)
    (hp : parse g uni (fuel+1) inh (.rep sk min max x) i m = .ok i' m' w) :
    ∃ l mL, RepRun (oneSkip (parse g uni fuel false g.skipped)) (parse g uni fuel inh x)
          [defaultSkipVal g] 0 i m l i' mL ∧
      w = .mk (.rep min max) (l.map Iter.val) ∧ Linked i l i' ∧
      ∀ (j : Nat) (it prev : Iter), l[j+1]? = some it → l[j]? = some prev →
        it.start = prev.stop ∧
        ∃ mj mj1 mj2 a, parse g uni fuel false g.skipped it.start mj = .ok it.mid mj1 a ∧
          it.skips = [a] ∧ it.val = .mk (.skipped 1) [a, it.matched] ∧
          parse g uni fuel inh x it.mid mj1 = .ok it.stop mj2 it.matched := by
  obtain ⟨l, mL, hr, _, hw, _⟩ := parse_rep_run g uni fuel inh sk min max x i m i' m' w hp
  simp only [skipCount_eq_one h, skipRuns_one] at hr
  have hr' : RepRun (oneSkip (parse g uni fuel false g.skipped)) (parse g uni fuel inh x)
      [defaultSkipVal g] 0 i m l i' mL := hr
  refine ⟨l, mL, hr', hw, hr'.linked, ?_⟩
  intro j it prev hit hprev
  refine ⟨hr'.linked.next j prev it hprev hit, ?_⟩
  obtain ⟨mj, mj1, mj2, hrun, hcase⟩ := hr'.skips (j+1) it hit
  rcases hcase with ⟨h0, _⟩ | ⟨_, hskip⟩
  · omega
  · obtain ⟨a, ha, hs⟩ := oneSkip_ok hskip
    exact ⟨mj, mj1, mj2, a, ha, hs, by simp [Iter.val, mkSkipped, hs], hrun⟩

/-- `n = !{ "x"+ }` on `x x  x`: three iterations, a skip before the second and the third. -/
example : (c07Run 4 ['x', ' ', 'x', ' ', ' ', 'x']).endPos? = some 6 := by decide

/-! ### (e) a skip before a failing iteration is given back -/

/-- The cursor a repetition returns is the entry cursor (no iteration matched) or the cursor at
which the LAST SUCCESSFUL iteration's element ended, and the stack is the one it left — also when
the loop stopped because the next unit failed after its skip had consumed input (second disjunct
of the last component: the skip ran from `i'` to `i1`, the element failed there, `i'` is returned). -/
theorem C07_giveback (g : NodeGrammar) (uni : Uni) (fuel : Nat) (inh : Bool) (sk : Flag)
    (min : Nat) (max : Option Nat) (x : Node) (i : Inp) (m : M) (i' : Inp) (m' : M) (w : Val)
    (hp : parse g uni (fuel+1) inh (.rep sk min max x) i m = .ok i' m' w) :
    ∃ l mL, RepRun (skipRuns (parse g uni fuel false g.skipped) (skipCount sk inh)) (parse g uni fuel inh x)
          (List.replicate (skipCount sk inh) (defaultSkipVal g)) 0 i m l i' mL ∧
      w = .mk (.rep min max) (l.map Iter.val) ∧ m'.stk = mL.stk ∧
      ((l = [] ∧ i' = i ∧ mL = m) ∨
       (∃ it mj1 mj2, l.getLast? = some it ∧ it.stop = i' ∧
          parse g uni fuel inh x it.mid mj1 = .ok i' mj2 it.matched)) ∧
      (max = some l.length ∨
       (∃ mf, l.length = 0 ∧ parse g uni fuel inh x i' mL = .fail mf) ∨
       (∃ mf, l.length ≠ 0 ∧
          skipRuns (parse g uni fuel false g.skipped) (skipCount sk inh) i' mL = .fail mf) ∨
       (∃ i1 m1 sks mf, l.length ≠ 0 ∧
          skipRuns (parse g uni fuel false g.skipped) (skipCount sk inh) i' mL = .ok i1 m1 sks ∧
          parse g uni fuel inh x i1 m1 = .fail mf)) := by
  obtain ⟨l, mL, hr, hs, hw, _, _, hstop⟩ := parse_rep_run g uni fuel inh sk min max x i m i' m' w hp
  refine ⟨l, mL, hr, hw, hs, ?_, ?_⟩
  · cases hl : l.getLast? with
    | none =>
      left
      have : l = [] := by simpa using hl
      subst this
      cases hr
      exact ⟨rfl, rfl, rfl⟩
    | some it =>
      right
      have hstop' := hr.linked.last it hl
      have hmem : it ∈ l := List.mem_of_getLast? hl
      obtain ⟨j, hj⟩ := List.getElem?_of_mem hmem
      obtain ⟨_, mj1, mj2, hrun, _⟩ := hr.skips j it hj
      exact ⟨it, mj1, mj2, rfl, hstop', by rw [← hstop']; exact hrun⟩
  · rcases hstop with ⟨hmax, _⟩ | ⟨_, mf, hf, _⟩
    · exact Or.inl hmax
    · right
      rcases repUnitP_fail_cases hf with ⟨h0, hb⟩ | ⟨h0, hsf | ⟨i1, m1, sks, hsk, hb⟩⟩
      · exact Or.inl ⟨mf, h0, hb⟩
      · exact Or.inr (Or.inl ⟨mf, h0, hsf⟩)
      · exact Or.inr (Or.inr ⟨i1, m1, sks, mf, h0, hsk, hb⟩)

/-- `n = !{ "x"+ }` on `x x y`: the blank before `y` is skipped, `"x"` fails on `y`, the cursor
returned is 3 (after the second `x`), not 4. -/
example : (c07Run 4 ['x', ' ', 'x', ' ', 'y']).endPos? = some 3 := by decide

/-! ### (f) the trailing skip of a full parse -/

/-- `try_parse` makes one trailing run of the skip type, after the rule, iff `impl_parse!` took its
non-`true` arm; with the `true` arm the cursor tested for end of input is the rule's own end. -/
theorem C07_trailing (g : NodeGrammar) (uni : Uni) (n : Nat) (r : RuleId) (d : RuleDef) (i i2 : Inp) (m2 : M)
    (v : Val) (hd : g.rule? r = some d) (h : tryParse g uni n r i = .ok i2 m2 v) :
    (noTrailingSkip r d = true → ∃ m1, tryParsePartial g uni n r i = .ok i2 m1 v) ∧
    (noTrailingSkip r d = false → ∃ i1 m1 m1' sv, tryParsePartial g uni n r i = .ok i1 m1 v ∧
        parse g uni n false g.skipped i1 m1 = .ok i2 m1' sv) := by
  obtain ⟨d', i1, m1, hd', hp, hc, _⟩ := (C04_iff g uni n r i i2 m2 v).mp h
  rw [hd] at hd'; injection hd' with hd'; subst hd'
  constructor
  · intro hk
    simp only [hk, if_true] at hc
    obtain ⟨rfl, _⟩ := hc
    exact ⟨m1, hp⟩
  · intro hk
    simp only [hk, Bool.false_eq_true, if_false] at hc
    obtain ⟨m1', sv, hs, _⟩ := hc
    exact ⟨i1, m1, m1', sv, hp, hs⟩

/-- Under the generator the trailing skip is made for every rule but atomic (`@`) and
compound-atomic (`$`) ones. -/
theorem C07_trailing_gen (pg : PGrammar) (k : Nat) (d : RuleDef) (pr : PRule)
    (hd : (gen pg).rule? (k+1) = some d) (hr : pg[k]? = some pr) :
    noTrailingSkip (k+1) d = false ↔ pr.kind ≠ .atomic ∧ pr.kind ≠ .compoundAtomic := by
  rw [← Bool.not_eq_true, C04_kind pg k d pr hd hr]
  exact not_or

example : ∀ d, (gen c07PG).rule? 1 = some d → noTrailingSkip 1 d = false :=
  fun d hd => (C07_trailing_gen c07PG 0 d c07PG[0] hd rfl).mpr ⟨by decide, by decide⟩

/-- `a` (normal) accepts `x y␠`, `b` (`@`) rejects `xyxy␠`, `c` (`$`) rejects `xyx␠`. -/
example : (tryParse c07G c07U 12 1 (c07In ['x', ' ', 'y', ' '])).endPos? = some 4 ∧
    (tryParse c07G c07U 12 2 (c07In ['x', 'y', 'x', 'y', ' '])).isFail = true ∧
    (tryParse c07G c07U 12 2 (c07In ['x', 'y', 'x', 'y'])).endPos? = some 4 ∧
    (tryParse c07G c07U 12 3 (c07In ['x', 'y', 'x', ' '])).isFail = true := by decide

/-! ### which flag is in force: the generator (S5) -/

/-- In the body of a generated rule every `SKIP` argument of a sequence / repetition and every
`INHERITED` argument of a reference to a grammar rule is the rule's own `#skip` token; the only
other reference the generator writes is the built-in `EOI<'i, 1>` (rule 0, whose body `.eoi` has no
skip site). -/
theorem C07_flag (pg : PGrammar) (k : Nat) (d : RuleDef) (pr : PRule)
    (hd : (gen pg).rule? (k+1) = some d) (hr : pg[k]? = some pr) :
    Node.flagsAll (fun f => f = atomFlag (kindAtomicity pr.kind))
      (fun r f => (r = 0 ∧ f = .one) ∨ (r ≠ 0 ∧ f = atomFlag (kindAtomicity pr.kind))) d.body := by
  rw [gen_rule_body pg k d pr hd hr]
  show Node.flagsAll _ _ (genExpr pg (atomFlag (kindAtomicity pr.kind)) pr.expr)
  refine genExpr_flags pg _ _ _ ?_ (fun k => ?_) ?_ pr.expr
  · rfl
  · exact Or.inr ⟨Nat.succ_ne_zero k, rfl⟩
  · exact Or.inl ⟨rfl, rfl⟩

/-- `@` and `$` rules: every flag is the literal `0`. -/
theorem C07_flag_atomic (pg : PGrammar) (k : Nat) (d : RuleDef) (pr : PRule)
    (hd : (gen pg).rule? (k+1) = some d) (hr : pg[k]? = some pr)
    (hk : pr.kind = .atomic ∨ pr.kind = .compoundAtomic) :
    Node.flagsAll (fun f => f = .zero) (fun r f => (r = 0 ∧ f = .one) ∨ (r ≠ 0 ∧ f = .zero)) d.body := by
  have := C07_flag pg k d pr hd hr
  rcases hk with hk | hk <;> simpa [hk, kindAtomicity, atomFlag] using this

/-- `!` rules: every flag is the literal `1`. -/
theorem C07_flag_nonAtomic (pg : PGrammar) (k : Nat) (d : RuleDef) (pr : PRule)
    (hd : (gen pg).rule? (k+1) = some d) (hr : pg[k]? = some pr) (hk : pr.kind = .nonAtomic) :
    Node.flagsAll (fun f => f = .one) (fun r f => (r = 0 ∧ f = .one) ∨ (r ≠ 0 ∧ f = .one)) d.body := by
  have := C07_flag pg k d pr hd hr
  simpa [hk, kindAtomicity, atomFlag] using this

/-- Normal and silent rules: every flag is `INHERITED`. -/
theorem C07_flag_inherited (pg : PGrammar) (k : Nat) (d : RuleDef) (pr : PRule)
    (hd : (gen pg).rule? (k+1) = some d) (hr : pg[k]? = some pr)
    (hk : pr.kind = .normal ∨ pr.kind = .silent) :
    Node.flagsAll (fun f => f = .inh) (fun r f => (r = 0 ∧ f = .one) ∨ (r ≠ 0 ∧ f = .inh)) d.body := by
  have := C07_flag pg k d pr hd hr
  rcases hk with hk | hk <;> simpa [hk, kindAtomicity, atomFlag] using this

example : ((gen c07PG).rule? 2).isSome = true ∧ ∀ d, (gen c07PG).rule? 2 = some d →
    Node.flagsAll (fun f => f = .zero) (fun r f => (r = 0 ∧ f = .one) ∨ (r ≠ 0 ∧ f = .zero)) d.body :=
  ⟨rfl, fun d hd => C07_flag_atomic c07PG 1 d c07PG[1] hd rfl (Or.inl rfl)⟩

example : ((gen c07PG).rule? 4).isSome = true ∧ ∀ d, (gen c07PG).rule? 4 = some d →
    Node.flagsAll (fun f => f = .one) (fun r f => (r = 0 ∧ f = .one) ∨ (r ≠ 0 ∧ f = .one)) d.body :=
  ⟨rfl, fun d hd => C07_flag_nonAtomic c07PG 3 d c07PG[3] hd rfl rfl⟩

example : ((gen c07PG).rule? 5).isSome = true ∧ ∀ d, (gen c07PG).rule? 5 = some d →
    Node.flagsAll (fun f => f = .inh) (fun r f => (r = 0 ∧ f = .one) ∨ (r ≠ 0 ∧ f = .inh)) d.body :=
  ⟨rfl, fun d hd => C07_flag_inherited c07PG 4 d c07PG[4] hd rfl (Or.inr rfl)⟩

/-- The inherited atomicity enters `parse` ONLY through the flags written in the expression: two
contexts under which every flag of `node` evaluates alike give the same run (all results, all
cursors and states). -/
theorem C07_inh_only_through_flags (g : NodeGrammar) (uni : Uni) (a b : Bool) (n : Nat) (node : Node)
    (h : Node.flagsAll (fun f => f.eval a = f.eval b) (fun _ f => f.eval a = f.eval b) node) :
    parse g uni n a node = parse g uni n b node :=
  parse_inh_congr g uni a b n node h

example : parse c07G c07U 9 true (.seq .zero [.str ['x'], .ref 1 .zero]) =
    parse c07G c07U 9 false (.seq .zero [.str ['x'], .ref 1 .zero]) :=
  C07_inh_only_through_flags _ _ _ _ _ _ (by simp [Node.flagsAll, Node.flagsAllList, Flag.eval])

/-- Entering rule `k+1` of kind `K` through `.ref (k+1) f` under `inh`, the body runs under
`inh' = f.eval inh` (`C07_rule_edges`), and there every skip site and every nested reference to a
grammar rule evaluates its flag to `kindFlagVal K inh'`: `false` for `@`/`$`, `true` for `!`, `inh'`
for normal/silent rules (the `EOI` reference evaluates to `true`; its body has no skip site). -/
theorem C07_inherit (pg : PGrammar) (k : Nat) (d : RuleDef) (pr : PRule)
    (hd : (gen pg).rule? (k+1) = some d) (hr : pg[k]? = some pr) (inh' : Bool) :
    Node.flagsAll (fun f => f.eval inh' = kindFlagVal pr.kind inh')
      (fun r f => (r = 0 ∧ f = .one) ∨ (r ≠ 0 ∧ f.eval inh' = kindFlagVal pr.kind inh')) d.body := by
  rw [gen_rule_body pg k d pr hd hr]
  show Node.flagsAll _ _ (genExpr pg (atomFlag (kindAtomicity pr.kind)) pr.expr)
  refine genExpr_flags pg _ _ _ (atomFlag_eval _ _) (fun k => ?_) ?_ pr.expr
  · exact Or.inr ⟨Nat.succ_ne_zero k, atomFlag_eval _ _⟩
  · exact Or.inl ⟨rfl, rfl⟩

/-- Atomic and compound-atomic rules switch skipping off whatever context they are entered from:
their body runs exactly as under `inh = false`. -/
theorem C07_atomic_off (pg : PGrammar) (uni : Uni) (n : Nat) (k : Nat) (d : RuleDef) (pr : PRule)
    (hd : (gen pg).rule? (k+1) = some d) (hr : pg[k]? = some pr)
    (hk : pr.kind = .atomic ∨ pr.kind = .compoundAtomic) (inh : Bool) :
    parse (gen pg) uni n inh d.body = parse (gen pg) uni n false d.body := by
  apply parse_inh_congr
  rw [gen_rule_body pg k d pr hd hr]
  refine genExpr_flags pg _ _ _ ?_ (fun _ => ?_) rfl pr.expr <;>
    rcases hk with hk | hk <;> simp [hk, kindAtomicity, atomFlag, Flag.eval]

/-- A non-atomic rule switches skipping back on whatever context it is entered from. -/
theorem C07_nonAtomic_on (pg : PGrammar) (uni : Uni) (n : Nat) (k : Nat) (d : RuleDef) (pr : PRule)
    (hd : (gen pg).rule? (k+1) = some d) (hr : pg[k]? = some pr) (hk : pr.kind = .nonAtomic) (inh : Bool) :
    parse (gen pg) uni n inh d.body = parse (gen pg) uni n true d.body := by
  apply parse_inh_congr
  rw [gen_rule_body pg k d pr hd hr]
  refine genExpr_flags pg _ _ _ ?_ (fun _ => ?_) rfl pr.expr <;>
    simp [hk, kindAtomicity, atomFlag, Flag.eval]

/-- Normal and silent rules hand the caller's value on: to their own skip sites and, through
`INHERITED`, to every rule they reference (`f.eval inh' = inh'` at each reference). -/
theorem C07_inherited_passes (pg : PGrammar) (k : Nat) (d : RuleDef) (pr : PRule)
    (hd : (gen pg).rule? (k+1) = some d) (hr : pg[k]? = some pr)
    (hk : pr.kind = .normal ∨ pr.kind = .silent) (inh' : Bool) :
    Node.flagsAll (fun f => f.eval inh' = inh')
      (fun r f => (r = 0 ∧ f = .one) ∨ (r ≠ 0 ∧ f.eval inh' = inh')) d.body := by
  have := C07_inherit pg k d pr hd hr inh'
  rcases hk with hk | hk <;> simpa [hk, kindFlagVal] using this

example : ∀ d, (gen c07PG).rule? 2 = some d → ∀ inh,
    parse (gen c07PG) c07U 9 inh d.body = parse (gen c07PG) c07U 9 false d.body :=
  fun d hd inh => C07_atomic_off c07PG c07U 9 1 d c07PG[1] hd rfl (Or.inl rfl) inh

example : ∀ d, (gen c07PG).rule? 4 = some d → ∀ inh,
    parse (gen c07PG) c07U 9 inh d.body = parse (gen c07PG) c07U 9 true d.body :=
  fun d hd inh => C07_nonAtomic_on c07PG c07U 9 3 d c07PG[3] hd rfl rfl inh

example : ∀ d, (gen c07PG).rule? 1 = some d → ∀ inh',
    Node.flagsAll (fun f => f.eval inh' = inh') (fun r f => (r = 0 ∧ f = .one) ∨ (r ≠ 0 ∧ f.eval inh' = inh')) d.body :=
  fun d hd inh' => C07_inherited_passes c07PG 0 d c07PG[0] hd rfl (Or.inl rfl) inh'

/-- `b = @{ "x" ~ "y" ~ a }` entered from a non-atomic context: same run as from an atomic one;
`n = !{ "x"+ }` entered from an atomic context (inside `c = ${ a ~ n }`): skipping is on again,
while `a` inside `c` does not skip. -/
example : (c07Run 3 ['x', 'y', 'x', ' ', 'x']).endPos? = some 5 ∧ (c07Run 3 ['x', ' ', 'y', 'x']).isFail = true := by
  decide

/-! ### reference paths -/

/-- Along any reference path `r0 → r1 → … → rk` of a generated module with rule kinds
`K0 … Kk`, entered under `inh`: every `SKIP` argument in the body of `rk` (and every `INHERITED`
argument of a reference to a grammar rule there) evaluates to `flagAlong inh [K0, …, Kk]`. -/
theorem C07_inherit_chain (pg : PGrammar) :
    ∀ {inh v : Bool} {rs : List RuleId} {ks : List RuleKind}, InhPath (gen pg) inh rs v →
      KindsOf pg rs ks →
      ∃ rl dl, rs.getLast? = some rl ∧ (gen pg).rule? rl = some dl ∧
        Node.flagsAll (fun f => f.eval v = flagAlong inh ks)
          (fun r f => (r = 0 ∧ f = .one) ∨ (r ≠ 0 ∧ f.eval v = flagAlong inh ks)) dl.body := by
  intro inh v rs ks hpath
  induction hpath generalizing ks with
  | last inh r =>
    intro hk
    cases hk with
    | cons h1 h2 =>
      cases h2
      obtain ⟨k, pr, rfl, hr, rfl⟩ := h1
      obtain ⟨d, hd⟩ : ∃ d, (gen pg).rule? (k+1) = some d := by
        simp [NodeGrammar.rule?, gen, hr]
      refine ⟨k+1, d, rfl, hd, ?_⟩
      simpa [flagAlong] using C07_inherit pg k d pr hd hr inh
  | @step inh v r r' rest d f hd hmem _ ih =>
    intro hk
    cases hk with
    | @cons _ K _ ks' h1 h2 =>
      obtain ⟨k, pr, rfl, hr, rfl⟩ := h1
      have hq := Node.flagsAll_refs d.body (C07_inherit pg k d pr hd hr inh) (r', f) hmem
      have hr'0 : r' ≠ 0 := by
        cases h2 with
        | cons h3 _ => obtain ⟨k', _, rfl, _⟩ := h3; exact Nat.succ_ne_zero k'
      have hf : f.eval inh = kindFlagVal pr.kind inh := by
        rcases hq with ⟨h0, _⟩ | ⟨_, hf⟩
        · exact absurd h0 hr'0
        · exact hf
      obtain ⟨rl, dl, hl, hdl, hfl⟩ := ih h2
      refine ⟨rl, dl, by simpa using hl, hdl, ?_⟩
      simpa [flagAlong, hf] using hfl

/-- The step-by-step flag is the flag of the last non-normal, non-silent kind on the path. -/
theorem C07_pathFlag_last (ks : List RuleKind) : flagAlong true ks = pathFlag ks := by
  have key : ∀ (ks : List RuleKind) (b : Bool), flagAlong b ks =
      match ks.reverse.find? (fun K => K != .normal && K != .silent) with
      | some .nonAtomic => true
      | some _ => false
      | none => b := by
    intro ks
    induction ks with
    | nil => intro b; rfl
    | cons K ks ih =>
      intro b
      simp only [flagAlong, List.foldl_cons] at ih ⊢
      rw [ih, List.reverse_cons, List.find?_append]
      cases hfind : ks.reverse.find? (fun K => K != .normal && K != .silent) with
      | some K' => cases K' <;> rfl
      | none => cases K <;> simp [kindFlagVal]
  exact key ks true

/-- From an entry point (`R::try_parse*`: `.ref r0 .one` under `true`, so the body of `r0` runs
under `true`): the flag in force inside the last rule of a reference path is determined by the last
`@` / `$` / `!` rule on the path, `true` if there is none. -/
theorem C07_inherit_chain_entry (pg : PGrammar) {v : Bool} {rs : List RuleId} {ks : List RuleKind}
    (hpath : InhPath (gen pg) (Flag.one.eval true) rs v) (hk : KindsOf pg rs ks) :
    ∃ rl dl, rs.getLast? = some rl ∧ (gen pg).rule? rl = some dl ∧
      Node.flagsAll (fun f => f.eval v = pathFlag ks)
        (fun r f => (r = 0 ∧ f = .one) ∨ (r ≠ 0 ∧ f.eval v = pathFlag ks)) dl.body := by
  have := C07_inherit_chain pg hpath hk
  rwa [show Flag.one.eval true = true from rfl, C07_pathFlag_last] at this

example : pathFlag [.normal, .atomic, .silent, .normal] = false ∧
    pathFlag [.atomic, .normal, .nonAtomic, .silent] = true ∧
    pathFlag [.normal, .silent] = true ∧ pathFlag [.nonAtomic, .compoundAtomic] = false := by decide

/-- The path `c → a` (`$` then normal) of `c07PG`: inside `a`, reached from `c`, skipping is off. -/
theorem c07_path : InhPath (gen c07PG) true [3, 1] false ∧ KindsOf c07PG [3, 1] [.compoundAtomic, .normal] := by
  rw [c07_gen]
  refine ⟨InhPath.step (d := c07G.rules[3]) (f := .zero) rfl (by simp [c07G, Node.refs, Node.refsList])
    (InhPath.last _ _), ?_⟩
  exact .cons ⟨2, _, rfl, rfl, rfl⟩ (.cons ⟨0, _, rfl, rfl, rfl⟩ .nil)

example : ∃ rl dl, [3, 1].getLast? = some rl ∧ (gen c07PG).rule? rl = some dl ∧
    Node.flagsAll (fun f => f.eval false = false) (fun r f => (r = 0 ∧ f = .one) ∨ (r ≠ 0 ∧ f.eval false = false))
      dl.body :=
  C07_inherit_chain_entry c07PG c07_path.1 c07_path.2

/-! ### WHITESPACE / COMMENT during implicit skipping -/

/-- Inside `generics::Skipped` there is no skip site and every reference carries the literal `0`:
the WHITESPACE / COMMENT bodies are entered under `false` during implicit skipping. -/
theorem C07_skip_rules_atomic (pg : PGrammar) :
    Node.flagsAll (fun _ => False) (fun _ f => f = .zero) (gen pg).skipped :=
  genSkipped_flags pg

/-- … hence a WHITESPACE / COMMENT rule of kind normal, silent, `@` or `$` runs, during implicit
skipping, with EVERY flag of its body `false` (no skipping inside it, none inside the normal and
silent rules it references); for kind `!` the flags are `true` (see
`C07_counterexample_ws_nonatomic`). -/
theorem C07_skip_rules_atomic_run (pg : PGrammar) (k : Nat) (d : RuleDef) (pr : PRule)
    (hd : (gen pg).rule? (k+1) = some d) (hr : pg[k]? = some pr) (inh : Bool) :
    Node.flagsAll (fun f => f.eval (Flag.zero.eval inh) = (pr.kind == .nonAtomic))
      (fun r f => (r = 0 ∧ f = .one) ∨ (r ≠ 0 ∧ f.eval (Flag.zero.eval inh) = (pr.kind == .nonAtomic)))
      d.body := by
  have := C07_inherit pg k d pr hd hr (Flag.zero.eval inh)
  have e : kindFlagVal pr.kind (Flag.zero.eval inh) = (pr.kind == .nonAtomic) := by
    cases pr.kind <;> rfl
  rwa [e] at this

example : Node.flagsAll (fun _ => False) (fun _ f => f = .zero) (gen c07PG).skipped :=
  C07_skip_rules_atomic c07PG

/-- The silent WHITESPACE of `c07PG` (rule 6) during implicit skipping: every flag `false`. -/
example : ∀ d, (gen c07PG).rule? 6 = some d → ∀ inh,
    Node.flagsAll (fun f => f.eval (Flag.zero.eval inh) = false)
      (fun r f => (r = 0 ∧ f = .one) ∨ (r ≠ 0 ∧ f.eval (Flag.zero.eval inh) = false)) d.body :=
  fun d hd inh => C07_skip_rules_atomic_run c07PG 5 d c07PG[5] hd rfl inh

/-! ### what does not hold: F-WS -/

/-- `WHITESPACE = { "a" ~ "b" }   r = { "x" ~ WHITESPACE }`. -/
def c07WsPG : PGrammar :=
  [{ name := "WHITESPACE", kind := .normal, expr := .seq (.str ['a']) (.str ['b']) },
   { name := "r", kind := .normal, expr := .seq (.str ['x']) (.ident "WHITESPACE") }]

def c07WsG : NodeGrammar :=
  { rules := [eoiDef,
      { name := "WHITESPACE", atom := .inherited, emit := .both, boxed := true,
        body := .seq .inh [.str ['a'], .str ['b']] },
      { name := "r", atom := .inherited, emit := .both, boxed := true,
        body := .seq .inh [.str ['x'], .ref 1 .inh] }],
    skipped := .atomicRepeat (.ref 1 .zero) }

theorem c07Ws_gen : gen c07WsPG = c07WsG := by
  simp [gen, genRule, genExpr, genSeqSpine, genSkipped, PGrammar.indexOf, PGrammar.indexOf.go,
    c07WsPG, c07WsG, kindAtomicity, kindEmission, atomFlag]

def c07Xaabb : List Char := ['x', 'a', 'a', 'b', 'b']

/-- F-WS (a): a normal-kind WHITESPACE referenced EXPLICITLY from a non-atomic rule runs with the
caller's atomicity: on `xaabb` the typed parser matches `"a"`, skips `ab` as whitespace INSIDE
WHITESPACE, matches `"b"` and accepts at 5 (also as a full parse); pest, and the reference
semantics, match WHITESPACE atomically and reject. -/
theorem C07_counterexample_ws_explicit :
    (tryParsePartial (gen c07WsPG) c07U 12 2 (c07In c07Xaabb)).endPos? = some 5 ∧
    (tryParse (gen c07WsPG) c07U 12 2 (c07In c07Xaabb)).endPos? = some 5 ∧
    specPartial c07WsPG c07U 12 "r" (c07In c07Xaabb) = .fail := by
  rw [c07Ws_gen]
  refine ⟨by decide, by decide, ?_⟩
  simp [specPartial, spec, PGrammar.find?, PGrammar.indexOf, PGrammar.indexOf.go, c07WsPG, bodyNa,
    c07In, c07Xaabb, Inp.matchString, Inp.adv, specSkip, specRepLoop, specSkipUnit, PGrammar.defines,
    atomicBudget]

/-- `WHITESPACE = !{ " " ~ "-" }   r = { "x" ~ "y" }`. -/
def c07WsNaPG : PGrammar :=
  [{ name := "WHITESPACE", kind := .nonAtomic, expr := .seq (.str [' ']) (.str ['-']) },
   { name := "r", kind := .normal, expr := .seq (.str ['x']) (.str ['y']) }]

def c07WsNaG : NodeGrammar :=
  { rules := [eoiDef,
      { name := "WHITESPACE", atom := .nonAtomic, emit := .both, boxed := true,
        body := .seq .one [.str [' '], .str ['-']] },
      { name := "r", atom := .inherited, emit := .both, boxed := true,
        body := .seq .inh [.str ['x'], .str ['y']] }],
    skipped := .atomicRepeat (.ref 1 .zero) }

theorem c07WsNa_gen : gen c07WsNaPG = c07WsNaG := by
  simp [gen, genRule, genExpr, genSeqSpine, genSkipped, PGrammar.indexOf, PGrammar.indexOf.go,
    c07WsNaPG, c07WsNaG, kindAtomicity, kindEmission, atomFlag]

def c07XssddY : List Char := ['x', ' ', ' ', '-', '-', 'y']

/-- F-WS, `!` variant: a WHITESPACE rule declared non-atomic runs with skipping ON also during
IMPLICIT skipping (its body's flags are the literal `1`): on `x␠␠--y` the skip between `"x"` and
`"y"` matches `␠ [␠-] -`, the typed parser accepts at 6; the reference semantics (pest forces
Atomic inside WHITESPACE) rejects. -/
theorem C07_counterexample_ws_nonatomic :
    (tryParsePartial (gen c07WsNaPG) c07U 12 2 (c07In c07XssddY)).endPos? = some 6 ∧
    specPartial c07WsNaPG c07U 12 "r" (c07In c07XssddY) = .fail := by
  rw [c07WsNa_gen]
  refine ⟨by decide, ?_⟩
  simp [specPartial, spec, PGrammar.find?, PGrammar.indexOf, PGrammar.indexOf.go, c07WsNaPG, bodyNa,
    c07In, c07XssddY, Inp.matchString, Inp.adv, specSkip, specRepLoop, specSkipUnit, PGrammar.defines,
    atomicBudget]

end PestTyped
