/-
Props.C20 — Generation options change representation only, and generation is deterministic.

"For a given grammar the derive emits the same code on every run, and switching box_only_if_needed,
emit_rule_reference, emit_tagged_node_reference, do_not_emit_span, no_warnings or pest_optimizer
changes neither which inputs each rule accepts, nor the offsets consumed, nor the pair tree; the
options only add accessors or change how content is stored.  Recursive grammars still compile when
boxing is reduced."

Model: `Model/GenOpts.lean` (`Config`, `genWith`, the mirrored `collect_reachability` loop).
Theorems
* `C20_det`                 — `genWith` is a function of (options, ASTs).  The implementation's freedom
                              (hash seeds, separate processes) is exercised by the harness.
* `C20_structure`, `C20_structure_gen`, `C20_default` — options other than `pest_optimizer` change nothing
                              but `boxed`; every configuration is `gen` of the AST it walks, up to `boxed`.
* `C20_box_transparent_check/parse/tokens`, `C20_box_transparent` — `check`, `parse`, `tokens`, `tryParse*`,
                              `tryCheck*` do not read `boxed` (it is only copied into `.rule` tags): verdict,
                              cursor, stack, tracker and token tree are identical.
* `C20_options_transparent` — the two together, for every pair of configurations with the same
                              `pest_optimizer`, every grammar, rule, input form and fuel.
* `C20_boxed_field`, `C20_ref_edges`, `C20_edges` — the `boxed` field of the generated rules is `isBoxed`;
                              every rule type mentioned in a generated body is an edge of the analysed
                              graph; the edges are the identifiers of the body plus the implicit skip rules.
* `C20_cycles_boxed`        — every cycle of the rule-reference graph (edges of `collect_used_rule`,
                              implicit skip edges included) contains a boxed rule, under every
                              configuration.  Proved for the loop exactly as mirrored (at most `rules.len()`
                              rounds + early `break`): both exits are covered, nothing is assumed.
* `C20_not_boxed_acyclic`   — equivalent form: no cycle runs through un-boxed rules only.
* `C20_notboxed_may_lie_on_cycle` — the stronger reading "an un-boxed rule lies on no cycle" is false
                              (graph.rs's own unit test: `b` stays un-boxed on the cycle a → b → c → a);
                              harmless, one boxed rule per cycle is what finiteness of the types needs.
* `pest_optimizer` (second half of the file): pest_meta's optimizer is external and NOT semantics
  preserving on the typed parser — `C20_counterexample_lister`, `C20_counterexample_reponce_skip`,
  `C20_counterexample_minmax_inverted` (findings F-OPT-1, F-OPT-3, F-OPT-4).  Proved for the passes that are: `C20_pass_restore_root`,
  `C20_pass_rotate_concatenate_sim/node` (simulation, any context), and `C20_raw_eq_opt_partial(')`
  whose hypothesis `GRelStar (gen raw) (gen optimized)` is what excludes the findings
  (`C20_lister_not_GRelStar`, `C20_reponce_not_GRelStar`).
"Recursive grammars still compile" is validated by rustc on the corpus (checks/c20.py), not proved.
-/
import PestTyped.Lemmas.GenOptsLemmas
import PestTyped.Lemmas.CheckParse
namespace PestTyped

/-! ## determinism -/

/-- The generated module is a function of the options and of pest_meta's two ASTs. -/
theorem C20_det (cfg cfg' : Config) (o o' r r' : PGrammar) (hc : cfg = cfg') (ho : o = o') (hr : r = r') :
    genWith cfg o r = genWith cfg' o' r' := by
  subst hc ho hr; rfl

/-! ## options other than `pest_optimizer` -/

/-- The two configurations differ at most in `box_only_if_needed`, `emit_rule_reference`,
`emit_tagged_node_reference`, `do_not_emit_span`, `no_warnings`, `simulate_pair_api`,
`truncate_getter_at_node_tag`. -/
def Config.SameAst (cfg cfg' : Config) : Prop := cfg.pest_optimizer = cfg'.pest_optimizer

theorem C20_structure (cfg cfg' : Config) (h : cfg.SameAst cfg') (optimized raw : PGrammar) :
    (genWith cfg optimized raw).eraseBoxed = (genWith cfg' optimized raw).eraseBoxed := by
  unfold genWith pickAst
  rw [genOn_eraseBoxed, genOn_eraseBoxed, h]

/-- In particular every configuration yields `Model.Gen.gen` of the AST it walks, up to `boxed`. -/
theorem C20_structure_gen (cfg : Config) (optimized raw : PGrammar) :
    (genWith cfg optimized raw).eraseBoxed = (gen (pickAst cfg optimized raw)).eraseBoxed :=
  genOn_eraseBoxed cfg _

/-- The default configuration is exactly `gen` of the optimized AST. -/
theorem C20_default (optimized raw : PGrammar) : genWith {} optimized raw = gen optimized :=
  genOn_default optimized

/-! ## `boxed` is never read -/

/-- What can be observed of a parse result: verdict, cursor, stack and tracker … -/
abbrev Res.state {α} (r : R α) : R Unit := r.forget

/-- … and the token tree (`Pairs::for_self_or_each_child`) of the value. -/
def Res.toks (G : NodeGrammar) : R Val → Option (List Token)
  | .ok _ _ v => some (tokens G v)
  | _ => none

theorem C20_box_transparent_check (G : NodeGrammar) (uni : Uni) (n : Nat) (inh : Bool) (node : Node)
    (i : Inp) (m : M) : check G.eraseBoxed uni n inh node i m = check G uni n inh node i m :=
  check_eraseBoxed G uni n inh node i m

/-- `parse G … = parse (erase G) …` up to `Val.eraseBoxed`. -/
theorem C20_box_transparent_parse (G : NodeGrammar) (uni : Uni) (n : Nat) (inh : Bool) (node : Node)
    (i : Inp) (m : M) :
    parse G.eraseBoxed uni n inh node i m = (parse G uni n inh node i m).mapVal Val.eraseBoxed :=
  parse_eraseBoxed G uni n inh node i m

theorem C20_box_transparent_tokens (G : NodeGrammar) (v : Val) :
    tokens G.eraseBoxed v.eraseBoxed = tokens G v :=
  tokens_eraseBoxed G v

theorem Res.mapVal_forget {α β} (φ : α → β) (r : R α) : (r.mapVal φ).forget = r.forget := by
  cases r <;> rfl

theorem Res.toks_erase (G : NodeGrammar) (r : R Val) :
    Res.toks G.eraseBoxed (r.mapVal Val.eraseBoxed) = Res.toks G r := by
  cases r with
  | oof => rfl
  | fail m => rfl
  | ok i m v => simp only [Res.mapVal_ok, Res.toks, tokens_eraseBoxed]

theorem tryParse_eraseBoxed (G : NodeGrammar) (uni : Uni) (n : Nat) (r : RuleId) (i : Inp) :
    tryParse G.eraseBoxed uni n r i = (tryParse G uni n r i).mapVal Val.eraseBoxed := by
  unfold tryParse
  rw [NodeGrammar.eraseBoxed_rule?]
  cases G.rule? r with
  | none => rfl
  | some d =>
    simp only [Option.map_some, parse_eraseBoxed, NodeGrammar.eraseBoxed_skipped]
    cases parse G uni n true (.ref r .one) i (M.init i) with
    | oof => rfl
    | fail m => rfl
    | ok i' m v =>
      simp only [Res.mapVal_ok]
      have hn : noTrailingSkip r d.eraseBoxed = noTrailingSkip r d := rfl
      rw [hn]
      split
      · split <;> rfl
      · cases parse G uni n false G.skipped i' m with
        | oof => rfl
        | fail m' => rfl
        | ok i'' m' sv => simp only [Res.mapVal_ok]; split <;> rfl

theorem tryCheck_eraseBoxed (G : NodeGrammar) (uni : Uni) (n : Nat) (r : RuleId) (i : Inp) :
    tryCheck G.eraseBoxed uni n r i = tryCheck G uni n r i := by
  unfold tryCheck
  rw [NodeGrammar.eraseBoxed_rule?]
  cases G.rule? r with
  | none => rfl
  | some d =>
    simp only [Option.map_some, check_eraseBoxed, NodeGrammar.eraseBoxed_skipped]
    have hn : noTrailingSkip r d.eraseBoxed = noTrailingSkip r d := rfl
    rw [hn]

/-- Two generated modules that differ only in `boxed` are indistinguishable by every entry point:
same verdict, cursor (offsets consumed), stack, tracker (hence the same error) and same token tree. -/
theorem C20_box_transparent (G G' : NodeGrammar) (h : G.eraseBoxed = G'.eraseBoxed) (uni : Uni) (n : Nat) :
    (∀ inh node i m, check G uni n inh node i m = check G' uni n inh node i m) ∧
    (∀ inh node i m, (parse G uni n inh node i m).mapVal Val.eraseBoxed =
                     (parse G' uni n inh node i m).mapVal Val.eraseBoxed) ∧
    (∀ inh node i m, (parse G uni n inh node i m).state = (parse G' uni n inh node i m).state ∧
                     Res.toks G (parse G uni n inh node i m) = Res.toks G' (parse G' uni n inh node i m)) ∧
    (∀ r i, (tryParsePartial G uni n r i).state = (tryParsePartial G' uni n r i).state ∧
            Res.toks G (tryParsePartial G uni n r i) = Res.toks G' (tryParsePartial G' uni n r i)) ∧
    (∀ r i, (tryParse G uni n r i).state = (tryParse G' uni n r i).state ∧
            Res.toks G (tryParse G uni n r i) = Res.toks G' (tryParse G' uni n r i)) ∧
    (∀ r i, tryCheckPartial G uni n r i = tryCheckPartial G' uni n r i) ∧
    (∀ r i, tryCheck G uni n r i = tryCheck G' uni n r i) := by
  have hp : ∀ inh node i m, (parse G uni n inh node i m).mapVal Val.eraseBoxed =
      (parse G' uni n inh node i m).mapVal Val.eraseBoxed := by
    intro inh node i m
    rw [← parse_eraseBoxed, ← parse_eraseBoxed, h]
  have hobs : ∀ (a b : R Val), a.mapVal Val.eraseBoxed = b.mapVal Val.eraseBoxed →
      a.state = b.state ∧ Res.toks G a = Res.toks G' b := by
    intro a b hab
    constructor
    · show a.forget = b.forget
      rw [← Res.mapVal_forget Val.eraseBoxed a, hab, Res.mapVal_forget]
    · rw [← Res.toks_erase G a, ← Res.toks_erase G' b, hab, h]
  refine ⟨?_, hp, fun inh node i m => hobs _ _ (hp inh node i m), ?_, ?_, ?_, ?_⟩
  · intro inh node i m
    rw [← check_eraseBoxed G, ← check_eraseBoxed G', h]
  · intro r i
    exact hobs _ _ (hp true (.ref r .one) i (M.init i))
  · intro r i
    apply hobs
    rw [← tryParse_eraseBoxed, ← tryParse_eraseBoxed, h]
  · intro r i
    unfold tryCheckPartial
    rw [← check_eraseBoxed G, ← check_eraseBoxed G', h]
  · intro r i
    rw [← tryCheck_eraseBoxed G, ← tryCheck_eraseBoxed G', h]

/-- **Options are transparent**: two configurations that agree on `pest_optimizer` generate parsers
with the same verdicts, consumed offsets, stacks, trackers and token trees, for every grammar, rule,
input (all three input forms) and fuel. -/
theorem C20_options_transparent (cfg cfg' : Config) (h : cfg.SameAst cfg') (optimized raw : PGrammar)
    (uni : Uni) (n : Nat) (r : RuleId) (i : Inp) :
    let G := genWith cfg optimized raw
    let G' := genWith cfg' optimized raw
    (tryParsePartial G uni n r i).state = (tryParsePartial G' uni n r i).state ∧
    Res.toks G (tryParsePartial G uni n r i) = Res.toks G' (tryParsePartial G' uni n r i) ∧
    (tryParse G uni n r i).state = (tryParse G' uni n r i).state ∧
    Res.toks G (tryParse G uni n r i) = Res.toks G' (tryParse G' uni n r i) ∧
    tryCheckPartial G uni n r i = tryCheckPartial G' uni n r i ∧
    tryCheck G uni n r i = tryCheck G' uni n r i := by
  intro G G'
  obtain ⟨_, _, _, h4, h5, h6, h7⟩ :=
    C20_box_transparent G G' (C20_structure cfg cfg' h optimized raw) uni n
  exact ⟨(h4 r i).1, (h4 r i).2, (h5 r i).1, (h5 r i).2, h6 r i, h7 r i⟩

/-! ## reduced boxing still breaks every cycle -/

/-- The rule-reference graph the generator analyses: `a → b` when some rule named `a` makes
`collect_used_rule` insert `b` (identifiers of the body; `WHITESPACE` / `COMMENT` for `Normal`
rules when the grammar defines them). -/
def refEdge (g : PGrammar) (a b : String) : Prop :=
  ∃ ru, ru ∈ g ∧ ru.name = a ∧ b ∈ usedNames ru (Implicit.of g)

theorem refEdge_iff_TEdge (g : PGrammar) (a b : String) : refEdge g a b ↔ TEdge (usedTable g) a b := by
  unfold refEdge TEdge usedTable
  constructor
  · rintro ⟨ru, hru, hn, hb⟩
    exact ⟨usedNames ru (Implicit.of g), List.mem_map.mpr ⟨ru, hru, by rw [hn]⟩, hb⟩
  · rintro ⟨used, hmem, hb⟩
    obtain ⟨ru, hru, heq⟩ := List.mem_map.mp hmem
    have h1 : ru.name = a := congrArg Prod.fst heq
    have h2 : usedNames ru (Implicit.of g) = used := congrArg Prod.snd heq
    exact ⟨ru, hru, h1, h2 ▸ hb⟩

theorem IsPath.imp {α : Type} {E E' : α → α → Prop} (h : ∀ a b, E a b → E' a b) :
    ∀ (l : List α) (a b : α), IsPath E a l b → IsPath E' a l b := by
  intro l
  induction l with
  | nil => intro a b hp; exact h a b hp
  | cons x l ih => intro a b hp; exact ⟨h a x hp.1, ih x b hp.2⟩

/-- The `$boxed` argument of the `k`-th rule of the generated module. -/
theorem C20_boxed_field (cfg : Config) (g : PGrammar) (k : Nat) (ru : PRule) (h : g[k]? = some ru) :
    ((genOn cfg g).rule? (k+1)).map (·.boxed) = some (isBoxed cfg g ru.name) := by
  simp only [genOn, NodeGrammar.rule?, List.getElem?_cons_succ, List.getElem?_map, h, Option.map_some,
    genRuleWith]

/-- The analysed graph covers the generated types: every rule struct mentioned in the type
expression generated for rule `ru` is `EOI` (rule 0, a leaf) or the struct of a rule named by an
identifier of `ru`'s body, i.e. the target of an edge `ru.name → name`; and the skip type mentioned by
every sequence / repetition refers to `WHITESPACE` / `COMMENT` only. -/
theorem C20_ref_edges (g : PGrammar) (ru : PRule) (hru : ru ∈ g) (k : RuleId)
    (hk : k ∈ (genRule g ru).body.ruleRefs) :
    k = 0 ∨ ∃ name, refEdge g ru.name name ∧ g.indexOf name = some (k - 1) ∧ 0 < k := by
  rcases (genExpr_refs g (atomFlag (kindAtomicity ru.kind)) ru.expr).1 k hk with h0 | ⟨name, hn, hi, hp⟩
  · exact Or.inl h0
  · refine Or.inr ⟨name, ⟨ru, hru, rfl, ?_⟩, hi, hp⟩
    unfold usedNames
    exact List.mem_append.mpr (Or.inr hn)

/-- No cycle of the reference graph runs through un-boxed rules only. -/
theorem C20_not_boxed_acyclic (g : PGrammar) (r : String) (l : List String)
    (hr : r ∈ notBoxed g) (hl : ∀ x, x ∈ l → x ∈ notBoxed g) : ¬ IsPath (refEdge g) r l r := by
  intro hp
  exact collectReachability_acyclic (usedTable g) r l hr hl
    (IsPath.imp (fun a b => (refEdge_iff_TEdge g a b).mp) l r r hp)

/-- **Every cycle contains a boxed rule** (so the emitted struct types are finite), whatever the
options: `r → l₁ → … → lₖ → r` in the reference graph ⇒ one of `r, l₁, …, lₖ` has `boxed = true`. -/
theorem C20_cycles_boxed (cfg : Config) (g : PGrammar) (r : String) (l : List String)
    (hp : IsPath (refEdge g) r l r) : ∃ x, x ∈ r :: l ∧ isBoxed cfg g x = true := by
  apply Classical.byContradiction
  intro hno
  have hall : ∀ x, x ∈ r :: l → x ∈ notBoxed g := by
    intro x hx
    apply Classical.byContradiction
    intro hnb
    apply hno
    refine ⟨x, hx, ?_⟩
    unfold isBoxed
    have : (notBoxed g).contains x = false := by
      cases hc : (notBoxed g).contains x
      · rfl
      · exact absurd (List.contains_iff_mem.mp hc) hnb
    rw [this]; simp only [Bool.not_false, Bool.or_true]
  exact C20_not_boxed_acyclic g r l (hall r List.mem_cons_self)
    (fun x hx => hall x (List.mem_cons_of_mem _ hx)) hp

/-- The membership reading of the edges, for the record: identifiers of the body plus the implicit
skip rules for `Normal` rules. -/
theorem C20_edges (g : PGrammar) (a b : String) :
    refEdge g a b ↔ ∃ ru, ru ∈ g ∧ ru.name = a ∧
      (b ∈ usedIdents ru.expr ∨
       (ru.kind = .normal ∧ ((b = "COMMENT" ∧ (Implicit.of g).comment = true) ∨
                             (b = "WHITESPACE" ∧ (Implicit.of g).whitespace = true)))) := by
  unfold refEdge usedNames
  constructor
  · rintro ⟨ru, hru, hn, hb⟩
    refine ⟨ru, hru, hn, ?_⟩
    simp only [List.mem_append] at hb
    rcases hb with (hb | hb) | hb
    · split at hb
      · next hc => exact Or.inr ⟨hc.1, Or.inl ⟨List.mem_singleton.mp hb, hc.2⟩⟩
      · cases hb
    · split at hb
      · next hc => exact Or.inr ⟨hc.1, Or.inr ⟨List.mem_singleton.mp hb, hc.2⟩⟩
      · cases hb
    · exact Or.inl hb
  · rintro ⟨ru, hru, hn, hb⟩
    refine ⟨ru, hru, hn, ?_⟩
    simp only [List.mem_append]
    rcases hb with hb | ⟨hk, ⟨hb, hc⟩ | ⟨hb, hw⟩⟩
    · exact Or.inr hb
    · exact Or.inl (Or.inl (by rw [if_pos ⟨hk, hc⟩, hb]; exact List.mem_singleton.mpr rfl))
    · exact Or.inl (Or.inr (by rw [if_pos ⟨hk, hw⟩, hb]; exact List.mem_singleton.mpr rfl))

/-! ### non-vacuity: graph.rs's unit test `inter_reference`
`a = { "a" ~ b* }  b = { "b" ~ c? }  c = { a+ }` -/

def c20Cycle : PGrammar := [
  { name := "a", kind := .normal, expr := .seq (.str ['a']) (.rep (.ident "b")) },
  { name := "b", kind := .normal, expr := .seq (.str ['b']) (.opt (.ident "c")) },
  { name := "c", kind := .normal, expr := .repOnce (.ident "a") }]

/-- The loop leaves exactly `b` (the Rust test expects `{"b": {"a", "c"}}`). -/
example : collectReachability (usedTable c20Cycle) = [("b", ["c", "a"])] := by decide
example : notBoxed c20Cycle = ["b"] := by decide
example : (genOn { box_only_if_needed := true } c20Cycle).rules.map (·.boxed) = [false, true, false, true] := by
  decide
example : (genOn {} c20Cycle).rules.map (·.boxed) = [false, true, true, true] := by decide
/-- A real cycle, to which `C20_cycles_boxed` applies. -/
example : IsPath (refEdge c20Cycle) "a" ["b", "c"] "a" := by
  refine ⟨⟨c20Cycle[0], by simp [c20Cycle], rfl, by decide⟩, ⟨c20Cycle[1], by simp [c20Cycle], rfl, by decide⟩,
    ⟨c20Cycle[2], by simp [c20Cycle], rfl, by decide⟩⟩

/-- The stronger reading "an un-boxed rule lies on no cycle" does NOT hold of the loop: `b` is left
un-boxed although it lies on `b → c → a → b`.  (Harmless: `a` and `c` are boxed.) -/
theorem C20_notboxed_may_lie_on_cycle :
    isBoxed { box_only_if_needed := true } c20Cycle "b" = false ∧
    IsPath (refEdge c20Cycle) "b" ["c", "a"] "b" := by
  refine ⟨by decide, ⟨c20Cycle[1], by simp [c20Cycle], rfl, by decide⟩, ⟨c20Cycle[2], by simp [c20Cycle], rfl, by decide⟩,
    ⟨c20Cycle[0], by simp [c20Cycle], rfl, by decide⟩⟩

/-- Implicit skip edges: `r = { "x" }  WHITESPACE = { " " ~ r? }`: the cycle `r → WHITESPACE → r` exists
only through the implicit edge; both rules end up boxed. -/
def c20Skip : PGrammar := [
  { name := "r", kind := .normal, expr := .str ['x'] },
  { name := "WHITESPACE", kind := .normal, expr := .seq (.str [' ']) (.opt (.ident "r")) }]
example : usedNames c20Skip[0] (Implicit.of c20Skip) = ["WHITESPACE"] := by decide
example : notBoxed c20Skip = [] := by decide

/-- A grammar without recursion: nothing is boxed when boxing is reduced. -/
def c20Flat : PGrammar := [
  { name := "x", kind := .normal, expr := .seq (.ident "y") (.ident "ANY") },
  { name := "y", kind := .atomic, expr := .str ['y'] }]
example : (genOn { box_only_if_needed := true } c20Flat).rules.map (·.boxed) = [false, false, false] := by decide

/-! ### non-vacuity of the transparency theorems -/

def c20Inp (s : List Char) : Inp := { start := 0, pos := 0, rest := s, after := [] }

def Res.endPos! {σ α} : Res σ α → Option Nat
  | .ok i _ _ => some i.pos
  | _ => none

/-- The module generated for `c20Cycle`, with the storage decision left symbolic. -/
def c20CycleNG (cfg : Config) : NodeGrammar :=
  { rules := [eoiDef,
      { name := "a", atom := .inherited, emit := .both, boxed := isBoxed cfg c20Cycle "a",
        body := .seq .inh [.str ['a'], .rep .inh 0 none (.ref 2 .inh)] },
      { name := "b", atom := .inherited, emit := .both, boxed := isBoxed cfg c20Cycle "b",
        body := .seq .inh [.str ['b'], .opt (.ref 3 .inh)] },
      { name := "c", atom := .inherited, emit := .both, boxed := isBoxed cfg c20Cycle "c",
        body := .rep .inh 1 none (.ref 1 .inh) }],
    skipped := .empty }

theorem c20Cycle_gen (cfg : Config) : genOn cfg c20Cycle = c20CycleNG cfg := by
  simp [genOn, genRuleWith, genRule, genExpr, genSeqSpine, genSkipped, PGrammar.indexOf, PGrammar.indexOf.go,
    c20Cycle, c20CycleNG, kindAtomicity, kindEmission, atomFlag]

mutual
/-- The `boxed` fields of the rule nodes of a value, in pre-order. -/
def Val.boxedFlags : Val → List Bool
  | .mk (.rule _ _ b _ _) kids => b :: Val.boxedFlagsList kids
  | .mk _ kids => Val.boxedFlagsList kids
def Val.boxedFlagsList : List Val → List Bool
  | [] => []
  | v :: vs => v.boxedFlags ++ Val.boxedFlagsList vs
end

def Res.boxedFlags : R Val → List Bool
  | .ok _ _ v => v.boxedFlags
  | _ => []

/-- The reduced-boxing module really differs from the default one … -/
example : (genOn { box_only_if_needed := true } c20Cycle).rules.map (·.boxed) ≠
    (genOn {} c20Cycle).rules.map (·.boxed) := by decide
/-- … both parse `abab` with rule `a` up to offset 4, building five rule nodes (a, b, c, a, b) whose
storage flags differ, and nothing else differs (`C20_options_transparent`). -/
example : (tryParsePartial (genOn { box_only_if_needed := true } c20Cycle) (fun _ _ => false) 30 1
    (c20Inp ['a', 'b', 'a', 'b'])).endPos! = some 4 := by rw [c20Cycle_gen]; decide
example : (tryParsePartial (genOn {} c20Cycle) (fun _ _ => false) 30 1
    (c20Inp ['a', 'b', 'a', 'b'])).endPos! = some 4 := by rw [c20Cycle_gen]; decide
example : (tryParsePartial (genOn { box_only_if_needed := true } c20Cycle) (fun _ _ => false) 30 1
    (c20Inp ['a', 'b', 'a', 'b'])).boxedFlags = [true, false, true, true, false] := by
  rw [c20Cycle_gen]; decide
example : (tryParsePartial (genOn {} c20Cycle) (fun _ _ => false) 30 1
    (c20Inp ['a', 'b', 'a', 'b'])).boxedFlags = [true, true, true, true, true] := by
  rw [c20Cycle_gen]; decide

/-! ## `pest_optimizer`: pest_meta's optimizer is not semantics preserving on the typed parser

`pest_optimizer = false` makes the generator walk pest_meta's un-optimized AST (`e+`, `e{n,m}` map to
`RepOnce` / `RepMinMax` …, `Model/Gen.lean`); the default walks `optimizer::optimize`'s output.  The
optimizer is external to /repo; two of its passes change what the *typed* parser accepts. -/

/-- F-OPT-1.  `r = { ("a" ~ "b")* ~ "a" }`: un-optimized AST (as `dump_ast` prints it) … -/
def c20ListerRaw : PGrammar :=
  [{ name := "r", kind := .normal, expr := .seq (.rep (.seq (.str ['a']) (.str ['b']))) (.str ['a']) }]
/-- … and after `lister::list`: `"a" ~ ("b" ~ "a")*`. -/
def c20ListerOpt : PGrammar :=
  [{ name := "r", kind := .normal, expr := .seq (.str ['a']) (.rep (.seq (.str ['b']) (.str ['a']))) }]

def c20ListerRawNG : NodeGrammar :=
  { rules := [eoiDef,
      { name := "r", atom := .inherited, emit := .both, boxed := true,
        body := .seq .inh [.rep .inh 0 none (.seq .inh [.str ['a'], .str ['b']]), .str ['a']] }],
    skipped := .empty }
def c20ListerOptNG : NodeGrammar :=
  { rules := [eoiDef,
      { name := "r", atom := .inherited, emit := .both, boxed := true,
        body := .seq .inh [.str ['a'], .rep .inh 0 none (.seq .inh [.str ['b'], .str ['a']])] }],
    skipped := .empty }

theorem c20Lister_gen_raw : gen c20ListerRaw = c20ListerRawNG := by
  simp [gen, genRule, genExpr, genSeqSpine, genSkipped, PGrammar.indexOf, PGrammar.indexOf.go,
    c20ListerRaw, c20ListerRawNG, kindAtomicity, kindEmission, atomFlag]
theorem c20Lister_gen_opt : gen c20ListerOpt = c20ListerOptNG := by
  simp [gen, genRule, genExpr, genSeqSpine, genSkipped, PGrammar.indexOf, PGrammar.indexOf.go,
    c20ListerOpt, c20ListerOptNG, kindAtomicity, kindEmission, atomFlag]

def Res.verdict {σ α} : Res σ α → Option (Option Nat)
  | .oof => none
  | .fail _ => some none
  | .ok i _ _ => some (some i.pos)

/-- On `ab` the default parser (optimizer on) accepts one character, the `pest_optimizer = false`
parser fails: the `list` pass moved the trailing `"a"` in front of the repetition. -/
theorem C20_counterexample_lister :
    (tryParsePartial (genWith {} c20ListerOpt c20ListerRaw) (fun _ _ => false) 20 1 (c20Inp ['a', 'b'])).verdict
      = some (some 1) ∧
    (tryParsePartial (genWith { pest_optimizer := false } c20ListerOpt c20ListerRaw) (fun _ _ => false) 20 1
      (c20Inp ['a', 'b'])).verdict = some none := by
  have h1 : genWith {} c20ListerOpt c20ListerRaw = c20ListerOptNG := by
    rw [C20_default, c20Lister_gen_opt]
  have h2 : genWith { pest_optimizer := false } c20ListerOpt c20ListerRaw = c20ListerRawNG := by
    have : genOn { pest_optimizer := false } c20ListerRaw = gen c20ListerRaw := by
      simp only [genOn, gen]; congr 1
    show genOn _ c20ListerRaw = _
    rw [this, c20Lister_gen_raw]
  rw [h1, h2]
  decide

/-- F-OPT-3.  `r0 = { ('a'..'b')+ }  WHITESPACE = @{ " " }`: un-optimized AST … -/
def c20OnceRaw : PGrammar :=
  [{ name := "r0", kind := .normal, expr := .repOnce (.range 'a' 'b') },
   { name := "WHITESPACE", kind := .atomic, expr := .str [' '] }]
/-- … and after `unroller::unroll`: `'a'..'b' ~ ('a'..'b')*`. -/
def c20OnceOpt : PGrammar :=
  [{ name := "r0", kind := .normal, expr := .seq (.range 'a' 'b') (.rep (.range 'a' 'b')) },
   { name := "WHITESPACE", kind := .atomic, expr := .str [' '] }]

def c20OnceRawNG : NodeGrammar :=
  { rules := [eoiDef,
      { name := "r0", atom := .inherited, emit := .both, boxed := true,
        body := .rep .inh 1 none (.range 'a' 'b') },
      { name := "WHITESPACE", atom := .atomic, emit := .span, boxed := true, body := .str [' '] }],
    skipped := .atomicRepeat (.ref 2 .zero) }
def c20OnceOptNG : NodeGrammar :=
  { rules := [eoiDef,
      { name := "r0", atom := .inherited, emit := .both, boxed := true,
        body := .seq .inh [.range 'a' 'b', .rep .inh 0 none (.range 'a' 'b')] },
      { name := "WHITESPACE", atom := .atomic, emit := .span, boxed := true, body := .str [' '] }],
    skipped := .atomicRepeat (.ref 2 .zero) }

theorem c20Once_gen_raw : gen c20OnceRaw = c20OnceRawNG := by
  simp [gen, genRule, genExpr, genSkipped, PGrammar.indexOf, PGrammar.indexOf.go,
    c20OnceRaw, c20OnceRawNG, kindAtomicity, kindEmission, atomFlag]
theorem c20Once_gen_opt : gen c20OnceOpt = c20OnceOptNG := by
  simp [gen, genRule, genExpr, genSeqSpine, genSkipped, PGrammar.indexOf, PGrammar.indexOf.go,
    c20OnceOpt, c20OnceOptNG, kindAtomicity, kindEmission, atomFlag]

/-- On `a␠` the default parser consumes 2 bytes (the sequence `e ~ e*` keeps the skip in front of the
empty `e*`), the `pest_optimizer = false` parser 1 (`RepOnce` gives the skip before a failing
iteration back). -/
theorem C20_counterexample_reponce_skip :
    (tryParsePartial (genWith {} c20OnceOpt c20OnceRaw) (fun _ _ => false) 20 1 (c20Inp ['a', ' '])).verdict
      = some (some 2) ∧
    (tryParsePartial (genWith { pest_optimizer := false } c20OnceOpt c20OnceRaw) (fun _ _ => false) 20 1
      (c20Inp ['a', ' '])).verdict = some (some 1) := by
  have h1 : genWith {} c20OnceOpt c20OnceRaw = c20OnceOptNG := by
    rw [C20_default, c20Once_gen_opt]
  have h2 : genWith { pest_optimizer := false } c20OnceOpt c20OnceRaw = c20OnceRawNG := by
    have : genOn { pest_optimizer := false } c20OnceRaw = gen c20OnceRaw := by
      simp only [genOn, gen]; congr 1
    show genOn _ c20OnceRaw = _
    rw [this, c20Once_gen_raw]
  rw [h1, h2]
  decide


/-- F-OPT-4 (found while building this check).  `r2 = { "a"{3,1} }` — pest_meta accepts a counted
repetition with MIN > MAX; un-optimized AST … -/
def c20InvRaw : PGrammar := [{ name := "r2", kind := .normal, expr := .repMinMax (.str ['a']) 3 1 }]
/-- … and after `unroller::unroll`, which emits one copy of `e` per `i ∈ 1..=MAX` (mandatory while
`i ≤ MIN`): exactly MAX copies, here just `"a"`. -/
def c20InvOpt : PGrammar := [{ name := "r2", kind := .normal, expr := .str ['a'] }]

def c20InvRawNG : NodeGrammar :=
  { rules := [eoiDef,
      { name := "r2", atom := .inherited, emit := .both, boxed := true, body := .rep .inh 3 (some 1) (.str ['a']) }],
    skipped := .empty }
def c20InvOptNG : NodeGrammar :=
  { rules := [eoiDef,
      { name := "r2", atom := .inherited, emit := .both, boxed := true, body := .str ['a'] }],
    skipped := .empty }

theorem c20Inv_gen_raw : gen c20InvRaw = c20InvRawNG := by
  simp [gen, genRule, genExpr, genSkipped, PGrammar.indexOf, PGrammar.indexOf.go,
    c20InvRaw, c20InvRawNG, kindAtomicity, kindEmission, atomFlag]
theorem c20Inv_gen_opt : gen c20InvOpt = c20InvOptNG := by
  simp [gen, genRule, genExpr, genSkipped, PGrammar.indexOf, PGrammar.indexOf.go,
    c20InvOpt, c20InvOptNG, kindAtomicity, kindEmission, atomFlag]

/-- On `a` the default parser accepts one character (pest's meaning of `e{3,1}` is "exactly one `e`"),
the `pest_optimizer = false` parser fails (`RepMinMax<_, 3, 1>` can never reach MIN; property C19). -/
theorem C20_counterexample_minmax_inverted :
    (tryParsePartial (genWith {} c20InvOpt c20InvRaw) (fun _ _ => false) 20 1 (c20Inp ['a'])).verdict
      = some (some 1) ∧
    (tryParsePartial (genWith { pest_optimizer := false } c20InvOpt c20InvRaw) (fun _ _ => false) 20 1
      (c20Inp ['a'])).verdict = some none := by
  have h1 : genWith {} c20InvOpt c20InvRaw = c20InvOptNG := by
    rw [C20_default, c20Inv_gen_opt]
  have h2 : genWith { pest_optimizer := false } c20InvOpt c20InvRaw = c20InvRawNG := by
    have : genOn { pest_optimizer := false } c20InvRaw = gen c20InvRaw := by
      simp only [genOn, gen]; congr 1
    show genOn _ c20InvRaw = _
    rw [this, c20Inv_gen_raw]
  rw [h1, h2]
  decide

/-! ## the passes that ARE semantics preserving on the typed parser

pest_meta's `optimize` = `rotate ; skip ; unroll ; concatenate ; factor ; list` then `restore_on_err`.
What the generator does with their output, and what is proved here:

* `restore_on_err` — `RestoreOnErr(e)` generates the type of `e` (`C20_pass_restore_root`): the typed
  combinators restore the stack themselves.
* `rotate` (re-association `(a ~ b) ~ c ⇒ a ~ (b ~ c)`, same for `|`) — the raw path emits the nested type
  `Seq2<Seq2<a, b>, c>`, the optimized path the flat `Seq3<a, b, c>` (`walk!` flattens right spines).
* `concatenate` (`"a" ~ "b" ⇒ "ab"` in atomic rules).
  For these two, `Rw` (Lemmas/GenOptsLemmas.lean) describes the effect on the generated module: one
  layer of flattening / trailing-literal merging at any set of positions, under every combinator and
  in every rule body; `GRel G₁ G₂` relates two whole modules rule by rule and `GRelStar` is its
  reflexive-transitive closure (several layers, several passes).  `C20_pass_rotate_concatenate_sim`
  is the simulation theorem: with the same fuel, whenever the un-rewritten parser answers, the
  rewritten one gives the same verdict, cursor, stack, tracker and token tree.
* `unroll` (`e+ ⇒ e ~ e*`, `e{n,m} ⇒ e ~ … ~ e? …`) — NOT preserving when skip rules exist
  (`C20_counterexample_reponce_skip`) nor for `e{n,m}` with n > m (`C20_counterexample_minmax_inverted`);
  `list` — NOT preserving (`C20_counterexample_lister`).
* `factor`, `skip`, `unroll` without skip rules, `concatenate` of `^"a" ~ ^"b"`: no theorem here (the
  harness replays every pass on the corpus: none of them changed a model answer; see evidence).

`C20_raw_eq_opt_partial` is what this gives for the property: it carries the hypothesis
`GRelStar (gen raw) (gen optimized)` — the optimized module is the raw one up to flattening and literal
merging — which is exactly what excludes the two findings (`C20_lister_not_GRelStar`,
`C20_reponce_not_GRelStar`).
MISSING for the full statement (kept visible):
  `∀ raw, let optimized := pest_meta.optimize raw;  ¬ ListerApplies raw → ¬ (UnrollApplies raw ∧ skip rules) →
     ∀ rule input, run (gen raw) ≈ run (gen optimized)`
needs (1) a Lean mirror of the passes with `GRelStar (gen raw) (gen (rotate/concatenate raw))` proved
syntactically, (2) simulation theorems for `factor`, `skip` and skip-free `unroll`, (3) the converse
direction (the flat parser answering implies the nested one answers: needs a fuel bound). -/

/-- `restore_on_err` is transparent at the place where it is inserted. -/
theorem C20_pass_restore_root (g : PGrammar) (sk : Flag) (e : PExpr) :
    genExpr g sk (.restoreOnErr e) = genExpr g sk e := by
  simp only [genExpr]

/-- Simulation for `rotate` + `concatenate` (their effect on the generated module, anywhere). -/
theorem C20_pass_rotate_concatenate_sim (G1 G2 : NodeGrammar) (h : GRelStar G1 G2) (uni : Uni) (n : Nat)
    (r : RuleId) (i : Inp) :
    RelT G1 G2 (tryParsePartial G1 uni n r i) (tryParsePartial G2 uni n r i) ∧
    RelT G1 G2 (tryParse G1 uni n r i) (tryParse G2 uni n r i) :=
  ⟨tryParsePartial_simStar uni h n r i, tryParse_simStar uni h n r i⟩

/-- Node-level form, one layer: any node, any state, any atomicity. -/
theorem C20_pass_rotate_concatenate_node (G1 G2 : NodeGrammar) (h : GRel G1 G2) (uni : Uni) (n : Nat)
    (a b : Node) (hab : Rw a b) (inh : Bool) (i : Inp) (m : M) :
    RelT G1 G2 (parse G1 uni n inh a i m) (parse G2 uni n inh b i m) :=
  parse_sim G1 G2 uni h n a b hab inh i m

theorem RelT.obs {G1 G2 : NodeGrammar} {r1 r2 : R Val} (h : RelT G1 G2 r1 r2) (hne : r1 ≠ .oof) :
    r1.state = r2.state ∧ Res.toks G1 r1 = Res.toks G2 r2 := by
  rcases h.cases with h1 | ⟨m, h1, h2⟩ | ⟨i, m, a, b, h1, h2, hab⟩
  · exact absurd h1 hne
  · rw [h1, h2]; exact ⟨rfl, rfl⟩
  · rw [h1, h2]; exact ⟨rfl, by simp only [Res.toks, hab]⟩

/-- **Raw versus optimized, partial.**  If the module generated from the optimized AST is the module
generated from the raw AST up to flattening of nested sequences / choices and merging of string
literals (`rotate`, `concatenate`, `restore_on_err`; NOT `list`, NOT `unroll` in the presence of skip
rules), then for all option combinations on either side, every rule, input form and fuel: whenever
the `pest_optimizer = false` parser answers, the default parser gives the same verdict, consumed
offset, stack, tracker and token tree. -/
theorem C20_raw_eq_opt_partial (cfg cfg' : Config) (hraw : cfg.pest_optimizer = false)
    (hopt : cfg'.pest_optimizer = true) (optimized raw : PGrammar)
    (hG : GRelStar (gen raw) (gen optimized)) (uni : Uni) (n : Nat) (r : RuleId) (i : Inp) :
    let Gr := genWith cfg optimized raw
    let Go := genWith cfg' optimized raw
    (tryParsePartial Gr uni n r i ≠ .oof →
      (tryParsePartial Gr uni n r i).state = (tryParsePartial Go uni n r i).state ∧
      Res.toks Gr (tryParsePartial Gr uni n r i) = Res.toks Go (tryParsePartial Go uni n r i)) ∧
    (tryParse Gr uni n r i ≠ .oof →
      (tryParse Gr uni n r i).state = (tryParse Go uni n r i).state ∧
      Res.toks Gr (tryParse Gr uni n r i) = Res.toks Go (tryParse Go uni n r i)) := by
  intro Gr Go
  have h1 : (gen raw).eraseBoxed = Gr.eraseBoxed := by
    show _ = (genOn cfg (pickAst cfg optimized raw)).eraseBoxed
    rw [genOn_eraseBoxed]; simp only [pickAst, hraw, Bool.false_eq_true, if_false]
  have h2 : (gen optimized).eraseBoxed = Go.eraseBoxed := by
    show _ = (genOn cfg' (pickAst cfg' optimized raw)).eraseBoxed
    rw [genOn_eraseBoxed]; simp only [pickAst, hopt, if_true]
  have hS : GRelStar Gr Go := GRelStar.of_erase h1 h2 hG
  exact ⟨fun hne => (tryParsePartial_simStar uni hS n r i).obs hne,
         fun hne => (tryParse_simStar uni hS n r i).obs hne⟩

/-- When both parsers answer (with whatever fuel each needs) the answers agree. -/
theorem C20_raw_eq_opt_partial' (cfg cfg' : Config) (hraw : cfg.pest_optimizer = false)
    (hopt : cfg'.pest_optimizer = true) (optimized raw : PGrammar)
    (hG : GRelStar (gen raw) (gen optimized)) (uni : Uni) (n1 n2 : Nat) (r : RuleId) (i : Inp)
    (res1 res2 : R Val)
    (h1 : tryParsePartial (genWith cfg optimized raw) uni n1 r i = res1) (hne1 : res1 ≠ .oof)
    (h2 : tryParsePartial (genWith cfg' optimized raw) uni n2 r i = res2) (hne2 : res2 ≠ .oof) :
    res1.state = res2.state ∧
    Res.toks (genWith cfg optimized raw) res1 = Res.toks (genWith cfg' optimized raw) res2 := by
  have e1 := tryParsePartial_mono h1 hne1 n2
  have e2 := tryParsePartial_mono h2 hne2 n1
  have := (C20_raw_eq_opt_partial cfg cfg' hraw hopt optimized raw hG uni (n1 + n2) r i).1
  rw [e1, show n1 + n2 = n2 + n1 by omega, e2] at this
  exact this hne1

/-! ### non-vacuity: a grammar on which `rotate` and `concatenate` fire
`r = { ("a" ~ "b") ~ "c" }  s = @{ "a" ~ "b" }  u = { ("a" | "b") | "c" }  WHITESPACE = _{ " " }`
(ASTs as `dump_ast` prints them). -/

def c20RotRaw : PGrammar := [
  { name := "r", kind := .normal, expr := .seq (.seq (.str ['a']) (.str ['b'])) (.str ['c']) },
  { name := "s", kind := .atomic, expr := .seq (.str ['a']) (.str ['b']) },
  { name := "u", kind := .normal, expr := .choice (.choice (.str ['a']) (.str ['b'])) (.str ['c']) },
  { name := "WHITESPACE", kind := .silent, expr := .str [' '] }]
def c20RotOpt : PGrammar := [
  { name := "r", kind := .normal, expr := .seq (.str ['a']) (.seq (.str ['b']) (.str ['c'])) },
  { name := "s", kind := .atomic, expr := .str ['a', 'b'] },
  { name := "u", kind := .normal, expr := .choice (.str ['a']) (.choice (.str ['b']) (.str ['c'])) },
  { name := "WHITESPACE", kind := .silent, expr := .str [' '] }]

def c20RotRawNG : NodeGrammar :=
  { rules := [eoiDef,
      { name := "r", atom := .inherited, emit := .both, boxed := true,
        body := .seq .inh [.seq .inh [.str ['a'], .str ['b']], .str ['c']] },
      { name := "s", atom := .atomic, emit := .span, boxed := true, body := .seq .zero [.str ['a'], .str ['b']] },
      { name := "u", atom := .inherited, emit := .both, boxed := true,
        body := .choice [.choice [.str ['a'], .str ['b']], .str ['c']] },
      { name := "WHITESPACE", atom := .inherited, emit := .expression, boxed := true, body := .str [' '] }],
    skipped := .atomicRepeat (.ref 4 .zero) }
def c20RotOptNG : NodeGrammar :=
  { rules := [eoiDef,
      { name := "r", atom := .inherited, emit := .both, boxed := true,
        body := .seq .inh [.str ['a'], .str ['b'], .str ['c']] },
      { name := "s", atom := .atomic, emit := .span, boxed := true, body := .str ['a', 'b'] },
      { name := "u", atom := .inherited, emit := .both, boxed := true,
        body := .choice [.str ['a'], .str ['b'], .str ['c']] },
      { name := "WHITESPACE", atom := .inherited, emit := .expression, boxed := true, body := .str [' '] }],
    skipped := .atomicRepeat (.ref 4 .zero) }

theorem c20Rot_gen_raw : gen c20RotRaw = c20RotRawNG := by
  simp [gen, genRule, genExpr, genSeqSpine, genChoiceSpine, genSkipped, PGrammar.indexOf, PGrammar.indexOf.go,
    c20RotRaw, c20RotRawNG, kindAtomicity, kindEmission, atomFlag]
theorem c20Rot_gen_opt : gen c20RotOpt = c20RotOptNG := by
  simp [gen, genRule, genExpr, genSeqSpine, genChoiceSpine, genSkipped, PGrammar.indexOf, PGrammar.indexOf.go,
    c20RotOpt, c20RotOptNG, kindAtomicity, kindEmission, atomFlag]

/-- The hypothesis of `C20_raw_eq_opt_partial` holds of this grammar (one layer). -/
theorem c20Rot_GRel : GRel c20RotRawNG c20RotOptNG := by
  refine ⟨Rw.refl _, fun r => ?_⟩
  match r with
  | 0 => exact Or.inr ⟨_, _, rfl, rfl, rfl, rfl, Rw.refl _⟩
  | 1 => exact Or.inr ⟨_, _, rfl, rfl, rfl, rfl,
      Rw.seqFlat (Rw.refl _) (RwL.refl [.str ['b']]) (RwL.refl [.str ['c']])⟩
  | 2 => exact Or.inr ⟨_, _, rfl, rfl, rfl, rfl, Rw.strCat ['a'] ['b']⟩
  | 3 => exact Or.inr ⟨_, _, rfl, rfl, rfl, rfl,
      Rw.choiceFlat (Rw.refl _) (RwL.refl [.str ['b']]) (RwL.refl [.str ['c']])⟩
  | 4 => exact Or.inr ⟨_, _, rfl, rfl, rfl, rfl, Rw.refl _⟩
  | n+5 => exact Or.inl ⟨rfl, rfl⟩

theorem c20Rot_GRelStar : GRelStar (gen c20RotRaw) (gen c20RotOpt) := by
  rw [c20Rot_gen_raw, c20Rot_gen_opt]
  exact GRelStar.step c20Rot_GRel (GRelStar.refl _)

/-- … the two modules are different, and both do real work (skipping included) on `a b c`. -/
example : (tryParsePartial c20RotRawNG (fun _ _ => false) 20 1 (c20Inp ['a', ' ', 'b', ' ', 'c'])).verdict
    = some (some 5) := by decide
example : (tryParsePartial c20RotOptNG (fun _ _ => false) 20 1 (c20Inp ['a', ' ', 'b', ' ', 'c'])).verdict
    = some (some 5) := by decide
example : (tryParsePartial c20RotRawNG (fun _ _ => false) 20 2 (c20Inp ['a', 'b', 'c'])).verdict
    = some (some 2) := by decide
example : (tryParsePartial c20RotOptNG (fun _ _ => false) 20 3 (c20Inp ['c'])).verdict = some (some 1) := by decide

/-- The hypothesis is what excludes the two findings: were the lister / unrolled modules related by
`GRelStar`, the counterexamples above could not exist. -/
theorem C20_lister_not_GRelStar : ¬ GRelStar (gen c20ListerRaw) (gen c20ListerOpt) := by
  intro h
  have key := (C20_raw_eq_opt_partial { pest_optimizer := false } {} rfl rfl c20ListerOpt c20ListerRaw h
    (fun _ _ => false) 20 1 (c20Inp ['a', 'b'])).1
  obtain ⟨ho, hr⟩ := C20_counterexample_lister
  have hne : tryParsePartial (genWith { pest_optimizer := false } c20ListerOpt c20ListerRaw) (fun _ _ => false) 20 1
      (c20Inp ['a', 'b']) ≠ .oof := by
    intro h0; rw [h0] at hr; cases hr
  have hs := (key hne).1
  revert ho hr hs
  generalize tryParsePartial (genWith { pest_optimizer := false } c20ListerOpt c20ListerRaw) (fun _ _ => false) 20 1
      (c20Inp ['a', 'b']) = x
  generalize tryParsePartial (genWith {} c20ListerOpt c20ListerRaw) (fun _ _ => false) 20 1 (c20Inp ['a', 'b']) = y
  intro ho hr hs
  cases x <;> cases y <;> simp [Res.verdict] at ho hr hs

theorem C20_reponce_not_GRelStar : ¬ GRelStar (gen c20OnceRaw) (gen c20OnceOpt) := by
  intro h
  have key := (C20_raw_eq_opt_partial { pest_optimizer := false } {} rfl rfl c20OnceOpt c20OnceRaw h
    (fun _ _ => false) 20 1 (c20Inp ['a', ' '])).1
  obtain ⟨ho, hr⟩ := C20_counterexample_reponce_skip
  have hne : tryParsePartial (genWith { pest_optimizer := false } c20OnceOpt c20OnceRaw) (fun _ _ => false) 20 1
      (c20Inp ['a', ' ']) ≠ .oof := by
    intro h0; rw [h0] at hr; cases hr
  have hs := (key hne).1
  revert ho hr hs
  generalize tryParsePartial (genWith { pest_optimizer := false } c20OnceOpt c20OnceRaw) (fun _ _ => false) 20 1
      (c20Inp ['a', ' ']) = x
  generalize tryParsePartial (genWith {} c20OnceOpt c20OnceRaw) (fun _ _ => false) 20 1 (c20Inp ['a', ' ']) = y
  intro ho hr hs
  cases x <;> cases y <;> simp [Res.verdict] at ho hr hs
  all_goals (obtain ⟨rfl, _⟩ := hs; omega)

end PestTyped
