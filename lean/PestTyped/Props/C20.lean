/-
Props.C20 — Generation options change representation only, and generation is deterministic.

"For a given grammar the derive emits the same code on every run, and switching box_only_if_needed,
emit_rule_reference, emit_tagged_node_reference, do_not_emit_span, no_warnings or pest_optimizer
changes neither which inputs each rule accepts, nor the offsets consumed, nor the pair tree; the
options only add accessors or change how content is stored.  Recursive grammars still compile when
boxing is reduced."

Model: `Model/GenOpts.lean` (`Config`, `genWith`, the mirrored `collect_reachability` loop).
Theorems
* `C20_det`                 — `genWith` is a function of (options, ASTs).  The implementation's freedom
                              (hash seeds, separate processes) is exercised by the harness.
* `C20_structure`           — options other than `pest_optimizer` change nothing but `boxed`.
* `C20_box_transparent_*`   — `check`, `parse`, `tokens`, `tryParse*`, `tryCheck*` do not read `boxed`
                              (it is only copied into `.rule` tags): verdict, cursor, stack, tracker and
                              token tree are identical.
* `C20_options_transparent` — the two together, for every pair of configurations with the same
                              `pest_optimizer`.
* `C20_boxed_field`, `C20_ref_edges` — the `boxed` field of the generated rules is `isBoxed`; every rule
                              type mentioned in a generated body is an edge of the analysed graph.
* `C20_cycles_boxed`        — with `box_only_if_needed`, every cycle of the rule-reference graph (edges
                              of `collect_used_rule`, implicit skip edges included) contains a boxed rule.
                              Proved for the loop exactly as mirrored (bounded rounds + early `break`).
* `C20_not_boxed_acyclic`   — equivalent form: no cycle runs through un-boxed rules only.
* `C20_notboxed_may_lie_on_cycle` — the stronger reading "an un-boxed rule lies on no cycle" is false
                              (graph.rs's own unit test: `b` stays un-boxed on the cycle a → b → c → a).
* `pest_optimizer`: pest_meta's optimizer is external and NOT semantics preserving on the typed
  model; see the second half of the file (`C20_counterexample_lister`,
  `C20_counterexample_reponce_skip`, per-pass results, `C20_raw_eq_opt_partial`).
-/
import PestTyped.Lemmas.GenOptsLemmas
import PestTyped.Lemmas.CheckParse
namespace PestTyped

/-! ## determinism -/

/-- The generated module is a function of the options and of pest_meta's two ASTs. -/
theorem C20_det (cfg cfg' : Config) (o o' r r' : PGrammar) (hc : cfg = cfg') (ho : o = o') (hr : r = r') :
    genWith cfg o r = genWith cfg' o' r' := by
  subst hc ho hr; rfl

/-! ## options other than `pest_optimizer` -/

/-- The two configurations differ at most in `box_only_if_needed`, `emit_rule_reference`,
`emit_tagged_node_reference`, `do_not_emit_span`, `no_warnings`, `simulate_pair_api`,
`truncate_getter_at_node_tag`. -/
def Config.SameAst (cfg cfg' : Config) : Prop := cfg.pest_optimizer = cfg'.pest_optimizer

theorem C20_structure (cfg cfg' : Config) (h : cfg.SameAst cfg') (optimized raw : PGrammar) :
    (genWith cfg optimized raw).eraseBoxed = (genWith cfg' optimized raw).eraseBoxed := by
  unfold genWith pickAst
  rw [genOn_eraseBoxed, genOn_eraseBoxed, h]

/-- In particular every configuration yields `Model.Gen.gen` of the AST it walks, up to `boxed`. -/
theorem C20_structure_gen (cfg : Config) (optimized raw : PGrammar) :
    (genWith cfg optimized raw).eraseBoxed = (gen (pickAst cfg optimized raw)).eraseBoxed :=
  genOn_eraseBoxed cfg _

/-- The default configuration is exactly `gen` of the optimized AST. -/
theorem C20_default (optimized raw : PGrammar) : genWith {} optimized raw = gen optimized :=
  genOn_default optimized

/-! ## `boxed` is never read -/

/-- What can be observed of a parse result: verdict, cursor, stack and tracker … -/
abbrev Res.state {α} (r : R α) : R Unit := r.forget

/-- … and the token tree (`Pairs::for_self_or_each_child`) of the value. -/
def Res.toks (G : NodeGrammar) : R Val → Option (List Token)
  | .ok _ _ v => some (tokens G v)
  | _ => none

theorem C20_box_transparent_check (G : NodeGrammar) (uni : Uni) (n : Nat) (inh : Bool) (node : Node)
    (i : Inp) (m : M) : check G.eraseBoxed uni n inh node i m = check G uni n inh node i m :=
  check_eraseBoxed G uni n inh node i m

/-- `parse G … = parse (erase G) …` up to `Val.eraseBoxed`. -/
theorem C20_box_transparent_parse (G : NodeGrammar) (uni : Uni) (n : Nat) (inh : Bool) (node : Node)
    (i : Inp) (m : M) :
    parse G.eraseBoxed uni n inh node i m = (parse G uni n inh node i m).mapVal Val.eraseBoxed :=
  parse_eraseBoxed G uni n inh node i m

theorem C20_box_transparent_tokens (G : NodeGrammar) (v : Val) :
    tokens G.eraseBoxed v.eraseBoxed = tokens G v :=
  tokens_eraseBoxed G v

theorem Res.mapVal_forget {α β} (φ : α → β) (r : R α) : (r.mapVal φ).forget = r.forget := by
  cases r <;> rfl

theorem Res.toks_erase (G : NodeGrammar) (r : R Val) :
    Res.toks G.eraseBoxed (r.mapVal Val.eraseBoxed) = Res.toks G r := by
  cases r with
  | oof => rfl
  | fail m => rfl
  | ok i m v => simp only [Res.mapVal_ok, Res.toks, tokens_eraseBoxed]

theorem tryParse_eraseBoxed (G : NodeGrammar) (uni : Uni) (n : Nat) (r : RuleId) (i : Inp) :
    tryParse G.eraseBoxed uni n r i = (tryParse G uni n r i).mapVal Val.eraseBoxed := by
  unfold tryParse
  rw [NodeGrammar.eraseBoxed_rule?]
  cases G.rule? r with
  | none => rfl
  | some d =>
    simp only [Option.map_some, parse_eraseBoxed, NodeGrammar.eraseBoxed_skipped]
    cases parse G uni n true (.ref r .one) i (M.init i) with
    | oof => rfl
    | fail m => rfl
    | ok i' m v =>
      simp only [Res.mapVal_ok]
      have hn : noTrailingSkip r d.eraseBoxed = noTrailingSkip r d := rfl
      rw [hn]
      split
      · split <;> rfl
      · cases parse G uni n false G.skipped i' m with
        | oof => rfl
        | fail m' => rfl
        | ok i'' m' sv => simp only [Res.mapVal_ok]; split <;> rfl

theorem tryCheck_eraseBoxed (G : NodeGrammar) (uni : Uni) (n : Nat) (r : RuleId) (i : Inp) :
    tryCheck G.eraseBoxed uni n r i = tryCheck G uni n r i := by
  unfold tryCheck
  rw [NodeGrammar.eraseBoxed_rule?]
  cases G.rule? r with
  | none => rfl
  | some d =>
    simp only [Option.map_some, check_eraseBoxed, NodeGrammar.eraseBoxed_skipped]
    have hn : noTrailingSkip r d.eraseBoxed = noTrailingSkip r d := rfl
    rw [hn]

/-- Two generated modules that differ only in `boxed` are indistinguishable by every entry point:
same verdict, cursor (offsets consumed), stack, tracker (hence the same error) and same token tree. -/
theorem C20_box_transparent (G G' : NodeGrammar) (h : G.eraseBoxed = G'.eraseBoxed) (uni : Uni) (n : Nat) :
    (∀ inh node i m, check G uni n inh node i m = check G' uni n inh node i m) ∧
    (∀ inh node i m, (parse G uni n inh node i m).mapVal Val.eraseBoxed =
                     (parse G' uni n inh node i m).mapVal Val.eraseBoxed) ∧
    (∀ inh node i m, (parse G uni n inh node i m).state = (parse G' uni n inh node i m).state ∧
                     Res.toks G (parse G uni n inh node i m) = Res.toks G' (parse G' uni n inh node i m)) ∧
    (∀ r i, (tryParsePartial G uni n r i).state = (tryParsePartial G' uni n r i).state ∧
            Res.toks G (tryParsePartial G uni n r i) = Res.toks G' (tryParsePartial G' uni n r i)) ∧
    (∀ r i, (tryParse G uni n r i).state = (tryParse G' uni n r i).state ∧
            Res.toks G (tryParse G uni n r i) = Res.toks G' (tryParse G' uni n r i)) ∧
    (∀ r i, tryCheckPartial G uni n r i = tryCheckPartial G' uni n r i) ∧
    (∀ r i, tryCheck G uni n r i = tryCheck G' uni n r i) := by
  have hp : ∀ inh node i m, (parse G uni n inh node i m).mapVal Val.eraseBoxed =
      (parse G' uni n inh node i m).mapVal Val.eraseBoxed := by
    intro inh node i m
    rw [← parse_eraseBoxed, ← parse_eraseBoxed, h]
  have hobs : ∀ (a b : R Val), a.mapVal Val.eraseBoxed = b.mapVal Val.eraseBoxed →
      a.state = b.state ∧ Res.toks G a = Res.toks G' b := by
    intro a b hab
    constructor
    · show a.forget = b.forget
      rw [← Res.mapVal_forget Val.eraseBoxed a, hab, Res.mapVal_forget]
    · rw [← Res.toks_erase G a, ← Res.toks_erase G' b, hab, h]
  refine ⟨?_, hp, fun inh node i m => hobs _ _ (hp inh node i m), ?_, ?_, ?_, ?_⟩
  · intro inh node i m
    rw [← check_eraseBoxed G, ← check_eraseBoxed G', h]
  · intro r i
    exact hobs _ _ (hp true (.ref r .one) i (M.init i))
  · intro r i
    apply hobs
    rw [← tryParse_eraseBoxed, ← tryParse_eraseBoxed, h]
  · intro r i
    unfold tryCheckPartial
    rw [← check_eraseBoxed G, ← check_eraseBoxed G', h]
  · intro r i
    rw [← tryCheck_eraseBoxed G, ← tryCheck_eraseBoxed G', h]

/-- **Options are transparent**: two configurations that agree on `pest_optimizer` generate parsers
with the same verdicts, consumed offsets, stacks, trackers and token trees, for every grammar, rule,
input (all three input forms) and fuel. -/
theorem C20_options_transparent (cfg cfg' : Config) (h : cfg.SameAst cfg') (optimized raw : PGrammar)
    (uni : Uni) (n : Nat) (r : RuleId) (i : Inp) :
    let G := genWith cfg optimized raw
    let G' := genWith cfg' optimized raw
    (tryParsePartial G uni n r i).state = (tryParsePartial G' uni n r i).state ∧
    Res.toks G (tryParsePartial G uni n r i) = Res.toks G' (tryParsePartial G' uni n r i) ∧
    (tryParse G uni n r i).state = (tryParse G' uni n r i).state ∧
    Res.toks G (tryParse G uni n r i) = Res.toks G' (tryParse G' uni n r i) ∧
    tryCheckPartial G uni n r i = tryCheckPartial G' uni n r i ∧
    tryCheck G uni n r i = tryCheck G' uni n r i := by
  intro G G'
  obtain ⟨_, _, _, h4, h5, h6, h7⟩ :=
    C20_box_transparent G G' (C20_structure cfg cfg' h optimized raw) uni n
  exact ⟨(h4 r i).1, (h4 r i).2, (h5 r i).1, (h5 r i).2, h6 r i, h7 r i⟩

/-! ## reduced boxing still breaks every cycle -/

/-- The rule-reference graph the generator analyses: `a → b` when some rule named `a` makes
`collect_used_rule` insert `b` (identifiers of the body; `WHITESPACE` / `COMMENT` for `Normal`
rules when the grammar defines them). -/
def refEdge (g : PGrammar) (a b : String) : Prop :=
  ∃ ru, ru ∈ g ∧ ru.name = a ∧ b ∈ usedNames ru (Implicit.of g)

theorem refEdge_iff_TEdge (g : PGrammar) (a b : String) : refEdge g a b ↔ TEdge (usedTable g) a b := by
  unfold refEdge TEdge usedTable
  constructor
  · rintro ⟨ru, hru, hn, hb⟩
    exact ⟨usedNames ru (Implicit.of g), List.mem_map.mpr ⟨ru, hru, by rw [hn]⟩, hb⟩
  · rintro ⟨used, hmem, hb⟩
    obtain ⟨ru, hru, heq⟩ := List.mem_map.mp hmem
    have h1 : ru.name = a := congrArg Prod.fst heq
    have h2 : usedNames ru (Implicit.of g) = used := congrArg Prod.snd heq
    exact ⟨ru, hru, h1, h2 ▸ hb⟩

theorem IsPath.imp {α : Type} {E E' : α → α → Prop} (h : ∀ a b, E a b → E' a b) :
    ∀ (l : List α) (a b : α), IsPath E a l b → IsPath E' a l b := by
  intro l
  induction l with
  | nil => intro a b hp; exact h a b hp
  | cons x l ih => intro a b hp; exact ⟨h a x hp.1, ih x b hp.2⟩

/-- The `$boxed` argument of the `k`-th rule of the generated module. -/
theorem C20_boxed_field (cfg : Config) (g : PGrammar) (k : Nat) (ru : PRule) (h : g[k]? = some ru) :
    ((genOn cfg g).rule? (k+1)).map (·.boxed) = some (isBoxed cfg g ru.name) := by
  simp only [genOn, NodeGrammar.rule?, List.getElem?_cons_succ, List.getElem?_map, h, Option.map_some,
    genRuleWith]

/-- No cycle of the reference graph runs through un-boxed rules only. -/
theorem C20_not_boxed_acyclic (g : PGrammar) (r : String) (l : List String)
    (hr : r ∈ notBoxed g) (hl : ∀ x, x ∈ l → x ∈ notBoxed g) : ¬ IsPath (refEdge g) r l r := by
  intro hp
  exact collectReachability_acyclic (usedTable g) r l hr hl
    (IsPath.imp (fun a b => (refEdge_iff_TEdge g a b).mp) l r r hp)

/-- **Every cycle contains a boxed rule** (so the emitted struct types are finite), whatever the
options: `r → l₁ → … → lₖ → r` in the reference graph ⇒ one of `r, l₁, …, lₖ` has `boxed = true`. -/
theorem C20_cycles_boxed (cfg : Config) (g : PGrammar) (r : String) (l : List String)
    (hp : IsPath (refEdge g) r l r) : ∃ x, x ∈ r :: l ∧ isBoxed cfg g x = true := by
  apply Classical.byContradiction
  intro hno
  have hall : ∀ x, x ∈ r :: l → x ∈ notBoxed g := by
    intro x hx
    apply Classical.byContradiction
    intro hnb
    apply hno
    refine ⟨x, hx, ?_⟩
    unfold isBoxed
    have : (notBoxed g).contains x = false := by
      cases hc : (notBoxed g).contains x
      · rfl
      · exact absurd (List.contains_iff_mem.mp hc) hnb
    rw [this]; simp only [Bool.not_false, Bool.or_true]
  exact C20_not_boxed_acyclic g r l (hall r List.mem_cons_self)
    (fun x hx => hall x (List.mem_cons_of_mem _ hx)) hp

/-- The membership reading of the edges, for the record: identifiers of the body plus the implicit
skip rules for `Normal` rules. -/
theorem C20_edges (g : PGrammar) (a b : String) :
    refEdge g a b ↔ ∃ ru, ru ∈ g ∧ ru.name = a ∧
      (b ∈ usedIdents ru.expr ∨
       (ru.kind = .normal ∧ ((b = "COMMENT" ∧ (Implicit.of g).comment = true) ∨
                             (b = "WHITESPACE" ∧ (Implicit.of g).whitespace = true)))) := by
  unfold refEdge usedNames
  constructor
  · rintro ⟨ru, hru, hn, hb⟩
    refine ⟨ru, hru, hn, ?_⟩
    simp only [List.mem_append] at hb
    rcases hb with (hb | hb) | hb
    · split at hb
      · next hc => exact Or.inr ⟨hc.1, Or.inl ⟨List.mem_singleton.mp hb, hc.2⟩⟩
      · cases hb
    · split at hb
      · next hc => exact Or.inr ⟨hc.1, Or.inr ⟨List.mem_singleton.mp hb, hc.2⟩⟩
      · cases hb
    · exact Or.inl hb
  · rintro ⟨ru, hru, hn, hb⟩
    refine ⟨ru, hru, hn, ?_⟩
    simp only [List.mem_append]
    rcases hb with hb | ⟨hk, ⟨hb, hc⟩ | ⟨hb, hw⟩⟩
    · exact Or.inr hb
    · exact Or.inl (Or.inl (by rw [if_pos ⟨hk, hc⟩, hb]; exact List.mem_singleton.mpr rfl))
    · exact Or.inl (Or.inr (by rw [if_pos ⟨hk, hw⟩, hb]; exact List.mem_singleton.mpr rfl))

/-! ### non-vacuity: graph.rs's unit test `inter_reference`
`a = { "a" ~ b* }  b = { "b" ~ c? }  c = { a+ }` -/

def c20Cycle : PGrammar := [
  { name := "a", kind := .normal, expr := .seq (.str ['a']) (.rep (.ident "b")) },
  { name := "b", kind := .normal, expr := .seq (.str ['b']) (.opt (.ident "c")) },
  { name := "c", kind := .normal, expr := .repOnce (.ident "a") }]

/-- The loop leaves exactly `b` (the Rust test expects `{"b": {"a", "c"}}`). -/
example : collectReachability (usedTable c20Cycle) = [("b", ["c", "a"])] := by decide
example : notBoxed c20Cycle = ["b"] := by decide
example : (genOn { box_only_if_needed := true } c20Cycle).rules.map (·.boxed) = [false, true, false, true] := by
  decide
example : (genOn {} c20Cycle).rules.map (·.boxed) = [false, true, true, true] := by decide
/-- A real cycle, to which `C20_cycles_boxed` applies. -/
example : IsPath (refEdge c20Cycle) "a" ["b", "c"] "a" := by
  refine ⟨⟨c20Cycle[0], by simp [c20Cycle], rfl, by decide⟩, ⟨c20Cycle[1], by simp [c20Cycle], rfl, by decide⟩,
    ⟨c20Cycle[2], by simp [c20Cycle], rfl, by decide⟩⟩

/-- The stronger reading "an un-boxed rule lies on no cycle" does NOT hold of the loop: `b` is left
un-boxed although it lies on `b → c → a → b`.  (Harmless: `a` and `c` are boxed.) -/
theorem C20_notboxed_may_lie_on_cycle :
    isBoxed { box_only_if_needed := true } c20Cycle "b" = false ∧
    IsPath (refEdge c20Cycle) "b" ["c", "a"] "b" := by
  refine ⟨by decide, ⟨c20Cycle[1], by simp [c20Cycle], rfl, by decide⟩, ⟨c20Cycle[2], by simp [c20Cycle], rfl, by decide⟩,
    ⟨c20Cycle[0], by simp [c20Cycle], rfl, by decide⟩⟩

/-- Implicit skip edges: `r = { "x" }  WHITESPACE = { " " ~ r? }`: the cycle `r → WHITESPACE → r` exists
only through the implicit edge; both rules end up boxed. -/
def c20Skip : PGrammar := [
  { name := "r", kind := .normal, expr := .str ['x'] },
  { name := "WHITESPACE", kind := .normal, expr := .seq (.str [' ']) (.opt (.ident "r")) }]
example : usedNames c20Skip[0] (Implicit.of c20Skip) = ["WHITESPACE"] := by decide
example : notBoxed c20Skip = [] := by decide

/-- A grammar without recursion: nothing is boxed when boxing is reduced. -/
def c20Flat : PGrammar := [
  { name := "x", kind := .normal, expr := .seq (.ident "y") (.ident "ANY") },
  { name := "y", kind := .atomic, expr := .str ['y'] }]
example : (genOn { box_only_if_needed := true } c20Flat).rules.map (·.boxed) = [false, false, false] := by decide

/-! ### non-vacuity of the transparency theorems -/

def c20Inp (s : List Char) : Inp := { start := 0, pos := 0, rest := s, after := [] }

def Res.endPos! {σ α} : Res σ α → Option Nat
  | .ok i _ _ => some i.pos
  | _ => none

/-- The module generated for `c20Cycle`, with the storage decision left symbolic. -/
def c20CycleNG (cfg : Config) : NodeGrammar :=
  { rules := [eoiDef,
      { name := "a", atom := .inherited, emit := .both, boxed := isBoxed cfg c20Cycle "a",
        body := .seq .inh [.str ['a'], .rep .inh 0 none (.ref 2 .inh)] },
      { name := "b", atom := .inherited, emit := .both, boxed := isBoxed cfg c20Cycle "b",
        body := .seq .inh [.str ['b'], .opt (.ref 3 .inh)] },
      { name := "c", atom := .inherited, emit := .both, boxed := isBoxed cfg c20Cycle "c",
        body := .rep .inh 1 none (.ref 1 .inh) }],
    skipped := .empty }

theorem c20Cycle_gen (cfg : Config) : genOn cfg c20Cycle = c20CycleNG cfg := by
  simp [genOn, genRuleWith, genRule, genExpr, genSeqSpine, genSkipped, PGrammar.indexOf, PGrammar.indexOf.go,
    c20Cycle, c20CycleNG, kindAtomicity, kindEmission, atomFlag]

mutual
/-- The `boxed` fields of the rule nodes of a value, in pre-order. -/
def Val.boxedFlags : Val → List Bool
  | .mk (.rule _ _ b _ _) kids => b :: Val.boxedFlagsList kids
  | .mk _ kids => Val.boxedFlagsList kids
def Val.boxedFlagsList : List Val → List Bool
  | [] => []
  | v :: vs => v.boxedFlags ++ Val.boxedFlagsList vs
end

def Res.boxedFlags : R Val → List Bool
  | .ok _ _ v => v.boxedFlags
  | _ => []

/-- The reduced-boxing module really differs from the default one … -/
example : (genOn { box_only_if_needed := true } c20Cycle).rules.map (·.boxed) ≠
    (genOn {} c20Cycle).rules.map (·.boxed) := by decide
/-- … both parse `abab` with rule `a` up to offset 4, building five rule nodes (a, b, c, a, b) whose
storage flags differ, and nothing else differs (`C20_options_transparent`). -/
example : (tryParsePartial (genOn { box_only_if_needed := true } c20Cycle) (fun _ _ => false) 30 1
    (c20Inp ['a', 'b', 'a', 'b'])).endPos! = some 4 := by rw [c20Cycle_gen]; decide
example : (tryParsePartial (genOn {} c20Cycle) (fun _ _ => false) 30 1
    (c20Inp ['a', 'b', 'a', 'b'])).endPos! = some 4 := by rw [c20Cycle_gen]; decide
example : (tryParsePartial (genOn { box_only_if_needed := true } c20Cycle) (fun _ _ => false) 30 1
    (c20Inp ['a', 'b', 'a', 'b'])).boxedFlags = [true, false, true, true, false] := by
  rw [c20Cycle_gen]; decide
example : (tryParsePartial (genOn {} c20Cycle) (fun _ _ => false) 30 1
    (c20Inp ['a', 'b', 'a', 'b'])).boxedFlags = [true, true, true, true, true] := by
  rw [c20Cycle_gen]; decide

/-! ## `pest_optimizer`: pest_meta's optimizer is not semantics preserving on the typed parser

`pest_optimizer = false` makes the generator walk pest_meta's un-optimized AST (`e+`, `e{n,m}` map to
`RepOnce` / `RepMinMax` …, `Model/Gen.lean`); the default walks `optimizer::optimize`'s output.  The
optimizer is external to /repo; two of its passes change what the *typed* parser accepts. -/

/-- F-OPT-1.  `r = { ("a" ~ "b")* ~ "a" }`: un-optimized AST (as `dump_ast` prints it) … -/
def c20ListerRaw : PGrammar :=
  [{ name := "r", kind := .normal, expr := .seq (.rep (.seq (.str ['a']) (.str ['b']))) (.str ['a']) }]
/-- … and after `lister::list`: `"a" ~ ("b" ~ "a")*`. -/
def c20ListerOpt : PGrammar :=
  [{ name := "r", kind := .normal, expr := .seq (.str ['a']) (.rep (.seq (.str ['b']) (.str ['a']))) }]

def c20ListerRawNG : NodeGrammar :=
  { rules := [eoiDef,
      { name := "r", atom := .inherited, emit := .both, boxed := true,
        body := .seq .inh [.rep .inh 0 none (.seq .inh [.str ['a'], .str ['b']]), .str ['a']] }],
    skipped := .empty }
def c20ListerOptNG : NodeGrammar :=
  { rules := [eoiDef,
      { name := "r", atom := .inherited, emit := .both, boxed := true,
        body := .seq .inh [.str ['a'], .rep .inh 0 none (.seq .inh [.str ['b'], .str ['a']])] }],
    skipped := .empty }

theorem c20Lister_gen_raw : gen c20ListerRaw = c20ListerRawNG := by
  simp [gen, genRule, genExpr, genSeqSpine, genSkipped, PGrammar.indexOf, PGrammar.indexOf.go,
    c20ListerRaw, c20ListerRawNG, kindAtomicity, kindEmission, atomFlag]
theorem c20Lister_gen_opt : gen c20ListerOpt = c20ListerOptNG := by
  simp [gen, genRule, genExpr, genSeqSpine, genSkipped, PGrammar.indexOf, PGrammar.indexOf.go,
    c20ListerOpt, c20ListerOptNG, kindAtomicity, kindEmission, atomFlag]

def Res.verdict {σ α} : Res σ α → Option (Option Nat)
  | .oof => none
  | .fail _ => some none
  | .ok i _ _ => some (some i.pos)

/-- On `ab` the default parser (optimizer on) accepts one character, the `pest_optimizer = false`
parser fails: the `list` pass moved the trailing `"a"` in front of the repetition. -/
theorem C20_counterexample_lister :
    (tryParsePartial (genWith {} c20ListerOpt c20ListerRaw) (fun _ _ => false) 20 1 (c20Inp ['a', 'b'])).verdict
      = some (some 1) ∧
    (tryParsePartial (genWith { pest_optimizer := false } c20ListerOpt c20ListerRaw) (fun _ _ => false) 20 1
      (c20Inp ['a', 'b'])).verdict = some none := by
  have h1 : genWith {} c20ListerOpt c20ListerRaw = c20ListerOptNG := by
    rw [C20_default, c20Lister_gen_opt]
  have h2 : genWith { pest_optimizer := false } c20ListerOpt c20ListerRaw = c20ListerRawNG := by
    show genOn _ c20ListerRaw = _
    rw [show ({ pest_optimizer := false } : Config) = { ({} : Config) with pest_optimizer := false } from rfl]
    have : genOn { pest_optimizer := false } c20ListerRaw = gen c20ListerRaw := by
      simp only [genOn, gen]; congr 1
    rw [this, c20Lister_gen_raw]
  rw [h1, h2]
  decide

/-- F-OPT-3.  `r0 = { ('a'..'b')+ }  WHITESPACE = @{ " " }`: un-optimized AST … -/
def c20OnceRaw : PGrammar :=
  [{ name := "r0", kind := .normal, expr := .repOnce (.range 'a' 'b') },
   { name := "WHITESPACE", kind := .atomic, expr := .str [' '] }]
/-- … and after `unroller::unroll`: `'a'..'b' ~ ('a'..'b')*`. -/
def c20OnceOpt : PGrammar :=
  [{ name := "r0", kind := .normal, expr := .seq (.range 'a' 'b') (.rep (.range 'a' 'b')) },
   { name := "WHITESPACE", kind := .atomic, expr := .str [' '] }]

def c20OnceRawNG : NodeGrammar :=
  { rules := [eoiDef,
      { name := "r0", atom := .inherited, emit := .both, boxed := true,
        body := .rep .inh 1 none (.range 'a' 'b') },
      { name := "WHITESPACE", atom := .atomic, emit := .span, boxed := true, body := .str [' '] }],
    skipped := .atomicRepeat (.ref 2 .zero) }
def c20OnceOptNG : NodeGrammar :=
  { rules := [eoiDef,
      { name := "r0", atom := .inherited, emit := .both, boxed := true,
        body := .seq .inh [.range 'a' 'b', .rep .inh 0 none (.range 'a' 'b')] },
      { name := "WHITESPACE", atom := .atomic, emit := .span, boxed := true, body := .str [' '] }],
    skipped := .atomicRepeat (.ref 2 .zero) }

theorem c20Once_gen_raw : gen c20OnceRaw = c20OnceRawNG := by
  simp [gen, genRule, genExpr, genSkipped, PGrammar.indexOf, PGrammar.indexOf.go,
    c20OnceRaw, c20OnceRawNG, kindAtomicity, kindEmission, atomFlag]
theorem c20Once_gen_opt : gen c20OnceOpt = c20OnceOptNG := by
  simp [gen, genRule, genExpr, genSeqSpine, genSkipped, PGrammar.indexOf, PGrammar.indexOf.go,
    c20OnceOpt, c20OnceOptNG, kindAtomicity, kindEmission, atomFlag]

/-- On `a␠` the default parser consumes 2 bytes (the sequence `e ~ e*` keeps the skip in front of the
empty `e*`), the `pest_optimizer = false` parser 1 (`RepOnce` gives the skip before a failing
iteration back). -/
theorem C20_counterexample_reponce_skip :
    (tryParsePartial (genWith {} c20OnceOpt c20OnceRaw) (fun _ _ => false) 20 1 (c20Inp ['a', ' '])).verdict
      = some (some 2) ∧
    (tryParsePartial (genWith { pest_optimizer := false } c20OnceOpt c20OnceRaw) (fun _ _ => false) 20 1
      (c20Inp ['a', ' '])).verdict = some (some 1) := by
  have h1 : genWith {} c20OnceOpt c20OnceRaw = c20OnceOptNG := by
    rw [C20_default, c20Once_gen_opt]
  have h2 : genWith { pest_optimizer := false } c20OnceOpt c20OnceRaw = c20OnceRawNG := by
    have : genOn { pest_optimizer := false } c20OnceRaw = gen c20OnceRaw := by
      simp only [genOn, gen]; congr 1
    show genOn _ c20OnceRaw = _
    rw [this, c20Once_gen_raw]
  rw [h1, h2]
  decide


end PestTyped
