/-
Props.C09Run — C09's last sentence at RUN level:

"[Parsing is total and keeps every offset on a UTF-8 boundary inside the input, so that span text can
always be taken.]  This holds identically in debug builds and in release builds, where slicing is
unchecked."

`Props/C09.lean` proves it primitive by primitive (`C09_L0_*`, `C09_profile`, `C09_no_panic_L0`).  Here it
is a theorem about WHOLE RUNS.  `Model/RunL0.lean` is a byte-level interpreter (`parse0` / `check0` and the
four entry points `tryParse0`, `tryCheck0`, `tryParsePartial0`, `tryCheckPartial0`), parameterised by
`checked = cfg!(debug_assertions)`, that calls the byte-level primitives of `Model/InputL0.lean` for every
leaf, keeps the stack as offset pairs and slices the input for `PEEK`/`POP`/… (`Span::as_str`), performs
the `debug_assert!`s of `Position::new_unchecked` / `Span::new_unchecked` wherever the Rust code builds a
position or a span, the `unwrap` of `CharRange`, and PROPAGATES `panic` and `ub` (results `R0`).

Statements (ALL grammars, nodes — the whole node language, nothing left out —, inputs, states, fuel; both
values of `checked`).  `Abs i0 i`: the byte cursor represents the character cursor (`Lemmas/L0.lean`).
`AbsM bs m0 m`: same tracker; the byte-level stack is the list of offset pairs of the L1 stack and every
L1 stack span is a valid span of the bytes whose slice is the encoding of its text (`SpOK`).
`Rel0 bs r0 r`: same verdict (`oof`/`fail`/`ok`), states `AbsM`-related, on `ok` cursors `Abs`-related over
the same bytes and EQUAL values; nothing is related to `panic`/`ub`.

* `C09_run_sim`, `C09_run_sim_check` — under `Abs`/`AbsM`, `parse0 checked … i0 m0` is `Rel0`-related to
  `parse … i m` (resp. `check0`/`check`); `C09_run_sim_read` spells `Rel0` out.
* `C09_run_no_panic_node` — hence never `panic`, never `ub`, for both paths and both profiles.
* `C09_run_profile_node` — `parse0 true … = parse0 false …` and `check0 true … = check0 false …`: debug
  and release builds compute the same result, outcome for outcome (cursor, stack, tracker, tree).
* `C09_run_entry_sim`, `C09_run_no_panic_entry`, `C09_run_profile` — the same for the four entry points
  from a fresh state, on any byte cursor satisfying the invariant; `C09_run_no_panic` — in particular
  on what `as_input` builds from a `&str`, a `Position`, a `Span` (`C08_as_input_abs*`): for EVERY input
  text, no entry point panics or is undefined in either profile, and both profiles agree.
* `C09_run_stack_ok` — the state hypothesis `AbsM` is what L1 runs maintain: a stack of pieces of the
  input (`StkIn`, `C09_spans_node`) is `StkAbs`-related to its list of offsets.
* `C09_run_violation_cursor`, `C09_run_violation_stack` — without the hypotheses the byte-level run
  does panic / is undefined, and the profiles differ: the theorems are not true for the wrong reason.
-/
import PestTyped.Lemmas.RunL0Lemmas
import PestTyped.Lemmas.Spans
import PestTyped.Props.C08Bytes
namespace PestTyped

/-! ## nodes -/

/-- Parse path: the byte-level run simulates the character-level run, in both profiles. -/
theorem C09_run_sim (checked : Bool) (g : NodeGrammar) (uni : Uni) (fuel : Nat) (inh : Bool) (node : Node)
    {i0 : Inp0} {i : Inp} {m0 : M0} {m : M} (hi : Abs i0 i) (hm : AbsM i0.bytes m0 m) :
    Rel0 i0.bytes (parse0 checked g uni fuel inh node i0 m0) (parse g uni fuel inh node i m) :=
  parse0_rel0 checked g uni _ fuel inh node i0 i m0 m hi rfl hm

/-- Check path. -/
theorem C09_run_sim_check (checked : Bool) (g : NodeGrammar) (uni : Uni) (fuel : Nat) (inh : Bool) (node : Node)
    {i0 : Inp0} {i : Inp} {m0 : M0} {m : M} (hi : Abs i0 i) (hm : AbsM i0.bytes m0 m) :
    Rel0 i0.bytes (check0 checked g uni fuel inh node i0 m0) (check g uni fuel inh node i m) :=
  check0_rel0 checked g uni _ fuel inh node i0 i m0 m hi rfl hm

/-- What `Rel0` says: both runs are out of fuel, or both fail leaving corresponding states, or both
succeed with corresponding cursors (over the same bytes), corresponding states and the same value. -/
theorem C09_run_sim_read {α} {bs : List UInt8} {r0 : R0 α} {r : R α} (h : Rel0 bs r0 r) :
    (r0 = .oof ∧ r = .oof) ∨ (∃ m0 m, r0 = .fail m0 ∧ r = .fail m ∧ AbsM bs m0 m) ∨
    (∃ i0 i m0 m a, r0 = .ok i0 m0 a ∧ r = .ok i m a ∧ Abs i0 i ∧ i0.bytes = bs ∧ AbsM bs m0 m) :=
  h.cases

/-- No run panics (checked slicing, `debug_assert!`, `unwrap`, `Span::as_str`) or is undefined
(unchecked slicing), in either profile. -/
theorem C09_run_no_panic_node (checked : Bool) (g : NodeGrammar) (uni : Uni) (fuel : Nat) (inh : Bool)
    (node : Node) {i0 : Inp0} {i : Inp} {m0 : M0} {m : M} (hi : Abs i0 i) (hm : AbsM i0.bytes m0 m) :
    parse0 checked g uni fuel inh node i0 m0 ≠ .panic ∧ parse0 checked g uni fuel inh node i0 m0 ≠ .ub ∧
    check0 checked g uni fuel inh node i0 m0 ≠ .panic ∧ check0 checked g uni fuel inh node i0 m0 ≠ .ub :=
  ⟨(C09_run_sim checked g uni fuel inh node hi hm).no_panic.1,
   (C09_run_sim checked g uni fuel inh node hi hm).no_panic.2,
   (C09_run_sim_check checked g uni fuel inh node hi hm).no_panic.1,
   (C09_run_sim_check checked g uni fuel inh node hi hm).no_panic.2⟩

/-- Debug and release builds compute the same thing: same outcome, same cursor, same stack, same
tracker, same tree. -/
theorem C09_run_profile_node (g : NodeGrammar) (uni : Uni) (fuel : Nat) (inh : Bool) (node : Node)
    {i0 : Inp0} {i : Inp} {m0 : M0} {m : M} (hi : Abs i0 i) (hm : AbsM i0.bytes m0 m) :
    parse0 true g uni fuel inh node i0 m0 = parse0 false g uni fuel inh node i0 m0 ∧
    check0 true g uni fuel inh node i0 m0 = check0 false g uni fuel inh node i0 m0 :=
  ⟨(C09_run_sim true g uni fuel inh node hi hm).inj (C09_run_sim false g uni fuel inh node hi hm),
   (C09_run_sim_check true g uni fuel inh node hi hm).inj (C09_run_sim_check false g uni fuel inh node hi hm)⟩

/-- The state hypothesis is the invariant of L1 runs: a stack whose spans are pieces of the input
(`StkIn`, preserved by every run: `C09_spans_node`) corresponds to its list of offset pairs. -/
theorem C09_run_stack_ok {b0 : Inp0} {b : Inp} (h : Abs b0 b) {stk : List Sp} (hs : StkIn b stk) :
    StkAbs b0.bytes (stk.map offs) stk := by
  refine ⟨rfl, ?_⟩
  intro sp hsp
  obtain ⟨pre, hb, hp, he, hpos, _⟩ := h
  obtain ⟨p, q, hr, hs', he'⟩ := hs sp hsp
  unfold SpOK
  have := strGet_of_pieces pre p sp.txt q b.after
  rw [← hr, ← hb] at this
  rw [he', hs', hpos, hp]; exact this

/-! ## entry points -/

/-- The four entry points, from a fresh state, on any byte cursor satisfying the invariant. -/
theorem C09_run_entry_sim (checked : Bool) (g : NodeGrammar) (uni : Uni) (fuel : Nat) (r : RuleId)
    {i0 : Inp0} {i : Inp} (h : Abs i0 i) :
    Rel0 i0.bytes (tryParse0 checked g uni fuel r i0) (tryParse g uni fuel r i) ∧
    Rel0 i0.bytes (tryCheck0 checked g uni fuel r i0) (tryCheck g uni fuel r i) ∧
    Rel0 i0.bytes (tryParsePartial0 checked g uni fuel r i0) (tryParsePartial g uni fuel r i) ∧
    Rel0 i0.bytes (tryCheckPartial0 checked g uni fuel r i0) (tryCheckPartial g uni fuel r i) :=
  ⟨tryParse0_rel0 checked g uni fuel r h, tryCheck0_rel0 checked g uni fuel r h,
   tryParsePartial0_rel0 checked g uni fuel r h, tryCheckPartial0_rel0 checked g uni fuel r h⟩

/-- Is neither a panic nor undefined behaviour. -/
def R0.Safe {α} (r : R0 α) : Prop := r ≠ .panic ∧ r ≠ .ub

theorem C09_run_no_panic_entry (checked : Bool) (g : NodeGrammar) (uni : Uni) (fuel : Nat) (r : RuleId)
    {i0 : Inp0} {i : Inp} (h : Abs i0 i) :
    (tryParse0 checked g uni fuel r i0).Safe ∧ (tryCheck0 checked g uni fuel r i0).Safe ∧
    (tryParsePartial0 checked g uni fuel r i0).Safe ∧ (tryCheckPartial0 checked g uni fuel r i0).Safe :=
  ⟨(tryParse0_rel0 checked g uni fuel r h).no_panic, (tryCheck0_rel0 checked g uni fuel r h).no_panic,
   (tryParsePartial0_rel0 checked g uni fuel r h).no_panic, (tryCheckPartial0_rel0 checked g uni fuel r h).no_panic⟩

/-- Debug and release builds return the same result from every entry point. -/
theorem C09_run_profile (g : NodeGrammar) (uni : Uni) (fuel : Nat) (r : RuleId)
    {i0 : Inp0} {i : Inp} (h : Abs i0 i) :
    tryParse0 true g uni fuel r i0 = tryParse0 false g uni fuel r i0 ∧
    tryCheck0 true g uni fuel r i0 = tryCheck0 false g uni fuel r i0 ∧
    tryParsePartial0 true g uni fuel r i0 = tryParsePartial0 false g uni fuel r i0 ∧
    tryCheckPartial0 true g uni fuel r i0 = tryCheckPartial0 false g uni fuel r i0 :=
  ⟨(tryParse0_rel0 true g uni fuel r h).inj (tryParse0_rel0 false g uni fuel r h),
   (tryCheck0_rel0 true g uni fuel r h).inj (tryCheck0_rel0 false g uni fuel r h),
   (tryParsePartial0_rel0 true g uni fuel r h).inj (tryParsePartial0_rel0 false g uni fuel r h),
   (tryCheckPartial0_rel0 true g uni fuel r h).inj (tryCheckPartial0_rel0 false g uni fuel r h)⟩

/-- The property in its own terms: for every input text, given as a `&str` (`s`), as a `Position`
(`pre ++ rest` at `|pre|`) or as a `Span` (`pre ++ mid ++ post` from `|pre|` to `|pre| + |mid|`), every
entry point of every rule of every grammar, at every fuel, in both build profiles, returns without a
slicing panic, a failed `debug_assert!`, a failed `unwrap` or undefined behaviour — and the two profiles
return the same result. -/
theorem C09_run_no_panic (g : NodeGrammar) (uni : Uni) (fuel : Nat) (r : RuleId)
    (i0 : Inp0)
    (hin : (∃ s, i0 = strAsInput0 (enc s)) ∨
           (∃ pre rest, i0 = positionAsInput0 (enc (pre ++ rest)) (blen pre)) ∨
           (∃ pre mid post, i0 = spanAsInput0 (enc (pre ++ mid ++ post)) (blen pre) (blen pre + blen mid))) :
    (∀ checked, (tryParse0 checked g uni fuel r i0).Safe ∧ (tryCheck0 checked g uni fuel r i0).Safe ∧
      (tryParsePartial0 checked g uni fuel r i0).Safe ∧ (tryCheckPartial0 checked g uni fuel r i0).Safe) ∧
    tryParse0 true g uni fuel r i0 = tryParse0 false g uni fuel r i0 ∧
    tryCheck0 true g uni fuel r i0 = tryCheck0 false g uni fuel r i0 ∧
    tryParsePartial0 true g uni fuel r i0 = tryParsePartial0 false g uni fuel r i0 ∧
    tryCheckPartial0 true g uni fuel r i0 = tryCheckPartial0 false g uni fuel r i0 := by
  have habs : ∃ i, Abs i0 i := by
    rcases hin with ⟨s, rfl⟩ | ⟨pre, rest, rfl⟩ | ⟨pre, mid, post, rfl⟩
    · exact ⟨_, C08_as_input_abs_str s⟩
    · exact ⟨_, C08_as_input_abs_position pre rest⟩
    · exact ⟨_, C08_as_input_abs pre mid post⟩
  obtain ⟨i, h⟩ := habs
  exact ⟨fun checked => C09_run_no_panic_entry checked g uni fuel r h, C09_run_profile g uni fuel r h⟩

/-! ## non-vacuity -/

mutual
/-- The tags of a tree in preorder (an observation with decidable equality). -/
def Val.flat : Val → List Tag
  | .mk t kids => t :: Val.flatList kids
def Val.flatList : List Val → List Tag
  | [] => []
  | v :: vs => Val.flat v ++ Val.flatList vs
end

/-- What is compared in the examples: outcome, final offset, final stack, tracker position, tags. -/
inductive Obs0 where
  | oof | panic | ub
  | fail (stk : List (Nat × Nat)) (trkPos : Nat)
  | ok (pos : Nat) (stk : List (Nat × Nat)) (trkPos : Nat) (tags : List Tag)
  deriving DecidableEq, Repr

def R0.obs : R0 Val → Obs0
  | .oof => .oof
  | .panic => .panic
  | .ub => .ub
  | .fail m => .fail m.stk m.trk.position
  | .ok i m v => .ok i.pos m.stk m.trk.position v.flat

def R0.obsU : R0 Unit → Obs0
  | .oof => .oof
  | .panic => .panic
  | .ub => .ub
  | .fail m => .fail m.stk m.trk.position
  | .ok i m _ => .ok i.pos m.stk m.trk.position []

def Res.obs1 : R Val → Obs0
  | .oof => .oof
  | .fail m => .fail (m.stk.map offs) m.trk.position
  | .ok i m v => .ok i.pos (m.stk.map offs) m.trk.position v.flat

/-- `a = { "a" ~ PUSH(ANY) ~ '一'..'龥' ~ b ~ POP }  b = @{ ^"😀" }` on "aé中😀é": characters of 1, 2,
3 and 4 bytes; `CharRange` (slice + `unwrap`), `Insens` (slice), `PUSH`/`POP` (span on the stack, sliced
again), a `Span` rule and a `Both` rule (`start.span(input)`). -/
def c09RunGrammar : NodeGrammar :=
  { rules := [{ name := "EOI", atom := .inherited, emit := .both, boxed := false, body := .eoi },
      { name := "a", atom := .nonAtomic, emit := .both, boxed := true,
        body := .seq .inh [.str ['a'], .push .any, .range '一' '龥', .ref 2 .inh, .pop] },
      { name := "b", atom := .atomic, emit := .span, boxed := true, body := .insens ['😀'] }],
    skipped := .empty }

/-- `"aé中😀é".as_input()`: 61 | C3 A9 | E4 B8 AD | F0 9F 98 80 | C3 A9. -/
def c09RunBytes : List UInt8 := [0x61, 0xC3, 0xA9, 0xE4, 0xB8, 0xAD, 0xF0, 0x9F, 0x98, 0x80, 0xC3, 0xA9]

example : enc ['a', 'é', '中', '😀', 'é'] = c09RunBytes := by decide
example : Abs (strAsInput0 c09RunBytes) (strInput ['a', 'é', '中', '😀', 'é']) := by
  have : c09RunBytes = enc ['a', 'é', '中', '😀', 'é'] := by decide
  rw [this]; exact C08_as_input_abs_str _

def c09RunExpected : Obs0 :=
  .ok 12 [] 12
    [.rule 1 .both true 0 12, .seq,
     .skipped 1, .empty, .str,
     .skipped 1, .empty, .push, .any 'é',
     .skipped 1, .empty, .charRange '中',
     .skipped 1, .empty, .rule 2 .span true 6 10,
     .skipped 1, .empty, .pop ⟨1, 3, ['é']⟩]

/-- Debug build, release build and the character-level model: the same successful parse. -/
theorem C09_run_example_debug :
    (tryParse0 true c09RunGrammar (fun _ _ => false) 20 1 (strAsInput0 c09RunBytes)).obs = c09RunExpected := by
  decide +kernel
theorem C09_run_example_release :
    (tryParse0 false c09RunGrammar (fun _ _ => false) 20 1 (strAsInput0 c09RunBytes)).obs = c09RunExpected := by
  decide +kernel
example : (tryParse c09RunGrammar (fun _ _ => false) 20 1 (strInput ['a', 'é', '中', '😀', 'é'])).obs1 =
    c09RunExpected := by decide
example : (tryCheck0 true c09RunGrammar (fun _ _ => false) 20 1 (strAsInput0 c09RunBytes)).obsU = .ok 12 [] 12 [] := by
  decide
example : (tryCheck0 false c09RunGrammar (fun _ _ => false) 20 1 (strAsInput0 c09RunBytes)).obsU = .ok 12 [] 12 [] := by
  decide

/-- A failing parse ("aé中😀a": the `POP` does not match), the same failure in both profiles: the
span (1,3) of `é` was popped, the tracker's furthest position is 6 (rule `b`). -/
def c09RunBytesBad : List UInt8 := [0x61, 0xC3, 0xA9, 0xE4, 0xB8, 0xAD, 0xF0, 0x9F, 0x98, 0x80, 0x61]
example : (tryParse0 true c09RunGrammar (fun _ _ => false) 20 1 (strAsInput0 c09RunBytesBad)).obs = .fail [] 6 := by
  decide
example : (tryParse0 false c09RunGrammar (fun _ _ => false) 20 1 (strAsInput0 c09RunBytesBad)).obs = .fail [] 6 := by
  decide

/-- A `Span` input: the bytes 1..6 ("é中") of the same string, a state with a non-empty stack
((1,3) = "é"): `PEEK ~ '一'..'龥'` as a node. -/
example : (parse0 true c09RunGrammar (fun _ _ => false) 5 false (.seq .zero [.peek, .range '一' '龥'])
    (spanAsInput0 c09RunBytes 1 6) ⟨[(1, 3)], { position := 1 }⟩).obs =
    .ok 6 [(1, 3)] 1 [.seq, .skipped 0, .peek ⟨1, 3, ['é']⟩, .skipped 0, .charRange '中'] := by decide
example : (parse0 false c09RunGrammar (fun _ _ => false) 5 false (.seq .zero [.peek, .range '一' '龥'])
    (spanAsInput0 c09RunBytes 1 6) ⟨[(1, 3)], { position := 1 }⟩).obs =
    .ok 6 [(1, 3)] 1 [.seq, .skipped 0, .peek ⟨1, 3, ['é']⟩, .skipped 0, .charRange '中'] := by decide

/-- Without `Abs` (cursor inside `é`) the run-level model separates the profiles: the debug build
panics, the release build is undefined behaviour.  (`C09_L0_get_violation` at run level.) -/
theorem C09_run_violation_cursor :
    (parse0 true c09RunGrammar (fun _ _ => false) 5 true (.str ['A']) ⟨[0xC3, 0xA9, 0x41], 0, 1, 3⟩
      ⟨[], { position := 1 }⟩).obs = .panic ∧
    (parse0 false c09RunGrammar (fun _ _ => false) 5 true (.str ['A']) ⟨[0xC3, 0xA9, 0x41], 0, 1, 3⟩
      ⟨[], { position := 1 }⟩).obs = .ub := by
  constructor <;> decide

/-- Without `AbsM` (a stack span (1,3) that starts inside `é`) `PEEK` panics in BOTH profiles
(`Span::as_str` is checked slicing), although the cursor is fine. -/
theorem C09_run_violation_stack :
    (parse0 true c09RunGrammar (fun _ _ => false) 5 true .peek ⟨[0xC3, 0xA9, 0x41], 0, 0, 3⟩
      ⟨[(1, 3)], { position := 0 }⟩).obs = .panic ∧
    (parse0 false c09RunGrammar (fun _ _ => false) 5 true .peek ⟨[0xC3, 0xA9, 0x41], 0, 0, 3⟩
      ⟨[(1, 3)], { position := 0 }⟩).obs = .panic := by
  constructor <;> decide

/-- Hypotheses of `C09_run_sim` on a concrete state with a non-empty stack. -/
example : AbsM c09RunBytes ⟨[(1, 3)], { position := 1 }⟩ ⟨[⟨1, 3, ['é']⟩], { position := 1 }⟩ :=
  ⟨⟨rfl, fun sp h => by rw [List.mem_singleton.mp h]; show strGet c09RunBytes 1 3 = some (enc ['é']); decide⟩, rfl⟩

end PestTyped
