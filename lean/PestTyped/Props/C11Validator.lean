/-
Props.C11Validator — property C11, first sentence ("the generator refuses every grammar that pest's
validator rejects for left recursion, for a repetition whose body cannot fail or cannot make progress,
for an unreachable alternative or for a non-progressing WHITESPACE/COMMENT") and the link between
"pest accepts" and the well-foundedness hypotheses of the termination theorem (`Props/C11.lean`).

The validator is pest_meta's (external).  `Model/Validator.lean` is a line-by-line MIRROR of
`pest_meta::validator::validate_ast` (`pestValidate`); it is tied to the real function by the
correspondence check `validator-mirror` of `checks/c11.py` (the real `validate_ast` and the mirror are
run on the very same `ParserRule`s for every grammar of the C11 corpus; same verdict, same multiset of
error classes), and the derive is tied to the real validator by the oracle `derive-vs-validator`
(`derive_typed_parser` panics exactly when `consume_rules` = `validate_ast` reports errors).

Theorems.
* `C11_refuses`                 the derive pipeline with the mirrored validator and the mirrored optimizer
                                (`deriveTyped`, mirror of `generator/src/typed.rs:38-80`) produces no module
                                when the validator reports anything;
  `C11_refuses_class`           in particular for each of the six error classes;
  `C11_derive_iff`              a module is produced exactly when the validator reports nothing, and it is
                                `genWith cfg (optimize g) g`.
* `C11_validator_repetition_sound`      on `ValFragment` (see `Lemmas/ValidatorRep.lean`), `pestValidate g = []`
                                implies `NulOK` and `Progressing` for the module generated from the raw AST, for
                                the nullability assignment read off the validator (`valNul g`).
  `C11_validator_blindspot_peek_star`, `C11_validator_blindspot_peekslice_star`: outside the fragment the
                                statement is false (`PEEK*`, `PEEK[0..]*` are accepted and not `Progressing`).
* `C11_validator_leftrec_sound_partial` on `LRFragment` (see `Lemmas/ValidatorLeftRec.lean`), acceptance by the
                                left-recursion check implies `NoLeftRec`.
* `C11_validator_sound_partial` both together: on the two fragments an accepted grammar is well-founded;
  `C11_validator_accepts_terminates_partial`: … and every parse of the generated module terminates
                                (`C11_terminates`).
* `C11_validator_blindspot_*`   kernel-checked witnesses that "pest accepts ⇒ well-founded" is FALSE outside
                                the fragments: for each grammar, `pestValidate g = []` although NO certificate of
                                well-foundedness exists (`∀ nul rank, ¬ NoLeftRecBy (gen g) nul rank`) and the
                                decision procedure says so (`wfCheck (gen g) = false`):
                                `!"x" ~ a`, `&"x" ~ a`, `SOI ~ a`, `PEEK ~ a`, `a{2}` (known), and two shapes found
                                while building the mirror: `a? ~ "x"` and `a* ~ "x"` (a NON-FAILING first element
                                makes pest's check skip that element altogether).
  `C11_validator_blindspots_excluded`     each of them violates `LRFragment`.
  `C11_validator_blindspot_opt_diverges`   the generated parser for `a = { a? ~ "x" }` has no sufficient fuel on
                                any input (pest itself overflows its stack on this grammar).
-/
import PestTyped.Model.Validator
import PestTyped.Model.PestOpt
import PestTyped.Model.GenOpts
import PestTyped.Lemmas.Termination
import PestTyped.Lemmas.ValidatorRep
import PestTyped.Lemmas.ValidatorLeftRec
import PestTyped.Props.C11
namespace PestTyped

/-! ### the derive pipeline with the mirrored validator -/

/-- `derive_typed_parser` after the grammar text has been parsed (`typed.rs:48-80`):
`unwrap_or_report(consume_rules(pairs))` (= `validate_ast`, panics on any error), then
`optimize` when `pest_optimizer` is on, then generation.  `none` = the macro panics. -/
def deriveTyped (cfg : Config) (g : PGrammar) : Option NodeGrammar :=
  if pestValidate g = [] then some (genWith cfg (optimize g) g) else none

/-- The generator refuses every grammar for which the validator reports an error. -/
theorem C11_refuses (cfg : Config) (g : PGrammar) (h : pestValidate g ≠ []) : deriveTyped cfg g = none := by
  simp [deriveTyped, h]

/-- … in particular for each class of the property text: a repetition that cannot fail or cannot
progress, an unreachable alternative, a WHITESPACE/COMMENT that cannot fail or progress, left recursion. -/
theorem C11_refuses_class (cfg : Config) (g : PGrammar) (c : ValidatorError) (h : c ∈ pestValidate g) :
    deriveTyped cfg g = none := by
  apply C11_refuses
  intro h0
  rw [h0] at h
  cases h

/-- A module is produced exactly for the accepted grammars, and it is the generator's output for the
AST the configuration selects. -/
theorem C11_derive_iff (cfg : Config) (g : PGrammar) (G : NodeGrammar) :
    deriveTyped cfg g = some G ↔ pestValidate g = [] ∧ G = genWith cfg (optimize g) g := by
  unfold deriveTyped
  constructor
  · intro h
    split at h
    · next hv => injection h with h; exact ⟨hv, h.symm⟩
    · cases h
  · rintro ⟨hv, rfl⟩
    simp [hv]

/-! non-vacuity: one grammar per error class, and an accepted one -/

/-- `a = { ("x"?)* }` -/
example : pestValidate [{ name := "a", kind := .normal, expr := .rep (.opt (.str ['x'])) }] = [.repCannotFail] := by decide
/-- `a = { (!"x")* }` -/
example : pestValidate [{ name := "a", kind := .normal, expr := .rep (.negPred (.str ['x'])) }] = [.repNonProgressing] := by decide
/-- `a = { "x"? | "y" }` -/
example : pestValidate [{ name := "a", kind := .normal, expr := .choice (.opt (.str ['x'])) (.str ['y']) }] = [.choiceUnreachable] := by decide
/-- `WHITESPACE = { " "* }` -/
example : pestValidate [{ name := "WHITESPACE", kind := .normal, expr := .rep (.str [' ']) }] = [.skipCannotFail] := by decide
/-- `COMMENT = { &"x" }` -/
example : pestValidate [{ name := "COMMENT", kind := .normal, expr := .posPred (.str ['x']) }] = [.skipNonProgressing] := by decide
/-- `a = { b ~ "x" }  b = { "y"? ~ a }` -/
example : pestValidate [{ name := "a", kind := .normal, expr := .seq (.ident "b") (.str ['x']) },
                        { name := "b", kind := .normal, expr := .seq (.opt (.str ['y'])) (.ident "a") }] =
    [.leftRecursion, .leftRecursion] := by decide
example : deriveTyped {} [{ name := "a", kind := .normal, expr := .rep (.opt (.str ['x'])) }] = none :=
  C11_refuses_class _ _ .repCannotFail (by decide)
/-- `expr = { "(" ~ expr* ~ ")" | "x" }  WHITESPACE = _{ " " }` is accepted. -/
def c11vGood : PGrammar :=
  [{ name := "expr", kind := .normal,
     expr := .choice (.seq (.seq (.str ['(']) (.rep (.ident "expr"))) (.str [')'])) (.str ['x']) },
   { name := "WHITESPACE", kind := .silent, expr := .str [' '] }]
example : pestValidate c11vGood = [] := by decide
example : (deriveTyped {} c11vGood).isSome = true := by simp [deriveTyped, show pestValidate c11vGood = [] by decide]


/-! ### soundness of the validator with respect to the termination hypotheses -/

/-- On `ValFragment` (decidable; `Lemmas/ValidatorRep.lean`: rule names pairwise distinct, and no
`PEEK[..]` / undefined `PEEK`, `POP`, `DROP`, `PEEK_ALL`, `POP_ALL` at a position the nullability analysis
depends on — these are the leaves pest calls "progressing" although they may match the empty string;
predicates, `SOI`, `EOI`, counted repetitions, `PUSH(…)`, every other built-in are inside the fragment), a
grammar the validator accepts satisfies two of the three hypotheses of `C11_terminates` for the module
generated from the raw AST, with the nullability assignment read off pest's `is_non_progressing`
(`valNul g`): it is a post-fixpoint, and no unbounded repetition body nor the implicit skip can match
without consuming.  The proof shows that pest's depth-first search with cycle cut computes the least
fixpoint of the nullability equations. -/
theorem C11_validator_repetition_sound (g : PGrammar) (hf : ValFragment g = true) (hv : pestValidate g = []) :
    NulOK (gen g) (valNul g) ∧ Progressing (gen g) (valNul g) :=
  validator_repetition_sound g hf hv

/-- The validator-independent sub-fragment: distinct names and no `PEEK[..]`, `skip`, `restoreOnErr`,
undefined stack identifier anywhere. -/
theorem C11_validator_repetition_sound_simple (g : PGrammar) (hf : ValFragmentSimple g = true)
    (hv : pestValidate g = []) : NulOK (gen g) (valNul g) ∧ Progressing (gen g) (valNul g) :=
  validator_repetition_sound g (ValFragmentSimple_sub g hf) hv

/-- On `LRFragment g nul` (decidable; `Lemmas/ValidatorLeftRec.lean`: rule names pairwise distinct; for every
rule that is referenced somewhere or lies in the closure of the skip rules, at every sequence `l ~ r` of its
body: if pest finds `l` non-failing — and therefore looks only at `r` — `l` has no rule among its heads, and
otherwise — pest looks only at `l` — either `l` is not nullable or `r` has no rule among its heads; counted
repetitions have no rule among the heads of their body; the rules reachable at the heads of WHITESPACE /
COMMENT never start with an implicit skip), acceptance by pest's left-recursion check gives the third
hypothesis of `C11_terminates`: a rank that decreases along every head edge of the generated module, the
edges through the implicit skip included.  `_partial`: outside the fragment the statement is false
(`C11_validator_blindspot_*` below); the fragment excludes some harmless grammars as well (e.g. `sign? ~ number`,
`hex{4}` with `sign`, `hex` rules): admitting them needs an argument that no longer uses pest's check.
The proof shows (A) a finite graph without cycles has a rank (number of reachable nodes), (B) pest's
depth-first search from every rule, cutting at names already on its trace, finds every cycle of its own edge
relation, (C) on the fragment every true head edge is one of pest's edges. -/
theorem C11_validator_leftrec_sound_partial (g : PGrammar) (nul : RuleId → Bool)
    (hf : LRFragment g nul = true) (hv : pestValidate g = []) : NoLeftRec (gen g) nul :=
  validator_leftrec_sound_of_pestValidate g nul hf hv

/-- Both halves: on `ValFragment ∧ LRFragment` (with the nullability assignment read off the validator) a
grammar that pest accepts is well-founded … -/
theorem C11_validator_sound_partial (g : PGrammar) (hf : ValFragment g = true)
    (hl : LRFragment g (valNul g) = true) (hv : pestValidate g = []) :
    NulOK (gen g) (valNul g) ∧ NoLeftRec (gen g) (valNul g) ∧ Progressing (gen g) (valNul g) :=
  ⟨(validator_repetition_sound g hf hv).1, validator_leftrec_sound_of_pestValidate g _ hl hv,
   (validator_repetition_sound g hf hv).2⟩

/-- … and every parse of the module generated from it returns (third sentence of the property, now with
"pest accepts" as the hypothesis instead of a certificate). -/
theorem C11_validator_accepts_terminates_partial (g : PGrammar) (uni : Uni) (hf : ValFragment g = true)
    (hl : LRFragment g (valNul g) = true) (hv : pestValidate g = []) :
    ∀ (inh : Bool) (node : Node) (i : Inp) (m : M), OccursIn (gen g) node →
      ∃ n, ∀ n', n ≤ n' → parse (gen g) uni n' inh node i m ≠ .oof :=
  let h := C11_validator_sound_partial g hf hl hv
  C11_terminates (gen g) uni (valNul g) h.1 h.2.1 h.2.2

/-- Non-vacuity: a JSON-like grammar with `file = { SOI ~ value ~ EOI }`, `(!"\"" ~ ANY)*`, recursion through
`value`, and `WHITESPACE` is in both fragments and accepted. -/
example : ValFragment lrG4 = true ∧ LRFragment lrG4 (valNul lrG4) = true ∧ pestValidate lrG4 = [] := by decide
example (uni : Uni) := C11_validator_accepts_terminates_partial lrG4 uni (by decide) (by decide) (by decide)

/-- Outside the fragment the statement is false: `a = { PEEK* }` is accepted (pest's source documents the
blind spot: `PEEK` of an empty string on the stack does not progress) and is not `Progressing`. -/
theorem C11_validator_blindspot_peek_star : ValFragment vrBadPeek = false ∧ pestValidate vrBadPeek = [] ∧
    ¬ Progressing (gen vrBadPeek) (valNul vrBadPeek) := fragment_witness_peek

/-- … and so is `a = { PEEK[0..]* }`. -/
theorem C11_validator_blindspot_peekslice_star : ValFragment vrBadSlice = false ∧ pestValidate vrBadSlice = [] ∧
    ¬ Progressing (gen vrBadSlice) (valNul vrBadSlice) := fragment_witness_peekSlice

/-- Non-vacuity: `a = { ("x" ~ b?)* ~ EOI }  b = { !"y" ~ ANY }  WHITESPACE = { " " }`. -/
example : ValFragment vrG1 = true ∧ pestValidate vrG1 = [] := by decide
example : NulOK (gen vrG1) (valNul vrG1) ∧ Progressing (gen vrG1) (valNul vrG1) :=
  C11_validator_repetition_sound vrG1 (by decide) (by decide)

/-! ### blind spots of pest's validator: accepted, but not well-founded -/

/-- A rule whose body has the rule itself among its heads, whatever the nullability assignment, admits
no rank: there is no certificate of well-foundedness at all. -/
theorem noCert_of_self_head (G : NodeGrammar) (r : RuleId) (d : RuleDef) (hd : G.rule? r = some d)
    (hh : ∀ nul, r ∈ heads nul G.sid d.body) : ∀ nul rank, ¬ NoLeftRecBy G nul rank := by
  intro nul rank h
  have := h.1 r d hd r (hh nul)
  omega

/-- The module generated for a one-rule grammar `a = @{ body }` whose body is already known. -/
def bsModule (atom : Atomicity) (emit : Emission) (body : Node) : NodeGrammar :=
  ⟨[eoiDef, ⟨"a", atom, emit, true, body⟩], .empty⟩

/-- `a = @{ !"x" ~ a }` -/
def bsNeg : PGrammar := [⟨"a", .atomic, .seq (.negPred (.str ['x'])) (.ident "a")⟩]
theorem bsNeg_gen : gen bsNeg = bsModule .atomic .span (.seq .zero [.neg (.str ['x']), .ref 1 .zero]) := by
  simp [gen, bsNeg, bsModule, genRule, genExpr, genSeqSpine, genSkipped, PGrammar.indexOf, PGrammar.indexOf.go,
    kindAtomicity, kindEmission, atomFlag]
theorem C11_validator_blindspot_neg :
    pestValidate bsNeg = [] ∧ (∀ nul rank, ¬ NoLeftRecBy (gen bsNeg) nul rank) ∧ wfCheck (gen bsNeg) = false := by
  rw [bsNeg_gen]
  exact ⟨by decide, noCert_of_self_head _ 1 _ rfl (fun nul => by simp [heads, headsSeq, nullable, skipHead]), by decide⟩

/-- `a = @{ &"x" ~ a }` -/
def bsPos : PGrammar := [⟨"a", .atomic, .seq (.posPred (.str ['x'])) (.ident "a")⟩]
theorem bsPos_gen : gen bsPos = bsModule .atomic .span (.seq .zero [.pos (.str ['x']), .ref 1 .zero]) := by
  simp [gen, bsPos, bsModule, genRule, genExpr, genSeqSpine, genSkipped, PGrammar.indexOf, PGrammar.indexOf.go,
    kindAtomicity, kindEmission, atomFlag]
theorem C11_validator_blindspot_pos :
    pestValidate bsPos = [] ∧ (∀ nul rank, ¬ NoLeftRecBy (gen bsPos) nul rank) ∧ wfCheck (gen bsPos) = false := by
  rw [bsPos_gen]
  exact ⟨by decide, noCert_of_self_head _ 1 _ rfl (fun nul => by simp [heads, headsSeq, nullable, skipHead]), by decide⟩

/-- `a = @{ SOI ~ a }` -/
def bsSoi : PGrammar := [⟨"a", .atomic, .seq (.ident "SOI") (.ident "a")⟩]
theorem bsSoi_gen : gen bsSoi = bsModule .atomic .span (.seq .zero [.soi, .ref 1 .zero]) := by
  simp [gen, bsSoi, bsModule, genRule, genExpr, genSeqSpine, genSkipped, PGrammar.indexOf, PGrammar.indexOf.go,
    kindAtomicity, kindEmission, atomFlag, builtinNode]
theorem C11_validator_blindspot_soi :
    pestValidate bsSoi = [] ∧ (∀ nul rank, ¬ NoLeftRecBy (gen bsSoi) nul rank) ∧ wfCheck (gen bsSoi) = false := by
  rw [bsSoi_gen]
  exact ⟨by decide, noCert_of_self_head _ 1 _ rfl (fun nul => by simp [heads, headsSeq, nullable, skipHead]), by decide⟩

/-- `a = @{ PEEK ~ a }` (with an empty stack `PEEK` fails, after `PUSH("")` it matches the empty string). -/
def bsPeek : PGrammar := [⟨"a", .atomic, .seq (.ident "PEEK") (.ident "a")⟩]
theorem bsPeek_gen : gen bsPeek = bsModule .atomic .span (.seq .zero [.peek, .ref 1 .zero]) := by
  simp [gen, bsPeek, bsModule, genRule, genExpr, genSeqSpine, genSkipped, PGrammar.indexOf, PGrammar.indexOf.go,
    kindAtomicity, kindEmission, atomFlag, builtinNode]
theorem C11_validator_blindspot_peek :
    pestValidate bsPeek = [] ∧ (∀ nul rank, ¬ NoLeftRecBy (gen bsPeek) nul rank) ∧ wfCheck (gen bsPeek) = false := by
  rw [bsPeek_gen]
  exact ⟨by decide, noCert_of_self_head _ 1 _ rfl (fun nul => by simp [heads, headsSeq, nullable, skipHead]), by decide⟩

/-- `a = @{ a{2} }`: the left-recursion check does not look inside counted repetitions. -/
def bsCounted : PGrammar := [⟨"a", .atomic, .repExact (.ident "a") 2⟩]
theorem bsCounted_gen : gen bsCounted = bsModule .atomic .span (.rep .zero 2 (some 2) (.ref 1 .zero)) := by
  simp [gen, bsCounted, bsModule, genRule, genExpr, genSkipped, PGrammar.indexOf, PGrammar.indexOf.go,
    kindAtomicity, kindEmission, atomFlag]
theorem C11_validator_blindspot_counted :
    pestValidate bsCounted = [] ∧ (∀ nul rank, ¬ NoLeftRecBy (gen bsCounted) nul rank) ∧
      wfCheck (gen bsCounted) = false := by
  rw [bsCounted_gen]
  exact ⟨by decide, noCert_of_self_head _ 1 _ rfl (fun nul => by simp [heads]), by decide⟩

/-- `a = { a? ~ "x" }`: `a?` cannot fail, so `check_expr` continues with `"x"` and never looks at `a?`. -/
def bsOpt : PGrammar := [⟨"a", .normal, .seq (.opt (.ident "a")) (.str ['x'])⟩]
def bsOptModule : NodeGrammar := bsModule .inherited .both (.seq .inh [.opt (.ref 1 .inh), .str ['x']])
theorem bsOpt_gen : gen bsOpt = bsOptModule := by
  simp [gen, bsOpt, bsOptModule, bsModule, genRule, genExpr, genSeqSpine, genSkipped, PGrammar.indexOf, PGrammar.indexOf.go,
    kindAtomicity, kindEmission, atomFlag]
theorem C11_validator_blindspot_opt :
    pestValidate bsOpt = [] ∧ (∀ nul rank, ¬ NoLeftRecBy (gen bsOpt) nul rank) ∧ wfCheck (gen bsOpt) = false := by
  rw [bsOpt_gen]
  exact ⟨by decide, noCert_of_self_head _ 1 _ rfl (fun nul => by simp [heads, headsSeq]), by decide⟩

/-- `a = { a* ~ "x" }`: the same through a repetition (whose body `a` can fail, so `validate_repetition`
has no objection either). -/
def bsStar : PGrammar := [⟨"a", .normal, .seq (.rep (.ident "a")) (.str ['x'])⟩]
theorem bsStar_gen : gen bsStar = bsModule .inherited .both (.seq .inh [.rep .inh 0 none (.ref 1 .inh), .str ['x']]) := by
  simp [gen, bsStar, bsModule, genRule, genExpr, genSeqSpine, genSkipped, PGrammar.indexOf, PGrammar.indexOf.go,
    kindAtomicity, kindEmission, atomFlag]
theorem C11_validator_blindspot_star :
    pestValidate bsStar = [] ∧ (∀ nul rank, ¬ NoLeftRecBy (gen bsStar) nul rank) ∧ wfCheck (gen bsStar) = false := by
  rw [bsStar_gen]
  exact ⟨by decide, noCert_of_self_head _ 1 _ rfl (fun nul => by simp [heads, headsSeq]), by decide⟩

/-- The module generated for `a = { a? ~ "x" }` never answers: every fuel is exhausted, on every input,
in every state (the recursion `a → a? → a` consumes nothing). -/
theorem C11_validator_blindspot_opt_diverges (uni : Uni) (i : Inp) :
    ∀ n inh m, parse (gen bsOpt) uni n inh (.ref 1 .inh) i m = .oof ∧
      parse (gen bsOpt) uni n inh (.opt (.ref 1 .inh)) i m = .oof ∧
      parse (gen bsOpt) uni n inh (.seq .inh [.opt (.ref 1 .inh), .str ['x']]) i m = .oof := by
  rw [bsOpt_gen]
  intro n
  induction n with
  | zero => intros; exact ⟨rfl, rfl, rfl⟩
  | succ n ih =>
    intro inh m
    have hrule : bsOptModule.rule? 1 = some ⟨"a", .inherited, .both, true, .seq .inh [.opt (.ref 1 .inh), .str ['x']]⟩ := rfl
    refine ⟨?_, ?_, ?_⟩
    · simp only [parse, hrule]
      rw [(ih _ _).2.2]
    · simp only [parse]
      rw [(ih _ _).1]
      rfl
    · simp only [parse]
      rw [(ih _ _).2.1]

/-- Every blind spot above is excluded by the fragment of `C11_validator_leftrec_sound_partial` (so the
fragment conditions are not vacuous restrictions: each is violated by a grammar pest accepts). -/
theorem C11_validator_blindspots_excluded :
    LRFragment bsNeg (valNul bsNeg) = false ∧ LRFragment bsPos (valNul bsPos) = false ∧
    LRFragment bsSoi (valNul bsSoi) = false ∧ LRFragment bsPeek (valNul bsPeek) = false ∧
    LRFragment bsCounted (valNul bsCounted) = false ∧ LRFragment bsOpt (valNul bsOpt) = false ∧
    LRFragment bsStar (valNul bsStar) = false := by decide

end PestTyped
