/-
Props.C13Usize — C13 at the edges the first round left open (review rev2-E):

* `Span::get` with bounds at the top of the `usize` range.  `C13_get` is stated over unbounded
  integers; the Rust computes `offset + 1` on `usize`.  `Span.getU w` is `get` as written after the
  repair (`checked_add(1)?`) on a `w`-bit machine: `C13_get_usize` — a bound whose successor does
  not fit gives `None`, every other call is `C13_get`'s answer, never a panic; `C13_get_usize_none`
  — every range that does not fit the span (in particular every bound beyond it, up to
  `usize::MAX`) gives `None`.  The tie `T-text:span-usize` runs exactly these calls in a debug
  (overflow checks) and a release (wrapping) build.
* `start` / `end` / `split`: `C13_split_positions` — the two offsets a span built by `Span::new`
  hands out are the arguments it was built from, in order, both valid positions, and
  `Position::span` of them is the span again.
* Identity: `PartialEq` / `Hash` of spans compare the input OBJECT (`ISpan.obj`), never the text:
  `C13_eq_iff`, `C13_eq_equivalence`, `C13_eq_hash`; `merge_spans` across two input objects:
  `C13_merge_any_inputs` (the hull, validated against and pointing into the FIRST span's input).
-/
import PestTyped.Lemmas.TextSpanUsize
namespace PestTyped
open Text

/-- `Span::get` on a `w`-bit machine, for every valid span and every pair of bounds:
an overflowing bound (`Excluded(usize::MAX)` as start, `Included(usize::MAX)` as end) gives
`None`; without one the call is the unbounded-integer `get` of `C13_get`; in no case a panic. -/
theorem C13_get_usize (w : Nat) (sp : Span) (h : sp.Valid) (lo hi : Bound) :
    (Bound.Overflows w lo hi → sp.getU w lo hi = .ok none) ∧
    (¬ Bound.Overflows w lo hi → sp.getU w lo hi = sp.get lo hi) ∧
    ∃ r, sp.getU w lo hi = .ok r := by
  refine ⟨Span.getU_of_overflow sp h, Span.getU_of_no_overflow sp h, ?_⟩
  by_cases ho : Bound.Overflows w lo hi
  · exact ⟨none, Span.getU_of_overflow sp h ho⟩
  · rw [Span.getU_of_no_overflow sp h ho]; exact Span.get_ok_of_valid h lo hi

/-- `span.get(..=usize::MAX)`, `span.get((Excluded(usize::MAX), Unbounded))`, `span.get(usize::MAX..)`
on a 64-bit machine. -/
example : (Span.mk ['a', '中', 'b'] 1 4).getU 64 .unb (.incl (2 ^ 64 - 1)) = .ok none ∧
    (Span.mk ['a', '中', 'b'] 1 4).getU 64 (.excl (2 ^ 64 - 1)) .unb = .ok none ∧
    (Span.mk ['a', '中', 'b'] 1 4).getU 64 (.incl (2 ^ 64 - 1)) .unb = .ok none ∧
    (Span.mk ['a', '中', 'b'] 1 4).getU 64 .unb (.excl (2 ^ 64 - 1)) = .ok none ∧
    (Span.mk ['a', '中', 'b'] 1 4).getU 64 (.incl 0) (.incl 2) = .ok (some ⟨['a', '中', 'b'], 1, 4⟩) := by decide
example : Bound.Overflows 64 .unb (.incl (2 ^ 64 - 1)) := Or.inr ⟨_, rfl, by decide⟩
example : ¬ Bound.Overflows 64 (.incl 0) (.incl 2) := by
  rintro (⟨o, h, _⟩ | ⟨o, h, ho⟩)
  · cases h
  · injection h with h; subst h; exact absurd ho (by decide)
example : (Span.mk ['a', '中', 'b'] 1 4).Valid :=
  ⟨by decide, ⟨['a'], ['中', 'b'], rfl, by decide⟩, ⟨['a', '中'], ['b'], rfl, by decide⟩⟩

/-- Every range that does not fit the span gives `None`: a start or end (after resolving
`Included` / `Excluded` / `Unbounded`) beyond the length of the span — in particular every bound
from `span_len + 1` up to `usize::MAX` — or an overflowing bound. -/
theorem C13_get_usize_none (w : Nat) (sp : Span) (h : sp.Valid) (lo hi : Bound)
    (hb : Bound.Overflows w lo hi ∨ sp.stop - sp.start < lo.startOff ∨
      sp.stop - sp.start < hi.endOff (sp.stop - sp.start)) :
    sp.getU w lo hi = .ok none := by
  by_cases ho : Bound.Overflows w lo hi
  · exact Span.getU_of_overflow sp h ho
  · rw [Span.getU_of_no_overflow sp h ho]
    rcases hb with hb | hb
    · exact absurd hb ho
    · exact Span.get_none_of_beyond h lo hi hb

example : (Span.mk ['a', '中', 'b'] 1 4).getU 64 (.incl 4) .unb = .ok none ∧
    (Span.mk ['a', '中', 'b'] 1 4).getU 64 (.incl 0) (.excl (2 ^ 64 - 2)) = .ok none := by decide

/-- `start()` / `end()` / `split()` / `start_pos()` / `end_pos()` of a span built by
`Span::new(s, a, b)`: the offsets are `a` and `b`, in order; both are valid positions of `s`
(`Position::new` answers on them); and `Position::span` of the two positions is the span again. -/
theorem C13_split_positions (s : List Char) (a b : Nat) (sp : Span) (h : Span.new s a b = some sp) :
    sp.split = (a, b) ∧ sp.split.1 ≤ sp.split.2 ∧
    posNew s sp.split.1 = some a ∧ posNew s sp.split.2 = some b ∧
    (Pos.mk s sp.split.1).span ⟨s, sp.split.2⟩ = .ok sp := by
  obtain ⟨rfl, hab, ha, hb⟩ := Span.new_eq_some.mp h
  refine ⟨rfl, hab, ?_, ?_, ?_⟩
  · show posNew s a = some a
    unfold posNew
    cases hd : dropBytes a s with
    | none => exact absurd ha (dropBytes_none_iff.mp hd)
    | some _ => rfl
  · show posNew s b = some b
    unfold posNew
    cases hd : dropBytes b s with
    | none => exact absurd hb (dropBytes_none_iff.mp hd)
    | some _ => rfl
  · unfold Pos.span Span.split; simp

example : Span.new ['a', '中', 'b'] 1 4 = some ⟨['a', '中', 'b'], 1, 4⟩ := by decide

/-- `impl PartialEq for Span`: two spans are equal iff they are on the same input OBJECT and have
the same offsets.  The text plays no role: spans of two different objects are never equal, even
with equal text and offsets. -/
theorem C13_eq_iff (a b : ISpan) :
    (a.eq b = true ↔ a.obj = b.obj ∧ a.sp.start = b.sp.start ∧ a.sp.stop = b.sp.stop) ∧
    (a.obj ≠ b.obj → a.eq b = false) := by
  refine ⟨ISpan.eq_iff a b, fun hne => ?_⟩
  cases he : a.eq b with
  | false => rfl
  | true => exact absurd ((ISpan.eq_iff a b).mp he).1 hne

example : (ISpan.mk 0 ⟨['a', 'b'], 0, 1⟩).eq ⟨1, ⟨['a', 'b'], 0, 1⟩⟩ = false ∧
    (ISpan.mk 0 ⟨['a', 'b'], 0, 1⟩).eq ⟨0, ⟨['a', 'b'], 0, 1⟩⟩ = true ∧
    (ISpan.mk 0 ⟨['a', 'b'], 0, 1⟩).eq ⟨0, ⟨['a', 'b'], 0, 2⟩⟩ = false := by decide

/-- `==` on spans is an equivalence relation (`impl Eq`). -/
theorem C13_eq_equivalence (a b c : ISpan) :
    a.eq a = true ∧ (a.eq b = true → b.eq a = true) ∧ (a.eq b = true → b.eq c = true → a.eq c = true) := by
  refine ⟨(ISpan.eq_iff a a).mpr ⟨rfl, rfl, rfl⟩, fun h => ?_, fun h1 h2 => ?_⟩
  · obtain ⟨x, y, z⟩ := (ISpan.eq_iff a b).mp h
    exact (ISpan.eq_iff b a).mpr ⟨x.symm, y.symm, z.symm⟩
  · obtain ⟨x, y, z⟩ := (ISpan.eq_iff a b).mp h1
    obtain ⟨x', y', z'⟩ := (ISpan.eq_iff b c).mp h2
    exact (ISpan.eq_iff a c).mpr ⟨x.trans x', y.trans y', z.trans z'⟩

/-- `impl Hash for Span` feeds the hasher with (input object, start, end): equal spans feed the
same values (Hash is consistent with Eq), and spans feeding the same values are equal. -/
theorem C13_eq_hash (a b : ISpan) : a.eq b = true ↔ a.hashFeed = b.hashFeed :=
  ISpan.eq_iff_hashFeed a b

example : (ISpan.mk 3 ⟨['a', 'b'], 0, 1⟩).hashFeed = [3, 0, 1] := by decide

/-- `merge_spans(a, b)` for spans of ANY two input objects: `Some(c)` iff the two offset ranges
overlap or touch and their hull is a valid range of `a`'s input; `c` is then that hull on `a`'s
input object — `b`'s input is never looked at. -/
theorem C13_merge_any_inputs (a b c : ISpan) :
    mergeISpans a b = some c ↔
      (a.sp.stop ≥ b.sp.start ∧ a.sp.start ≤ b.sp.stop) ∧
      min a.sp.start b.sp.start ≤ max a.sp.stop b.sp.stop ∧
      IsBoundary a.sp.input (min a.sp.start b.sp.start) ∧ IsBoundary a.sp.input (max a.sp.stop b.sp.stop) ∧
      c = ⟨a.obj, ⟨a.sp.input, min a.sp.start b.sp.start, max a.sp.stop b.sp.stop⟩⟩ :=
  mergeISpans_eq_some_iff

/-- Two objects with equal text: the hull, on the first one. -/
example : mergeISpans ⟨0, ⟨['a', 'b', 'c'], 0, 1⟩⟩ ⟨1, ⟨['a', 'b', 'c'], 1, 3⟩⟩ = some ⟨0, ⟨['a', 'b', 'c'], 0, 3⟩⟩ := by
  decide

end PestTyped
