/-
Props.C20Emit — property C20, the clause "the options only add accessors or change how content is stored",
stated about a model that HAS the options.

`Model/GenOpts.lean: emitWith cfg optimized raw : Emitted` is what the derive emits for the rules: `types`
(every argument of every `rule!` invocation: type expression, `$atomicity`, `$emission`, `$boxed`, and the
`Skipped` alias) and `accessors` (the functions of every rule's `impl` block, `Model/Getters.lean`).  It reads
three options, as the Rust code does: `pest_optimizer` (which AST is walked), `box_only_if_needed` (`$boxed`),
`emit_rule_reference` (whether identifiers contribute `Getter::from_rule`).  Tied to the real generator by
`T-gen:structure` (checks/tgen.py: `types`, for option sets that include `emit_rule_reference`,
`do_not_emit_span`, `no_warnings` and their combinations with `pest_optimizer = false` / `box_only_if_needed`)
and by `T-gen:accessors` (checks/c20.py: accessor names per rule under every option set).

Theorems
* `C20_emit_rule_reference_adds_accessors_only` — switching `emit_rule_reference` leaves `types` IDENTICAL (type
  expressions, atomicity, emission and storage of every rule) and only switches the accessor lists between
  "none" and the getter forest of each rule.
* `C20_emit_no_accessors_when_off`, `C20_emit_accessors_when_on` — the two accessor lists.
* `C20_emit_types_storage_only` — two configurations with the same `pest_optimizer` emit the same `types` up to
  the `$boxed` argument, whatever the other seven options are.
* `C20_emit_types_eq` — with the same `pest_optimizer` and `box_only_if_needed`, `types` are equal.
* `C20_emit_inert_options` — `do_not_emit_span`, `no_warnings`, `simulate_pair_api`, `emit_tagged_node_reference`,
  `truncate_getter_at_node_tag` change nothing of what is emitted (default features).  This is true of the model
  because the model does not read them, and the model does not read them because the Rust code does not
  (`config.do_not_emit_span` / `config.simulate_pair_api` occur nowhere after `parse_typed_derive`; the two tag
  options only inside `#[cfg(feature = "grammar-extras")]`): the statement gets its meaning from the ties, which
  compare the real output under these options with this model.
* `C20_emit_run_transparent` — consequently the parsers of two configurations with the same `pest_optimizer` are
  indistinguishable (`C20_options_transparent` restated through `emitWith`).
-/
import PestTyped.Props.C20
namespace PestTyped

theorem emitWith_types (cfg : Config) (optimized raw : PGrammar) :
    (emitWith cfg optimized raw).types = genWith cfg optimized raw := rfl

/-- `emit_rule_reference` only adds accessors: every `rule!` argument is unchanged. -/
theorem C20_emit_rule_reference_adds_accessors_only (cfg : Config) (b : Bool) (optimized raw : PGrammar) :
    (emitWith { cfg with emit_rule_reference := b } optimized raw).types = (emitWith cfg optimized raw).types := rfl

theorem C20_emit_no_accessors_when_off (cfg : Config) (h : cfg.emit_rule_reference = false) (optimized raw : PGrammar) :
    (emitWith cfg optimized raw).accessors = (pickAst cfg optimized raw).map fun r => (r.name, []) := by
  simp only [emitWith, accessorsOf, h, Bool.false_eq_true, if_false]

theorem C20_emit_accessors_when_on (cfg : Config) (h : cfg.emit_rule_reference = true) (optimized raw : PGrammar) :
    (emitWith cfg optimized raw).accessors = (pickAst cfg optimized raw).map fun r => (r.name, ruleGetters r) := by
  simp only [emitWith, accessorsOf, h, if_true]

/-- Same `pest_optimizer`: the emitted types differ in the storage decision only. -/
theorem C20_emit_types_storage_only (cfg cfg' : Config) (h : cfg.SameAst cfg') (optimized raw : PGrammar) :
    (emitWith cfg optimized raw).types.eraseBoxed = (emitWith cfg' optimized raw).types.eraseBoxed :=
  C20_structure cfg cfg' h optimized raw

/-- Same `pest_optimizer` and `box_only_if_needed`: the emitted types are equal, whatever the other options. -/
theorem C20_emit_types_eq (cfg cfg' : Config) (h : cfg.pest_optimizer = cfg'.pest_optimizer)
    (hb : cfg.box_only_if_needed = cfg'.box_only_if_needed) (optimized raw : PGrammar) :
    (emitWith cfg optimized raw).types = (emitWith cfg' optimized raw).types := by
  have hg : ∀ g, genOn cfg g = genOn cfg' g := by
    intro g
    unfold genOn
    have hr : genRuleWith cfg g = genRuleWith cfg' g := by
      funext r
      unfold genRuleWith isBoxed
      rw [hb]
    rw [hr]
  show genOn cfg (pickAst cfg optimized raw) = genOn cfg' (pickAst cfg' optimized raw)
  unfold pickAst
  rw [h]
  exact hg _

/-- The options that are parsed but never read (default cargo features). -/
theorem C20_emit_inert_options (cfg : Config) (b1 b2 b3 b4 b5 : Bool) (optimized raw : PGrammar) :
    let cfg' := { cfg with do_not_emit_span := b1, no_warnings := b2, simulate_pair_api := b3,
                           emit_tagged_node_reference := b4, truncate_getter_at_node_tag := b5 }
    (emitWith cfg' optimized raw).types = (emitWith cfg optimized raw).types ∧
    (emitWith cfg' optimized raw).accessors = (emitWith cfg optimized raw).accessors :=
  ⟨rfl, rfl⟩

/-- Running the emitted parsers: same verdict, cursor, stack, tracker and token tree (all entry points). -/
theorem C20_emit_run_transparent (cfg cfg' : Config) (h : cfg.SameAst cfg') (optimized raw : PGrammar)
    (uni : Uni) (n : Nat) (r : RuleId) (i : Inp) :
    let G := (emitWith cfg optimized raw).types
    let G' := (emitWith cfg' optimized raw).types
    (tryParsePartial G uni n r i).state = (tryParsePartial G' uni n r i).state ∧
    Res.toks G (tryParsePartial G uni n r i) = Res.toks G' (tryParsePartial G' uni n r i) ∧
    (tryParse G uni n r i).state = (tryParse G' uni n r i).state ∧
    Res.toks G (tryParse G uni n r i) = Res.toks G' (tryParse G' uni n r i) ∧
    tryCheckPartial G uni n r i = tryCheckPartial G' uni n r i ∧
    tryCheck G uni n r i = tryCheck G' uni n r i :=
  C20_options_transparent cfg cfg' h optimized raw uni n r i

/-! ### non-vacuity: the option really is in the model — on `c20Cycle` (`a = { "a" ~ b* }  b = { "b" ~ c? }
c = { a+ }`) the accessor lists differ while the types do not -/

example : ((emitWith { emit_rule_reference := true } c20Cycle c20Cycle).accessors.map fun p => (p.1, p.2.keys)) =
    [("a", ["b"]), ("b", ["c"]), ("c", ["a"])] := by
  simp [emitWith, accessorsOf, pickAst, c20Cycle, ruleGetters, emitsGetters, genGetters, genSeqGetters,
    Forest.join, Forest.prepend, Forest.upsert, Forest.get?, Forest.insertSorted, Forest.keys]
example : ((emitWith {} c20Cycle c20Cycle).accessors.map fun p => (p.1, p.2.keys)) =
    [("a", []), ("b", []), ("c", [])] := by
  simp [emitWith, accessorsOf, pickAst, c20Cycle, Forest.keys]
example : ((emitWith { emit_rule_reference := true, box_only_if_needed := true } c20Cycle c20Cycle).types.rules.map (·.boxed)) =
    ((emitWith { box_only_if_needed := true } c20Cycle c20Cycle).types.rules.map (·.boxed)) := by decide
/-- … and `box_only_if_needed` is visible in `types` (so `C20_emit_types_eq` needs its second hypothesis). -/
example : ((emitWith { box_only_if_needed := true } c20Cycle c20Cycle).types.rules.map (·.boxed)) ≠
    ((emitWith {} c20Cycle c20Cycle).types.rules.map (·.boxed)) := by decide

end PestTyped
