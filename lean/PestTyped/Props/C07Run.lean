/-
Props.C07Run — C07 at run level: "implicit skipping happens there and NOWHERE ELSE", and the
inheritance of atomicity as a statement about runs.

Props/C07.lean describes the skip sites one by one and the flags of generated bodies syntactically.
Here:

* `C07_skip_irrelevant` (`_rules`, `_check`) — under `NoSkipReach G inh node` (`Lemmas/SkipIrrelevant`:
  every skip flag that can be consulted while running `node` under `inh` — in `node` and, through
  rule references entered under the value their flag evaluates to, in rule bodies to any depth —
  evaluates to `false`; given by an invariant set `S : RuleId → Bool → Prop` closed under
  references), the run `parse G uni n inh node i m` is THE SAME for any other skip type: the
  result does not depend on `WHITESPACE` / `COMMENT` at all.  So the skip type is consulted only at
  a sequence / repetition whose flag evaluates to `true` (all 29 node kinds, any depth).
* `C07_atomic_rule_no_skip` — generated modules: a rule of kind `@` or `$` from which (through rule
  bodies, `Reach`) no `!` rule is reachable is parsed independently of the skip type, from any
  context (`inh`, reference flag `f`).
* `C07_atomic_entry_no_skip` — the same for the entry points `try_parse_partial` / `try_parse` of such a rule.
* `C07_skip_used_example` — not vacuous the other way: a concrete run where replacing the skip type
  changes the result; `C07_counterexample_atomic_reaches_nonatomic` — the reachability hypothesis
  of `C07_atomic_rule_no_skip` cannot be dropped (`c = ${ a ~ n }`, `n = !{ "x"+ }`).
* `C07_inherit_run` — run-level form of `C07_flag_atomic` / `C07_atomic_off`: a `@` / `$` rule entered
  from ANY context runs its body from edge to edge under `inh' = f.eval inh`, and every sequence /
  repetition occurring directly in that body (`Node.Within`; they are run under the same `inh'`,
  only `.ref` changes it) has skip count `0` there and runs its elements back to back; every
  reference to a grammar rule directly in the body hands `false` on.
-/
import PestTyped.Lemmas.SkipIrrelevant
import PestTyped.Props.C07
namespace PestTyped

/-! ### nowhere else -/

/-- Same rules, any skip type: the run is the same. -/
theorem C07_skip_irrelevant_rules (G G' : NodeGrammar) (hr : G'.rules = G.rules) (uni : Uni) (n : Nat)
    (inh : Bool) (node : Node) (h : NoSkipReach G inh node) (i : Inp) (m : M) :
    parse G uni n inh node i m = parse G' uni n inh node i m := by
  obtain ⟨S, hS, hn⟩ := h
  rw [parse_skip_irrelevant G G' hr uni S hS n inh node hn]

/-- If no skip flag reachable from `node` under `inh` evaluates to `true`, the result — verdict,
cursor, stack, tracker, value — does not depend on the skip type. -/
theorem C07_skip_irrelevant (G : NodeGrammar) (uni : Uni) (n : Nat) (inh : Bool) (node : Node)
    (h : NoSkipReach G inh node) (s' : Node) (i : Inp) (m : M) :
    parse G uni n inh node i m = parse { G with skipped := s' } uni n inh node i m :=
  C07_skip_irrelevant_rules G { G with skipped := s' } rfl uni n inh node h i m

theorem C07_skip_irrelevant_check (G : NodeGrammar) (uni : Uni) (n : Nat) (inh : Bool) (node : Node)
    (h : NoSkipReach G inh node) (s' : Node) (i : Inp) (m : M) :
    check G uni n inh node i m = check { G with skipped := s' } uni n inh node i m := by
  rw [check_eq_parse_forget, check_eq_parse_forget, C07_skip_irrelevant G uni n inh node h s' i m]

/-- `b = @{ "x" ~ "y" ~ a }`, `a = { "x" ~ "y" }` of `c07G`: the invariant is
`{(b, false), (a, false)}`. -/
theorem c07_b_noSkipReach : NoSkipReach c07G true (.ref 2 .zero) := by
  refine ⟨fun r b => (r = 1 ∨ r = 2) ∧ b = false, ⟨fun r b d hs hd => ?_⟩, ?_⟩
  · obtain ⟨hr, rfl⟩ := hs
    rcases hr with rfl | rfl
    · simp only [c07G, NodeGrammar.rule?, List.getElem?_cons_succ, List.getElem?_cons_zero,
        Option.some.injEq] at hd
      subst hd
      simp [SkipFreeAt, Node.flagsAll, Node.flagsAllList, Flag.eval]
    · simp only [c07G, NodeGrammar.rule?, List.getElem?_cons_succ, List.getElem?_cons_zero,
        Option.some.injEq] at hd
      subst hd
      simp [SkipFreeAt, Node.flagsAll, Node.flagsAllList, Flag.eval]
  · simp [SkipFreeAt, Node.flagsAll, Flag.eval]

/-- Rule `b` parsed with the generated skip type and with a skip type that eats `x`: same run. -/
example : ∀ i m, parse c07G c07U 12 true (.ref 2 .zero) i m =
    parse { c07G with skipped := .atomicRepeat (.str ['x']) } c07U 12 true (.ref 2 .zero) i m :=
  fun i m => C07_skip_irrelevant c07G c07U 12 true _ c07_b_noSkipReach _ i m

example : (parse c07G c07U 12 true (.ref 2 .zero) (c07In ['x', 'y', 'x', 'y', ' '])
    (M.init (c07In ['x', 'y', 'x', 'y', ' ']))).endPos? = some 4 := by decide

/-- Generated modules.  A rule of kind `@` or `$` such that no `!` rule is reachable from it (through
the bodies of the rules it references, to any depth): referenced from any context, under any flag,
its run is independent of the skip type. -/
theorem C07_atomic_rule_no_skip (pg : PGrammar) (uni : Uni) (k : Nat) (pr : PRule) (hr : pg[k]? = some pr)
    (hk : pr.kind = .atomic ∨ pr.kind = .compoundAtomic)
    (hno : ∀ r', Reach (gen pg) (k+1) r' → ¬ HasKind pg r' .nonAtomic)
    (s' : Node) (n : Nat) (inh : Bool) (f : Flag) (i : Inp) (m : M) :
    parse (gen pg) uni n inh (.ref (k+1) f) i m =
      parse { gen pg with skipped := s' } uni n inh (.ref (k+1) f) i m :=
  C07_skip_irrelevant (gen pg) uni n inh _ (gen_atomic_noSkipReach pg k pr hr hk hno inh f) s' i m

/-- … hence the public entry points of such a rule (`try_parse_partial`, and `try_parse`, which for
an `@` / `$` rule has no trailing skip: `parse_without_ignore`) do not depend on the skip type. -/
theorem C07_atomic_entry_no_skip (pg : PGrammar) (uni : Uni) (k : Nat) (pr : PRule) (hr : pg[k]? = some pr)
    (hk : pr.kind = .atomic ∨ pr.kind = .compoundAtomic)
    (hno : ∀ r', Reach (gen pg) (k+1) r' → ¬ HasKind pg r' .nonAtomic) (s' : Node) (n : Nat) (i : Inp) :
    tryParsePartial (gen pg) uni n (k+1) i = tryParsePartial { gen pg with skipped := s' } uni n (k+1) i ∧
    tryParse (gen pg) uni n (k+1) i = tryParse { gen pg with skipped := s' } uni n (k+1) i := by
  have hp := C07_atomic_rule_no_skip pg uni k pr hr hk hno s' n true .one i (M.init i)
  refine ⟨hp, ?_⟩
  unfold tryParse
  have hrule : NodeGrammar.rule? { gen pg with skipped := s' } (k+1) = (gen pg).rule? (k+1) := rfl
  rw [hrule, ← hp]
  cases hd : (gen pg).rule? (k+1) with
  | none => rfl
  | some d =>
    have hdd := gen_rule_body pg k d pr hd hr
    have hts : noTrailingSkip (k+1) d = true := by
      rw [hdd]; rcases hk with hk | hk <;> simp [noTrailingSkip, genRule, hk, kindAtomicity]
    simp only [hts, if_true]

/-- From rule `b` of `c07PG` only `b` and `a` are reachable. -/
theorem c07_reach_b : ∀ r', Reach (gen c07PG) 2 r' → r' = 2 ∨ r' = 1 := by
  intro r' h
  induction h with
  | refl => exact Or.inl rfl
  | @step r1 r2 d f _ hd hrf ih =>
    rw [c07_gen] at hd
    rcases ih with rfl | rfl
    · simp only [c07G, NodeGrammar.rule?, List.getElem?_cons_succ, List.getElem?_cons_zero,
        Option.some.injEq] at hd
      subst hd
      simp [Node.refs, Node.refsList] at hrf
      exact Or.inr hrf.1
    · simp only [c07G, NodeGrammar.rule?, List.getElem?_cons_succ, List.getElem?_cons_zero,
        Option.some.injEq] at hd
      subst hd
      simp [Node.refs, Node.refsList] at hrf

example : ∀ s' n inh f i m, parse (gen c07PG) c07U n inh (.ref 2 f) i m =
    parse { gen c07PG with skipped := s' } c07U n inh (.ref 2 f) i m := by
  intro s' n inh f i m
  refine C07_atomic_rule_no_skip c07PG c07U 1 c07PG[1] rfl (Or.inl rfl) ?_ s' n inh f i m
  intro r' hreach
  rintro ⟨j, pr, e, hj, hkind⟩
  rcases c07_reach_b r' hreach with rfl | rfl
  · have : j = 1 := (Nat.succ.inj e).symm
    subst this
    simp only [c07PG, List.getElem?_cons_succ, List.getElem?_cons_zero, Option.some.injEq] at hj
    subst hj; cases hkind
  · have : j = 0 := (Nat.succ.inj e).symm
    subst this
    simp only [c07PG, List.getElem?_cons_zero, Option.some.injEq] at hj
    subst hj; cases hkind

example : (tryParse (gen c07PG) c07U 12 2 (c07In ['x', 'y', 'x', 'y'])).isOk = true ∧
    ∀ s' n i, tryParse (gen c07PG) c07U n 2 i = tryParse { gen c07PG with skipped := s' } c07U n 2 i := by
  refine ⟨by rw [c07_gen]; decide, fun s' n i => ?_⟩
  refine (C07_atomic_entry_no_skip c07PG c07U 1 c07PG[1] rfl (Or.inl rfl) ?_ s' n i).2
  intro r' hreach
  rintro ⟨j, pr, e, hj, hkind⟩
  rcases c07_reach_b r' hreach with rfl | rfl
  · have : j = 1 := (Nat.succ.inj e).symm
    subst this
    simp only [c07PG, List.getElem?_cons_succ, List.getElem?_cons_zero, Option.some.injEq] at hj
    subst hj; cases hkind
  · have : j = 0 := (Nat.succ.inj e).symm
    subst this
    simp only [c07PG, List.getElem?_cons_zero, Option.some.injEq] at hj
    subst hj; cases hkind

/-- The skip type IS consulted where a flag evaluates to `true`: `a = { "x" ~ "y" }` on `"x y"`
matches with the generated skip type and fails with the empty one.  (So `C07_skip_irrelevant` is
not true for trivial reasons.) -/
theorem C07_skip_used_example :
    (parse c07G c07U 12 true (.ref 1 .one) (c07In ['x', ' ', 'y']) (M.init (c07In ['x', ' ', 'y']))).endPos? =
      some 3 ∧
    (parse { c07G with skipped := .empty } c07U 12 true (.ref 1 .one) (c07In ['x', ' ', 'y'])
      (M.init (c07In ['x', ' ', 'y']))).isFail = true := by decide

/-- The reachability hypothesis of `C07_atomic_rule_no_skip` is needed: `c = ${ a ~ n }` is
compound-atomic but reaches `n = !{ "x"+ }`, which switches skipping back on; on `"xyx x"` rule `c`
ends at 5 with the generated skip type and at 3 with the empty one. -/
theorem C07_counterexample_atomic_reaches_nonatomic :
    (parse c07G c07U 12 true (.ref 3 .one) (c07In ['x', 'y', 'x', ' ', 'x'])
      (M.init (c07In ['x', 'y', 'x', ' ', 'x']))).endPos? = some 5 ∧
    (parse { c07G with skipped := .empty } c07U 12 true (.ref 3 .one) (c07In ['x', 'y', 'x', ' ', 'x'])
      (M.init (c07In ['x', 'y', 'x', ' ', 'x']))).endPos? = some 3 := by decide

/-! ### inheritance, at run level -/

/-- Entering an `@` / `$` rule of a generated module from any context `(inh, f)`:
(1) the reference runs the body from the same cursor and state to the same end, under
    `inh' = f.eval inh` (nothing is skipped at the rule's edges);
(2) every sequence occurring directly in the body has skip count `0` under `inh'` and a run of it
    succeeds iff its elements succeed BACK TO BACK (the skip type is not called between them);
(3) every repetition occurring directly in the body has skip count `0` under `inh'`, its unit is the
    element alone for every iteration number, and a successful run is a back-to-back run;
(4) every reference to a grammar rule occurring directly in the body hands `false` on. -/
theorem C07_inherit_run (pg : PGrammar) (uni : Uni) (k : Nat) (d : RuleDef) (pr : PRule)
    (hd : (gen pg).rule? (k+1) = some d) (hr : pg[k]? = some pr)
    (hk : pr.kind = .atomic ∨ pr.kind = .compoundAtomic) (inh : Bool) (f : Flag) :
    (∀ fuel i m, (parse (gen pg) uni (fuel+1) inh (.ref (k+1) f) i m).noTrk.forget =
      (parse (gen pg) uni fuel (f.eval inh) d.body i m).noTrk.forget) ∧
    (∀ sub, Node.Within sub d.body →
      (∀ sk items, sub = .seq sk items → skipCount sk (f.eval inh) = 0 ∧
        ∀ fuel i m i' m' w, parse (gen pg) uni (fuel+1) (f.eval inh) (.seq sk items) i m = .ok i' m' w ↔
          ∃ vs, SeqB2B (parse (gen pg) uni fuel (f.eval inh)) items i m vs i' m' ∧
            w = .mk .seq (vs.map (mkSkipped []))) ∧
      (∀ sk mn mx x, sub = .rep sk mn mx x → skipCount sk (f.eval inh) = 0 ∧
        (∀ sf body dflt idx, repUnitP sf body dflt (skipCount sk (f.eval inh)) idx =
          repUnitP (fun _ m => .fail m) body dflt 0 idx) ∧
        ∀ fuel i m i' m' w, parse (gen pg) uni (fuel+1) (f.eval inh) (.rep sk mn mx x) i m = .ok i' m' w →
          ∃ vs mL, B2B (parse (gen pg) uni fuel (f.eval inh) x) i m vs i' mL ∧
            w = .mk (.rep mn mx) (vs.map (mkSkipped [])) ∧ m'.stk = mL.stk) ∧
      (∀ r fl, sub = .ref r fl → r ≠ 0 → fl.eval (f.eval inh) = false)) := by
  refine ⟨fun fuel i m => ref_run_eq (gen pg) uni fuel inh (k+1) f d hd i m, fun sub hw => ?_⟩
  have hfl := Node.flagsAll_within hw (C07_flag_atomic pg k d pr hd hr hk)
  refine ⟨?_, ?_, ?_⟩
  · rintro sk items rfl
    simp only [Node.flagsAll] at hfl
    have hsk : sk.eval (f.eval inh) = false := by rw [hfl.1]; rfl
    exact ⟨skipCount_eq_zero hsk, fun fuel i m i' m' w =>
      C07_atomic_context_no_skip_seq (gen pg) uni fuel (f.eval inh) sk items i m i' m' w hsk⟩
  · rintro sk mn mx x rfl
    simp only [Node.flagsAll] at hfl
    have hsk : sk.eval (f.eval inh) = false := by rw [hfl.1]; rfl
    refine ⟨skipCount_eq_zero hsk, ?_, ?_⟩
    · intro sf body dflt idx
      rw [skipCount_eq_zero hsk]
      exact congrFun (repUnitP_zero_congr sf (fun _ m => .fail m) body dflt dflt) idx
    · intro fuel i m i' m' w hp
      obtain ⟨vs, mL, hb, hw', hs, _⟩ :=
        C07_atomic_context_no_skip_rep (gen pg) uni fuel (f.eval inh) sk mn mx x i m i' m' w hsk hp
      exact ⟨vs, mL, hb, hw', hs⟩
  · rintro r fl rfl hr0
    simp only [Node.flagsAll] at hfl
    rcases hfl with ⟨h0, _⟩ | ⟨_, hz⟩
    · exact absurd h0 hr0
    · rw [hz]; rfl

/-- Rule `b = @{ "x" ~ "y" ~ a }` of `c07PG`, referenced with `INHERITED = 1` from a non-atomic
context: its body is a sequence with skip count 0, the nested reference to `a` hands `false` on;
on `"x y"` it fails (no skipping), on `"xyxy"` it matches 4 bytes. -/
example : ∀ d, (gen c07PG).rule? 2 = some d →
    (∀ sk items, d.body = .seq sk items → skipCount sk (Flag.one.eval true) = 0) ∧
    (∀ sub, Node.Within sub d.body → ∀ r fl, sub = .ref r fl → r ≠ 0 → fl.eval (Flag.one.eval true) = false) := by
  intro d hd
  have h := (C07_inherit_run c07PG c07U 1 d c07PG[1] hd rfl (Or.inl rfl) true .one).2
  exact ⟨fun sk items e => ((h d.body (.refl _)).1 sk items e).1, fun sub hw => (h sub hw).2.2⟩

example : (parse c07G c07U 12 true (.ref 2 .one) (c07In ['x', ' ', 'y']) (M.init (c07In ['x', ' ', 'y']))).isFail = true ∧
    (parse c07G c07U 12 true (.ref 2 .one) (c07In ['x', 'y', 'x', 'y']) (M.init (c07In ['x', 'y', 'x', 'y']))).endPos? =
      some 4 := by decide

end PestTyped
