/-
Props.C05Trace — C05 in its strong form: *the result is the same as if that attempt had never been made*.

Property (properties.jsonl, C05): when an alternative of a choice, the body of an optional, one
iteration of a repetition or the operand of a predicate does not contribute to the match, parsing
continues from exactly the position and stack contents that held before it was tried: the result is
the same as if that attempt had never been made.  Predicates restore the stack even when their
operand matches.

`Props/C05.lean` has the one-step facts (what each restore point does to the state).  This file
states the *comparison*: a run that makes a failing attempt against the run of the expression in
which the attempt is simply not there.  `r₁.noTrk = r₂.noTrk` means: same verdict (ok / fail / out
of fuel), same end cursor, same final STACK and same value — everything except the error tracker,
which is the one thing that is *meant* to remember failed attempts.  The link between the two runs
is tracker independence (`parse_noTrk`): nothing but the error report ever reads the tracker, so a
continuation (which may read the stack with PEEK / POP) cannot tell the two runs apart.
All theorems hold for every grammar, node, nesting depth, fuel, `inh`, cursor and state; both sides
of every comparison run with the SAME fuel.  Hypotheses are about the attempt run from the state
`(i, m)` of the enclosing construct itself (not from some intermediate tracker state).

Theorems (each with a `_check` twin on the check path where stated)
1. choice: `C05_choice_as_if_never` (a failing prefix of alternatives: `pre ++ as` ≈ `as`, index
   offset `pre.length`), `C05_choice_first_as_if_never`, `C05_choice_drop_failed` (a failing
   alternative at ANY position of the list can be deleted).
2. optional: `C05_opt_as_if_never` (≈ the empty match at `(i, m.stk)`).
3. repetition: `C05_rep_as_if_never` (`x{min,max}` ≈ `x{min,n}` — the repetition that never makes
   attempt `n+1`), `C05_rep_stops_exactly` (cursor and stack are exactly those after iteration `n`),
   `C05_rep_skip_given_back` (the implicit skip in front of the failed element is given back),
   `C05_atomicRepeat_as_if_never` (explicit), `C05_atomicRepeat_eq_array` (≈ `[x; n]`).
4. predicates: `C05_pos_as_if_never`, `C05_pos_fail_as_if_never`, `C05_neg_as_if_never`,
   `C05_neg_fail_as_if_never` (the stack is `m.stk` whatever the operand did, matched or not).
5. continuation: `C05_continuation_seq`, `C05_continuation_pair` (general), instances
   `C05_seq_after_failed_alt`, `C05_seq_after_failed_opt`, `C05_seq_after_pos`, `C05_seq_after_neg`,
   `C05_seq_after_rep`.
6. the stack a FAILED sub-run leaves behind (a failing `PUSH(..) ~ "x"`, a failing `POP`, a failing whole
   `RepeatMin{MIN ≥ 2}`: `C05_counterexample_rep_fail_whole_restore`) is never read:
   `C05_failed_node_unobservable` (the four entry points, every failing sub-run at every depth
   overwritten by an arbitrary `χ`), `C05_failed_node_unobservable_node` (any node, any state),
   `C05_step_ignores_failed_stack` (one level, arbitrary sub-interpreters),
   `C05_continuing_constructs_restore` (choice / optional / repetition with ANY `MIN` / skip-repeat /
   predicates give EQUAL results, failure stack included), `C05_tamper_faithful` (the tampered
   interpreter without tampering is the model), `C05_failStkAny_public` (what "equal up to the stack of
   a failure" leaves the caller: same success, same failure tracker, same out-of-fuel).
-/
import PestTyped.Props.C05
import PestTyped.Lemmas.NoTrace
import PestTyped.Lemmas.NoTraceTamper
namespace PestTyped

/-! ### projections and instances for the examples -/

/-- Tag of the value built. -/
def Res.c05Tag? {σ} : Res σ Val → Option Tag
  | .ok _ _ v => some v.tag
  | _ => none

/-- Tag of the value of the first element of a sequence value. -/
def Res.c05HeadTag? {σ} : Res σ Val → Option Tag
  | .ok _ _ (.mk .seq (.mk (.skipped _) kids :: _)) => kids.getLast?.map Val.tag
  | _ => none

/-- Run at fuel `f` from the one-entry stack `["z"]`. -/
def c05RunF (f : Nat) (n : Node) (s : List Char) : R Val := parse c05Grammar c05Uni f true n (c05In s) (c05M s)
def c05ChkF (f : Nat) (n : Node) (s : List Char) : R Unit := check c05Grammar c05Uni f true n (c05In s) (c05M s)

def c05azb : List Char := ['a', 'z', 'b']

/-! ## 1. choice -/

/-- **As if never tried (choice).**  If the alternatives `pre` all fail at `(i, m)`, then
`pre… | as…` gives exactly what `as…` gives from `(i, m)`: same verdict, end cursor, stack and matched
value; only the branch index (and arity) of the value name the longer list.  In particular the
alternative that matches — and everything it reads from the stack — sees the stack of `m`,
whatever the failed alternatives pushed or popped. -/
theorem C05_choice_as_if_never (g : NodeGrammar) (uni : Uni) (fuel : Nat) (inh : Bool) (pre as : List Node)
    (i : Inp) (m : M) (hpre : ∀ a ∈ pre, (parse g uni fuel inh a i m).isFail = true) :
    (parse g uni (fuel+1) inh (.choice (pre ++ as)) i m).noTrk =
      ((parse g uni (fuel+1) inh (.choice as) i m).mapVal
        (Val.reChoice pre.length (· + pre.length))).noTrk := by
  rw [parse_choice_eq, parse_choice_eq, noTrk_mapVal,
    choiceLoop_skip_failed_prefix (parse g uni fuel inh) (parse_noTrk g uni fuel inh) as i m pre hpre 0 m rfl]
  cases choiceLoop (parse g uni fuel inh) as 0 i m with
  | oof => rfl
  | fail _ => rfl
  | ok i' m' kv => simp [Val.reChoice, Nat.add_comm]

/-- Both failed attempts really changed the stack before failing (`["a","z"]`, `[]`). -/
example : (c05RunF 7 c05PushAx c05azb).isFail = true ∧ (c05RunF 7 c05PushAx c05azb).stkTxt? = some [['a'], ['z']] ∧
    (c05RunF 7 c05DropQ c05azb).isFail = true ∧ (c05RunF 7 c05DropQ c05azb).stkTxt? = some [] := by decide
/-- … and `(PUSH("a") ~ "x") | (DROP ~ "q") | "a" ~ PEEK`-style: the third alternative runs as if alone. -/
example : (c05RunF 8 (.choice [c05PushAx, c05DropQ, .pair (.str ['a']) .peek]) c05azb).okPos? = some 2 ∧
    (c05RunF 8 (.choice [c05PushAx, c05DropQ, .pair (.str ['a']) .peek]) c05azb).stkTxt? = some [['z']] ∧
    (c05RunF 8 (.choice [c05PushAx, c05DropQ, .pair (.str ['a']) .peek]) c05azb).c05Tag? = some (.choice 3 2) ∧
    (c05RunF 8 (.choice [.pair (.str ['a']) .peek]) c05azb).okPos? = some 2 ∧
    (c05RunF 8 (.choice [.pair (.str ['a']) .peek]) c05azb).stkTxt? = some [['z']] ∧
    (c05RunF 8 (.choice [.pair (.str ['a']) .peek]) c05azb).c05Tag? = some (.choice 1 0) := by decide

theorem C05_choice_as_if_never_check (g : NodeGrammar) (uni : Uni) (fuel : Nat) (inh : Bool) (pre as : List Node)
    (i : Inp) (m : M) (hpre : ∀ a ∈ pre, (check g uni fuel inh a i m).isFail = true) :
    (check g uni (fuel+1) inh (.choice (pre ++ as)) i m).noTrk =
      (check g uni (fuel+1) inh (.choice as) i m).noTrk :=
  check_noTrk_of_parse (C05_choice_as_if_never g uni fuel inh pre as i m
    (fun a ha => by have := hpre a ha; rwa [check_eq_parse_forget, isFail_forget] at this))

example : (c05ChkF 7 c05PushAx c05azb).isFail = true ∧ (c05ChkF 7 c05PushAx c05azb).stkTxt? = some [['a'], ['z']] ∧
    (c05ChkF 8 (.choice [c05PushAx, .pair (.str ['a']) .peek]) c05azb).okPos? = some 2 := by decide

/-- One failing first alternative: `a | as…` is `as…`, indices shifted by one. -/
theorem C05_choice_first_as_if_never (g : NodeGrammar) (uni : Uni) (fuel : Nat) (inh : Bool) (a : Node)
    (as : List Node) (i : Inp) (m : M) (ha : (parse g uni fuel inh a i m).isFail = true) :
    (parse g uni (fuel+1) inh (.choice (a :: as)) i m).noTrk =
      ((parse g uni (fuel+1) inh (.choice as) i m).mapVal (Val.reChoice 1 (· + 1))).noTrk :=
  C05_choice_as_if_never g uni fuel inh [a] as i m (by simpa using ha)

example : (c05RunF 7 c05PushAx c05azb).isFail = true := by decide

/-- **Any position.**  An alternative that fails at `(i, m)` can be deleted from the list wherever
it stands (`dropIdx j` renumbers: indices below `j` stay, the others move up by one).  If an earlier
alternative matches, `a` is never tried; if all earlier ones fail, `a` is tried — from the stack of
`m`, since they were undone — fails, is undone, and the later ones run as if it had not been there. -/
theorem C05_choice_drop_failed (g : NodeGrammar) (uni : Uni) (fuel : Nat) (inh : Bool) (pre : List Node)
    (a : Node) (post : List Node) (i : Inp) (m : M) (ha : (parse g uni fuel inh a i m).isFail = true) :
    (parse g uni (fuel+1) inh (.choice (pre ++ a :: post)) i m).noTrk =
      ((parse g uni (fuel+1) inh (.choice (pre ++ post)) i m).mapVal
        (Val.reChoice 1 (dropIdx pre.length))).noTrk := by
  obtain ⟨mf, ha⟩ := (isFail_iff _).mp ha
  rw [parse_choice_eq, parse_choice_eq, noTrk_mapVal,
    choiceLoop_drop_failed (parse g uni fuel inh) (parse_noTrk g uni fuel inh) a post i m mf ha pre 0 m rfl]
  cases choiceLoop (parse g uni fuel inh) (pre ++ post) 0 i m with
  | oof => rfl
  | fail _ => rfl
  | ok i' m' kv => simp [Val.reChoice]; omega

/-- `"q" | (PUSH("a") ~ "x") | "a"`: the middle alternative pushes and fails; deleting it changes
nothing but the index of the last one. -/
example : (c05RunF 8 (.choice [.str ['q'], c05PushAx, .str ['a']]) c05azb).okPos? = some 1 ∧
    (c05RunF 8 (.choice [.str ['q'], c05PushAx, .str ['a']]) c05azb).stkTxt? = some [['z']] ∧
    (c05RunF 8 (.choice [.str ['q'], c05PushAx, .str ['a']]) c05azb).c05Tag? = some (.choice 3 2) ∧
    (c05RunF 8 (.choice [.str ['q'], .str ['a']]) c05azb).c05Tag? = some (.choice 2 1) := by decide

theorem C05_choice_drop_failed_check (g : NodeGrammar) (uni : Uni) (fuel : Nat) (inh : Bool) (pre : List Node)
    (a : Node) (post : List Node) (i : Inp) (m : M) (ha : (check g uni fuel inh a i m).isFail = true) :
    (check g uni (fuel+1) inh (.choice (pre ++ a :: post)) i m).noTrk =
      (check g uni (fuel+1) inh (.choice (pre ++ post)) i m).noTrk :=
  check_noTrk_of_parse (C05_choice_drop_failed g uni fuel inh pre a post i m
    (by rwa [check_eq_parse_forget, isFail_forget] at ha))

example : (c05ChkF 7 c05PushAx c05azb).isFail = true := by decide

/-! ## 2. optional -/

/-- **As if never tried (optional).**  If `x` fails at `(i, m)`, `x?` is the empty match at `(i, m)`:
success, cursor `i`, stack `m.stk` — what the node `.empty` gives, up to the value. -/
theorem C05_opt_as_if_never (g : NodeGrammar) (uni : Uni) (fuel : Nat) (inh : Bool) (x : Node)
    (i : Inp) (m : M) (hx : (parse g uni fuel inh x i m).isFail = true) :
    (parse g uni (fuel+1) inh (.opt x) i m).noTrk = .ok i m.stk (.leaf .optNone) ∧
    (parse g uni (fuel+1) inh (.opt x) i m).noTrk =
      ((parse g uni (fuel+1) inh .empty i m).mapVal (fun _ => .leaf .optNone)).noTrk := by
  obtain ⟨mf, hx⟩ := (isFail_iff _).mp hx
  simp only [parse, hx, restoreOnNone, Res.noTrk_ok, Res.mapVal_ok, and_self]

example : (c05RunF 7 c05PushAx c05azb).isFail = true ∧ (c05RunF 7 c05PushAx c05azb).stkTxt? = some [['a'], ['z']] ∧
    (c05RunF 8 (.opt c05PushAx) c05azb).okPos? = some 0 ∧
    (c05RunF 8 (.opt c05PushAx) c05azb).stkTxt? = some [['z']] := by decide

theorem C05_opt_as_if_never_check (g : NodeGrammar) (uni : Uni) (fuel : Nat) (inh : Bool) (x : Node)
    (i : Inp) (m : M) (hx : (check g uni fuel inh x i m).isFail = true) :
    (check g uni (fuel+1) inh (.opt x) i m).noTrk = .ok i m.stk () ∧
    (check g uni (fuel+1) inh (.opt x) i m).noTrk = (check g uni (fuel+1) inh .empty i m).noTrk := by
  rw [check_eq_parse_forget, isFail_forget] at hx
  have h := C05_opt_as_if_never g uni fuel inh x i m hx
  exact ⟨check_noTrk_of_parse_val h.1, check_noTrk_of_parse h.2⟩

example : (c05ChkF 7 c05PushAx c05azb).isFail = true ∧ (c05ChkF 8 (.opt c05PushAx) c05azb).okPos? = some 0 ∧
    (c05ChkF 8 (.opt c05PushAx) c05azb).stkTxt? = some [['z']] := by decide

/-! ## 3. repetition -/

/-- **As if never tried (repetition).**  Suppose iterations `0 … n-1` of `x{min,max}` succeed from
`(i, m)` and leave `(i1, m1)` (`RepIters`; `n = vs.length`), and the next attempt — the implicit
skip in front of the element AND the element (`parseRepUnit`) — fails at `(i1, m1)`.  Then the
repetition gives exactly what `x{min,n}` gives, the repetition that stops after `n` iterations
WITHOUT making that attempt (same fuel on both sides; only the type tag of the value differs). -/
theorem C05_rep_as_if_never (g : NodeGrammar) (uni : Uni) (fuel : Nat) (inh : Bool) (sk : Flag)
    (min : Nat) (max : Option Nat) (x : Node) (i : Inp) (m : M) (i1 : Inp) (m1 : M) (vs : List Val) (mf : M)
    (hI : RepIters (parseRepUnit g uni fuel inh sk x) max 0 i m i1 m1 vs)
    (hf : parseRepUnit g uni fuel inh sk x vs.length i1 m1 = .fail mf) :
    (parse g uni (fuel+1) inh (.rep sk min max x) i m).noTrk =
      ((parse g uni (fuel+1) inh (.rep sk min (some vs.length) x) i m).mapVal
        (Val.retag (.rep min max))).noTrk := by
  have h := repLoop_as_if_never (min := min) hI (by simpa using hf) fuel [] rfl
  simp only [Nat.zero_add] at h
  rw [parse_rep_eq, parse_rep_eq, noTrk_mapVal, noTrk_mapVal, noTrk_mapVal, h]
  cases (repLoop (parseRepUnit g uni fuel inh sk x) min (some vs.length) fuel 0 i m []).noTrk <;> rfl

/-- … and the result is explicit: cursor `i1` and stack `m1.stk`, EXACTLY those after iteration `n`
(success iff `min ≤ n`), the values of the `n` iterations. -/
theorem C05_rep_stops_exactly (g : NodeGrammar) (uni : Uni) (fuel : Nat) (inh : Bool) (sk : Flag)
    (min : Nat) (max : Option Nat) (x : Node) (i : Inp) (m : M) (i1 : Inp) (m1 : M) (vs : List Val) (mf : M)
    (hI : RepIters (parseRepUnit g uni fuel inh sk x) max 0 i m i1 m1 vs)
    (hf : parseRepUnit g uni fuel inh sk x vs.length i1 m1 = .fail mf) (hfuel : vs.length < fuel) :
    (parse g uni (fuel+1) inh (.rep sk min max x) i m).noTrk =
      if vs.length < min then .fail m1.stk else .ok i1 m1.stk (.mk (.rep min max) vs) := by
  have h := repLoop_stop_noTrk (min := min) hI (by simpa using hf) fuel [] rfl hfuel
  simp only [Nat.zero_add, List.reverse_nil, List.nil_append] at h
  rw [parse_rep_eq, noTrk_mapVal, h]
  split <;> rfl

/-- `(PUSH("a") ~ "x")*` with implicit blanks on `"ax ax ab"` from the stack `["z"]`: two iterations,
the third attempt skips a blank, pushes and fails; the result is that of `(…){0,2}`: cursor 5 (not 6,
not 7), stack `["a","a","z"]`, two children. -/
example : (c05RunF 8 (.rep .one 0 none c05PushAx) c05axab).okPos? = some 5 ∧
    (c05RunF 8 (.rep .one 0 none c05PushAx) c05axab).stkTxt? = some [['a'], ['a'], ['z']] ∧
    (c05RunF 8 (.rep .one 0 none c05PushAx) c05axab).nKids? = some 2 ∧
    (c05RunF 8 (.rep .one 0 (some 2) c05PushAx) c05axab).okPos? = some 5 ∧
    (c05RunF 8 (.rep .one 0 (some 2) c05PushAx) c05axab).stkTxt? = some [['a'], ['a'], ['z']] ∧
    (c05RunF 8 (.rep .one 0 (some 2) c05PushAx) c05axab).nKids? = some 2 := by decide

/-- **The skipped trivia is given back too.**  If, after the `n ≥ 1` iterations, the implicit skip
succeeds and moves the cursor to `i2` (stack `m2.stk`) and the element then fails, the repetition
ends at `i1`, the cursor BEFORE that skip, with the stack before that skip. -/
theorem C05_rep_skip_given_back (g : NodeGrammar) (uni : Uni) (fuel : Nat) (inh : Bool) (sk : Flag)
    (min : Nat) (max : Option Nat) (x : Node) (i : Inp) (m : M) (i1 : Inp) (m1 : M) (vs : List Val)
    (i2 : Inp) (m2 : M) (sks : List Val) (mf : M)
    (hI : RepIters (parseRepUnit g uni fuel inh sk x) max 0 i m i1 m1 vs) (hn : vs ≠ [])
    (hskip : skipLoop (parse g uni fuel false g.skipped) (skipCount sk inh) i1 m1 [] = .ok i2 m2 sks)
    (hx : parse g uni fuel inh x i2 m2 = .fail mf) (hfuel : vs.length < fuel) :
    (parse g uni (fuel+1) inh (.rep sk min max x) i m).noTrk =
      if vs.length < min then .fail m1.stk else .ok i1 m1.stk (.mk (.rep min max) vs) := by
  refine C05_rep_stops_exactly g uni fuel inh sk min max x i m i1 m1 vs mf hI ?_ hfuel
  unfold parseRepUnit
  exact (repUnitP_fail_iff _ _ _ _ _ _ _ _).mpr
    (Or.inr ⟨by cases vs with | nil => exact absurd rfl hn | cons _ _ => simp, Or.inr ⟨i2, m2, sks, hskip, hx⟩⟩)

/-- After `"ax"` (cursor 2) the skip consumes the blank (cursor 3), the element pushes and fails. -/
example : (skipLoop (parse c05Grammar c05Uni 7 false c05Grammar.skipped) 1
      { start := 0, pos := 2, rest := [' ', 'a', 'b'], after := [] } (c05M []) []).okPos? = some 3 := by decide
example : (c05RunF 8 (.rep .one 0 none c05PushAx) ['a', 'x', ' ', 'a', 'b']).okPos? = some 2 ∧
    (c05RunF 8 (.rep .one 0 none c05PushAx) ['a', 'x', ' ', 'a', 'b']).stkTxt? = some [['a'], ['z']] := by decide

theorem C05_rep_as_if_never_check (g : NodeGrammar) (uni : Uni) (fuel : Nat) (inh : Bool) (sk : Flag)
    (min : Nat) (max : Option Nat) (x : Node) (i : Inp) (m : M) (i1 : Inp) (m1 : M) (vs : List Val) (mf : M)
    (hI : RepIters (parseRepUnit g uni fuel inh sk x) max 0 i m i1 m1 vs)
    (hf : parseRepUnit g uni fuel inh sk x vs.length i1 m1 = .fail mf) :
    (check g uni (fuel+1) inh (.rep sk min max x) i m).noTrk =
      (check g uni (fuel+1) inh (.rep sk min (some vs.length) x) i m).noTrk ∧
    (vs.length < fuel → (check g uni (fuel+1) inh (.rep sk min max x) i m).noTrk =
      if vs.length < min then .fail m1.stk else .ok i1 m1.stk ()) := by
  refine ⟨check_noTrk_of_parse (C05_rep_as_if_never g uni fuel inh sk min max x i m i1 m1 vs mf hI hf), ?_⟩
  intro hfuel
  rw [check_noTrk_of_parse_val (C05_rep_stops_exactly g uni fuel inh sk min max x i m i1 m1 vs mf hI hf hfuel)]
  split <;> rfl

example : (c05ChkF 8 (.rep .one 0 none c05PushAx) c05axab).okPos? = some 5 ∧
    (c05ChkF 8 (.rep .one 0 none c05PushAx) c05axab).stkTxt? = some [['a'], ['a'], ['z']] ∧
    (c05ChkF 8 (.rep .one 0 (some 2) c05PushAx) c05axab).okPos? = some 5 := by decide

/-- **As if never tried (`AtomicRepeat`, the skip type).**  If `n` runs of `x` succeed from `(i, m)`
and leave `(i1, m1)` and one more run fails there, the node succeeds at `(i1, m1.stk)` with the `n`
values: the failed run is undone.  (The hypotheses are about runs from `m` itself; the node runs
`x` under a private tracker, which changes nothing else.) -/
theorem C05_atomicRepeat_as_if_never (g : NodeGrammar) (uni : Uni) (fuel : Nat) (inh : Bool) (x : Node)
    (i : Inp) (m : M) (i1 : Inp) (m1 : M) (vs : List Val)
    (hI : RepIters (fun _ i m => parse g uni fuel inh x i m) none 0 i m i1 m1 vs)
    (hf : (parse g uni fuel inh x i1 m1).isFail = true) (hfuel : vs.length < atomicBudget fuel) :
    (parse g uni (fuel+1) inh (.atomicRepeat x) i m).noTrk = .ok i1 m1.stk (.mk .atomicRepeat vs) := by
  obtain ⟨m1', hI', hs⟩ := hI.noTrk (fun _ => parse_noTrk g uni fuel inh x) { m with trk := Tracker.new i } rfl
  rw [(parse_noTrk g uni fuel inh x).isFail hs] at hf
  obtain ⟨mf, hf⟩ := (isFail_iff _).mp hf
  have h := repLoop_stop_noTrk (min := 0) hI' (by simpa using hf) (atomicBudget fuel) [] rfl hfuel
  simp only [Nat.zero_add, List.reverse_nil, List.nil_append, Nat.not_lt_zero, if_false] at h
  rw [parse_atomicRepeat_eq, noTrk_mapVal, h, hs]
  rfl

/-- … which is what the array `[x; n]` — `n` runs, no further attempt — gives, up to the type tag. -/
theorem C05_atomicRepeat_eq_array (g : NodeGrammar) (uni : Uni) (fuel : Nat) (inh : Bool) (x : Node)
    (i : Inp) (m : M) (i1 : Inp) (m1 : M) (vs : List Val)
    (hI : RepIters (fun _ i m => parse g uni fuel inh x i m) none 0 i m i1 m1 vs)
    (hf : (parse g uni fuel inh x i1 m1).isFail = true) (hfuel : vs.length < atomicBudget fuel) :
    (parse g uni (fuel+1) inh (.atomicRepeat x) i m).noTrk =
      ((parse g uni (fuel+1) inh (.array vs.length x) i m).mapVal (Val.retag .atomicRepeat)).noTrk := by
  rw [C05_atomicRepeat_as_if_never g uni fuel inh x i m i1 m1 vs hI hf hfuel]
  simp only [parse, arrayLoop_of_chain hI.toArrayChain, List.reverse_nil, List.nil_append, arrayTryInto,
    if_true, Res.mapVal_ok, Res.noTrk_ok, Val.retag]

/-- `(PUSH("a") ~ "x ")*` as `AtomicRepeat` on `"ax ax ab"`: two runs, the third pushes and fails. -/
example : (c05RunF 8 (.atomicRepeat (.pair (.push (.str ['a'])) (.str ['x', ' ']))) c05axab).okPos? = some 6 ∧
    (c05RunF 8 (.atomicRepeat (.pair (.push (.str ['a'])) (.str ['x', ' ']))) c05axab).stkTxt? =
      some [['a'], ['a'], ['z']] ∧
    (c05RunF 8 (.array 2 (.pair (.push (.str ['a'])) (.str ['x', ' ']))) c05axab).okPos? = some 6 ∧
    (c05RunF 8 (.array 2 (.pair (.push (.str ['a'])) (.str ['x', ' ']))) c05axab).stkTxt? =
      some [['a'], ['a'], ['z']] := by decide

theorem C05_atomicRepeat_as_if_never_check (g : NodeGrammar) (uni : Uni) (fuel : Nat) (inh : Bool) (x : Node)
    (i : Inp) (m : M) (i1 : Inp) (m1 : M) (vs : List Val)
    (hI : RepIters (fun _ i m => parse g uni fuel inh x i m) none 0 i m i1 m1 vs)
    (hf : (parse g uni fuel inh x i1 m1).isFail = true) (hfuel : vs.length < atomicBudget fuel) :
    (check g uni (fuel+1) inh (.atomicRepeat x) i m).noTrk = .ok i1 m1.stk () ∧
    (check g uni (fuel+1) inh (.atomicRepeat x) i m).noTrk =
      (check g uni (fuel+1) inh (.array vs.length x) i m).noTrk :=
  ⟨check_noTrk_of_parse_val (C05_atomicRepeat_as_if_never g uni fuel inh x i m i1 m1 vs hI hf hfuel),
   check_noTrk_of_parse (C05_atomicRepeat_eq_array g uni fuel inh x i m i1 m1 vs hI hf hfuel)⟩

example : (c05ChkF 8 (.atomicRepeat (.pair (.push (.str ['a'])) (.str ['x', ' ']))) c05axab).okPos? = some 6 ∧
    (c05ChkF 8 (.atomicRepeat (.pair (.push (.str ['a'])) (.str ['x', ' ']))) c05axab).stkTxt? =
      some [['a'], ['a'], ['z']] := by decide

/-! ## 4. predicates -/

/-- **`&x` when `x` matches**: the empty match at `(i, m.stk)` — although `x` matched, moved the
cursor to `i1` and left the stack `m1.stk`. -/
theorem C05_pos_as_if_never (g : NodeGrammar) (uni : Uni) (fuel : Nat) (inh : Bool) (x : Node)
    (i : Inp) (m : M) (i1 : Inp) (m1 : M) (v0 : Val) (hx : parse g uni fuel inh x i m = .ok i1 m1 v0) :
    (parse g uni (fuel+1) inh (.pos x) i m).noTrk = .ok i m.stk (.mk .pos [v0]) := by
  obtain ⟨m2, h2, _⟩ := (parse_noTrk g uni fuel inh x).ok_of_ok
    (m1 := m) (m2 := { m with trk := { m.trk with positive := true } }) rfl hx
  simp only [parse, h2, Res.noTrk_ok]

/-- `&PUSH("a")`: the operand matches and pushes; afterwards cursor 0, stack `["z"]`. -/
example : (c05RunF 7 (.push (.str ['a'])) c05azb).okPos? = some 1 ∧
    (c05RunF 7 (.push (.str ['a'])) c05azb).stkTxt? = some [['a'], ['z']] ∧
    (c05RunF 8 (.pos (.push (.str ['a']))) c05azb).okPos? = some 0 ∧
    (c05RunF 8 (.pos (.push (.str ['a']))) c05azb).stkTxt? = some [['z']] := by decide

/-- **`&x` when `x` fails**: failure with the stack `m.stk`. -/
theorem C05_pos_fail_as_if_never (g : NodeGrammar) (uni : Uni) (fuel : Nat) (inh : Bool) (x : Node)
    (i : Inp) (m : M) (hx : (parse g uni fuel inh x i m).isFail = true) :
    (parse g uni (fuel+1) inh (.pos x) i m).noTrk = .fail m.stk := by
  obtain ⟨mf, hx⟩ := (isFail_iff _).mp hx
  obtain ⟨m2, h2, _⟩ := (parse_noTrk g uni fuel inh x).fail_of_fail
    (m1 := m) (m2 := { m with trk := { m.trk with positive := true } }) rfl hx
  simp only [parse, h2, Res.noTrk_fail]

example : (c05RunF 7 c05PushAx c05azb).stkTxt? = some [['a'], ['z']] ∧
    (c05RunF 8 (.pos c05PushAx) c05azb).isFail = true ∧
    (c05RunF 8 (.pos c05PushAx) c05azb).stkTxt? = some [['z']] := by decide

/-- **`!x` when `x` fails**: the empty match at `(i, m.stk)`. -/
theorem C05_neg_as_if_never (g : NodeGrammar) (uni : Uni) (fuel : Nat) (inh : Bool) (x : Node)
    (i : Inp) (m : M) (hx : (parse g uni fuel inh x i m).isFail = true) :
    (parse g uni (fuel+1) inh (.neg x) i m).noTrk = .ok i m.stk (.leaf .neg) := by
  obtain ⟨mf, hx⟩ := (isFail_iff _).mp hx
  obtain ⟨m2, h2, _⟩ := (parse_noTrk g uni fuel inh x).fail_of_fail
    (m1 := m) (m2 := { m with trk := { m.trk with positive := false } }) rfl hx
  simp only [parse, check_eq_parse_forget, h2, Res.forget, Res.noTrk_ok]

example : (c05RunF 7 c05DropQ c05azb).isFail = true ∧ (c05RunF 7 c05DropQ c05azb).stkTxt? = some [] ∧
    (c05RunF 8 (.neg c05DropQ) c05azb).okPos? = some 0 ∧
    (c05RunF 8 (.neg c05DropQ) c05azb).stkTxt? = some [['z']] := by decide

/-- **`!x` when `x` matches**: failure with the stack `m.stk`, although `x` matched. -/
theorem C05_neg_fail_as_if_never (g : NodeGrammar) (uni : Uni) (fuel : Nat) (inh : Bool) (x : Node)
    (i : Inp) (m : M) (i1 : Inp) (m1 : M) (v0 : Val) (hx : parse g uni fuel inh x i m = .ok i1 m1 v0) :
    (parse g uni (fuel+1) inh (.neg x) i m).noTrk = .fail m.stk := by
  obtain ⟨m2, h2, _⟩ := (parse_noTrk g uni fuel inh x).ok_of_ok
    (m1 := m) (m2 := { m with trk := { m.trk with positive := false } }) rfl hx
  simp only [parse, check_eq_parse_forget, h2, Res.forget, Res.noTrk_fail]

example : (c05RunF 7 (.pair .drop (.str ['a'])) c05azb).okPos? = some 1 ∧
    (c05RunF 7 (.pair .drop (.str ['a'])) c05azb).stkTxt? = some [] ∧
    (c05RunF 8 (.neg (.pair .drop (.str ['a']))) c05azb).isFail = true ∧
    (c05RunF 8 (.neg (.pair .drop (.str ['a']))) c05azb).stkTxt? = some [['z']] := by decide

/-- The predicates on the check path (hypotheses on the check run of the operand). -/
theorem C05_pred_as_if_never_check (g : NodeGrammar) (uni : Uni) (fuel : Nat) (inh : Bool) (x : Node)
    (i : Inp) (m : M) :
    ((check g uni fuel inh x i m).isOk = true →
      (check g uni (fuel+1) inh (.pos x) i m).noTrk = .ok i m.stk () ∧
      (check g uni (fuel+1) inh (.neg x) i m).noTrk = .fail m.stk) ∧
    ((check g uni fuel inh x i m).isFail = true →
      (check g uni (fuel+1) inh (.pos x) i m).noTrk = .fail m.stk ∧
      (check g uni (fuel+1) inh (.neg x) i m).noTrk = .ok i m.stk ()) := by
  rw [check_eq_parse_forget]
  constructor
  · intro h
    cases hx : parse g uni fuel inh x i m with
    | oof => rw [hx] at h; cases h
    | fail _ => rw [hx] at h; cases h
    | ok i1 m1 v0 =>
      exact ⟨check_noTrk_of_parse_val (C05_pos_as_if_never g uni fuel inh x i m i1 m1 v0 hx),
        check_noTrk_of_parse_val (C05_neg_fail_as_if_never g uni fuel inh x i m i1 m1 v0 hx)⟩
  · intro h
    rw [isFail_forget] at h
    exact ⟨check_noTrk_of_parse_val (C05_pos_fail_as_if_never g uni fuel inh x i m h),
      check_noTrk_of_parse_val (C05_neg_as_if_never g uni fuel inh x i m h)⟩

example : (c05ChkF 7 (.push (.str ['a'])) c05azb).isOk = true ∧
    (c05ChkF 8 (.pos (.push (.str ['a']))) c05azb).okPos? = some 0 ∧
    (c05ChkF 8 (.pos (.push (.str ['a']))) c05azb).stkTxt? = some [['z']] ∧
    (c05ChkF 7 c05DropQ c05azb).isFail = true ∧
    (c05ChkF 8 (.neg c05DropQ) c05azb).stkTxt? = some [['z']] := by decide

/-! ## 5. what follows cannot tell -/

/-- **Continuation (sequence).**  If `n1` and `n2` give the same verdict, cursor and stack at
`(i, m)` (values related by `φ`), then so do `n1 ~ rest…` and `n2 ~ rest…`, for ANY `rest` — stack
readers (`PEEK`, `POP`, …), implicit skips, rule calls, to any depth.  The two first elements may
have left different trackers (one of them recorded failed attempts): nothing in `rest` can see it. -/
theorem C05_continuation_seq (g : NodeGrammar) (uni : Uni) (fuel : Nat) (inh : Bool) (φ : Val → Val)
    (n1 n2 : Node) (rest : List Node) (sk : Flag) (i : Inp) (m : M)
    (h : (parse g uni fuel inh n1 i m).noTrk = ((parse g uni fuel inh n2 i m).mapVal φ).noTrk) :
    (parse g uni (fuel+1) inh (.seq sk (n1 :: rest)) i m).noTrk =
      ((parse g uni (fuel+1) inh (.seq sk (n2 :: rest)) i m).mapVal (Val.mapSeqHead φ)).noTrk :=
  parse_seq_head_congr g uni fuel inh φ n1 n2 rest sk i m h

theorem C05_continuation_seq_check (g : NodeGrammar) (uni : Uni) (fuel : Nat) (inh : Bool)
    (n1 n2 : Node) (rest : List Node) (sk : Flag) (i : Inp) (m : M)
    (h : (check g uni fuel inh n1 i m).noTrk = (check g uni fuel inh n2 i m).noTrk) :
    (check g uni (fuel+1) inh (.seq sk (n1 :: rest)) i m).noTrk =
      (check g uni (fuel+1) inh (.seq sk (n2 :: rest)) i m).noTrk :=
  check_seq_head_congr g uni fuel inh n1 n2 rest sk i m h

/-- **Continuation (pair).** -/
theorem C05_continuation_pair (g : NodeGrammar) (uni : Uni) (fuel : Nat) (inh : Bool) (φ : Val → Val)
    (n1 n2 k : Node) (i : Inp) (m : M)
    (h : (parse g uni fuel inh n1 i m).noTrk = ((parse g uni fuel inh n2 i m).mapVal φ).noTrk) :
    (parse g uni (fuel+1) inh (.pair n1 k) i m).noTrk =
      ((parse g uni (fuel+1) inh (.pair n2 k) i m).mapVal (Val.mapPairFst φ)).noTrk :=
  parse_pair_fst_congr g uni fuel inh φ n1 n2 k i m h

/-- `(a | as…) ~ rest…` with `a` failing is `(as…) ~ rest…`: the later parse continues from
exactly the position and stack that `as…` alone would have left. -/
theorem C05_seq_after_failed_alt (g : NodeGrammar) (uni : Uni) (fuel : Nat) (inh : Bool) (a : Node)
    (as rest : List Node) (sk : Flag) (i : Inp) (m : M) (ha : (parse g uni fuel inh a i m).isFail = true) :
    (parse g uni (fuel+2) inh (.seq sk (.choice (a :: as) :: rest)) i m).noTrk =
      ((parse g uni (fuel+2) inh (.seq sk (.choice as :: rest)) i m).mapVal
        (Val.mapSeqHead (Val.reChoice 1 (· + 1)))).noTrk :=
  C05_continuation_seq g uni (fuel+1) inh _ _ _ rest sk i m
    (C05_choice_first_as_if_never g uni fuel inh a as i m ha)

/-- `((PUSH("a") ~ "x") | (DROP ~ "q") | "a") ~ PEEK` on `"azb"` from the stack `["z"]`: the first
alternative pushes `a` and fails, the second drops `z` and fails, the third matches; `PEEK` then
finds `z` on top and matches it (cursor 2) — with a left-over `a` or an empty stack it would fail.
The sequence without the two failing alternatives gives the same. -/
example : (c05RunF 6 c05PushAx c05azb).isFail = true ∧ (c05RunF 6 c05PushAx c05azb).stkTxt? = some [['a'], ['z']] ∧
    (c05RunF 6 c05DropQ c05azb).isFail = true ∧ (c05RunF 6 c05DropQ c05azb).stkTxt? = some [] ∧
    (c05RunF 8 (.seq .zero [.choice [c05PushAx, c05DropQ, .str ['a']], .peek]) c05azb).okPos? = some 2 ∧
    (c05RunF 8 (.seq .zero [.choice [c05PushAx, c05DropQ, .str ['a']], .peek]) c05azb).stkTxt? = some [['z']] ∧
    (c05RunF 8 (.seq .zero [.choice [c05PushAx, c05DropQ, .str ['a']], .peek]) c05azb).c05HeadTag? =
      some (.choice 3 2) ∧
    (c05RunF 8 (.seq .zero [.choice [.str ['a']], .peek]) c05azb).okPos? = some 2 ∧
    (c05RunF 8 (.seq .zero [.choice [.str ['a']], .peek]) c05azb).stkTxt? = some [['z']] ∧
    (c05RunF 8 (.seq .zero [.choice [.str ['a']], .peek]) c05azb).c05HeadTag? = some (.choice 1 0) := by decide

theorem C05_seq_after_failed_alt_check (g : NodeGrammar) (uni : Uni) (fuel : Nat) (inh : Bool) (a : Node)
    (as rest : List Node) (sk : Flag) (i : Inp) (m : M) (ha : (check g uni fuel inh a i m).isFail = true) :
    (check g uni (fuel+2) inh (.seq sk (.choice (a :: as) :: rest)) i m).noTrk =
      (check g uni (fuel+2) inh (.seq sk (.choice as :: rest)) i m).noTrk :=
  check_noTrk_of_parse (C05_seq_after_failed_alt g uni fuel inh a as rest sk i m
    (by rwa [check_eq_parse_forget, isFail_forget] at ha))

example : (c05ChkF 6 c05PushAx c05azb).isFail = true ∧
    (c05ChkF 8 (.seq .zero [.choice [c05PushAx, c05DropQ, .str ['a']], .peek]) c05azb).okPos? = some 2 := by decide

/-- `x? ~ rest…` with `x` failing is `rest…` run from `(i, m.stk)` (`.empty` in front). -/
theorem C05_seq_after_failed_opt (g : NodeGrammar) (uni : Uni) (fuel : Nat) (inh : Bool) (x : Node)
    (rest : List Node) (sk : Flag) (i : Inp) (m : M) (hx : (parse g uni fuel inh x i m).isFail = true) :
    (parse g uni (fuel+2) inh (.seq sk (.opt x :: rest)) i m).noTrk =
      ((parse g uni (fuel+2) inh (.seq sk (.empty :: rest)) i m).mapVal
        (Val.mapSeqHead (fun _ => .leaf .optNone))).noTrk :=
  C05_continuation_seq g uni (fuel+1) inh _ _ _ rest sk i m (C05_opt_as_if_never g uni fuel inh x i m hx).2

example : (c05RunF 8 (.seq .zero [.opt c05PushAx, .str ['a'], .peek]) c05azb).okPos? = some 2 ∧
    (c05RunF 8 (.seq .zero [.empty, .str ['a'], .peek]) c05azb).okPos? = some 2 := by decide

/-- `&x ~ rest…` with `x` matching is `rest…` run from `(i, m.stk)`. -/
theorem C05_seq_after_pos (g : NodeGrammar) (uni : Uni) (fuel : Nat) (inh : Bool) (x : Node)
    (rest : List Node) (sk : Flag) (i : Inp) (m : M) (i1 : Inp) (m1 : M) (v0 : Val)
    (hx : parse g uni fuel inh x i m = .ok i1 m1 v0) :
    (parse g uni (fuel+2) inh (.seq sk (.pos x :: rest)) i m).noTrk =
      ((parse g uni (fuel+2) inh (.seq sk (.empty :: rest)) i m).mapVal
        (Val.mapSeqHead (fun _ => .mk .pos [v0]))).noTrk :=
  C05_continuation_seq g uni (fuel+1) inh _ _ _ rest sk i m
    (by rw [C05_pos_as_if_never g uni fuel inh x i m i1 m1 v0 hx]; simp only [parse, Res.mapVal_ok, Res.noTrk_ok])

/-- `&(PUSH("a")) ~ "a" ~ PEEK`: the lookahead pushed `a`; `PEEK` still finds `z`. -/
example : (c05RunF 8 (.seq .zero [.pos (.push (.str ['a'])), .str ['a'], .peek]) c05azb).okPos? = some 2 ∧
    (c05RunF 8 (.seq .zero [.empty, .str ['a'], .peek]) c05azb).okPos? = some 2 := by decide

/-- `!x ~ rest…` with `x` failing is `rest…` run from `(i, m.stk)`. -/
theorem C05_seq_after_neg (g : NodeGrammar) (uni : Uni) (fuel : Nat) (inh : Bool) (x : Node)
    (rest : List Node) (sk : Flag) (i : Inp) (m : M) (hx : (parse g uni fuel inh x i m).isFail = true) :
    (parse g uni (fuel+2) inh (.seq sk (.neg x :: rest)) i m).noTrk =
      ((parse g uni (fuel+2) inh (.seq sk (.empty :: rest)) i m).mapVal
        (Val.mapSeqHead (fun _ => .leaf .neg))).noTrk :=
  C05_continuation_seq g uni (fuel+1) inh _ _ _ rest sk i m
    (by rw [C05_neg_as_if_never g uni fuel inh x i m hx]; simp only [parse, Res.mapVal_ok, Res.noTrk_ok])

example : (c05RunF 8 (.seq .zero [.neg c05DropQ, .str ['a'], .peek]) c05azb).okPos? = some 2 := by decide

/-- `x{min,max} ~ rest…` whose attempt `n+1` fails is `x{min,n} ~ rest…`. -/
theorem C05_seq_after_rep (g : NodeGrammar) (uni : Uni) (fuel : Nat) (inh : Bool) (skr : Flag)
    (min : Nat) (max : Option Nat) (x : Node) (rest : List Node) (sk : Flag) (i : Inp) (m : M)
    (i1 : Inp) (m1 : M) (vs : List Val) (mf : M)
    (hI : RepIters (parseRepUnit g uni fuel inh skr x) max 0 i m i1 m1 vs)
    (hf : parseRepUnit g uni fuel inh skr x vs.length i1 m1 = .fail mf) :
    (parse g uni (fuel+2) inh (.seq sk (.rep skr min max x :: rest)) i m).noTrk =
      ((parse g uni (fuel+2) inh (.seq sk (.rep skr min (some vs.length) x :: rest)) i m).mapVal
        (Val.mapSeqHead (Val.retag (.rep min max)))).noTrk :=
  C05_continuation_seq g uni (fuel+1) inh _ _ _ rest sk i m
    (C05_rep_as_if_never g uni fuel inh skr min max x i m i1 m1 vs mf hI hf)

/-- `(PUSH("a") ~ "x")* ~ POP` on `"axab"`-like input: the failed third attempt pushed; `POP` sees the
entry of the second iteration. -/
example : (c05RunF 8 (.seq .zero [.rep .zero 0 none c05PushAx, .pop]) ['a', 'x', 'a', 'b']).okPos? = some 3 ∧
    (c05RunF 8 (.seq .zero [.rep .zero 0 none c05PushAx, .pop]) ['a', 'x', 'a', 'b']).stkTxt? = some [['z']] ∧
    (c05RunF 8 (.seq .zero [.rep .zero 0 (some 1) c05PushAx, .pop]) ['a', 'x', 'a', 'b']).okPos? = some 3 := by
  decide

/-! ## 6. the stack a failed sub-run leaves behind is unobservable

Not every node is a restore point: `PUSH(x) ~ "q"`, `POP` (pops even on a mismatch) and a whole
`RepeatMin{MIN ≥ 2}` (`C05_counterexample_rep_fail_whole_restore`) fail with a changed stack.  The
property is about what is observable: "parsing continues from exactly the … stack contents that
held before".  So: take the interpreter in which the stack left by EVERY failing run — of every
node, at every depth, on both paths — is overwritten by an arbitrary function `χ` of everything in
sight (`parseT`/`checkT`, Lemmas/NoTraceTamper: they run `parseStep`/`checkStep`, which are the bodies
of `parse`/`check` by `parse_succ_eq_step`/`check_succ_eq_step`).  Nothing changes except the stack
carried by a failing result itself (`FailStkAny`: equal, or both fail with the same tracker); a
success — cursor, stack, tracker, value — and the tracker of a failure (the error report) are the
same.  The entry points drop the stack, so for them nothing observable changes at all. -/

/-- Without tampering the tampered interpreters ARE the model (so `parseT χ` is "the model, with
the leftover stacks of failures overwritten by `χ`" and nothing else). -/
theorem C05_tamper_faithful (g : NodeGrammar) (uni : Uni) (fuel : Nat) :
    parseT g uni .none fuel = parse g uni fuel ∧ checkT g uni .none fuel = check g uni fuel ∧
    (∀ r i, tryParseWith g (parse g uni fuel) r i = tryParse g uni fuel r i) ∧
    (∀ r i, tryCheckWith g (check g uni fuel) r i = tryCheck g uni fuel r i) :=
  ⟨parseT_id g uni fuel, checkT_id g uni fuel, fun _ _ => rfl, fun _ _ => rfl⟩

/-- **Any node, any state, any depth**: overwriting the stack left by every failing sub-run (and by
the run itself) changes nothing but the stack of a failing result. -/
theorem C05_failed_node_unobservable_node (g : NodeGrammar) (uni : Uni) (χ : Tamper) (fuel : Nat)
    (inh : Bool) (n : Node) (i : Inp) (m : M) :
    FailStkAny (parseT g uni χ fuel inh n i m) (parse g uni fuel inh n i m) ∧
    FailStkAny (checkT g uni χ fuel inh n i m) (check g uni fuel inh n i m) :=
  ⟨parseT_fsa g uni χ fuel inh n i m, checkT_fsa g uni χ fuel inh n i m⟩

/-- **The four entry points** (`try_parse`, `try_check`, `try_parse_partial`, `try_check_partial`):
the result does not depend on the stack left by any failed sub-run. -/
theorem C05_failed_node_unobservable (g : NodeGrammar) (uni : Uni) (χ : Tamper) (fuel : Nat)
    (r : RuleId) (i : Inp) :
    FailStkAny (tryParseWith g (parseT g uni χ fuel) r i) (tryParse g uni fuel r i) ∧
    FailStkAny (tryCheckWith g (checkT g uni χ fuel) r i) (tryCheck g uni fuel r i) ∧
    FailStkAny (parseT g uni χ fuel true (.ref r .one) i (M.init i)) (tryParsePartial g uni fuel r i) ∧
    FailStkAny (checkT g uni χ fuel true (.ref r .one) i (M.init i)) (tryCheckPartial g uni fuel r i) :=
  ⟨tryParseWith_fsa g (parseT_fsa g uni χ fuel) r i, tryCheckWith_fsa g (checkT_fsa g uni χ fuel) r i,
   parseT_fsa g uni χ fuel true _ i _, checkT_fsa g uni χ fuel true _ i _⟩

/-- What `FailStkAny` leaves for the caller of an entry point: the same success (cursor, state,
value), or failures with the same tracker (hence the same error report), or both out of fuel. -/
theorem C05_failStkAny_public {α} {r1 r2 : R α} (h : FailStkAny r1 r2) :
    (∀ i' m' v, r1 = .ok i' m' v ↔ r2 = .ok i' m' v) ∧ (r1.isFail = r2.isFail) ∧
    (∀ m1 m2, r1 = .fail m1 → r2 = .fail m2 → m1.trk = m2.trk) ∧ (r1 = .oof ↔ r2 = .oof) := by
  rcases h.cases with ⟨h1, h2⟩ | ⟨m1, m2, h1, h2, ht⟩ | ⟨i, m, a, h1, h2⟩ <;> subst h1 <;> subst h2
  · simp [Res.isFail]
  · refine ⟨by simp, rfl, ?_, by simp⟩
    intro a b ha hb; injection ha with ha; injection hb with hb; subst ha; subst hb; exact ht
  · simp [Res.isFail]

/-- **One level, arbitrary sub-interpreters.**  If `P`, `C` agree with `parse fuel`, `check fuel`
except for the stacks of failures, one step over them agrees with `parse (fuel+1)`, `check (fuel+1)`
in the same sense: no combinator reads the stack a failing part left. -/
theorem C05_step_ignores_failed_stack (g : NodeGrammar) (uni : Uni) (fuel : Nat)
    (P : Bool → Node → Inp → M → R Val) (C : Bool → Node → Inp → M → R Unit)
    (hP : ∀ inh n i m, FailStkAny (P inh n i m) (parse g uni fuel inh n i m))
    (hC : ∀ inh n i m, FailStkAny (C inh n i m) (check g uni fuel inh n i m))
    (inh : Bool) (n : Node) (i : Inp) (m : M) :
    FailStkAny (parseStep g uni fuel P C inh n i m) (parse g uni (fuel+1) inh n i m) ∧
    FailStkAny (checkStep g uni fuel C inh n i m) (check g uni (fuel+1) inh n i m) := by
  rw [parse_succ_eq_step, check_succ_eq_step]
  exact ⟨parseStep_fsa g uni fuel hP hC inh n i m, checkStep_fsa g uni fuel hC inh n i m⟩

/-- **Every construct that can continue after the failure of a part restores**: for a choice, an
optional, a repetition (ANY `MIN`, so also around a failed inner `RepeatMin{MIN ≥ 2}`), the
skip-repeat node and the predicates the step gives the SAME result — stack of a failure included —
whatever stacks the failing parts left.  (All other constructs pass a failure of a part on.) -/
theorem C05_continuing_constructs_restore (g : NodeGrammar) (uni : Uni) (fuel : Nat)
    (P : Bool → Node → Inp → M → R Val) (C : Bool → Node → Inp → M → R Unit)
    (hP : ∀ inh n i m, FailStkAny (P inh n i m) (parse g uni fuel inh n i m))
    (hC : ∀ inh n i m, FailStkAny (C inh n i m) (check g uni fuel inh n i m))
    (inh : Bool) (n : Node) (i : Inp) (m : M) (hn : n.continuesAfterFailure = true) :
    parseStep g uni fuel P C inh n i m = parse g uni (fuel+1) inh n i m ∧
    checkStep g uni fuel C inh n i m = check g uni (fuel+1) inh n i m := by
  rw [parse_succ_eq_step, check_succ_eq_step]
  exact ⟨parseStep_restore_eq g uni fuel hP hC inh n i m hn, checkStep_restore_eq g uni fuel hC inh n i m hn⟩

/-! #### instances -/

/-- Every failing run leaves the one-entry stack `["!"]`. -/
def c05Garbage : Tamper := ⟨fun _ _ _ _ _ _ => [⟨7, 8, ['!']⟩], fun _ _ _ _ _ _ => [⟨7, 8, ['!']⟩]⟩

/-- `main = { PUSH("z") ~ ((PUSH("a") ~ "x"){2,} | "axa") ~ POP }` (rule 2), blanks skipped. -/
def c05tGrammar : NodeGrammar :=
  { rules := [eoiDef,
      { name := "WHITESPACE", atom := .inherited, emit := .expression, boxed := true, body := .str [' '] },
      { name := "main", atom := .nonAtomic, emit := .both, boxed := false,
        body := .seq .zero [.push (.str ['z']),
          .choice [.rep .zero 2 none c05PushAx, .str ['a', 'x', 'a']], .pop] }],
    skipped := .atomicRepeat (.ref 1 .zero) }

def c05zaxaz : List Char := ['z', 'a', 'x', 'a', 'z']

/-- The failing whole `(PUSH("a") ~ "x"){2,}` leaves the entry its first iteration pushed
(`["a","z"]`, not `["z"]`); tampered, it leaves `["!"]`. -/
example : (c05RunF 8 (.rep .zero 2 none c05PushAx) ['a', 'x', 'a', 'z']).isFail = true ∧
    (c05RunF 8 (.rep .zero 2 none c05PushAx) ['a', 'x', 'a', 'z']).stkTxt? = some [['a'], ['z']] ∧
    (parseT c05Grammar c05Uni c05Garbage 8 true (.rep .zero 2 none c05PushAx)
      (c05In ['a', 'x', 'a', 'z']) (c05M ['a', 'x', 'a', 'z'])).stkTxt? = some [['!']] := by decide

/-- … inside `main` on `"zaxaz"`: the choice puts `["z"]` back, `"axa"` matches, `POP` finds `z`
(cursor 5).  With every failure's stack overwritten by `["!"]`: the same. -/
example : (tryParse c05tGrammar c05Uni 12 2 (c05In c05zaxaz)).okPos? = some 5 ∧
    (tryParse c05tGrammar c05Uni 12 2 (c05In c05zaxaz)).stkTxt? = some [] ∧
    (tryParseWith c05tGrammar (parseT c05tGrammar c05Uni c05Garbage 12) 2 (c05In c05zaxaz)).okPos? = some 5 ∧
    (tryParseWith c05tGrammar (parseT c05tGrammar c05Uni c05Garbage 12) 2 (c05In c05zaxaz)).stkTxt? = some [] ∧
    (tryCheckWith c05tGrammar (checkT c05tGrammar c05Uni c05Garbage 12) 2 (c05In c05zaxaz)).okPos? = some 5 := by
  decide

/-- A failing entry run (`"zaxab"`): same failure, same tracker position. -/
example : (tryParse c05tGrammar c05Uni 12 2 (c05In ['z', 'a', 'x', 'a', 'b'])).isFail = true ∧
    (tryParseWith c05tGrammar (parseT c05tGrammar c05Uni c05Garbage 12) 2
      (c05In ['z', 'a', 'x', 'a', 'b'])).isFail = true := by decide

end PestTyped
