/-
Props.C06 — Stack operations behave as pest specifies and fail gracefully.

Property (properties.jsonl, C06): PUSH(e) pushes exactly the text e matched (implicit skips inside e
included); PEEK/POP match the top entry, POP and DROP remove it, PEEK_ALL/POP_ALL match the entries
top to bottom, PEEK[a..b] matches entries a..b bottom to top, negative indices counting from the top
and an empty range succeeding without consuming.  An out-of-range slice or PEEK/POP/DROP on an empty
stack makes the expression fail; it never panics.

Model: the stack is `m.stk : List Sp`, TOP AT THE HEAD; `stackText sps` is the concatenation of the
texts of `sps` in list order (`Lemmas/StackOps.lean`).  All statements are closed forms over that
list, for every stack depth, every index, every cursor and tracker, every grammar and fuel ≥ 1.

Theorems
* PUSH: `C06_push_ok_iff`, `C06_push_fail_iff`, `C06_push_span`.
* PEEK / POP / DROP: `C06_peek_empty`, `C06_peek_match`, `C06_peek_mismatch`, `C06_pop_empty`,
  `C06_pop_match`, `C06_pop_mismatch`, `C06_drop_empty`, `C06_drop_nonempty`,
  `C06_empty_stack_recorded`.
* PEEK_ALL / POP_ALL: `C06_peekSpans_iff`, `C06_peekAll_match`, `C06_peekAll_mismatch`,
  `C06_popAll_match`, `C06_popAll_mismatch`.
* PEEK[a..b]: `C06_normalizeIndex_some_iff`, `C06_normalizeIndex_none_iff`, `C06_normalizeIndex_nonneg`,
  `C06_normalizeIndex_neg`, `C06_constrain_none_iff`, `C06_constrain_some_iff`, `C06_slice_oob`,
  `C06_slice_oob_recorded`, `C06_slice_empty_range`, `C06_slice_match`, `C06_slice_mismatch`,
  `C06_slice_ok_iff`, `C06_slice_fail_iff`, `C06_stackSlice_def`, `C06_stackSlice_full`,
  `C06_stackSlice_entry`, `C06_stackSlice_top`.
* never a crash: `C06_no_panic`.
* machine arithmetic: `C06_i32`.
* check path: `C06_check`.
-/
import PestTyped.Lemmas.StackOps
import PestTyped.Model.Gen
namespace PestTyped

/-! ### concrete instances for non-vacuity -/

def c06Grammar : NodeGrammar :=
  { rules := [eoiDef,
      { name := "WHITESPACE", atom := .inherited, emit := .expression, boxed := true,
        body := .str [' '] }],
    skipped := .atomicRepeat (.ref 1 .zero) }

def c06Uni : Uni := fun _ _ => false
def c06In (s : List Char) : Inp := { start := 0, pos := 0, rest := s, after := [] }
/-- The stack after `PUSH("a") ~ PUSH("b") ~ PUSH("c")`: top `"c"`, bottom `"a"`. -/
def c06Stk : List Sp := [⟨2, 3, ['c']⟩, ⟨1, 2, ['b']⟩, ⟨0, 1, ['a']⟩]
def c06M (s : List Char) : M := { stk := c06Stk, trk := Tracker.new (c06In s) }
def c06M0 (s : List Char) : M := { stk := [], trk := Tracker.new (c06In s) }
def c06Run (n : Node) (s : List Char) : R Val := parse c06Grammar c06Uni 8 true n (c06In s) (c06M s)
def c06Run0 (n : Node) (s : List Char) : R Val := parse c06Grammar c06Uni 8 true n (c06In s) (c06M0 s)

/-! ### PUSH -/

/-- `PUSH(e)` succeeds iff `e` does, and pushes the span from the cursor before `e` to the cursor
after `e` on top of whatever stack `e` left. -/
theorem C06_push_ok_iff (g : NodeGrammar) (uni : Uni) (fuel : Nat) (inh : Bool) (e : Node)
    (i : Inp) (m : M) (i' : Inp) (m' : M) (v' : Val) :
    parse g uni (fuel+1) inh (.push e) i m = .ok i' m' v' ↔
      ∃ m1 v, parse g uni fuel inh e i m = .ok i' m1 v ∧
        m' = { m1 with stk := i.spanTo i' :: m1.stk } ∧ v' = .mk .push [v] := by
  simp only [parse]
  cases parse g uni fuel inh e i m with
  | oof => simp
  | fail mf => simp
  | ok i1 m1 v =>
    simp only [Res.ok.injEq]
    constructor
    · rintro ⟨rfl, rfl, rfl⟩; exact ⟨m1, v, ⟨rfl, rfl, rfl⟩, rfl, rfl⟩
    · rintro ⟨m2, v2, ⟨rfl, rfl, rfl⟩, rfl, rfl⟩; exact ⟨rfl, rfl, rfl⟩

example : (c06Run0 (.push (.seq .one [.str ['a'], .str ['b']])) ['a', ' ', 'b', 'c']).stkTxt? =
    some [['a', ' ', 'b']] := by decide

/-- `PUSH(e)` fails iff `e` fails, leaving the state `e` left (nothing is pushed). -/
theorem C06_push_fail_iff (g : NodeGrammar) (uni : Uni) (fuel : Nat) (inh : Bool) (e : Node)
    (i : Inp) (m : M) (m' : M) :
    parse g uni (fuel+1) inh (.push e) i m = .fail m' ↔ parse g uni fuel inh e i m = .fail m' := by
  simp only [parse]
  cases parse g uni fuel inh e i m <;> simp

example : (c06Run0 (.push (.str ['b'])) ['a']).isFail = true ∧
    (c06Run0 (.push (.str ['b'])) ['a']).stkTxt? = some [] := by decide

/-- The pushed entry is exactly the text `e` consumed (implicit skips inside `e` included): it
starts at the old cursor, ends at the new one, and its text followed by the remaining input is the
input `e` started on. -/
theorem C06_push_span (g : NodeGrammar) (uni : Uni) (fuel : Nat) (inh : Bool) (e : Node)
    (i : Inp) (m : M) (i' : Inp) (m' : M) (v' : Val)
    (h : parse g uni fuel inh (.push e) i m = .ok i' m' v') :
    ∃ sp rest, m'.stk = sp :: rest ∧ sp.s = i.pos ∧ sp.e = i'.pos ∧ sp.txt ++ i'.rest = i.rest ∧
      i'.pos = i.pos + blen sp.txt := by
  have hadv := parse_adv g uni fuel inh _ i m i' m' v' h
  cases fuel with
  | zero => simp [parse] at h
  | succ fuel =>
    obtain ⟨m1, v, _, rfl, _⟩ := (C06_push_ok_iff g uni fuel inh e i m i' m' v').mp h
    obtain ⟨h1, h2, h3, h4⟩ := Inp.spanTo_of_adv hadv
    exact ⟨_, _, rfl, h1, h2, h3, h4⟩

example : (c06Run0 (.push (.seq .one [.str ['a'], .str ['b']])) ['a', ' ', 'b', 'c']).okPos? = some 3 := by
  decide

/-! ### PEEK, POP, DROP -/

/-- `PEEK` on an empty stack fails and records `Special.emptyStack` (no crash). -/
theorem C06_peek_empty (g : NodeGrammar) (uni : Uni) (fuel : Nat) (inh : Bool) (i : Inp) (m : M)
    (h : m.stk = []) :
    parse g uni (fuel+1) inh .peek i m = .fail { m with trk := m.trk.emptyStack i } := by
  simp only [parse, h]

example : (c06Run0 .peek ['a']).isFail = true ∧ (c06Run0 .peek ['a']).specials? = some [.emptyStack] := by
  decide

/-- `PEEK` matches the text of the top entry; the stack is unchanged. -/
theorem C06_peek_match (g : NodeGrammar) (uni : Uni) (fuel : Nat) (inh : Bool) (i : Inp) (m : M)
    (sp : Sp) (rest : List Sp) (h : m.stk = sp :: rest) (hp : sp.txt <+: i.rest) :
    parse g uni (fuel+1) inh .peek i m =
      .ok (i.adv sp.txt.length) m (.leaf (.peek (i.spanTo (i.adv sp.txt.length)))) := by
  simp only [parse, h, Inp.matchString_of_prefix hp]

example : (c06Run .peek ['c', 'x']).okPos? = some 1 ∧
    (c06Run .peek ['c', 'x']).stkTxt? = some [['c'], ['b'], ['a']] := by decide

/-- `PEEK` fails, state untouched, when the input does not continue with the top entry. -/
theorem C06_peek_mismatch (g : NodeGrammar) (uni : Uni) (fuel : Nat) (inh : Bool) (i : Inp) (m : M)
    (sp : Sp) (rest : List Sp) (h : m.stk = sp :: rest) (hp : ¬ sp.txt <+: i.rest) :
    parse g uni (fuel+1) inh .peek i m = .fail m := by
  simp only [parse, h, (Inp.matchString_eq_none_iff sp.txt i).mpr hp]

example : (c06Run .peek ['a', 'x']).isFail = true ∧
    (c06Run .peek ['a', 'x']).stkTxt? = some [['c'], ['b'], ['a']] := by decide

/-- `POP` on an empty stack fails and records `Special.emptyStack`. -/
theorem C06_pop_empty (g : NodeGrammar) (uni : Uni) (fuel : Nat) (inh : Bool) (i : Inp) (m : M)
    (h : m.stk = []) :
    parse g uni (fuel+1) inh .pop i m = .fail { m with trk := m.trk.emptyStack i } := by
  simp only [parse, h]

example : (c06Run0 .pop ['a']).isFail = true ∧ (c06Run0 .pop ['a']).specials? = some [.emptyStack] := by
  decide

/-- `POP` matches the text of the top entry and removes it; the value holds the popped span. -/
theorem C06_pop_match (g : NodeGrammar) (uni : Uni) (fuel : Nat) (inh : Bool) (i : Inp) (m : M)
    (sp : Sp) (rest : List Sp) (h : m.stk = sp :: rest) (hp : sp.txt <+: i.rest) :
    parse g uni (fuel+1) inh .pop i m =
      .ok (i.adv sp.txt.length) { m with stk := rest } (.leaf (.pop sp)) := by
  simp only [parse, h, Inp.matchString_of_prefix hp]

example : (c06Run .pop ['c', 'x']).okPos? = some 1 ∧
    (c06Run .pop ['c', 'x']).stkTxt? = some [['b'], ['a']] := by decide

/-- `POP` whose text does not match fails — and the top entry is gone all the same (the Rust code
calls `stack.pop()` before `match_string`); the enclosing restore point (C05) puts it back. -/
theorem C06_pop_mismatch (g : NodeGrammar) (uni : Uni) (fuel : Nat) (inh : Bool) (i : Inp) (m : M)
    (sp : Sp) (rest : List Sp) (h : m.stk = sp :: rest) (hp : ¬ sp.txt <+: i.rest) :
    parse g uni (fuel+1) inh .pop i m = .fail { m with stk := rest } := by
  simp only [parse, h, (Inp.matchString_eq_none_iff sp.txt i).mpr hp]

example : (c06Run .pop ['a', 'x']).isFail = true ∧
    (c06Run .pop ['a', 'x']).stkTxt? = some [['b'], ['a']] := by decide
/-- … and an enclosing optional restores the popped entry. -/
example : (c06Run (.opt .pop) ['a', 'x']).okPos? = some 0 ∧
    (c06Run (.opt .pop) ['a', 'x']).stkTxt? = some [['c'], ['b'], ['a']] := by decide

/-- `DROP` on an empty stack fails and records `Special.emptyStack`. -/
theorem C06_drop_empty (g : NodeGrammar) (uni : Uni) (fuel : Nat) (inh : Bool) (i : Inp) (m : M)
    (h : m.stk = []) :
    parse g uni (fuel+1) inh .drop i m = .fail { m with trk := m.trk.emptyStack i } := by
  simp only [parse, h]

example : (c06Run0 .drop ['a']).isFail = true ∧ (c06Run0 .drop ['a']).specials? = some [.emptyStack] := by
  decide

/-- `DROP` removes the top entry and consumes nothing. -/
theorem C06_drop_nonempty (g : NodeGrammar) (uni : Uni) (fuel : Nat) (inh : Bool) (i : Inp) (m : M)
    (sp : Sp) (rest : List Sp) (h : m.stk = sp :: rest) :
    parse g uni (fuel+1) inh .drop i m = .ok i { m with stk := rest } (.leaf .drop) := by
  simp only [parse, h]

example : (c06Run .drop ['q']).okPos? = some 0 ∧ (c06Run .drop ['q']).stkTxt? = some [['b'], ['a']] := by
  decide

/-- The empty-stack error really lands in the tracker (whenever the cursor is at or beyond the
furthest failure position seen so far — otherwise it is not where the error is reported). -/
theorem C06_empty_stack_recorded (t : Tracker) (i : Inp) (h : t.position ≤ i.pos) :
    ∃ k e, (k, e) ∈ (t.emptyStack i).attempts ∧ Special.emptyStack ∈ e.specials ∧
      (t.emptyStack i).position = i.pos :=
  Tracker.special_recorded t i.pos .emptyStack h

example : (Tracker.new (c06In ['a'])).position ≤ (c06In ['a']).pos := by decide

/-! ### PEEK_ALL, POP_ALL -/

/-- `peek_spans` matches exactly the concatenation of the entries, in list order. -/
theorem C06_peekSpans_iff (sps : List Sp) (i i' : Inp) :
    peekSpans sps i = some i' ↔ stackText sps <+: i.rest ∧ i' = i.adv (stackText sps).length :=
  peekSpans_eq_some_iff sps i i'

example : peekSpans c06Stk (c06In ['c', 'b', 'a', 'x']) = some ((c06In ['c', 'b', 'a', 'x']).adv 3) := by
  decide

/-- `PEEK_ALL` matches the entries top to bottom (the list order); stack unchanged.  On an empty
stack it succeeds consuming nothing. -/
theorem C06_peekAll_match (g : NodeGrammar) (uni : Uni) (fuel : Nat) (inh : Bool) (i : Inp) (m : M)
    (hp : stackText m.stk <+: i.rest) :
    parse g uni (fuel+1) inh .peekAll i m =
      .ok (i.adv (stackText m.stk).length) m
        (.leaf (.peekAll (i.spanTo (i.adv (stackText m.stk).length)))) := by
  simp only [parse, peekSpans_of_prefix hp]

example : (c06Run .peekAll ['c', 'b', 'a', 'x']).okPos? = some 3 ∧
    (c06Run .peekAll ['c', 'b', 'a', 'x']).stkTxt? = some [['c'], ['b'], ['a']] := by decide
example : (c06Run0 .peekAll ['x']).okPos? = some 0 := by decide

theorem C06_peekAll_mismatch (g : NodeGrammar) (uni : Uni) (fuel : Nat) (inh : Bool) (i : Inp) (m : M)
    (hp : ¬ stackText m.stk <+: i.rest) :
    parse g uni (fuel+1) inh .peekAll i m = .fail m := by
  simp only [parse, (peekSpans_eq_none_iff m.stk i).mpr hp]

example : (c06Run .peekAll ['a', 'b', 'c']).isFail = true := by decide

/-- `POP_ALL` matches the entries top to bottom and empties the stack. -/
theorem C06_popAll_match (g : NodeGrammar) (uni : Uni) (fuel : Nat) (inh : Bool) (i : Inp) (m : M)
    (hp : stackText m.stk <+: i.rest) :
    parse g uni (fuel+1) inh .popAll i m =
      .ok (i.adv (stackText m.stk).length) { m with stk := [] }
        (.leaf (.popAll (i.spanTo (i.adv (stackText m.stk).length)))) := by
  simp only [parse, peekSpans_of_prefix hp]

example : (c06Run .popAll ['c', 'b', 'a', 'x']).okPos? = some 3 ∧
    (c06Run .popAll ['c', 'b', 'a', 'x']).stkTxt? = some [] := by decide

/-- `POP_ALL` that does not match fails and leaves the stack untouched. -/
theorem C06_popAll_mismatch (g : NodeGrammar) (uni : Uni) (fuel : Nat) (inh : Bool) (i : Inp) (m : M)
    (hp : ¬ stackText m.stk <+: i.rest) :
    parse g uni (fuel+1) inh .popAll i m = .fail m := by
  simp only [parse, (peekSpans_eq_none_iff m.stk i).mpr hp]

example : (c06Run .popAll ['a', 'b', 'c']).isFail = true ∧
    (c06Run .popAll ['a', 'b', 'c']).stkTxt? = some [['c'], ['b'], ['a']] := by decide

/-! ### PEEK[a..b]: indices -/

/-- `normalize_index` returns `k` iff `k` is the bound read pest's way (`normIdx`: negative bounds
count from the top) and that lies in `[0, len]`. -/
theorem C06_normalizeIndex_some_iff (i : Int) (len k : Nat) :
    normalizeIndex i len = some k ↔
      0 ≤ normIdx i len ∧ normIdx i len ≤ (len : Int) ∧ (k : Int) = normIdx i len :=
  normalizeIndex_eq_some_iff i len k

example : normalizeIndex (-1) 3 = some 2 ∧ normalizeIndex 3 3 = some 3 ∧ normalizeIndex (-3) 3 = some 0 := by
  decide

/-- It is out of bounds exactly when `i > len` or `len + i < 0`. -/
theorem C06_normalizeIndex_none_iff (i : Int) (len : Nat) :
    normalizeIndex i len = none ↔ i > (len : Int) ∨ (len : Int) + i < 0 :=
  normalizeIndex_eq_none_iff i len

example : normalizeIndex 4 3 = none ∧ normalizeIndex (-4) 3 = none := by decide

theorem C06_normalizeIndex_nonneg (k len : Nat) (h : k ≤ len) : normalizeIndex (k : Int) len = some k :=
  normalizeIndex_nonneg k len h

example : (2 : Nat) ≤ 3 := by decide

/-- Negative indices count from the top: `-k` is `len - k` (so `-1` is the top entry's index). -/
theorem C06_normalizeIndex_neg (k len : Nat) (h1 : 1 ≤ k) (h2 : k ≤ len) :
    normalizeIndex (-(k : Int)) len = some (len - k) :=
  normalizeIndex_neg k len h1 h2

example : (1 : Nat) ≤ 2 ∧ (2 : Nat) ≤ 3 := by decide

/-- `constrain_idxs` fails iff the start bound, or the end bound when given, is out of bounds. -/
theorem C06_constrain_none_iff (a : Int) (b : Option Int) (len : Nat) :
    constrainIdxs a b len = none ↔
      (a > (len : Int) ∨ (len : Int) + a < 0) ∨
      ∃ b', b = some b' ∧ (b' > (len : Int) ∨ (len : Int) + b' < 0) := by
  rw [constrainIdxs_eq_none_iff, normalizeIndex_eq_none_iff]
  constructor
  · rintro (h | ⟨b', rfl, h⟩)
    · exact Or.inl h
    · exact Or.inr ⟨b', rfl, (normalizeIndex_eq_none_iff b' len).mp h⟩
  · rintro (h | ⟨b', rfl, h⟩)
    · exact Or.inl h
    · exact Or.inr ⟨b', rfl, (normalizeIndex_eq_none_iff b' len).mpr h⟩

example : constrainIdxs 0 (some 4) 3 = none ∧ constrainIdxs (-4) none 3 = none := by decide

/-- Otherwise it returns the normalised bounds; a missing end bound is `len`. -/
theorem C06_constrain_some_iff (a : Int) (b : Option Int) (len lo hi : Nat) :
    constrainIdxs a b len = some (lo, hi) ↔
      (0 ≤ normIdx a len ∧ normIdx a len ≤ (len : Int) ∧ (lo : Int) = normIdx a len) ∧
      ((b = none ∧ hi = len) ∨
       ∃ b', b = some b' ∧ 0 ≤ normIdx b' len ∧ normIdx b' len ≤ (len : Int) ∧ (hi : Int) = normIdx b' len) := by
  cases b with
  | none =>
    rw [constrainIdxs_none_eq_some_iff, normalizeIndex_eq_some_iff]
    simp
  | some b =>
    rw [constrainIdxs_some_eq_some_iff, normalizeIndex_eq_some_iff, normalizeIndex_eq_some_iff]
    simp

example : constrainIdxs 1 (some (-1)) 3 = some (1, 2) ∧ constrainIdxs (-2) none 3 = some (1, 3) := by decide

/-! ### PEEK[a..b]: the slice -/

theorem C06_stackSlice_def (stk : List Sp) (lo hi : Nat) :
    stackSlice stk lo hi = (stk.reverse.drop lo).take (hi - lo) ∧
    stackSlice stk lo hi = stk.reverse.extract lo hi :=
  ⟨rfl, stackSlice_eq_extract stk lo hi⟩

example : (stackSlice c06Stk 1 2).map (·.txt) = [['b']] := by decide

/-- `PEEK[0..]` is the whole stack, bottom first. -/
theorem C06_stackSlice_full (stk : List Sp) : stackSlice stk 0 stk.length = stk.reverse :=
  stackSlice_full stk

example : stackText (stackSlice c06Stk 0 3) = ['a', 'b', 'c'] := by decide

/-- Entry `k` of the slice `lo..hi` is entry `lo + k` counted from the bottom, i.e. entry
`len - 1 - (lo + k)` counted from the top; the slice has `hi - lo` entries. -/
theorem C06_stackSlice_entry (stk : List Sp) (lo hi k : Nat) (hk : k < hi - lo) (hhi : hi ≤ stk.length) :
    (stackSlice stk lo hi)[k]? = stk.reverse[lo + k]? ∧
    (stackSlice stk lo hi)[k]? = stk[stk.length - 1 - (lo + k)]? ∧
    (stackSlice stk lo hi).length = hi - lo := by
  refine ⟨?_, stackSlice_getElem?_top stk lo hi k hk hhi, stackSlice_length stk lo hi hhi⟩
  rw [stackSlice_getElem?, if_pos hk]

example : stackText (stackSlice c06Stk 1 3) = ['b', 'c'] := by decide

/-- `PEEK[-1..]` is the top entry alone. -/
theorem C06_stackSlice_top (sp : Sp) (rest : List Sp) :
    constrainIdxs (-1) none (sp :: rest).length = some (rest.length, rest.length + 1) ∧
    stackSlice (sp :: rest) rest.length (rest.length + 1) = [sp] := by
  refine ⟨?_, stackSlice_top sp rest⟩
  rw [constrainIdxs_none_eq_some_iff]
  refine ⟨?_, by simp⟩
  have := normalizeIndex_neg 1 (sp :: rest).length (Nat.le_refl _) (by simp)
  simpa using this

example : (c06Run (.peekSlice (-1) none) ['c', 'x']).okPos? = some 1 := by decide

/-- An out-of-range slice fails (no crash) and records `Special.sliceOutOfBound a b`. -/
theorem C06_slice_oob (g : NodeGrammar) (uni : Uni) (fuel : Nat) (inh : Bool) (a : Int) (b : Option Int)
    (i : Inp) (m : M) (h : constrainIdxs a b m.stk.length = none) :
    parse g uni (fuel+1) inh (.peekSlice a b) i m = .fail { m with trk := m.trk.outOfBound i a b } := by
  simp only [parse, h]

example : (c06Run (.peekSlice 0 (some 4)) ['a']).isFail = true ∧
    (c06Run (.peekSlice 0 (some 4)) ['a']).specials? = some [.sliceOutOfBound 0 (some 4)] := by decide

theorem C06_slice_oob_recorded (t : Tracker) (i : Inp) (a : Int) (b : Option Int) (h : t.position ≤ i.pos) :
    ∃ k e, (k, e) ∈ (t.outOfBound i a b).attempts ∧ Special.sliceOutOfBound a b ∈ e.specials ∧
      (t.outOfBound i a b).position = i.pos :=
  Tracker.special_recorded t i.pos _ h

example : (Tracker.new (c06In ['a'])).position ≤ (c06In ['a']).pos := by decide

/-- An empty (or inverted) range succeeds without consuming, whatever the input. -/
theorem C06_slice_empty_range (g : NodeGrammar) (uni : Uni) (fuel : Nat) (inh : Bool) (a : Int)
    (b : Option Int) (i : Inp) (m : M) (lo hi : Nat)
    (h : constrainIdxs a b m.stk.length = some (lo, hi)) (hle : hi ≤ lo) :
    parse g uni (fuel+1) inh (.peekSlice a b) i m = .ok i m (.leaf .peekSlice) := by
  simp only [parse, h, hle, if_true]

example : (c06Run (.peekSlice 2 (some 1)) ['q']).okPos? = some 0 ∧
    (c06Run (.peekSlice 3 none) ['q']).okPos? = some 0 := by decide

/-- An in-range slice matches the entries `lo..hi`, counted from the bottom, in bottom-to-top
order; the stack is unchanged. -/
theorem C06_slice_match (g : NodeGrammar) (uni : Uni) (fuel : Nat) (inh : Bool) (a : Int)
    (b : Option Int) (i : Inp) (m : M) (lo hi : Nat)
    (h : constrainIdxs a b m.stk.length = some (lo, hi))
    (hp : stackText (stackSlice m.stk lo hi) <+: i.rest) :
    parse g uni (fuel+1) inh (.peekSlice a b) i m =
      .ok (i.adv (stackText (stackSlice m.stk lo hi)).length) m (.leaf .peekSlice) := by
  simp only [parse, h]
  by_cases hle : hi ≤ lo
  · simp [hle, stackSlice_empty m.stk lo hi hle, Inp.adv_zero]
  · simp only [hle, if_false, peekSpans_of_prefix hp]

example : (c06Run (.peekSlice 0 (some 2)) ['a', 'b', 'x']).okPos? = some 2 ∧
    (c06Run (.peekSlice 1 (some (-1))) ['b', 'x']).okPos? = some 1 ∧
    (c06Run (.peekSlice (-2) none) ['b', 'c', 'x']).okPos? = some 2 := by decide

theorem C06_slice_mismatch (g : NodeGrammar) (uni : Uni) (fuel : Nat) (inh : Bool) (a : Int)
    (b : Option Int) (i : Inp) (m : M) (lo hi : Nat)
    (h : constrainIdxs a b m.stk.length = some (lo, hi))
    (hp : ¬ stackText (stackSlice m.stk lo hi) <+: i.rest) :
    parse g uni (fuel+1) inh (.peekSlice a b) i m = .fail m := by
  simp only [parse, h]
  by_cases hle : hi ≤ lo
  · exfalso; apply hp; rw [stackSlice_empty m.stk lo hi hle]; exact List.nil_prefix
  · simp only [hle, if_false, (peekSpans_eq_none_iff _ i).mpr hp]

example : (c06Run (.peekSlice 0 (some 2)) ['b', 'a', 'x']).isFail = true := by decide

/-- All cases at once: success. -/
theorem C06_slice_ok_iff (g : NodeGrammar) (uni : Uni) (fuel : Nat) (inh : Bool) (a : Int)
    (b : Option Int) (i : Inp) (m : M) (i' : Inp) (m' : M) (v : Val) :
    parse g uni (fuel+1) inh (.peekSlice a b) i m = .ok i' m' v ↔
      ∃ lo hi, constrainIdxs a b m.stk.length = some (lo, hi) ∧
        stackText (stackSlice m.stk lo hi) <+: i.rest ∧
        i' = i.adv (stackText (stackSlice m.stk lo hi)).length ∧ m' = m ∧ v = .leaf .peekSlice := by
  cases hc : constrainIdxs a b m.stk.length with
  | none => rw [C06_slice_oob g uni fuel inh a b i m hc]; simp
  | some lh =>
    obtain ⟨lo, hi⟩ := lh
    by_cases hp : stackText (stackSlice m.stk lo hi) <+: i.rest
    · rw [C06_slice_match g uni fuel inh a b i m lo hi hc hp]
      simp only [Res.ok.injEq, Option.some.injEq, Prod.mk.injEq]
      constructor
      · rintro ⟨rfl, rfl, rfl⟩; exact ⟨lo, hi, ⟨rfl, rfl⟩, hp, rfl, rfl, rfl⟩
      · rintro ⟨lo', hi', ⟨rfl, rfl⟩, _, rfl, rfl, rfl⟩; exact ⟨rfl, rfl, rfl⟩
    · rw [C06_slice_mismatch g uni fuel inh a b i m lo hi hc hp]
      simp only [reduceCtorEq, Option.some.injEq, Prod.mk.injEq, false_iff, not_exists, not_and]
      rintro lo' hi' ⟨rfl, rfl⟩ hp'
      exact absurd hp' hp

example : (c06Run (.peekSlice 0 none) ['a', 'b', 'c', 'x']).okPos? = some 3 := by decide

/-- All cases at once: failure. -/
theorem C06_slice_fail_iff (g : NodeGrammar) (uni : Uni) (fuel : Nat) (inh : Bool) (a : Int)
    (b : Option Int) (i : Inp) (m : M) (m' : M) :
    parse g uni (fuel+1) inh (.peekSlice a b) i m = .fail m' ↔
      (constrainIdxs a b m.stk.length = none ∧ m' = { m with trk := m.trk.outOfBound i a b }) ∨
      (∃ lo hi, constrainIdxs a b m.stk.length = some (lo, hi) ∧ lo < hi ∧
        ¬ stackText (stackSlice m.stk lo hi) <+: i.rest ∧ m' = m) := by
  cases hc : constrainIdxs a b m.stk.length with
  | none =>
    rw [C06_slice_oob g uni fuel inh a b i m hc]
    simp only [Res.fail.injEq, true_and, reduceCtorEq, false_and, exists_false, or_false]
    exact eq_comm
  | some lh =>
    obtain ⟨lo, hi⟩ := lh
    by_cases hp : stackText (stackSlice m.stk lo hi) <+: i.rest
    · rw [C06_slice_match g uni fuel inh a b i m lo hi hc hp]
      simp only [reduceCtorEq, false_and, Option.some.injEq, Prod.mk.injEq, false_or, false_iff,
        not_exists, not_and]
      rintro lo' hi' ⟨rfl, rfl⟩ _ hp'
      exact absurd hp hp'
    · rw [C06_slice_mismatch g uni fuel inh a b i m lo hi hc hp]
      simp only [Res.fail.injEq, reduceCtorEq, false_and, Option.some.injEq, Prod.mk.injEq, false_or]
      constructor
      · rintro rfl
        refine ⟨lo, hi, ⟨rfl, rfl⟩, ?_, hp, rfl⟩
        apply Nat.lt_of_not_le
        intro hle; apply hp; rw [stackSlice_empty m.stk lo hi hle]; exact List.nil_prefix
      · rintro ⟨lo', hi', ⟨rfl, rfl⟩, _, _, rfl⟩; rfl

example : (c06Run (.peekSlice (-4) none) ['a']).isFail = true ∧
    (c06Run (.peekSlice 1 none) ['a']).isFail = true := by decide

/-! ### never a crash -/

/-- Given one unit of fuel, the stack built-ins always return: success or failure, never the
model's third outcome (empty stack, out-of-range bounds and inverted ranges included). -/
theorem C06_no_panic (g : NodeGrammar) (uni : Uni) (fuel : Nat) (inh : Bool) (i : Inp) (m : M)
    (a : Int) (b : Option Int) :
    parse g uni (fuel+1) inh .peek i m ≠ .oof ∧ parse g uni (fuel+1) inh .pop i m ≠ .oof ∧
    parse g uni (fuel+1) inh .drop i m ≠ .oof ∧ parse g uni (fuel+1) inh .peekAll i m ≠ .oof ∧
    parse g uni (fuel+1) inh .popAll i m ≠ .oof ∧ parse g uni (fuel+1) inh (.peekSlice a b) i m ≠ .oof := by
  refine ⟨?_, ?_, ?_, ?_, ?_, ?_⟩
  · simp only [parse]; split
    · simp
    · split <;> simp
  · simp only [parse]; split
    · simp
    · split <;> simp
  · simp only [parse]; split <;> simp
  · simp only [parse]; split <;> simp
  · simp only [parse]; split <;> simp
  · simp only [parse]; split
    · simp
    · split
      · simp
      · split <;> simp

example : (c06Run0 (.peekSlice 2 (some (-7))) []).isOof = false ∧ (c06Run0 .pop []).isOof = false := by decide

/-! ### machine arithmetic -/

/-- The literal 32-bit reading of `normalize_index` (`len as i32` truncating, `+` wrapping) equals
the mathematical one for every `i32` index whenever the stack has fewer than `2^31` entries. -/
theorem C06_i32 (i : Int) (len : Nat) (hlen : len < 2^31) (h1 : -2^31 ≤ i) (h2 : i < 2^31) :
    normalizeIndexI32 i len = normalizeIndex i len :=
  normalizeIndexI32_eq i len hlen h1 h2

example : normalizeIndexI32 (-1) 3 = some 2 ∧ normalizeIndexI32 (-2147483648) 2147483647 = none ∧
    normalizeIndexI32 2147483647 2147483647 = some 2147483647 := by decide
/-- Outside the hypothesis the two readings differ (a stack of `2^31` entries: `len as i32` is
negative), which is why the hypothesis is stated. -/
example : normalizeIndexI32 0 2147483648 = none ∧ normalizeIndex 0 2147483648 = some 0 := by decide

/-! ### check path -/

/-- The check path of every stack node computes the same verdict, cursor, stack and tracker. -/
theorem C06_check (g : NodeGrammar) (uni : Uni) (fuel : Nat) (inh : Bool) (i : Inp) (m : M)
    (e : Node) (a : Int) (b : Option Int) :
    check g uni fuel inh (.push e) i m = (parse g uni fuel inh (.push e) i m).forget ∧
    check g uni fuel inh .peek i m = (parse g uni fuel inh .peek i m).forget ∧
    check g uni fuel inh .pop i m = (parse g uni fuel inh .pop i m).forget ∧
    check g uni fuel inh .drop i m = (parse g uni fuel inh .drop i m).forget ∧
    check g uni fuel inh .peekAll i m = (parse g uni fuel inh .peekAll i m).forget ∧
    check g uni fuel inh .popAll i m = (parse g uni fuel inh .popAll i m).forget ∧
    check g uni fuel inh (.peekSlice a b) i m = (parse g uni fuel inh (.peekSlice a b) i m).forget :=
  ⟨check_eq_parse_forget .., check_eq_parse_forget .., check_eq_parse_forget ..,
   check_eq_parse_forget .., check_eq_parse_forget .., check_eq_parse_forget ..,
   check_eq_parse_forget ..⟩

example : (check c06Grammar c06Uni 8 true (.peekSlice 1 (some (-1))) (c06In ['b', 'x']) (c06M ['b', 'x'])).okPos?
    = some 1 := by decide

end PestTyped
