/-
Props.C16Slots — C16, slot assignment: WHICH node comes out in WHICH position of `r.x()`.

`Props/C16` determines the result of an accessor only up to flattening (`C16_flatten`), and only for names that
stand for rule structs (`refId`).  The property text says more: "in the order of the mentions in r's expression …
wrapped in Option / Vec / tuple according to where x is mentioned".  Here that is stated and proved about the
Getters model, for EVERY name `x` (rules and built-ins such as `ANY`, `PEEK`: no `refId` hypothesis):

declarative side (`Lemmas/GettersSlots`, recursion on the expression only):
  `siteKinds x e`     the mention sites of `x` in `e` outside negative predicates, in grammar order, each with
                      (is under a repetition, is under `?` / in a choice alternative);
  `siteMatches x e v` for a value `v` of `e`'s type, per site the list of values that site matched (absent optional /
                      unchosen alternative: none; repetition: its iterations in order);
accessor side:
  `GTy.leafKinds ty`  the reference leaves of a return type, left to right, with (inside a `Vec`, inside an `Option`);
  `slots ty gv`       a result laid over its type: per reference leaf the references found there.

* `C16_slots`            slot k of `r.x()` (k-th reference leaf of the return type) holds exactly the matches of the
                         k-th mention site, for every value a parse returns; the path never gets stuck and the result
                         inhabits the return type — for every name, built-ins included;
* `C16_slot_kinds`       the return type has exactly one reference leaf per mention site, in the same order, inside a
                         `Vec` iff the site is under a repetition, inside an `Option` iff under `?` / a choice alternative;
* `C16_slots_absent`     no accessor ⇒ no mention site (and nothing matched);
* `C16_any_name_never_stuck`  `C16_shape` without `refId`: also `r.ANY()`, `r.PEEK()`, … apply and are typed;
* `C16_sites_are_mentions`    the sites of `x` are the occurrences of `x` in `PExpr.mentions` (same count, same order);
* `C16_rule_slots`       the same on a parsed rule value of the generated module (`ruleGetter`, every kind but atomic).
The reviewer's example `r = { a? ~ a? }` on `a` is the non-vacuity instance: the model must answer `(Some, None)`.
-/
import PestTyped.Lemmas.GettersSlots
import PestTyped.Props.C16
namespace PestTyped

/-- Slot k holds exactly what mention site k matched (every name, every expression, every parsed value). -/
theorem C16_slots (g : PGrammar) (sk : Flag) (e : PExpr) (x : String) (t : GNode)
    (ht : (genGetters e).get? x = some t)
    (G : NodeGrammar) (uni : Uni) (fuel : Nat) (inh : Bool) (i : Inp) (m : M) (i' : Inp) (m' : M) (v : Val)
    (h : parse G uni fuel inh (genExpr g sk e) i m = .ok i' m' v) :
    ∃ gv, evalGetter t v = some gv ∧ gv.hasTy t.typeOf = true ∧ slots t.typeOf gv = siteMatches x e v := by
  have hs := parse_shape G uni fuel inh _ _ _ _ _ _ h
  have := (genGetters_slots g sk x e).2 _ _ _ hs
  simpa only [ht, DynOK, SlotAt] using this

/-- One reference leaf per mention site, same order, `Vec` ⇔ under a repetition, `Option` ⇔ under `?` / in a choice. -/
theorem C16_slot_kinds (e : PExpr) (x : String) (t : GNode) (ht : (genGetters e).get? x = some t) :
    t.typeOf.leafKinds = siteKinds x e ∧ t.typeOf.numLeaves = numSites x e := by
  have := (genGetters_slots [] .inh x e).1
  rw [ht] at this
  exact ⟨this, this.some_num⟩

/-- No accessor: the expression has no mention site of `x` outside negative predicates, and nothing was matched. -/
theorem C16_slots_absent (g : PGrammar) (sk : Flag) (e : PExpr) (x : String) (ht : (genGetters e).get? x = none) :
    siteKinds x e = [] ∧
    ∀ (G : NodeGrammar) (uni : Uni) (fuel : Nat) (inh : Bool) (i : Inp) (m : M) (i' : Inp) (m' : M) (v : Val),
      parse G uni fuel inh (genExpr g sk e) i m = .ok i' m' v → siteMatches x e v = [] := by
  have h0 := genGetters_slots g sk x e
  rw [ElemSlot, ht] at h0
  refine ⟨h0.1, fun G uni fuel inh i m i' m' v h => ?_⟩
  exact h0.2 _ _ _ (parse_shape G uni fuel inh _ _ _ _ _ _ h)

/-- `C16_shape` for ANY name (no `refId`): the accessors of built-in names never get stuck either. -/
theorem C16_any_name_never_stuck (g : PGrammar) (sk : Flag) (e : PExpr) (x : String) (t : GNode)
    (ht : (genGetters e).get? x = some t)
    (G : NodeGrammar) (uni : Uni) (fuel : Nat) (inh : Bool) (i : Inp) (m : M) (i' : Inp) (m' : M) (v : Val)
    (h : parse G uni fuel inh (genExpr g sk e) i m = .ok i' m' v) :
    ∃ gv, evalGetter t v = some gv ∧ gv.hasTy t.typeOf = true := by
  obtain ⟨gv, h1, h2, _⟩ := C16_slots g sk e x t ht G uni fuel inh i m i' m' v h
  exact ⟨gv, h1, h2⟩

/-- The sites of `x` are the occurrences of `x` among the mentions of `e`. -/
theorem C16_sites_are_mentions (x : String) : ∀ e : PExpr, numSites x e = (e.mentions.filter (· = x)).length := by
  intro e
  unfold numSites
  induction e with
  | ident name => by_cases h : name = x <;> simp [siteKinds, PExpr.mentions, h]
  | seq a b iha ihb => simp [siteKinds, PExpr.mentions, iha, ihb]
  | choice a b iha ihb => simp [siteKinds, PExpr.mentions, iha, ihb]
  | posPred e ih => simpa [siteKinds, PExpr.mentions] using ih
  | opt e ih => simpa [siteKinds, PExpr.mentions] using ih
  | rep e ih => simpa [siteKinds, PExpr.mentions] using ih
  | repOnce e ih => simpa [siteKinds, PExpr.mentions] using ih
  | repExact e n ih => simpa [siteKinds, PExpr.mentions] using ih
  | repMin e n ih => simpa [siteKinds, PExpr.mentions] using ih
  | repMax e n ih => simpa [siteKinds, PExpr.mentions] using ih
  | repMinMax e n m ih => simpa [siteKinds, PExpr.mentions] using ih
  | push e ih => simpa [siteKinds, PExpr.mentions] using ih
  | restoreOnErr e ih => simpa [siteKinds, PExpr.mentions] using ih
  | _ => simp [siteKinds, PExpr.mentions]

/-- On a parsed rule value of the generated module: `r.x()` is defined, typed, and slot k holds the matches of the
k-th mention of `x` in `r`'s expression. -/
theorem C16_rule_slots (g : PGrammar) (k : Nat) (r : PRule) (hr : g[k]? = some r) (x : String) (t : GNode)
    (ht : (ruleGetters r).get? x = some t)
    (uni : Uni) (fuel : Nat) (inh : Bool) (f : Flag) (i : Inp) (m : M) (i' : Inp) (m' : M) (v : Val)
    (h : parse (gen g) uni fuel inh (.ref (k+1) f) i m = .ok i' m' v) :
    ∃ em bx c gv, v = .mk (.rule (k+1) em bx i.pos i'.pos) [c] ∧ ruleGetter t v = some gv ∧
      gv.hasTy t.typeOf = true ∧ slots t.typeOf gv = siteMatches x r.expr c := by
  have hk : emitsGetters r.kind = true := by
    unfold ruleGetters at ht
    cases hk : emitsGetters r.kind with
    | true => rfl
    | false => simp [hk, Forest.get?] at ht
  have ht' : (genGetters r.expr).get? x = some t := by simpa [ruleGetters, hk] using ht
  cases fuel with
  | zero => simp [parse] at h
  | succ n =>
    simp only [parse, gen_rule? g k r hr] at h
    have key : ∀ (i1 : Inp) (m1 m0 : M) (c : Val) (inh' : Bool),
        parse (gen g) uni n inh' (genExpr g (atomFlag (kindAtomicity r.kind)) r.expr) i m0 = .ok i1 m1 c →
        ∃ gv, evalGetter t c = some gv ∧ gv.hasTy t.typeOf = true ∧ slots t.typeOf gv = siteMatches x r.expr c :=
      fun i1 m1 m0 c inh' hc => C16_slots g _ r.expr x t ht' _ _ _ _ _ _ _ _ _ hc
    cases hkind : r.kind <;> simp only [genRule, kindEmission, hkind] at h <;>
      simp only [hkind, emitsGetters] at hk
    all_goals first
      | (split at h
         · cases h
         · cases h
         · next i1 m1 c hc =>
           injection h with h0 _ hv; subst h0 hv
           simp only [hkind] at key
           obtain ⟨gv, h1, h2, h3⟩ := key _ _ _ _ _ hc
           exact ⟨_, _, c, gv, rfl, by simp [ruleGetter, h1], h2, h3⟩)
      | cases hk

/-! ### non-vacuity: `a = { "a" }   r = { a? ~ a? }` on `a` — the result is `(Some(a@0..1), None)`, not `(None, Some)` -/

def c16sE : PExpr := .seq (.opt (.ident "a")) (.opt (.ident "a"))
def c16sG : PGrammar := [⟨"a", .normal, .str ['a']⟩, ⟨"r", .normal, c16sE⟩]
def c16sNode : Node := .seq .inh [.opt (.ref 1 .inh), .opt (.ref 1 .inh)]
def c16sNG : NodeGrammar :=
  { rules := [eoiDef,
      { name := "a", atom := .inherited, emit := .both, boxed := true, body := .str ['a'] },
      { name := "r", atom := .inherited, emit := .both, boxed := true, body := c16sNode }],
    skipped := .empty }
def c16sA : Val := .mk (.rule 1 .both true 0 1) [.mk .str []]
/-- The value the parse returns: first `a?` is `Some`, second `None`. -/
def c16sV : Val :=
  .mk .seq [.mk (.skipped 1) [.mk .empty [], .mk .optSome [c16sA]], .mk (.skipped 1) [.mk .empty [], .mk .optNone []]]
def c16sT : GNode := .tuple [.sequenceI 0 (.optional false (.rule "a")), .sequenceI 1 (.optional false (.rule "a"))]
def c16sIn : Inp := { start := 0, pos := 0, rest := ['a'], after := [] }

theorem c16s_node : genExpr c16sG .inh c16sE = c16sNode := by
  simp [c16sG, c16sE, c16sNode, genExpr, genSeqSpine, PGrammar.indexOf, PGrammar.indexOf.go]

theorem c16s_getter : (genGetters c16sE).get? "a" = some c16sT := by
  simp [c16sE, c16sT, genGetters, genSeqGetters, Forest.join, Forest.prepend, Forest.upsert, Forest.get?,
    Forest.insertSorted, Forest.modify, GNode.wrap, GNode.merge, GNode.flattenable]

theorem c16s_parse : ∃ i' m', parse c16sNG (fun _ _ => false) 8 true (genExpr c16sG .inh c16sE) c16sIn (M.init c16sIn) =
    .ok i' m' c16sV := by
  rw [c16s_node]; exact ⟨_, _, rfl⟩

theorem c16s_sites : siteMatches "a" c16sE c16sV = [[c16sA], []] ∧ siteKinds "a" c16sE = [(false, true), (false, true)] := by
  simp [c16sE, c16sV, siteMatches, seqSiteMatches, siteKinds, Val.matchedOr, Val.matched?, Kind.underOpt, numSites, emptySlots]

-- `C16_slots` / `C16_slot_kinds` on it: the two slots are `[a@0..1]` and `[]`, in this order
example : ∃ gv, evalGetter c16sT c16sV = some gv ∧ slots c16sT.typeOf gv = [[c16sA], []] ∧
    c16sT.typeOf.leafKinds = [(false, true), (false, true)] := by
  obtain ⟨i', m', h⟩ := c16s_parse
  obtain ⟨gv, h1, _, h3⟩ := C16_slots c16sG .inh c16sE "a" c16sT c16s_getter _ _ _ _ _ _ _ _ _ h
  exact ⟨gv, h1, by rw [h3, c16s_sites.1], by rw [(C16_slot_kinds c16sE "a" c16sT c16s_getter).1, c16s_sites.2]⟩
-- … and the model's answer, computed: `(Some(a), None)`; a result `(None, Some(a))` has the SAME flattening but other slots
example : evalGetter c16sT c16sV = some (.tuple [.optSome (.ref c16sA), .optNone]) := rfl
example : slots c16sT.typeOf (.tuple [.optSome (.ref c16sA), .optNone]) = [[c16sA], []] ∧
    slots c16sT.typeOf (.tuple [.optNone, .optSome (.ref c16sA)]) = [[], [c16sA]] ∧
    (GVal.tuple [.optSome (.ref c16sA), .optNone]).flatten = (GVal.tuple [.optNone, .optSome (.ref c16sA)]).flatten := by
  refine ⟨rfl, rfl, rfl⟩
-- a built-in name: `r = { ANY ~ ANY? }`, accessor `ANY` with two slots `(&ANY, Option<&ANY>)`
example : ∃ t, (genGetters (.seq (.ident "ANY") (.opt (.ident "ANY")))).get? "ANY" = some t ∧
    t.typeOf.leafKinds = [(false, false), (false, true)] := by
  refine ⟨.tuple [.sequenceI 0 (.rule "ANY"), .sequenceI 1 (.optional false (.rule "ANY"))], ?_, rfl⟩
  simp [genGetters, genSeqGetters, Forest.join, Forest.prepend, Forest.upsert, Forest.get?,
    Forest.insertSorted, Forest.modify, GNode.wrap, GNode.merge, GNode.flattenable]

end PestTyped
