/-
Props.C07Implicit — the "exactly as in pest" clause of C07 (atomicity is inherited and implicit skipping
applied exactly as in pest) under the WEAK hypothesis on the skip rules (Lemmas/SkipImplicit.lean).

The theorems of `Props/C07.lean`, `C07Run.lean`, `C07Shape.lean` are facts about the generated module alone
(where the skip sites are, what the flags evaluate to, what `Skipped` is); none of them carries a
hypothesis on WHITESPACE / COMMENT.  "As in pest" comes from C01 / C02, whose theorems assume
`SkipRulesAtomicLike g` — skip rules `@` / `$` or without sequence / repetition / rule reference — and so
say nothing for `COMMENT = _{ "/*" ~ (!"*/" ~ ANY)* ~ "*/" }` or the repository's `COMMENT = _{ "$"+ }`.
Here the same statements are given under `ImplicitOk` / `SkipRulesImplicitOnly g entry` (verdict, offsets)
and `SkipRulesImplicitOnlyTok g entry` (spans of rule tokens): any body, used implicitly — or explicitly
where skipping is off —, not declared `!`, not the entry.

* `C07_skip_type_as_pest_implicit`, `C07_skip_type_as_pest_implicit_back` — the implicit skip itself: the
  `Skipped` type of the generated module, run (as it always is) with `INHERITED = 0`, computes pest's
  `(WHITESPACE | COMMENT)*` with the skip rules matched atomically (`specSkipN`): whenever one side
  answers, so does the other, with the same verdict / cursor / stack.  This is the clause "WHITESPACE /
  COMMENT themselves are always matched atomically" where it is true: at the implicit skip sites.
* `C07_as_pest_implicit_entry`   — for an entry rule: the typed prefix parse reaches a definite outcome
  (match ending at an offset with a stack, or no match) iff pest does: so skipping happened at the same
  places with the same atomicity in every rule reached (any nesting depth, any kinds).
* `C07_rule_spans_as_pest_implicit` — whenever both succeed, the rule tokens (rule, start, end, nesting)
  are pest's, pruned under `@` / `$`: the observable named in the property ("spans of rule tokens and
  consumed offsets against pest").
* `C07_counterexample_ws_explicit_implicit`, `C07_counterexample_ws_nonatomic_implicit` — the two F-WS
  witnesses of `Props/C07.lean` violate the weak hypothesis (and the two sides differ on them): an explicit
  reference from a non-atomic rule, and a skip rule declared `!`.
-/
import PestTyped.Props.C07
import PestTyped.Props.C01Implicit
import PestTyped.Props.C02Implicit
namespace PestTyped

/-! ### the implicit skip as pest's -/

theorem specSkipNU_eq {g : PGrammar} {St : List (Nat × Bool)} {na : Bool} {e : PExpr}
    (h : ImplicitOk g St na e = true) (uni : Uni) (n : Nat) (i : Inp) (S : List Sp) :
    U.specSkipN g uni n i S = specSkipN g uni n i S := by
  simp only [ImplicitOk, Bool.and_eq_true] at h
  obtain ⟨⟨⟨_, hW⟩, hC⟩, hcl⟩ := h
  unfold U.specSkipN specSkipN
  exact specSkip_congr _ _ _ _ (fun _ => specU_eq g uni St hW hC hcl n false _ hW)
    (fun _ => specU_eq g uni St hW hC hcl n false _ hC) _ i S

/-- C07 (the skip type is pest's implicit skip, weak hypothesis, forward).  Whenever pest's implicit skip
`(WHITESPACE | COMMENT)*` — skip rules matched atomically — answers from cursor `i` and stack `S`, the
`Skipped` type of the generated module, run with `INHERITED = 0`, gives that answer from some fuel on. -/
theorem C07_skip_type_as_pest_implicit (g : PGrammar) (uni : Uni) (St : List (Nat × Bool)) (na : Bool) (e : PExpr)
    (h : ImplicitOk g St na e = true) (n : Nat) (i : Inp) (S : List Sp) (trk : Tracker)
    (hne : specSkipN g uni n i S ≠ .oof) :
    ∃ n0 r, Rel r (specSkipN g uni n i S) ∧
      ∀ n', n0 ≤ n' → parse (gen g) uni n' false (gen g).skipped i ⟨S, trk⟩ = r := by
  rw [← specSkipNU_eq h uni n i S] at hne ⊢
  exact U.skip_sim (U.sim_all n) i S trk hne

/-- C07 (the skip type is pest's implicit skip, weak hypothesis, backward).  Whenever the `Skipped` type
answers (at some fuel), pest's implicit skip gives that answer at every sufficiently large fuel. -/
theorem C07_skip_type_as_pest_implicit_back (g : PGrammar) (uni : Uni) (St : List (Nat × Bool)) (na : Bool)
    (e : PExpr) (h : ImplicitOk g St na e = true) (k : Nat) (i : Inp) (S : List Sp) (trk : Tracker)
    (hne : parse (gen g) uni k false (gen g).skipped i ⟨S, trk⟩ ≠ .oof) :
    ∃ n0, ∀ n, n0 ≤ n →
      specSkipN g uni n i S = (parse (gen g) uni k false (gen g).skipped i ⟨S, trk⟩).outcome := by
  obtain ⟨n0, h0⟩ := U.skip_back (n' := k) (fun m _ => U.back_all m) k (by omega) i S trk hne
  exact ⟨n0, fun n hn => by rw [← specSkipNU_eq h uni n i S]; exact h0 n hn⟩

/-! ### entry rules: offsets and rule spans as in pest -/

/-- C07 (as in pest, weak hypothesis, entry rule).  The typed prefix parse of rule `name` reaches a
definite outcome — a match ending at a given offset with a given stack, or no match — exactly when
pest's parser does. -/
theorem C07_as_pest_implicit_entry (g : PGrammar) (uni : Uni) (name : String) (r : Nat)
    (h : SkipRulesImplicitOnly g name = true) (hr : g.indexOf name = some r) (i : Inp) (o : SR) (ho : o ≠ .oof) :
    (∃ k, (tryParsePartial (gen g) uni k (r+1) i).outcome = o) ↔ (∃ n, specPartial g uni n name i = o) :=
  C01_iff_implicit_entry g uni name r h hr i o ho

/-- C07 (rule spans as in pest, weak hypothesis).  Whenever the typed prefix parse of `name` and pest's
parse both succeed, every rule token (rule, start, end, children in order) is pest's — after the
documented pruning under `@` / `$` — and both consumed the same prefix. -/
theorem C07_rule_spans_as_pest_implicit (g : PGrammar) (uni : Uni) (name : String) (k : Nat)
    (h : SkipRulesImplicitOnlyTok g name = true) (hk : g.indexOf name = some k) (n N : Nat)
    (i i' j' : Inp) (m' : M) (v : Val) (S' : List Sp) (ts : List Token)
    (h1 : tryParsePartial (gen g) uni n (k+1) i = .ok i' m' v)
    (h2 : specTokPartial g uni N name i = .ok j' S' ts) :
    tokens (gen g) v = pruneAtomic g ts ∧ i' = j' ∧ m'.stk = S' :=
  C02_tree_implicit g uni name k h hk n N i i' j' m' v S' ts h1 h2

/-! ### non-vacuity: atomic / non-atomic nesting around block comments -/

/-- `WHITESPACE = _{ " "+ }  COMMENT = _{ "/*" ~ (!"*/" ~ ANY)* ~ "*/" }  inner = { "b" ~ "c" }
tight = @{ "x" ~ inner }  loose = !{ "y" ~ inner }  main = { tight ~ loose ~ EOI }`:
the normal rule `inner` runs without skipping under the `@` rule and with skipping under the `!` rule. -/
def c07BG : PGrammar :=
  [ ⟨"WHITESPACE", .silent, .repOnce (.str [' '])⟩,
    ⟨"COMMENT", .silent,
      .seq (.str ['/', '*']) (.seq (.rep (.seq (.negPred (.str ['*', '/'])) (.ident "ANY"))) (.str ['*', '/']))⟩,
    ⟨"inner", .normal, .seq (.str ['b']) (.str ['c'])⟩,
    ⟨"tight", .atomic, .seq (.str ['x']) (.ident "inner")⟩,
    ⟨"loose", .nonAtomic, .seq (.str ['y']) (.ident "inner")⟩,
    ⟨"main", .normal, .seq (.ident "tight") (.seq (.ident "loose") (.ident "EOI"))⟩ ]

theorem c07BG_implicit : SkipRulesImplicitOnly c07BG "main" = true ∧ SkipRulesImplicitOnlyTok c07BG "main" = true := by
  decide

theorem c07BG_not_like : ¬ SkipRulesAtomicLike c07BG := by
  rw [← skipRulesAtomicLikeB_iff]
  decide

def c07BNG : NodeGrammar :=
  { rules := [eoiDef,
      { name := "WHITESPACE", atom := .inherited, emit := .expression, boxed := true,
        body := .rep .inh 1 none (.str [' ']) },
      { name := "COMMENT", atom := .inherited, emit := .expression, boxed := true,
        body := .seq .inh [.str ['/', '*'], .rep .inh 0 none (.seq .inh [.neg (.str ['*', '/']), .any]),
          .str ['*', '/']] },
      { name := "inner", atom := .inherited, emit := .both, boxed := true, body := .seq .inh [.str ['b'], .str ['c']] },
      { name := "tight", atom := .atomic, emit := .span, boxed := true, body := .seq .zero [.str ['x'], .ref 3 .zero] },
      { name := "loose", atom := .nonAtomic, emit := .both, boxed := true, body := .seq .one [.str ['y'], .ref 3 .one] },
      { name := "main", atom := .inherited, emit := .both, boxed := true,
        body := .seq .inh [.ref 4 .inh, .ref 5 .inh, .ref 0 .one] }],
    skipped := .atomicRepeat (.choice [.ref 1 .zero, .ref 2 .zero]) }

theorem c07B_gen : gen c07BG = c07BNG := by
  simp [gen, c07BG, c07BNG, genRule, genExpr, genSeqSpine, genSkipped, PGrammar.indexOf, PGrammar.indexOf.go,
    kindAtomicity, kindEmission, atomFlag, builtinNode]

/-- `xbc /**/y b/* */c`: no skipping inside `tight`, skipping (blank, comment) inside `loose`. -/
def c07BIn : Inp := c07In ['x', 'b', 'c', ' ', '/', '*', '*', '/', 'y', ' ', 'b', '/', '*', ' ', '*', '/', 'c']
/-- `x bc…`: a blank inside the atomic `tight`. -/
def c07BIn2 : Inp := c07In ['x', ' ', 'b', 'c', 'y', 'b', 'c']

set_option maxRecDepth 1000000 in
/-- Both sides match all 17 bytes of the first input and reject the second. -/
theorem c07B_runs :
    specPartial c07BG c07U 16 "main" c07BIn = .ok ⟨0, 17, [], []⟩ [] ∧
    (tryParsePartial (gen c07BG) c07U 16 6 c07BIn).outcome = .ok ⟨0, 17, [], []⟩ [] ∧
    specPartial c07BG c07U 16 "main" c07BIn2 = .fail ∧
    (tryParsePartial (gen c07BG) c07U 16 6 c07BIn2).outcome = .fail := by
  rw [c07B_gen]; decide

example : (∃ k, (tryParsePartial (gen c07BG) c07U k 6 c07BIn).outcome = .ok ⟨0, 17, [], []⟩ []) ↔
    (∃ n, specPartial c07BG c07U n "main" c07BIn = .ok ⟨0, 17, [], []⟩ []) :=
  C07_as_pest_implicit_entry c07BG c07U "main" 5 c07BG_implicit.1 (by decide) c07BIn _ (by nofun)

example : (∃ k, (tryParsePartial (gen c07BG) c07U k 6 c07BIn2).outcome = .fail) ↔
    (∃ n, specPartial c07BG c07U n "main" c07BIn2 = .fail) :=
  C07_as_pest_implicit_entry c07BG c07U "main" 5 c07BG_implicit.1 (by decide) c07BIn2 _ (by nofun)

set_option maxRecDepth 1000000 in
/-- pest's tree and the typed tree on the first input: `main[tight(0..3), loose(8..17)[inner(10..17)], EOI]`
(nothing under the `@` rule `tight`). -/
theorem c07B_tokens :
    (specTokPartial c07BG c07U 16 "main" c07BIn).toks?.map (pruneAtomic c07BG) =
      some [.mk 6 0 17 [.mk 4 0 3 [], .mk 5 8 17 [.mk 3 10 17 []], .mk 0 17 17 []]] ∧
    (tryParsePartial (gen c07BG) c07U 16 6 c07BIn).val?.map (tokens (gen c07BG)) =
      some [.mk 6 0 17 [.mk 4 0 3 [], .mk 5 8 17 [.mk 3 10 17 []], .mk 0 17 17 []]] := by
  rw [c07B_gen]; decide

example (i' j' : Inp) (m' : M) (v : Val) (S' : List Sp) (ts : List Token)
    (h1 : tryParsePartial (gen c07BG) c07U 16 6 c07BIn = .ok i' m' v)
    (h2 : specTokPartial c07BG c07U 16 "main" c07BIn = .ok j' S' ts) :
    tokens (gen c07BG) v = pruneAtomic c07BG ts ∧ i' = j' ∧ m'.stk = S' :=
  C07_rule_spans_as_pest_implicit c07BG c07U "main" 5 c07BG_implicit.2 (by decide) 16 16 _ i' j' m' v S' ts h1 h2

/-- The implicit skip of `c07BG` from the cursor after `xbc`: pest's answer is the typed `Skipped`'s. -/
example (n : Nat) (i : Inp) (S : List Sp) (trk : Tracker) (hne : specSkipN c07BG c07U n i S ≠ .oof) :
    ∃ n0 r, Rel r (specSkipN c07BG c07U n i S) ∧
      ∀ n', n0 ≤ n' → parse (gen c07BG) c07U n' false (gen c07BG).skipped i ⟨S, trk⟩ = r :=
  C07_skip_type_as_pest_implicit c07BG c07U _ true (.ident "main") c07BG_implicit.1 n i S trk hne

/-! ### the F-WS witnesses of C07 violate the weak hypothesis -/

/-- F-WS (a), `WHITESPACE = { "a" ~ "b" }  r = { "x" ~ WHITESPACE }`: the explicit reference from the
non-atomic rule `r` violates the weak hypothesis; the sides differ (`C07_counterexample_ws_explicit`). -/
theorem C07_counterexample_ws_explicit_implicit :
    SkipRulesImplicitOnly c07WsPG "r" = false ∧
    (tryParsePartial (gen c07WsPG) c07U 12 2 (c07In c07Xaabb)).endPos? = some 5 ∧
    specPartial c07WsPG c07U 12 "r" (c07In c07Xaabb) = .fail :=
  ⟨by decide, C07_counterexample_ws_explicit.1, C07_counterexample_ws_explicit.2.2⟩

/-- F-WS, `!` variant, `WHITESPACE = !{ " " ~ "-" }  r = { "x" ~ "y" }`: a skip rule declared `!` with a
sequence body violates the weak hypothesis although it is used implicitly only; the sides differ
(`C07_counterexample_ws_nonatomic`). -/
theorem C07_counterexample_ws_nonatomic_implicit :
    SkipRulesImplicitOnly c07WsNaPG "r" = false ∧
    (tryParsePartial (gen c07WsNaPG) c07U 12 2 (c07In c07XssddY)).endPos? = some 6 ∧
    specPartial c07WsNaPG c07U 12 "r" (c07In c07XssddY) = .fail :=
  ⟨by decide, C07_counterexample_ws_nonatomic.1, C07_counterexample_ws_nonatomic.2⟩

end PestTyped
