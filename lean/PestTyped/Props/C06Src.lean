/-
Props.C06Src — T-src obligations for C06: the definitions regenerated from the CURRENT text of
`/repo/main/src/parser_state.rs` (Generated/ParserStateSrc.lean, rewritten by checks/tsrc.py on
every run) equal the hand-written model used by every C06 theorem.  An edit to those source lines
changes `normalizeIndexSrc` / `constrainIdxsSrc`, hence the subject of these theorems.
-/
import PestTyped.Generated.ParserStateSrc
import PestTyped.Model.Run
namespace PestTyped
open PestTyped.Src

theorem C06_src_normalize (i : Int) (len : Nat) : normalizeIndexSrc i len = normalizeIndex i len := by
  unfold normalizeIndexSrc normalizeIndex
  split
  · rfl
  · split
    · rfl
    · simp only []

theorem C06_src_constrain (a : Int) (b : Option Int) (len : Nat) :
    constrainIdxsSrc a b len = constrainIdxs a b len := by
  unfold constrainIdxsSrc constrainIdxs
  rw [C06_src_normalize]
  cases normalizeIndex a len with
  | none => rfl
  | some lo =>
    cases b with
    | none => rfl
    | some b => simp only [C06_src_normalize]; cases normalizeIndex b len <;> rfl

example : normalizeIndexSrc (-2) 3 = some 1 ∧ normalizeIndexSrc 4 3 = none ∧ normalizeIndexSrc 3 3 = some 3 := by decide

end PestTyped
