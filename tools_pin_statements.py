#!/usr/bin/env python3
"""tools_pin_statements.py [--repin]
Pins the STATEMENTS of the proof obligations: props_pins.json records, per property, a hash of the source text of
every indexed theorem statement (from `theorem NAME` to the `:=` that starts its proof, whitespace-normalised) and
the number of `example`s per Props file (the non-vacuity witnesses).  `checks/common.lean_obligations` compares the
current sources with the committed pins on every run: a changed or vanished statement, or fewer examples than pinned,
is a failed obligation ("statement-changed" / "statement-missing" / "examples-removed"), so a theorem cannot be quietly
weakened to make a proof pass.  `--repin` rewrites the pins (a deliberate, reviewed act; the diff of props_pins.json
shows exactly which statements changed).  Without arguments: prints the differences and exits 1 if there are any."""
import hashlib, json, os, re, sys
V = os.path.dirname(os.path.abspath(__file__))
PROPS = os.path.join(V, "lean", "PestTyped", "Props")
PINS = os.path.join(V, "props_pins.json")


def strip_comments(src):
    src = re.sub(r"/-.*?-/", "", src, flags=re.S)
    return re.sub(r"--.*", "", src)


def statements(path):
    """{theorem name: normalised statement text}, example count"""
    src = strip_comments(open(path).read())
    out = {}
    heads = list(re.finditer(r"^(?:private\s+|protected\s+)?theorem\s+([A-Za-z0-9_'.]+)", src, flags=re.M))
    for k, h in enumerate(heads):
        end = heads[k + 1].start() if k + 1 < len(heads) else len(src)
        body = src[h.start():end]
        # the statement ends at the first `:=` outside brackets (binder defaults `(x := v)` are inside brackets)
        depth, i, cut = 0, 0, None
        while i < len(body):
            c = body[i]
            if c in "([{⟨":
                depth += 1
            elif c in ")]}⟩":
                depth -= 1
            elif depth == 0 and body.startswith(":=", i):
                cut = i
                break
            elif depth == 0 and re.match(r"\n\s*\|", body[i:]):   # equation-compiler style theorem
                cut = i
                break
            i += 1
        stmt = body[:cut] if cut is not None else body
        out[h.group(1)] = " ".join(stmt.split())
    examples = len(re.findall(r"^example\b", src, flags=re.M))
    return out, examples


def current():
    idx = json.load(open(os.path.join(V, "props_index.json")))
    pins = {}
    for pid, e in sorted(idx.items()):
        st, ex = {}, {}
        for mod in e["modules"]:
            f = os.path.join(PROPS, mod.split(".")[-1] + ".lean")
            s, n = statements(f)
            st.update(s)
            ex[mod.split(".")[-1]] = n
        th = {}
        for full in e["theorems"]:
            n = full.split(".", 1)[1]
            if n in st:
                th[n] = hashlib.sha256(st[n].encode()).hexdigest()[:16]
        pins[pid] = {"theorems": th, "examples": ex}
    return pins


def diff(pid=None):
    """list of (kind, pid, detail) differences between the committed pins and the sources"""
    if not os.path.exists(PINS):
        return [("no-pins", "*", "props_pins.json missing")]
    old, new, out = json.load(open(PINS)), current(), []
    for p in ([pid] if pid else sorted(old)):
        o, n = old.get(p, {"theorems": {}, "examples": {}}), new.get(p, {"theorems": {}, "examples": {}})
        for t, h in o["theorems"].items():
            if t not in n["theorems"]:
                out.append(("statement-missing", p, t))
            elif n["theorems"][t] != h:
                out.append(("statement-changed", p, t))
        for f, c in o["examples"].items():
            if n["examples"].get(f, 0) < c:
                out.append(("examples-removed", p, f"{f}: {n['examples'].get(f, 0)} < {c}"))
    return out


def unpinned(pid):
    old, new = (json.load(open(PINS)) if os.path.exists(PINS) else {}), current()
    return sorted(set(new.get(pid, {}).get("theorems", {})) - set(old.get(pid, {}).get("theorems", {})))


if __name__ == "__main__":
    if "--repin" in sys.argv:
        json.dump(current(), open(PINS, "w"), indent=1, sort_keys=True)
        print("pinned", {k: len(v["theorems"]) for k, v in current().items()})
    else:
        d = diff()
        for x in d:
            print(*x)
        sys.exit(1 if d else 0)
