#!/bin/sh
# Build the framework offline from files on disk: Lean library + model driver, harness tools, and
# the correspondence workspaces (so that the per-property checks only rebuild what /repo edits invalidate).
set -e
cd "$(dirname "$0")"
export CARGO_NET_OFFLINE=true
python3 -c "
import sys; sys.path.insert(0, '.')
from checks import tsrc
print(tsrc.regenerate_all())"
MODS=$(python3 -c "
import json
idx = json.load(open('props_index.json'))
print(' '.join(sorted({m for v in idx.values() for m in v['modules']})))")
(cd lean && lake build $MODS PestTyped.All model_driver)
python3 - <<'PY'
import os, sys
sys.path.insert(0, os.getcwd())
from checks import suites
seed = int(os.environ.get("VERIF_SEED", "20260927"))
suites.suite_run("quick", seed)
suites.suite_raw("quick", seed)
PY
echo setup done
