#!/usr/bin/env python3
"""tools_seeded.py import <worktree> <id>   — copy a confirmed mutation into seeded/<id>/
tools_seeded.py run <id> [<property> ...] — apply seeded/<id>/patch.diff to /repo, run the quick checks of the
given properties (default: the property the mutation targets), record the verdicts in seeded/<id>/meta.json, undo."""
import json, os, subprocess, sys, time
V = os.path.dirname(os.path.abspath(__file__))

def sh(cmd, **kw):
    return subprocess.run(cmd, capture_output=True, text=True, **kw)

def imp(w, mid):
    d = os.path.join(V, "seeded", mid)
    os.makedirs(d, exist_ok=True)
    for f in ("patch.diff", "demo.rs", "demo_log.txt", "meta.json"):
        src = os.path.join(w, "_mutation", f)
        if os.path.exists(src):
            subprocess.check_call(["cp", src, os.path.join(d, f if f != "meta.json" else "meta_agent.json")])
    if os.path.isdir(os.path.join(w, "_mutation", "demo")):
        subprocess.check_call(["cp", "-r", os.path.join(w, "_mutation", "demo"), d])
    a = json.load(open(os.path.join(d, "meta_agent.json"))) if os.path.exists(os.path.join(d, "meta_agent.json")) else {}
    meta = {"id": mid, "property": a.get("property", mid.split("-")[0]), "summary": a.get("summary"),
            "needs_to_manifest": a.get("needs_to_manifest"), "files_changed": a.get("files_changed"),
            "confirmed": "suite 252 passed / 0 failed with the change; demonstration fails with the change and passes without it (tools_confirm_mutation.sh in a scratch worktree)",
            "runs": []}
    json.dump(meta, open(os.path.join(d, "meta.json"), "w"), indent=1, ensure_ascii=False)
    os.remove(os.path.join(d, "meta_agent.json")) if os.path.exists(os.path.join(d, "meta_agent.json")) else None
    print("imported", d)

def run(mid, props):
    d = os.path.join(V, "seeded", mid)
    meta = json.load(open(os.path.join(d, "meta.json")))
    props = props or [meta["property"]]
    lock = os.path.join(V, "build", "repo.lock")
    while True:     # O_EXCL: two seeded runs cannot both take the lock
        try:
            fd = os.open(lock, os.O_CREAT | os.O_EXCL | os.O_WRONLY)
            os.write(fd, mid.encode()); os.close(fd)
            break
        except FileExistsError:
            time.sleep(5)
    st = sh(["git", "-C", "/repo", "status", "--porcelain", "--untracked-files=no"]).stdout.strip()
    if st:
        os.remove(lock)
        print("refusing: /repo is dirty:\n" + st); sys.exit(2)
    os.environ["VERIF_SEEDED"] = "1"
    # let check runs that passed the lock before it was taken finish on the clean tree
    rundir = os.path.join(V, "build", "running")
    for _ in range(720):
        alive = []
        for f in (os.listdir(rundir) if os.path.isdir(rundir) else []):
            if os.path.exists("/proc/" + f):
                alive.append(f)
            else:
                try:
                    os.remove(os.path.join(rundir, f))
                except OSError:
                    pass
        if not alive:
            break
        time.sleep(5)
    p = sh(["git", "-C", "/repo", "apply", os.path.join(d, "patch.diff")])
    if p.returncode:
        os.remove(lock)
        print("patch does not apply:", p.stderr); sys.exit(2)
    try:
        for pid in props:
            t0 = time.time()
            ev = os.path.join(V, "evidence", pid + ".json")
            saved = open(ev).read() if os.path.exists(ev) else None   # evidence of the unchanged tree is kept
            r = sh([os.path.join(V, "check.py"), pid, "--tier", "quick"], cwd=V)
            if saved is not None:
                open(ev, "w").write(saved)
            lines = [l for l in r.stdout.splitlines() if l.startswith("VIOLATION") or l.startswith(pid + ":")]
            caught = r.returncode == 1 and any(l.startswith("VIOLATION") for l in lines)
            replay = None
            for l in lines:
                if l.startswith("VIOLATION"):
                    rp = l.split("replay=")[1].split()[0]
                    try:
                        j = json.load(open(rp))
                        replay = {"kind": j.get("kind"), "first": j.get("first") or j.get("broken"), "no_failing_input": "no-failing-input-found" in l}
                    except Exception as e:
                        replay = {"error": str(e)}
            # earlier verdicts of the same check are kept (condensed) so that misses stay on record
            for x in meta["runs"]:
                if x["check"] == pid:
                    meta.setdefault("history", []).append({"check": pid, "caught": x.get("caught"), "exit": x.get("exit"),
                                                           "no_failing_input": bool(x.get("lines") and any("no-failing-input-found" in l for l in x["lines"])),
                                                           "when": x.get("when"), "verif_commit": x.get("verif_commit")})
            meta["runs"] = [x for x in meta["runs"] if x["check"] != pid]
            meta["runs"].append({"check": pid, "tier": "quick", "when": time.strftime("%Y-%m-%dT%H:%MZ", time.gmtime()),
                                 "verif_commit": sh(["git", "-C", V, "rev-parse", "--short", "HEAD"]).stdout.strip(), "caught": caught, "exit": r.returncode, "wall_s": round(time.time() - t0, 1),
                                 "lines": [l[:400] for l in lines], "replay_excerpt": json.loads(json.dumps(replay, ensure_ascii=False)[:3000]) if replay and len(json.dumps(replay)) < 3000 else (str(replay)[:1500] if replay else None)})
            print(mid, pid, "CAUGHT" if caught else "MISSED", f"{time.time()-t0:.0f}s", [l[:160] for l in lines])
    finally:
        sh(["git", "-C", "/repo", "checkout", "--", "."])
        if os.path.exists(lock):
            os.remove(lock)
        json.dump(meta, open(os.path.join(d, "meta.json"), "w"), indent=1, ensure_ascii=False)

if sys.argv[1] == "import":
    imp(sys.argv[2], sys.argv[3])
else:
    run(sys.argv[2], sys.argv[3:])
