/-!
Design prototype (round 0) — NOT part of the verification machinery.

Purpose: validate the *formulation* of the central refinement theorem (DESIGN.md §4, S5/S6; C01, C07)
on a miniature language before building the full model:

* `spec`  : reference semantics of pest expressions — binary `seq`/`choice`, **dynamic** atomicity
            (`na`), implicit skip between sequence elements and between repetition iterations;
* `typed` : the runtime model — n-ary `seq`/`choice` nodes, **static** skip flags
            `zero | one | inherited` evaluated against the rule's INHERITED parameter;
* `gen`   : the generator model — skip flag from the rule kind, right-spine flattening (`walk!`),
            rule references instantiated with the current flag.

Result: `fwd_all` / `typed_refines_spec` — whenever the Spec answers with fuel `n`, the typed run of
the generated node answers the same **with the same fuel** (typed recursion depth never exceeds the
Spec's), proved by induction on fuel with monotonicity lemmas.  Together with determinism this gives
"no two different definite answers"; the converse (typed defined ⇒ Spec defined) is the stretch goal
named `C01_backward` in DESIGN.md.

Build: `lean P2_forward_simulation.lean` (core only, a few seconds); axioms: propext, Quot.sound.
-/
namespace P2

/-! Prototype of S5/S6: dynamic atomicity (Spec, binary seq) vs static INHERITED threading (typed, n-ary seq). -/

inductive Kind where | normal | atomic | nonatomic
  deriving DecidableEq, Repr

inductive PExpr where
  | str (s : List Char)
  | ident (r : Nat)
  | seq (l r : PExpr)
  | choice (l r : PExpr)
  | rep (e : PExpr)
  deriving Repr

structure PRule where
  kind : Kind
  body : PExpr

abbrev PGrammar := Nat → Option PRule

structure St where
  rest : List Char
  off : Nat
  deriving DecidableEq, Repr

inductive R where
  | oof | fail | ok (st : St)
  deriving DecidableEq, Repr

def matchStr (s : List Char) (st : St) : R :=
  if s.isPrefixOf st.rest then .ok { rest := st.rest.drop s.length, off := st.off + s.length } else .fail

/-- primitive skip: drop leading spaces (stands for the Skipped type). -/
def skipWs (st : St) : St :=
  let n := (st.rest.takeWhile (· == ' ')).length
  { rest := st.rest.drop n, off := st.off + n }

def doSkip (nonAtomic : Bool) (st : St) : St := if nonAtomic then skipWs st else st

/-- generic repetition loop: `f i st`, iteration budget `k`. -/
def repLoop (f : Nat → St → R) : Nat → Nat → St → R
  | 0, _, _ => .oof
  | k+1, i, st =>
    match f i st with
    | .oof => .oof
    | .fail => .ok st
    | .ok st' => repLoop f k (i+1) st'

/-- Spec: dynamic atomicity `na` (true = NonAtomic). -/
def spec (g : PGrammar) : Nat → Bool → PExpr → St → R
  | 0, _, _, _ => .oof
  | _+1, _, .str s, st => matchStr s st
  | n+1, na, .ident r, st =>
    match g r with
    | none => .fail
    | some rule =>
      let na' := match rule.kind with | .normal => na | .atomic => false | .nonatomic => true
      spec g n na' rule.body st
  | n+1, na, .seq l r, st =>
    match spec g n na l st with
    | .oof => .oof | .fail => .fail
    | .ok st1 => spec g n na r (doSkip na st1)
  | n+1, na, .choice l r, st =>
    match spec g n na l st with
    | .oof => .oof | .ok st1 => .ok st1
    | .fail => spec g n na r st
  | n+1, na, .rep e, st =>
    repLoop (fun i st => spec g n na e (if i = 0 then st else doSkip na st)) n 0 st

/-! Typed side -/
inductive Inh where | zero | one | inherited
  deriving DecidableEq, Repr

def Inh.eval (i : Inh) (inh : Bool) : Bool :=
  match i with | .zero => false | .one => true | .inherited => inh

inductive Node where
  | str (s : List Char)
  | ref (r : Nat) (i : Inh)
  | seq (sk : Inh) (items : List Node)
  | choice (alts : List Node)
  | rep (sk : Inh) (e : Node)
  deriving Repr

structure NRule where
  body : Node

abbrev NGrammar := Nat → Option NRule

def seqLoop (f : Node → St → R) (sk : Bool) : List Node → Bool → St → R
  | [], _, st => .ok st
  | x :: xs, first, st =>
    match f x (if first then st else doSkip sk st) with
    | .oof => .oof | .fail => .fail
    | .ok st' => seqLoop f sk xs false st'

def choiceLoop (f : Node → St → R) : List Node → St → R
  | [], _ => .fail
  | x :: xs, st =>
    match f x st with
    | .oof => .oof | .ok st' => .ok st'
    | .fail => choiceLoop f xs st

def typed (G : NGrammar) : Nat → Bool → Node → St → R
  | 0, _, _, _ => .oof
  | _+1, _, .str s, st => matchStr s st
  | n+1, inh, .ref r i, st =>
    match G r with
    | none => .fail
    | some rule => typed G n (i.eval inh) rule.body st
  | n+1, inh, .seq sk items, st => seqLoop (typed G n inh) (sk.eval inh) items true st
  | n+1, inh, .choice alts, st => choiceLoop (typed G n inh) alts st
  | n+1, inh, .rep sk e, st =>
    repLoop (fun i st => typed G n inh e (if i = 0 then st else doSkip (sk.eval inh) st)) n 0 st

/-! Generator model -/
def skipOf : Kind → Inh
  | .normal => .inherited | .atomic => .zero | .nonatomic => .one

mutual
def genE (k : Kind) : PExpr → Node
  | .str s => .str s
  | .ident r => .ref r (skipOf k)
  | .seq l r => .seq (skipOf k) (genE k l :: seqItems k r)
  | .choice l r => .choice (genE k l :: choiceItems k r)
  | .rep e => .rep (skipOf k) (genE k e)
def seqItems (k : Kind) : PExpr → List Node
  | .seq l r => genE k l :: seqItems k r
  | e => [genE k e]
def choiceItems (k : Kind) : PExpr → List Node
  | .choice l r => genE k l :: choiceItems k r
  | e => [genE k e]
end

def gen (g : PGrammar) : NGrammar := fun r => (g r).map fun rule => { body := genE rule.kind rule.body }

/-- the static flag a rule body of kind `k` sees when the rule was entered with `inh`. -/
def bodyInh (k : Kind) (inh : Bool) : Bool := (skipOf k).eval inh

end P2

namespace P2

/-! ### monotonicity -/

theorem repLoop_mono (f f' : Nat → St → R)
    (H : ∀ i st, f i st ≠ .oof → f' i st = f i st) :
    ∀ k i st, repLoop f k i st ≠ .oof → ∀ k', k ≤ k' → repLoop f' k' i st = repLoop f k i st := by
  intro k
  induction k with
  | zero => intro i st h; simp [repLoop] at h
  | succ k ih =>
    intro i st h k' hk
    cases k' with
    | zero => omega
    | succ k' =>
      simp only [repLoop] at h ⊢
      cases hf : f i st with
      | oof => simp [hf] at h
      | fail => rw [H i st (by simp [hf]), hf]
      | ok st' =>
        rw [H i st (by simp [hf]), hf]
        simp only [hf] at h
        exact ih _ _ h _ (by omega)

theorem seqLoop_mono (f f' : Node → St → R) (sk : Bool)
    (H : ∀ x st, f x st ≠ .oof → f' x st = f x st) :
    ∀ xs first st, seqLoop f sk xs first st ≠ .oof → seqLoop f' sk xs first st = seqLoop f sk xs first st := by
  intro xs
  induction xs with
  | nil => intros; rfl
  | cons x xs ih =>
    intro first st h
    simp only [seqLoop] at h ⊢
    cases hf : f x (if first then st else doSkip sk st) with
    | oof => simp [hf] at h
    | fail => rw [H _ _ (by simp [hf]), hf]
    | ok st' =>
      rw [H _ _ (by simp [hf]), hf]
      simp only [hf] at h
      exact ih _ _ h

theorem choiceLoop_mono (f f' : Node → St → R)
    (H : ∀ x st, f x st ≠ .oof → f' x st = f x st) :
    ∀ xs st, choiceLoop f xs st ≠ .oof → choiceLoop f' xs st = choiceLoop f xs st := by
  intro xs
  induction xs with
  | nil => intros; rfl
  | cons x xs ih =>
    intro st h
    simp only [choiceLoop] at h ⊢
    cases hf : f x st with
    | oof => simp [hf] at h
    | ok st' => rw [H _ _ (by simp [hf]), hf]
    | fail =>
      rw [H _ _ (by simp [hf]), hf]
      simp only [hf] at h
      exact ih _ h

theorem typed_mono (G : NGrammar) : ∀ n inh node st, typed G n inh node st ≠ .oof →
    ∀ m, n ≤ m → typed G m inh node st = typed G n inh node st := by
  intro n
  induction n with
  | zero => intro inh node st h; simp [typed] at h
  | succ n ih =>
    intro inh node st h m hm
    cases m with
    | zero => omega
    | succ m =>
      have hm' : n ≤ m := by omega
      cases node with
      | str s => simp [typed]
      | ref r i =>
        simp only [typed] at h ⊢
        cases hG : G r with
        | none => rfl
        | some rule => simp only [hG] at h ⊢; exact ih _ _ _ h _ hm'
      | seq sk items =>
        simp only [typed] at h ⊢
        exact seqLoop_mono _ _ _ (fun x st hx => ih _ _ _ hx _ hm') _ _ _ h
      | choice alts =>
        simp only [typed] at h ⊢
        exact choiceLoop_mono _ _ (fun x st hx => ih _ _ _ hx _ hm') _ _ h
      | rep sk e =>
        simp only [typed] at h ⊢
        exact repLoop_mono _ _ (fun i st hx => ih _ _ _ hx _ hm') _ _ _ h _ hm'

end P2

namespace P2

/-- Forward simulation at fuel `n`: whenever the Spec answers, the typed run of the generated node answers the same. -/
def Fwd (g : PGrammar) (n : Nat) : Prop :=
  ∀ m, m ≤ n → ∀ k h e st, spec g m (bodyInh k h) e st ≠ .oof →
    typed (gen g) m h (genE k e) st = spec g m (bodyInh k h) e st

theorem seqItems_fwd (g : PGrammar) (n : Nat) (IH : Fwd g n) (k : Kind) (h : Bool) :
    ∀ m, m ≤ n → ∀ e first st,
      spec g m (bodyInh k h) e (if first then st else doSkip (bodyInh k h) st) ≠ .oof →
      seqLoop (typed (gen g) n h) (bodyInh k h) (seqItems k e) first st
        = spec g m (bodyInh k h) e (if first then st else doSkip (bodyInh k h) st) := by
  intro m
  induction m with
  | zero => intro _ e first st hne; simp [spec] at hne
  | succ m ihm =>
    intro hm e first st hne
    have lift : ∀ e' st', spec g m (bodyInh k h) e' st' ≠ .oof →
        typed (gen g) n h (genE k e') st' = spec g m (bodyInh k h) e' st' := by
      intro e' st' hs
      have h1 := IH m (by omega) k h e' st' hs
      rw [← h1]
      exact typed_mono _ _ _ _ _ (by rw [h1]; exact hs) _ (by omega)
    -- generic single-item case
    have single : ∀ e',
        spec g (m+1) (bodyInh k h) e' (if first then st else doSkip (bodyInh k h) st) ≠ .oof →
        seqLoop (typed (gen g) n h) (bodyInh k h) [genE k e'] first st
          = spec g (m+1) (bodyInh k h) e' (if first then st else doSkip (bodyInh k h) st) := by
      intro e' hs
      have h1 := IH (m+1) hm k h e' _ hs
      have h2 := typed_mono (gen g) (m+1) h (genE k e') _ (by rw [h1]; exact hs) n hm
      simp only [seqLoop]
      rw [h2, h1]
      cases spec g (m+1) (bodyInh k h) e' (if first then st else doSkip (bodyInh k h) st) <;> rfl
    cases e with
    | seq l r =>
      simp only [seqItems, seqLoop]
      simp only [spec] at hne ⊢
      cases hl : spec g m (bodyInh k h) l (if first then st else doSkip (bodyInh k h) st) with
      | oof => simp [hl] at hne
      | fail => rw [lift _ _ (by simp [hl]), hl]
      | ok st1 =>
        rw [lift _ _ (by simp [hl]), hl]
        simp only [hl] at hne
        have := ihm (by omega) r false st1 (by simpa using hne)
        simpa using this
    | str s => simp only [seqItems, choiceItems]; exact single _ hne
    | ident r => simp only [seqItems, choiceItems]; exact single _ hne
    | choice l r => simp only [seqItems, choiceItems]; exact single _ hne
    | rep e => simp only [seqItems, choiceItems]; exact single _ hne

theorem choiceItems_fwd (g : PGrammar) (n : Nat) (IH : Fwd g n) (k : Kind) (h : Bool) :
    ∀ m, m ≤ n → ∀ e st,
      spec g m (bodyInh k h) e st ≠ .oof →
      choiceLoop (typed (gen g) n h) (choiceItems k e) st = spec g m (bodyInh k h) e st := by
  intro m
  induction m with
  | zero => intro _ e st hne; simp [spec] at hne
  | succ m ihm =>
    intro hm e st hne
    have lift : ∀ e' st', spec g m (bodyInh k h) e' st' ≠ .oof →
        typed (gen g) n h (genE k e') st' = spec g m (bodyInh k h) e' st' := by
      intro e' st' hs
      have h1 := IH m (by omega) k h e' st' hs
      rw [← h1]
      exact typed_mono _ _ _ _ _ (by rw [h1]; exact hs) _ (by omega)
    have single : ∀ e',
        spec g (m+1) (bodyInh k h) e' st ≠ .oof →
        choiceLoop (typed (gen g) n h) [genE k e'] st = spec g (m+1) (bodyInh k h) e' st := by
      intro e' hs
      have h1 := IH (m+1) hm k h e' _ hs
      have h2 := typed_mono (gen g) (m+1) h (genE k e') _ (by rw [h1]; exact hs) n hm
      simp only [choiceLoop]
      rw [h2, h1]
      cases spec g (m+1) (bodyInh k h) e' st <;> rfl
    cases e with
    | choice l r =>
      simp only [choiceItems, choiceLoop]
      simp only [spec] at hne ⊢
      cases hl : spec g m (bodyInh k h) l st with
      | oof => simp [hl] at hne
      | ok st1 => rw [lift _ _ (by simp [hl]), hl]
      | fail =>
        rw [lift _ _ (by simp [hl]), hl]
        simp only [hl] at hne
        exact ihm (by omega) r st hne
    | str s => simp only [seqItems, choiceItems]; exact single _ hne
    | ident r => simp only [seqItems, choiceItems]; exact single _ hne
    | seq l r => simp only [seqItems, choiceItems]; exact single _ hne
    | rep e => simp only [seqItems, choiceItems]; exact single _ hne

theorem bodyInh_ref (k k' : Kind) (h : Bool) :
    bodyInh k' ((skipOf k).eval h) =
      (match k' with | .normal => bodyInh k h | .atomic => false | .nonatomic => true) := by
  cases k' <;> simp [bodyInh, skipOf, Inh.eval]

theorem fwd_all (g : PGrammar) : ∀ n, Fwd g n := by
  intro n
  induction n with
  | zero =>
    intro m hm k h e st hne
    have : m = 0 := by omega
    subst this; simp [spec] at hne
  | succ n ih =>
    intro m hm k h e st hne
    by_cases hlt : m ≤ n
    · exact ih m hlt k h e st hne
    · have hm' : m = n + 1 := by omega
      subst hm'
      cases e with
      | str s => simp [genE, typed, spec]
      | ident r =>
        simp only [genE, typed, spec, gen] at hne ⊢
        cases hg : g r with
        | none => simp
        | some rule =>
          simp only [hg, Option.map] at hne ⊢
          have key := bodyInh_ref k rule.kind h
          rw [← key] at hne ⊢
          exact ih n (Nat.le_refl _) rule.kind _ rule.body st hne
      | seq l r =>
        simp only [genE, typed]
        have hsk : (skipOf k).eval h = bodyInh k h := rfl
        rw [hsk]
        have := seqItems_fwd g n ih k h (n+1)
        -- unfold one spec step by hand (fuel n+1 > n, so go through the items directly)
        simp only [seqLoop]
        simp only [spec] at hne ⊢
        cases hl : spec g n (bodyInh k h) l st with
        | oof => simp [hl] at hne
        | fail => simp only [if_true]; rw [ih n (Nat.le_refl _) k h l st (by simp [hl]), hl]
        | ok st1 =>
          simp only [if_true]
          rw [ih n (Nat.le_refl _) k h l st (by simp [hl]), hl]
          simp only [hl] at hne
          have := seqItems_fwd g n ih k h n (Nat.le_refl _) r false st1 (by simpa using hne)
          simpa using this
      | choice l r =>
        simp only [genE, typed, choiceLoop]
        simp only [spec] at hne ⊢
        cases hl : spec g n (bodyInh k h) l st with
        | oof => simp [hl] at hne
        | ok st1 => rw [ih n (Nat.le_refl _) k h l st (by simp [hl]), hl]
        | fail =>
          rw [ih n (Nat.le_refl _) k h l st (by simp [hl]), hl]
          simp only [hl] at hne
          exact choiceItems_fwd g n ih k h n (Nat.le_refl _) r st hne
      | rep e =>
        simp only [genE, typed, spec] at hne ⊢
        have hsk : (skipOf k).eval h = bodyInh k h := rfl
        rw [hsk]
        exact repLoop_mono _ _ (fun i st' hx => ih n (Nat.le_refl _) k h e _ hx) _ _ _ hne _ (Nat.le_refl _)

/-- C01-style corollary: entry with NonAtomic (INHERITED = 1). -/
theorem typed_refines_spec (g : PGrammar) (r : Nat) (st : St) (n : Nat)
    (h : spec g n true (.ident r) st ≠ .oof) :
    typed (gen g) n true (.ref r .inherited) st = spec g n true (.ident r) st :=
  by
    have := fwd_all g n n (Nat.le_refl _) .normal true (.ident r) st (by simpa [bodyInh, skipOf, Inh.eval] using h)
    simpa [bodyInh, skipOf, Inh.eval, genE] using this

#print axioms typed_refines_spec
end P2
