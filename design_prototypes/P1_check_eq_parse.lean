/-!
Design prototype (round 0) — NOT part of the verification machinery.

Purpose: validate the modelling style chosen in DESIGN.md §2.1/§4 before building it:
* a nested `Node` type, two *separately written* fuel-indexed interpreters `parse` and
  `check` (mirroring the two Rust copies of every combinator), with the list / loop
  structure factored into higher-order `seqLoop` / `choiceLoop` / `repLoop`,
* structural recursion on the fuel argument only (accepted by Lean 4.33 with the
  recursive call passed partially applied),
* spine lemma S3: `check = parse` with the value forgotten, by induction on fuel.

Build: `lean P1_check_eq_parse.lean` (core only, a few seconds).
-/
namespace Proto

inductive Node where
  | str (s : List Char)
  | seq (skip : Bool) (items : List Node)
  | choice (alts : List Node)
  | opt (n : Node)
  | rep (min : Nat) (n : Node)
  | neg (n : Node)
  | push (n : Node)
  | pop
  | ref (r : Nat)
  deriving Repr, Inhabited

structure St where
  rest : List Char
  off : Nat
  stack : List (List Char)
  deriving Repr, DecidableEq

inductive Tree where
  | leaf
  | seq (xs : List Tree)
  | alt (i : Nat) (t : Tree)
  | opt (t : Option Tree)
  | rep (xs : List Tree)
  | rule (r : Nat) (s e : Nat) (t : Tree)
  deriving Repr

inductive R (α : Type) where
  | oof
  | fail
  | ok (st : St) (a : α)
  deriving Repr

def R.forget {α} : R α → R Unit
  | .oof => .oof
  | .fail => .fail
  | .ok st _ => .ok st ()

def matchStr (s : List Char) (st : St) : Option St :=
  if s.isPrefixOf st.rest then
    some { st with rest := st.rest.drop s.length, off := st.off + s.length }
  else none

def seqLoop {α} (f : Node → St → R α) : List Node → St → List α → R (List α)
  | [], st, acc => .ok st acc.reverse
  | n :: ns, st, acc =>
    match f n st with
    | .oof => .oof
    | .fail => .fail
    | .ok st' a => seqLoop f ns st' (a :: acc)

def choiceLoop {α} (f : Node → St → R α) : List Node → Nat → St → R (Nat × α)
  | [], _, _ => .fail
  | n :: ns, i, st =>
    match f n st with
    | .oof => .oof
    | .ok st' a => .ok st' (i, a)
    | .fail => choiceLoop f ns (i+1) st

def repLoop {α} (f : St → R α) (min : Nat) : Nat → Nat → St → List α → R (List α)
  | 0, _, _, _ => .oof
  | fuel+1, i, st, acc =>
    match f st with
    | .oof => .oof
    | .fail => if i < min then .fail else .ok st acc.reverse
    | .ok st' a => repLoop f min fuel (i+1) st' (a :: acc)

abbrev Grammar := Nat → Option Node

def parse (g : Grammar) : Nat → Node → St → R Tree
  | 0, _, _ => .oof
  | _+1, .str s, st => match matchStr s st with | some st' => .ok st' .leaf | none => .fail
  | fuel+1, .seq _ items, st =>
    match seqLoop (parse g fuel) items st [] with
    | .oof => .oof | .fail => .fail | .ok st' xs => .ok st' (.seq xs)
  | fuel+1, .choice alts, st =>
    match choiceLoop (parse g fuel) alts 0 st with
    | .oof => .oof | .fail => .fail | .ok st' (i, t) => .ok st' (.alt i t)
  | fuel+1, .opt n, st =>
    match parse g fuel n st with
    | .oof => .oof | .fail => .ok st (.opt none) | .ok st' t => .ok st' (.opt (some t))
  | fuel+1, .rep min n, st =>
    match repLoop (parse g fuel n) min fuel 0 st [] with
    | .oof => .oof | .fail => .fail | .ok st' xs => .ok st' (.rep xs)
  | fuel+1, .neg n, st =>
    match parse g fuel n st with
    | .oof => .oof | .fail => .ok st .leaf | .ok _ _ => .fail
  | fuel+1, .push n, st =>
    match parse g fuel n st with
    | .oof => .oof | .fail => .fail
    | .ok st' t => .ok { st' with stack := (st.rest.take (st'.off - st.off)) :: st'.stack } t
  | _+1, .pop, st =>
    match st.stack with
    | [] => .fail
    | s :: rest =>
      match matchStr s { st with stack := rest } with
      | some st' => .ok st' .leaf | none => .fail
  | fuel+1, .ref r, st =>
    match g r with
    | none => .fail
    | some n => match parse g fuel n st with
      | .oof => .oof | .fail => .fail | .ok st' t => .ok st' (.rule r st.off st'.off t)

def check (g : Grammar) : Nat → Node → St → R Unit
  | 0, _, _ => .oof
  | _+1, .str s, st => match matchStr s st with | some st' => .ok st' () | none => .fail
  | fuel+1, .seq _ items, st =>
    match seqLoop (check g fuel) items st [] with
    | .oof => .oof | .fail => .fail | .ok st' _ => .ok st' ()
  | fuel+1, .choice alts, st =>
    match choiceLoop (check g fuel) alts 0 st with
    | .oof => .oof | .fail => .fail | .ok st' _ => .ok st' ()
  | fuel+1, .opt n, st =>
    match check g fuel n st with
    | .oof => .oof | .fail => .ok st () | .ok st' _ => .ok st' ()
  | fuel+1, .rep min n, st =>
    match repLoop (check g fuel n) min fuel 0 st [] with
    | .oof => .oof | .fail => .fail | .ok st' _ => .ok st' ()
  | fuel+1, .neg n, st =>
    match check g fuel n st with
    | .oof => .oof | .fail => .ok st () | .ok _ _ => .fail
  | fuel+1, .push n, st =>
    match check g fuel n st with
    | .oof => .oof | .fail => .fail
    | .ok st' _ => .ok { st' with stack := (st.rest.take (st'.off - st.off)) :: st'.stack } ()
  | _+1, .pop, st =>
    match st.stack with
    | [] => .fail
    | s :: rest =>
      match matchStr s { st with stack := rest } with
      | some st' => .ok st' () | none => .fail
  | fuel+1, .ref r, st =>
    match g r with
    | none => .fail
    | some n => match check g fuel n st with
      | .oof => .oof | .fail => .fail | .ok st' _ => .ok st' ()

theorem seqLoop_forget {α β} (f : Node → St → R α) (h : Node → St → R β)
    (H : ∀ n st, (f n st).forget = (h n st).forget) :
    ∀ items st acc acc', (seqLoop f items st acc).forget = (seqLoop h items st acc').forget := by
  intro items
  induction items with
  | nil => intro st acc acc'; simp [seqLoop, R.forget]
  | cons n ns ih =>
    intro st acc acc'
    have := H n st
    simp only [seqLoop]
    cases hf : f n st <;> cases hh : h n st <;> simp_all [R.forget]
    exact ih _ _ _

theorem choiceLoop_forget {α β} (f : Node → St → R α) (h : Node → St → R β)
    (H : ∀ n st, (f n st).forget = (h n st).forget) :
    ∀ alts i st, (choiceLoop f alts i st).forget = (choiceLoop h alts i st).forget := by
  intro alts
  induction alts with
  | nil => intro i st; simp [choiceLoop, R.forget]
  | cons n ns ih =>
    intro i st
    have := H n st
    simp only [choiceLoop]
    cases hf : f n st <;> cases hh : h n st <;> simp_all [R.forget]

theorem repLoop_forget {α β} (f : St → R α) (h : St → R β) (min : Nat)
    (H : ∀ st, (f st).forget = (h st).forget) :
    ∀ fuel i st acc acc',
      (repLoop f min fuel i st acc).forget = (repLoop h min fuel i st acc').forget := by
  intro fuel
  induction fuel with
  | zero => intros; simp [repLoop, R.forget]
  | succ k ih =>
    intro i st acc acc'
    have := H st
    simp only [repLoop]
    cases hf : f st <;> cases hh : h st <;> simp_all [R.forget]
    · by_cases hi : i < min <;> simp [hi]
    · exact ih _ _ _ _

/-- Spine lemma S3 in miniature: the check-only interpreter is the parsing interpreter with the
value forgotten — same verdict, same cursor, same stack, for every grammar, node, state, fuel. -/
theorem check_eq_parse (g : Grammar) :
    ∀ fuel n st, check g fuel n st = (parse g fuel n st).forget := by
  intro fuel
  induction fuel with
  | zero => intros; simp [check, parse, R.forget]
  | succ k ih =>
    intro n st
    have ihf : ∀ n st, (check g k n st).forget = (parse g k n st).forget := by
      intro n st; rw [ih]; cases parse g k n st <;> simp [R.forget]
    cases n with
    | str s => simp only [check, parse]; cases matchStr s st <;> simp [R.forget]
    | seq sk items =>
      simp only [check, parse]
      have := seqLoop_forget (check g k) (parse g k) ihf items st [] []
      cases h1 : seqLoop (check g k) items st [] <;>
        cases h2 : seqLoop (parse g k) items st [] <;> simp_all [R.forget]
    | choice alts =>
      simp only [check, parse]
      have := choiceLoop_forget (check g k) (parse g k) ihf alts 0 st
      cases h1 : choiceLoop (check g k) alts 0 st <;>
        cases h2 : choiceLoop (parse g k) alts 0 st <;> simp_all [R.forget]
    | opt n =>
      simp only [check, parse]; rw [ih]; cases parse g k n st <;> simp [R.forget]
    | rep min n =>
      simp only [check, parse]
      have := repLoop_forget (check g k n) (parse g k n) min (fun st => ihf n st) k 0 st [] []
      cases h1 : repLoop (check g k n) min k 0 st [] <;>
        cases h2 : repLoop (parse g k n) min k 0 st [] <;> simp_all [R.forget]
    | neg n => simp only [check, parse]; rw [ih]; cases parse g k n st <;> simp [R.forget]
    | push n => simp only [check, parse]; rw [ih]; cases parse g k n st <;> simp [R.forget]
    | pop =>
      simp only [check, parse]
      cases st.stack <;> simp [R.forget]
      split <;> simp
    | ref r =>
      simp only [check, parse]
      cases g r with
      | none => simp [R.forget]
      | some n => simp only []; rw [ih]; cases parse g k n st <;> simp [R.forget]

#print axioms check_eq_parse

end Proto
