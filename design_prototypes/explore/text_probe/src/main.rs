// Exploration only (see ../README.md): Position / Span / formatter of pest-typed against pest 2.7.14
// and against a naive oracle, exhaustively over short strings.
use std::collections::BTreeMap;
use std::panic::catch_unwind;

fn strings(alpha: &[&str], maxlen: usize) -> Vec<String> {
    let mut res = vec![String::new()];
    let mut frontier = vec![String::new()];
    for _ in 0..maxlen {
        let mut next = vec![];
        for s in &frontier { for c in alpha { let mut t = s.clone(); t.push_str(c); next.push(t); } }
        res.extend(next.iter().cloned());
        frontier = next;
    }
    res
}

/// naive line table: (start, end) byte ranges, a line ends after '\n' or at end of input
fn lines(s: &str) -> Vec<(usize, usize)> {
    let mut v = vec![]; let mut st = 0;
    for (i, c) in s.char_indices() { if c == '\n' { v.push((st, i + 1)); st = i + 1; } }
    if st < s.len() || v.is_empty() { v.push((st, s.len())); }
    v
}
/// index of the line holding byte offset `o` (the last line at end of input)
fn line_of(ls: &[(usize, usize)], o: usize) -> usize {
    for (i, (a, b)) in ls.iter().enumerate() { if *a <= o && o < *b { return i; } }
    ls.len() - 1
}
fn shown_numbers(out: &str) -> Vec<usize> {
    out.lines().filter_map(|l| { let t = l.trim_start(); let n: String = t.chars().take_while(|c| c.is_ascii_digit()).collect();
        if !n.is_empty() && t[n.len()..].starts_with(" |") { n.parse().ok() } else { None } }).collect()
}

fn main() {
    std::panic::set_hook(Box::new(|_| {}));
    let maxlen: usize = std::env::args().nth(1).map(|s| s.parse().unwrap()).unwrap_or(5);
    let alpha = ["\n", "\r", "a", "\u{e9}", "\u{4e2d}", "\u{1F600}", "\t"];
    let mut stats: BTreeMap<&'static str, (usize, Option<String>)> = BTreeMap::new();
    let mut bump = |k: &'static str, ex: String| { let e = stats.entry(k).or_insert((0, None)); e.0 += 1; if e.1.is_none() { e.1 = Some(ex); } };
    let mut n_pos = 0usize; let mut n_span = 0usize;
    for s in strings(&alpha, maxlen) {
        let bounds: Vec<usize> = (0..=s.len()).filter(|i| s.is_char_boundary(*i)).collect();
        let ls = lines(&s);
        for &a in &bounds {
            n_pos += 1;
            let tp = pest_typed::Position::new(&s, a).unwrap();
            let pp = pest::Position::new(&s, a).unwrap();
            if tp.line_col() != pp.line_col() { bump("C12 line_col differs from pest", format!("{:?}@{}", s, a)); }
            if tp.line_of() != pp.line_of() { bump("C12 line_of differs from pest", format!("{:?}@{}", s, a)); }
            let s2 = s.clone();
            match catch_unwind(move || pest_typed::Position::new(&s2, a).unwrap().to_string()) {
                Err(_) => bump("C14 Position display panics", format!("{:?}@{}", s, a)),
                Ok(out) => {
                    let nums = shown_numbers(&out);
                    let want = line_of(&ls, a) + 1;
                    if nums.is_empty() && a != s.len() { bump("C14 Position display shows no line, NOT at end of input", format!("{:?}@{}", s, a)); }
                    if nums.is_empty() { bump("C14 Position display shows no line", format!("{:?}@{}", s, a)); }
                    else if nums != vec![want] { bump("C14 Position display shows wrong line", format!("{:?}@{} shown={:?} want={}", s, a, nums, want)); }
                }
            }
            for &b in bounds.iter().filter(|b| **b >= a) {
                n_span += 1;
                let ts = pest_typed::Span::new(&s, a, b).unwrap();
                let ps = pest::Span::new(&s, a, b).unwrap();
                let tl: Vec<&str> = ts.lines().collect(); let pl: Vec<&str> = ps.lines().collect();
                if tl != pl { bump("C13 lines differs from pest", format!("{:?} {}..{}", s, a, b)); }
                let tls: Vec<(usize, usize)> = ts.lines_span().map(|x| (x.start(), x.end())).collect();
                let pls: Vec<(usize, usize)> = ps.lines_span().map(|x| (x.start(), x.end())).collect();
                if tls != pls { bump("C13 lines_span differs from pest", format!("{:?} {}..{}", s, a, b)); }
                if ts.as_str() != ps.as_str() { bump("C13 as_str differs", format!("{:?} {}..{}", s, a, b)); }
                let s2 = s.clone();
                match catch_unwind(move || pest_typed::Span::new(&s2, a, b).unwrap().to_string()) {
                    Err(_) => bump("C14 Span display panics", format!("{:?} {}..{}", s, a, b)),
                    Ok(out) => {
                        let nums = shown_numbers(&out);
                        // first / last character of the span; empty span: the line holding the offset
                        let first = line_of(&ls, a) + 1;
                        let last = if b > a { let lastc = s[a..b].char_indices().last().unwrap().0 + a; line_of(&ls, lastc) + 1 } else { first };
                        if nums.is_empty() { bump("C14 Span display shows no line", format!("{:?} {}..{}", s, a, b)); }
                        else {
                            let a_at_line_start = ls.iter().any(|(x, _)| *x == a) && a > 0;
                            if nums[0] != first && !a_at_line_start { bump("C14 Span first wrong, start NOT at a line start", format!("{:?} {}..{} shown={:?}", s, a, b, nums)); }
                            if *nums.last().unwrap() != last && b > a && !a_at_line_start { bump("C14 Span last wrong, non-empty, start not at line start", format!("{:?} {}..{} shown={:?} want last={}", s, a, b, nums, last)); }
                            if *nums.last().unwrap() != last && b > a && a_at_line_start { bump("C14 Span last wrong, non-empty, start at line start", format!("{:?} {}..{} shown={:?} want last={}", s, a, b, nums, last)); }
                            if nums[0] != first { bump("C14 Span first shown line wrong", format!("{:?} {}..{} shown={:?} want first={} last={}", s, a, b, nums, first, last)); }
                            if *nums.last().unwrap() != last { bump("C14 Span last shown line wrong", format!("{:?} {}..{} shown={:?} want first={} last={}", s, a, b, nums, first, last)); }
                        }
                    }
                }
            }
        }
        // non-boundary / invalid ranges
        for a in 0..=s.len() + 1 { for b in 0..=s.len() + 1 {
            let t = pest_typed::Span::new(&s, a, b).map(|x| (x.start(), x.end()));
            let p = pest::Span::new(&s, a, b).map(|x| (x.start(), x.end()));
            if t != p { bump("C13 Span::new differs from pest", format!("{:?} {}..{}", s, a, b)); }
        } }
    }
    println!("positions={} spans={}", n_pos, n_span);
    for (k, (n, ex)) in stats { println!("{:6}  {}   e.g. {}", n, k, ex.unwrap()); }
}
