#!/usr/bin/env python3
"""Seeded random pest grammars. Output: JSON lines {"id":i,"text":...,"kinds":{rule:kind}}."""
import json, os, random, sys
RECURSIVE = os.environ.get("RECURSIVE") == "1" # guarded recursion: ("a" ~ rK) with rK any rule, also itself
STACKY = os.environ.get("STACKY") == "1"       # every rule pushes first; stack terminals and restore points are frequent
SAFE_SKIP = os.environ.get("SAFE_SKIP") == "1"   # only atomic / literal skip rules (avoids the F-WS family)

KINDS = ["", "", "_", "@", "$", "!"]
LITS = ['"a"', '"b"', '"ab"', '"ba"', '^"a"', "'a'..'b'", '"c"', '""']
if os.environ.get("MULTIBYTE") == "1":
    LITS = ['"a"', r'"\u{e9}"', r'"a\u{e9}"', r'"\u{4e2d}a"', r'^"a\u{e9}"', r"'a'..'\u{e9}'", r'"\u{4e2d}"', '""']
BUILT = ["ANY", "SOI", "EOI", "ASCII_DIGIT", "NEWLINE"]
STACK = ["PEEK", "POP", "DROP", "PEEK_ALL", "POP_ALL"]

ALLRULES = []
def expr(rnd, depth, later, stack_ok, p_ref=0.25):
    r = rnd.random()
    if RECURSIVE and ALLRULES and rnd.random() < 0.12:
        return "(" + rnd.choice(['"a"', '"b"', '"c"']) + " ~ " + rnd.choice(ALLRULES) + ")"
    if depth <= 0 or r < 0.22:
        r2 = rnd.random()
        if later and r2 < p_ref:
            return rnd.choice(later)
        if stack_ok and r2 < p_ref + (0.5 if STACKY else 0.2):
            if rnd.random() < 0.3:
                a = rnd.randint(-3, 3)
                if rnd.random() < 0.5:
                    return f"PEEK[{a}..]"
                return f"PEEK[{a}..{rnd.randint(-3,3)}]"
            return rnd.choice(STACK)
        if r2 < 0.9:
            return rnd.choice(LITS[:7])
        return rnd.choice(BUILT)
    k = rnd.random()
    sub = lambda: expr(rnd, depth - 1, later, stack_ok, p_ref)
    if k < 0.30:
        n = rnd.randint(2, 3)
        return "(" + " ~ ".join(sub() for _ in range(n)) + ")"
    if k < 0.50:
        n = rnd.randint(2, 3)
        return "(" + " | ".join(sub() for _ in range(n)) + ")"
    if k < 0.60:
        return "(" + sub() + ")?"
    if k < 0.72:
        return "(" + sub() + ")*"
    if k < 0.78:
        return "(" + sub() + ")+"
    if k < 0.84:
        form = rnd.choice(["{2}", "{1,}", "{,2}", "{1,2}", "{0,1}"])
        return "(" + sub() + ")" + form
    if k < 0.89:
        return "&(" + sub() + ")"
    if k < 0.94:
        return "!(" + sub() + ")"
    if stack_ok:
        return "PUSH(" + sub() + ")"
    return sub()

def grammar(rnd, gid):
    nrules = rnd.randint(2, 6)
    names = [f"r{i}" for i in range(nrules)]
    ALLRULES[:] = names
    stack_ok = STACKY or rnd.random() < 0.5
    kinds = {}
    lines = []
    ws = rnd.random() < 0.7
    cm = rnd.random() < 0.3
    for i, n in enumerate(names):
        k = rnd.choice(KINDS)
        kinds[n] = k
        later = names[i + 1:]
        # occasionally allow an explicit reference to the skip rules
        extra = []
        if ws and rnd.random() < 0.15: extra.append("WHITESPACE")
        e = expr(rnd, rnd.randint(1, 3), later + extra, stack_ok)
        if STACKY and stack_ok:
            pre = " ~ ".join("PUSH(" + rnd.choice(['"a"', '"b"', '"ab"', "'a'..'b'", '""']) + ")" for _ in range(rnd.randint(1, 2)))
            e = "(" + pre + " ~ " + e + ")"
        lines.append(f"{n} = {k}{{ {e} }}")
    if ws:
        k = rnd.choice(["_", "@"] if SAFE_SKIP else ["_", "_", "", "@", "$"])
        kinds["WHITESPACE"] = k
        body = rnd.choice(['" "', '" "', '" " | "c"'] + ([] if SAFE_SKIP else ['wsx']))
        if body == 'wsx':
            lines.append('wsx = { " " }'); kinds["wsx"] = ""
        lines.append(f"WHITESPACE = {k}{{ {body} }}")
    if cm:
        k = rnd.choice(["@"] if SAFE_SKIP else ["_", "", "@"])
        kinds["COMMENT"] = k
        lines.append(f'COMMENT = {k}{{ "/" ~ (!"/" ~ ANY)* ~ "/" }}')
    return {"id": gid, "text": "\n".join(lines), "kinds": kinds}

if __name__ == "__main__":
    seed = int(sys.argv[1]); n = int(sys.argv[2])
    rnd = random.Random(seed)
    for i in range(n):
        print(json.dumps(grammar(rnd, i)))
