// Exploration only: list the getter functions the generator emits per rule (emit_rule_reference).
// stdin: one grammar per line ("\n" escaped as "\\n"); stdout: one JSON object per line {rule: [getter, ...]}.
use quote::quote;
use std::io::{self, BufRead};
use syn::visit::Visit;

struct V { cur: Vec<(String, Vec<String>)> }
impl<'ast> Visit<'ast> for V {
    fn visit_item_impl(&mut self, i: &'ast syn::ItemImpl) {
        if i.trait_.is_none() {
            if let syn::Type::Path(p) = &*i.self_ty {
                let name = p.path.segments.last().unwrap().ident.to_string();
                let name = name.trim_start_matches("r#").to_string();
                let fns: Vec<String> = i.items.iter().filter_map(|it| if let syn::ImplItem::Fn(f) = it { Some(f.sig.ident.to_string().trim_start_matches("r#").to_string()) } else { None }).collect();
                if !fns.is_empty() { self.cur.push((name, fns)); }
            }
        }
        syn::visit::visit_item_impl(self, i);
    }
}
fn main() {
    for line in io::stdin().lock().lines() {
        let g = line.unwrap().replace("\\n", "\n");
        let ts = pest_typed_generator::derive_typed_parser(quote! { #[grammar_inline = #g] #[emit_rule_reference] #[no_warnings] struct P; }, false, true);
        let file: syn::File = syn::parse2(ts).unwrap();
        let mut v = V { cur: vec![] };
        v.visit_file(&file);
        let parts: Vec<String> = v.cur.iter().map(|(r, fs)| format!("\"{}\": [{}]", r, fs.iter().map(|f| format!("\"{}\"", f)).collect::<Vec<_>>().join(", "))).collect();
        println!("{{{}}}", parts.join(", "));
    }
}
