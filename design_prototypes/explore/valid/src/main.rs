// stdin: one grammar per line with "\n" escaped as "\\n"; stdout: "ok" | "err" per line
use std::io::{self, BufRead};
fn main() {
    let stdin = io::stdin();
    for line in stdin.lock().lines() {
        let line = line.unwrap();
        let g = line.replace("\\n", "\n");
        let r = std::panic::catch_unwind(|| pest_meta::parse_and_optimize(&g).is_ok());
        println!("{}", match r { Ok(true) => "ok", _ => "err" });
    }
}
