// Exploration only (see README.md).  A direct reference interpreter of pest grammars over
// pest_meta's OptimizedExpr: dynamic atomicity, implicit skipping, pest's token rules, and an
// IMMUTABLE stack (so every failed alternative / optional / iteration / lookahead leaves no trace),
// empty-stack PEEK/POP/DROP fail instead of panicking.  This is the executable draft of
// `Model.Spec` in DESIGN.md; it is validated against pest itself wherever pest returns.
use pest_meta::ast::RuleType;
use pest_meta::optimizer::{OptimizedExpr as E, OptimizedRule};
use std::collections::HashMap;

#[derive(Clone, Copy, PartialEq, Eq, Debug)]
pub enum Atom { Atomic, Compound, NonAtomic }

pub struct Spec { pub rules: HashMap<String, OptimizedRule> }

pub struct Ctx<'a> { pub input: &'a str, pub steps: usize, pub limit: usize, pub toks: Vec<(String, usize, usize, usize)>, /* (rule,start,end,index just past the last descendant) */
    pub refs: Vec<(String, usize, usize)>, pub depth: usize, pub neg: usize }

type Stack = Vec<(usize, usize)>;
pub enum Out { Diverge }

impl Spec {
    pub fn new(grammar: &str) -> Option<Spec> {
        let (_, rules) = pest_meta::parse_and_optimize(grammar).ok()?;
        Some(Spec { rules: rules.into_iter().map(|r| (r.name.clone(), r)).collect() })
    }

    /// returns Ok(Some((end, tree))) / Ok(None) on failure / Err(Diverge) when the step limit is hit
    pub fn run(&self, rule: &str, input: &str, limit: usize) -> Result<Option<(usize, Vec<(String, usize, usize, usize)>)>, Out> {
        let mut cx = Ctx { input, steps: 0, limit, toks: vec![], refs: vec![], depth: 0, neg: 0 };
        let r = self.call(rule, 0, Vec::new(), Atom::NonAtomic, false, &mut cx)?;
        Ok(r.map(|(p, _)| (p, cx.toks)))
    }

    /// does `rule` match at byte offset `pos` under the given atomicity (empty stack, no lookahead)?
    pub fn match_at(&self, rule: &str, input: &str, pos: usize, at: Atom, limit: usize) -> Result<bool, Out> {
        let mut cx = Ctx { input, steps: 0, limit, toks: vec![], refs: vec![], depth: 0, neg: 0 };
        Ok(self.call(rule, pos, Vec::new(), at, false, &mut cx)?.is_some())
    }

    /// rule references evaluated DIRECTLY by `rule`'s own expression on the successful path (also under a
    /// positive predicate, never under a negative one), in evaluation order: what C16's getters must return.
    pub fn direct_refs(&self, rule: &str, input: &str, limit: usize) -> Result<Option<Vec<(String, usize, usize)>>, Out> {
        let mut cx = Ctx { input, steps: 0, limit, toks: vec![], refs: vec![], depth: 0, neg: 0 };
        let r = self.call(rule, 0, Vec::new(), Atom::NonAtomic, false, &mut cx)?;
        Ok(r.map(|_| cx.refs))
    }
    /// end of the implicit skip started at `pos` in a non-atomic context
    pub fn skip_end(&self, input: &str, pos: usize, limit: usize) -> Result<usize, Out> {
        let mut cx = Ctx { input, steps: 0, limit, toks: vec![], refs: vec![], depth: 0, neg: 0 };
        Ok(self.skip(pos, Vec::new(), Atom::NonAtomic, false, &mut cx)?.0)
    }

    fn tick(&self, cx: &mut Ctx) -> Result<(), Out> { cx.steps += 1; if cx.steps > cx.limit { Err(Out::Diverge) } else { Ok(()) } }

    fn call(&self, name: &str, pos: usize, st: Stack, at: Atom, look: bool, cx: &mut Ctx) -> Result<Option<(usize, Stack)>, Out> {
        self.tick(cx)?;
        if let Some(rule) = self.rules.get(name) {
            let skiprule = name == "WHITESPACE" || name == "COMMENT";
            // atomicity in force when ParserState::rule decides about the token, and inside the body
            let (tok_at, body_at) = match rule.ty {
                RuleType::Normal | RuleType::Silent => (at, if skiprule { Atom::Atomic } else { at }),
                RuleType::Atomic => (at, Atom::Atomic),
                RuleType::CompoundAtomic => (Atom::Compound, Atom::Compound),
                RuleType::NonAtomic => (Atom::NonAtomic, if skiprule { Atom::Atomic } else { Atom::NonAtomic }),
            };
            let emits = rule.ty != RuleType::Silent && !look && tok_at != Atom::Atomic;
            let mark = cx.toks.len();
            if emits { cx.toks.push((name.to_string(), pos, 0, 0)); }
            let rmark = cx.refs.len();
            cx.depth += 1;
            let r = self.eval(&rule.expr, pos, st, body_at, look, cx);
            cx.depth -= 1;
            let r = r?;
            match r {
                Some((e, s)) => {
                    if emits { cx.toks[mark].2 = e; cx.toks[mark].3 = cx.toks.len(); }
                    if cx.depth == 1 && cx.neg == 0 { cx.refs.push((name.to_string(), pos, e)); }
                    Ok(Some((e, s)))
                }
                None => { cx.toks.truncate(mark); cx.refs.truncate(rmark); Ok(None) }
            }
        } else {
            self.builtin(name, pos, st, look, at, cx)
        }
    }

    fn mstr(&self, cx: &Ctx, pos: usize, s: &str) -> Option<usize> { if cx.input[pos..].starts_with(s) { Some(pos + s.len()) } else { None } }
    fn mchar(&self, cx: &Ctx, pos: usize, f: impl Fn(char) -> bool) -> Option<usize> { cx.input[pos..].chars().next().filter(|c| f(*c)).map(|c| pos + c.len_utf8()) }

    fn builtin(&self, name: &str, pos: usize, mut st: Stack, look: bool, at: Atom, cx: &mut Ctx) -> Result<Option<(usize, Stack)>, Out> {
        let inp = cx.input;
        let span = |s: &(usize, usize)| &inp[s.0..s.1];
        let r: Option<usize> = match name {
            "ANY" => self.mchar(cx, pos, |_| true),
            "SOI" => if pos == 0 { Some(pos) } else { None },
            "EOI" => {
                if pos == inp.len() { if !look && at != Atom::Atomic { let n = cx.toks.len() + 1; cx.toks.push(("EOI".into(), pos, pos, n)); } Some(pos) } else { None }
            }
            "NEWLINE" => self.mstr(cx, pos, "\r\n").or_else(|| self.mstr(cx, pos, "\n")).or_else(|| self.mstr(cx, pos, "\r")),
            "ASCII_DIGIT" => self.mchar(cx, pos, |c| c.is_ascii_digit()),
            "ASCII_NONZERO_DIGIT" => self.mchar(cx, pos, |c| ('1'..='9').contains(&c)),
            "ASCII_BIN_DIGIT" => self.mchar(cx, pos, |c| c == '0' || c == '1'),
            "ASCII_OCT_DIGIT" => self.mchar(cx, pos, |c| ('0'..='7').contains(&c)),
            "ASCII_HEX_DIGIT" => self.mchar(cx, pos, |c| c.is_ascii_hexdigit()),
            "ASCII_ALPHA_LOWER" => self.mchar(cx, pos, |c| c.is_ascii_lowercase()),
            "ASCII_ALPHA_UPPER" => self.mchar(cx, pos, |c| c.is_ascii_uppercase()),
            "ASCII_ALPHA" => self.mchar(cx, pos, |c| c.is_ascii_alphabetic()),
            "ASCII_ALPHANUMERIC" => self.mchar(cx, pos, |c| c.is_ascii_alphanumeric()),
            "ASCII" => self.mchar(cx, pos, |c| c.is_ascii()),
            "PEEK" => match st.last() { Some(s) => self.mstr(cx, pos, span(s)), None => None },
            "POP" => match st.pop() { Some(s) => self.mstr(cx, pos, span(&s)), None => None },
            "DROP" => match st.pop() { Some(_) => Some(pos), None => None },
            "PEEK_ALL" => { let mut p = Some(pos); for s in st.iter().rev() { p = p.and_then(|q| self.mstr(cx, q, span(s))); } p }
            "POP_ALL" => { let mut p = Some(pos); for s in st.iter().rev() { p = p.and_then(|q| self.mstr(cx, q, span(s))); } if p.is_some() { st.clear(); } p }
            _ => panic!("unknown builtin {}", name),
        };
        Ok(r.map(|p| (p, st)))
    }

    fn skip(&self, pos: usize, st: Stack, at: Atom, look: bool, cx: &mut Ctx) -> Result<(usize, Stack), Out> {
        if at != Atom::NonAtomic { return Ok((pos, st)); }
        let has_w = self.rules.contains_key("WHITESPACE"); let has_c = self.rules.contains_key("COMMENT");
        let (mut p, mut s) = (pos, st);
        cx.neg += 1;   // implicit skips are not "mentions": keep them out of `refs`
        // WHITESPACE* ~ (COMMENT ~ WHITESPACE*)*   (degenerate forms when only one is defined)
        loop {
            if has_w { loop { self.tick(cx)?; match self.call("WHITESPACE", p, s.clone(), at, look, cx)? { Some((q, s2)) => { p = q; s = s2; } None => break } } }
            if !has_c { break; }
            self.tick(cx)?;
            match self.call("COMMENT", p, s.clone(), at, look, cx)? { Some((q, s2)) => { p = q; s = s2; } None => break }
        }
        cx.neg -= 1;
        Ok((p, s))
    }

    fn eval(&self, e: &E, pos: usize, st: Stack, at: Atom, look: bool, cx: &mut Ctx) -> Result<Option<(usize, Stack)>, Out> {
        self.tick(cx)?;
        let mark = cx.toks.len();
        let rmark = cx.refs.len();
        let r = match e {
            E::Str(s) => self.mstr(cx, pos, s).map(|p| (p, st)),
            E::Insens(s) => { let r = &cx.input[pos..]; match r.get(..s.len()) { Some(pre) if pre.eq_ignore_ascii_case(s) => Some((pos + s.len(), st)), _ => None } }
            E::Range(a, b) => { let (a, b) = (a.chars().next().unwrap(), b.chars().next().unwrap()); self.mchar(cx, pos, |c| a <= c && c <= b).map(|p| (p, st)) }
            E::Ident(n) => self.call(n, pos, st, at, look, cx)?,
            E::PeekSlice(a, b) => {
                let len = st.len() as i32;
                let norm = |i: i32| -> Option<usize> { if i > len { None } else if i >= 0 { Some(i as usize) } else if len + i >= 0 { Some((len + i) as usize) } else { None } };
                match (norm(*a), b.map_or(Some(st.len()), |x| norm(x))) {
                    (Some(lo), Some(hi)) => {
                        if hi <= lo { Some((pos, st)) } else {
                            let mut p = Some(pos);
                            for s in &st[lo..hi] { p = p.and_then(|q| self.mstr(cx, q, &cx.input[s.0..s.1])); }
                            p.map(|q| (q, st))
                        }
                    }
                    _ => None,
                }
            }
            E::PosPred(x) => match self.eval(x, pos, st.clone(), at, true, cx)? { Some(_) => Some((pos, st)), None => None },
            E::NegPred(x) => { cx.neg += 1; let r = self.eval(x, pos, st.clone(), at, true, cx); cx.neg -= 1; cx.refs.truncate(rmark); match r? { Some(_) => None, None => Some((pos, st)) } }
            E::Seq(l, r) => {
                match self.eval(l, pos, st, at, look, cx)? {
                    None => None,
                    Some((p1, s1)) => {
                        // right spine: skip before every further element
                        let mut cur: &E = r; let (mut p, mut s) = (p1, s1); let mut ok = true;
                        loop {
                            let (elem, next): (&E, Option<&E>) = if let E::Seq(a, b) = cur { (a, Some(b)) } else { (cur, None) };
                            let (p2, s2) = self.skip(p, s, at, look, cx)?;
                            match self.eval(elem, p2, s2, at, look, cx)? { Some((p3, s3)) => { p = p3; s = s3; } None => { ok = false; s = Vec::new(); } }
                            if !ok { break; }
                            match next { Some(n) => cur = n, None => break }
                        }
                        if ok { Some((p, s)) } else { None }
                    }
                }
            }
            E::Choice(l, r) => match self.eval(l, pos, st.clone(), at, look, cx)? { Some(x) => Some(x), None => self.eval(r, pos, st, at, look, cx)? },
            E::Opt(x) => match self.eval(x, pos, st.clone(), at, look, cx)? { Some(x) => Some(x), None => Some((pos, st)) },
            E::Rep(x) => {
                let (mut p, mut s) = (pos, st); let mut i = 0usize;
                loop {
                    self.tick(cx)?;
                    let m = cx.toks.len(); let rm = cx.refs.len();
                    let (p2, s2) = if i == 0 { (p, s.clone()) } else { self.skip(p, s.clone(), at, look, cx)? };
                    match self.eval(x, p2, s2, at, look, cx)? { Some((p3, s3)) => { p = p3; s = s3; i += 1; } None => { cx.toks.truncate(m); cx.refs.truncate(rm); break; } }
                }
                Some((p, s))
            }
            E::Skip(strings) => {
                let mut found = cx.input.len();
                'outer: for from in pos..cx.input.len() { if !cx.input.is_char_boundary(from) { continue; } for s in strings { if cx.input[from..].starts_with(s.as_str()) { found = from; break 'outer; } } }
                Some((found, st))
            }
            E::Push(x) => match self.eval(x, pos, st, at, look, cx)? { Some((p, mut s)) => { s.push((pos, p)); Some((p, s)) } None => None },
            E::RestoreOnErr(x) => self.eval(x, pos, st, at, look, cx)?,
            #[allow(unreachable_patterns)]
            _ => panic!("grammar-extras constructor"),
        };
        if r.is_none() { cx.toks.truncate(mark); cx.refs.truncate(rmark); }
        Ok(r)
    }
}

#[derive(Debug, PartialEq, Clone)]
pub struct T(pub String, pub usize, pub usize, pub Vec<T>);

/// flat pre-order token list (each entry knows the index just past its last descendant) -> forest
pub fn nest(toks: &[(String, usize, usize, usize)], atomic: &dyn Fn(&str) -> bool) -> Vec<T> { nest_range(toks, 0, toks.len(), atomic) }
fn nest_range(toks: &[(String, usize, usize, usize)], mut i: usize, end: usize, atomic: &dyn Fn(&str) -> bool) -> Vec<T> {
    let mut out = vec![];
    while i < end {
        let (r, s, e, child_end) = &toks[i];
        let ch = if atomic(r) { vec![] } else { nest_range(toks, i + 1, *child_end, atomic) };
        out.push(T(r.clone(), *s, *e, ch));
        i = *child_end;
    }
    out
}
