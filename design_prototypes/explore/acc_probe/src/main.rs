#![allow(warnings)]
use pest_typed::{ParsableTypedNode, Storage};
use pest_typed_derive::{TypedParser, match_choices};
#[derive(TypedParser)]
#[grammar_inline = r#"
c2 = { "xx" | "x" }
s2 = { "a" ~ "b" }
c3 = { "xxx" | "xx" | "x" }
s3 = { "a" ~ "b" ~ "c" }
c4 = { "xxxx" | "xxx" | "xx" | "x" }
s4 = { "a" ~ "b" ~ "c" ~ "d" }
c5 = { "xxxxx" | "xxxx" | "xxx" | "xx" | "x" }
s5 = { "a" ~ "b" ~ "c" ~ "d" ~ "e" }
c6 = { "xxxxxx" | "xxxxx" | "xxxx" | "xxx" | "xx" | "x" }
s6 = { "a" ~ "b" ~ "c" ~ "d" ~ "e" ~ "f" }
c7 = { "xxxxxxx" | "xxxxxx" | "xxxxx" | "xxxx" | "xxx" | "xx" | "x" }
s7 = { "a" ~ "b" ~ "c" ~ "d" ~ "e" ~ "f" ~ "g" }
c8 = { "xxxxxxxx" | "xxxxxxx" | "xxxxxx" | "xxxxx" | "xxxx" | "xxx" | "xx" | "x" }
s8 = { "a" ~ "b" ~ "c" ~ "d" ~ "e" ~ "f" ~ "g" ~ "h" }
c9 = { "xxxxxxxxx" | "xxxxxxxx" | "xxxxxxx" | "xxxxxx" | "xxxxx" | "xxxx" | "xxx" | "xx" | "x" }
s9 = { "a" ~ "b" ~ "c" ~ "d" ~ "e" ~ "f" ~ "g" ~ "h" ~ "i" }
c10 = { "xxxxxxxxxx" | "xxxxxxxxx" | "xxxxxxxx" | "xxxxxxx" | "xxxxxx" | "xxxxx" | "xxxx" | "xxx" | "xx" | "x" }
s10 = { "a" ~ "b" ~ "c" ~ "d" ~ "e" ~ "f" ~ "g" ~ "h" ~ "i" ~ "j" }
c11 = { "xxxxxxxxxxx" | "xxxxxxxxxx" | "xxxxxxxxx" | "xxxxxxxx" | "xxxxxxx" | "xxxxxx" | "xxxxx" | "xxxx" | "xxx" | "xx" | "x" }
s11 = { "a" ~ "b" ~ "c" ~ "d" ~ "e" ~ "f" ~ "g" ~ "h" ~ "i" ~ "j" ~ "k" }
c12 = { "xxxxxxxxxxxx" | "xxxxxxxxxxx" | "xxxxxxxxxx" | "xxxxxxxxx" | "xxxxxxxx" | "xxxxxxx" | "xxxxxx" | "xxxxx" | "xxxx" | "xxx" | "xx" | "x" }
s12 = { "a" ~ "b" ~ "c" ~ "d" ~ "e" ~ "f" ~ "g" ~ "h" ~ "i" ~ "j" ~ "k" ~ "l" }
c13 = { "xxxxxxxxxxxxx" | "xxxxxxxxxxxx" | "xxxxxxxxxxx" | "xxxxxxxxxx" | "xxxxxxxxx" | "xxxxxxxx" | "xxxxxxx" | "xxxxxx" | "xxxxx" | "xxxx" | "xxx" | "xx" | "x" }
s13 = { "a" ~ "b" ~ "c" ~ "d" ~ "e" ~ "f" ~ "g" ~ "h" ~ "i" ~ "j" ~ "k" ~ "l" ~ "m" }
c14 = { "xxxxxxxxxxxxxx" | "xxxxxxxxxxxxx" | "xxxxxxxxxxxx" | "xxxxxxxxxxx" | "xxxxxxxxxx" | "xxxxxxxxx" | "xxxxxxxx" | "xxxxxxx" | "xxxxxx" | "xxxxx" | "xxxx" | "xxx" | "xx" | "x" }
s14 = { "a" ~ "b" ~ "c" ~ "d" ~ "e" ~ "f" ~ "g" ~ "h" ~ "i" ~ "j" ~ "k" ~ "l" ~ "m" ~ "n" }
c15 = { "xxxxxxxxxxxxxxx" | "xxxxxxxxxxxxxx" | "xxxxxxxxxxxxx" | "xxxxxxxxxxxx" | "xxxxxxxxxxx" | "xxxxxxxxxx" | "xxxxxxxxx" | "xxxxxxxx" | "xxxxxxx" | "xxxxxx" | "xxxxx" | "xxxx" | "xxx" | "xx" | "x" }
s15 = { "a" ~ "b" ~ "c" ~ "d" ~ "e" ~ "f" ~ "g" ~ "h" ~ "i" ~ "j" ~ "k" ~ "l" ~ "m" ~ "n" ~ "o" }
c16 = { "xxxxxxxxxxxxxxxx" | "xxxxxxxxxxxxxxx" | "xxxxxxxxxxxxxx" | "xxxxxxxxxxxxx" | "xxxxxxxxxxxx" | "xxxxxxxxxxx" | "xxxxxxxxxx" | "xxxxxxxxx" | "xxxxxxxx" | "xxxxxxx" | "xxxxxx" | "xxxxx" | "xxxx" | "xxx" | "xx" | "x" }
s16 = { "a" ~ "b" ~ "c" ~ "d" ~ "e" ~ "f" ~ "g" ~ "h" ~ "i" ~ "j" ~ "k" ~ "l" ~ "m" ~ "n" ~ "o" ~ "p" }
WHITESPACE = _{ " " }
"#]
struct P;
fn main() { let mut bad = 0usize; let mut n_checks = 0usize;
  for m in 0..=4 { let s = "x".repeat(m); let r = rules::c2::try_parse_partial(s.as_str());
    let want: Option<usize> = if m == 0 { None } else if m >= 2 { Some(0) } else { Some(2 - m) };
    match (r, want) { (Err(_), None) => {}, (Ok((cur, node)), Some(w)) => {
      let c = &node.content;
      let somes = [c._0().is_some(), c._1().is_some()]; n_checks += 1;
      if somes.iter().filter(|b| **b).count() != 1 || !somes[w] { bad += 1; println!("C17 accessor c2 m={} somes={:?} want={}", m, somes, w); }
      if pest_typed::Input::byte_offset(&cur) != 2 - w { bad += 1; println!("C17 offset c2 m={}", m); }
      let mut calls = 0usize; let idx = c.if_then(|_| 0usize).else_then(|_| 1usize); if idx != w { bad += 1; println!("C17 chain c2 m={} idx={} want={}", m, idx, w); }
      let idx2 = { use generics; match_choices!(&**c { a0 => 0usize, a1 => 1usize, }) }; if idx2 != w { bad += 1; println!("C17 match_choices c2 m={} idx={} want={}", m, idx2, w); }
    }, (a, b) => { bad += 1; println!("C17 verdict c2 m={} want={:?} ok={}", m, b, a.is_ok()); } } }
  { let s = "a b"; let node = rules::s2::try_parse(s).unwrap(); let t = node.content.get_matched();
    let got: Vec<&str> = vec![t.0.get_content(), t.1.get_content()]; let want: Vec<String> = (0..2).map(|i| ((97u8 + i as u8) as char).to_string()).collect(); n_checks += 1;
    if got.iter().map(|x| x.to_string()).collect::<Vec<_>>() != want { bad += 1; println!("C17 seq s2 {:?}", got); } }
  for m in 0..=5 { let s = "x".repeat(m); let r = rules::c3::try_parse_partial(s.as_str());
    let want: Option<usize> = if m == 0 { None } else if m >= 3 { Some(0) } else { Some(3 - m) };
    match (r, want) { (Err(_), None) => {}, (Ok((cur, node)), Some(w)) => {
      let c = &node.content;
      let somes = [c._0().is_some(), c._1().is_some(), c._2().is_some()]; n_checks += 1;
      if somes.iter().filter(|b| **b).count() != 1 || !somes[w] { bad += 1; println!("C17 accessor c3 m={} somes={:?} want={}", m, somes, w); }
      if pest_typed::Input::byte_offset(&cur) != 3 - w { bad += 1; println!("C17 offset c3 m={}", m); }
      let mut calls = 0usize; let idx = c.if_then(|_| 0usize).else_if(|_| 1usize).else_then(|_| 2usize); if idx != w { bad += 1; println!("C17 chain c3 m={} idx={} want={}", m, idx, w); }
      let idx2 = { use generics; match_choices!(&**c { a0 => 0usize, a1 => 1usize, a2 => 2usize, }) }; if idx2 != w { bad += 1; println!("C17 match_choices c3 m={} idx={} want={}", m, idx2, w); }
    }, (a, b) => { bad += 1; println!("C17 verdict c3 m={} want={:?} ok={}", m, b, a.is_ok()); } } }
  { let s = "a b c"; let node = rules::s3::try_parse(s).unwrap(); let t = node.content.get_matched();
    let got: Vec<&str> = vec![t.0.get_content(), t.1.get_content(), t.2.get_content()]; let want: Vec<String> = (0..3).map(|i| ((97u8 + i as u8) as char).to_string()).collect(); n_checks += 1;
    if got.iter().map(|x| x.to_string()).collect::<Vec<_>>() != want { bad += 1; println!("C17 seq s3 {:?}", got); } }
  for m in 0..=6 { let s = "x".repeat(m); let r = rules::c4::try_parse_partial(s.as_str());
    let want: Option<usize> = if m == 0 { None } else if m >= 4 { Some(0) } else { Some(4 - m) };
    match (r, want) { (Err(_), None) => {}, (Ok((cur, node)), Some(w)) => {
      let c = &node.content;
      let somes = [c._0().is_some(), c._1().is_some(), c._2().is_some(), c._3().is_some()]; n_checks += 1;
      if somes.iter().filter(|b| **b).count() != 1 || !somes[w] { bad += 1; println!("C17 accessor c4 m={} somes={:?} want={}", m, somes, w); }
      if pest_typed::Input::byte_offset(&cur) != 4 - w { bad += 1; println!("C17 offset c4 m={}", m); }
      let mut calls = 0usize; let idx = c.if_then(|_| 0usize).else_if(|_| 1usize).else_if(|_| 2usize).else_then(|_| 3usize); if idx != w { bad += 1; println!("C17 chain c4 m={} idx={} want={}", m, idx, w); }
      let idx2 = { use generics; match_choices!(&**c { a0 => 0usize, a1 => 1usize, a2 => 2usize, a3 => 3usize, }) }; if idx2 != w { bad += 1; println!("C17 match_choices c4 m={} idx={} want={}", m, idx2, w); }
    }, (a, b) => { bad += 1; println!("C17 verdict c4 m={} want={:?} ok={}", m, b, a.is_ok()); } } }
  { let s = "a b c d"; let node = rules::s4::try_parse(s).unwrap(); let t = node.content.get_matched();
    let got: Vec<&str> = vec![t.0.get_content(), t.1.get_content(), t.2.get_content(), t.3.get_content()]; let want: Vec<String> = (0..4).map(|i| ((97u8 + i as u8) as char).to_string()).collect(); n_checks += 1;
    if got.iter().map(|x| x.to_string()).collect::<Vec<_>>() != want { bad += 1; println!("C17 seq s4 {:?}", got); } }
  for m in 0..=7 { let s = "x".repeat(m); let r = rules::c5::try_parse_partial(s.as_str());
    let want: Option<usize> = if m == 0 { None } else if m >= 5 { Some(0) } else { Some(5 - m) };
    match (r, want) { (Err(_), None) => {}, (Ok((cur, node)), Some(w)) => {
      let c = &node.content;
      let somes = [c._0().is_some(), c._1().is_some(), c._2().is_some(), c._3().is_some(), c._4().is_some()]; n_checks += 1;
      if somes.iter().filter(|b| **b).count() != 1 || !somes[w] { bad += 1; println!("C17 accessor c5 m={} somes={:?} want={}", m, somes, w); }
      if pest_typed::Input::byte_offset(&cur) != 5 - w { bad += 1; println!("C17 offset c5 m={}", m); }
      let mut calls = 0usize; let idx = c.if_then(|_| 0usize).else_if(|_| 1usize).else_if(|_| 2usize).else_if(|_| 3usize).else_then(|_| 4usize); if idx != w { bad += 1; println!("C17 chain c5 m={} idx={} want={}", m, idx, w); }
      let idx2 = { use generics; match_choices!(&**c { a0 => 0usize, a1 => 1usize, a2 => 2usize, a3 => 3usize, a4 => 4usize, }) }; if idx2 != w { bad += 1; println!("C17 match_choices c5 m={} idx={} want={}", m, idx2, w); }
    }, (a, b) => { bad += 1; println!("C17 verdict c5 m={} want={:?} ok={}", m, b, a.is_ok()); } } }
  { let s = "a b c d e"; let node = rules::s5::try_parse(s).unwrap(); let t = node.content.get_matched();
    let got: Vec<&str> = vec![t.0.get_content(), t.1.get_content(), t.2.get_content(), t.3.get_content(), t.4.get_content()]; let want: Vec<String> = (0..5).map(|i| ((97u8 + i as u8) as char).to_string()).collect(); n_checks += 1;
    if got.iter().map(|x| x.to_string()).collect::<Vec<_>>() != want { bad += 1; println!("C17 seq s5 {:?}", got); } }
  for m in 0..=8 { let s = "x".repeat(m); let r = rules::c6::try_parse_partial(s.as_str());
    let want: Option<usize> = if m == 0 { None } else if m >= 6 { Some(0) } else { Some(6 - m) };
    match (r, want) { (Err(_), None) => {}, (Ok((cur, node)), Some(w)) => {
      let c = &node.content;
      let somes = [c._0().is_some(), c._1().is_some(), c._2().is_some(), c._3().is_some(), c._4().is_some(), c._5().is_some()]; n_checks += 1;
      if somes.iter().filter(|b| **b).count() != 1 || !somes[w] { bad += 1; println!("C17 accessor c6 m={} somes={:?} want={}", m, somes, w); }
      if pest_typed::Input::byte_offset(&cur) != 6 - w { bad += 1; println!("C17 offset c6 m={}", m); }
      let mut calls = 0usize; let idx = c.if_then(|_| 0usize).else_if(|_| 1usize).else_if(|_| 2usize).else_if(|_| 3usize).else_if(|_| 4usize).else_then(|_| 5usize); if idx != w { bad += 1; println!("C17 chain c6 m={} idx={} want={}", m, idx, w); }
      let idx2 = { use generics; match_choices!(&**c { a0 => 0usize, a1 => 1usize, a2 => 2usize, a3 => 3usize, a4 => 4usize, a5 => 5usize, }) }; if idx2 != w { bad += 1; println!("C17 match_choices c6 m={} idx={} want={}", m, idx2, w); }
    }, (a, b) => { bad += 1; println!("C17 verdict c6 m={} want={:?} ok={}", m, b, a.is_ok()); } } }
  { let s = "a b c d e f"; let node = rules::s6::try_parse(s).unwrap(); let t = node.content.get_matched();
    let got: Vec<&str> = vec![t.0.get_content(), t.1.get_content(), t.2.get_content(), t.3.get_content(), t.4.get_content(), t.5.get_content()]; let want: Vec<String> = (0..6).map(|i| ((97u8 + i as u8) as char).to_string()).collect(); n_checks += 1;
    if got.iter().map(|x| x.to_string()).collect::<Vec<_>>() != want { bad += 1; println!("C17 seq s6 {:?}", got); } }
  for m in 0..=9 { let s = "x".repeat(m); let r = rules::c7::try_parse_partial(s.as_str());
    let want: Option<usize> = if m == 0 { None } else if m >= 7 { Some(0) } else { Some(7 - m) };
    match (r, want) { (Err(_), None) => {}, (Ok((cur, node)), Some(w)) => {
      let c = &node.content;
      let somes = [c._0().is_some(), c._1().is_some(), c._2().is_some(), c._3().is_some(), c._4().is_some(), c._5().is_some(), c._6().is_some()]; n_checks += 1;
      if somes.iter().filter(|b| **b).count() != 1 || !somes[w] { bad += 1; println!("C17 accessor c7 m={} somes={:?} want={}", m, somes, w); }
      if pest_typed::Input::byte_offset(&cur) != 7 - w { bad += 1; println!("C17 offset c7 m={}", m); }
      let mut calls = 0usize; let idx = c.if_then(|_| 0usize).else_if(|_| 1usize).else_if(|_| 2usize).else_if(|_| 3usize).else_if(|_| 4usize).else_if(|_| 5usize).else_then(|_| 6usize); if idx != w { bad += 1; println!("C17 chain c7 m={} idx={} want={}", m, idx, w); }
      let idx2 = { use generics; match_choices!(&**c { a0 => 0usize, a1 => 1usize, a2 => 2usize, a3 => 3usize, a4 => 4usize, a5 => 5usize, a6 => 6usize, }) }; if idx2 != w { bad += 1; println!("C17 match_choices c7 m={} idx={} want={}", m, idx2, w); }
    }, (a, b) => { bad += 1; println!("C17 verdict c7 m={} want={:?} ok={}", m, b, a.is_ok()); } } }
  { let s = "a b c d e f g"; let node = rules::s7::try_parse(s).unwrap(); let t = node.content.get_matched();
    let got: Vec<&str> = vec![t.0.get_content(), t.1.get_content(), t.2.get_content(), t.3.get_content(), t.4.get_content(), t.5.get_content(), t.6.get_content()]; let want: Vec<String> = (0..7).map(|i| ((97u8 + i as u8) as char).to_string()).collect(); n_checks += 1;
    if got.iter().map(|x| x.to_string()).collect::<Vec<_>>() != want { bad += 1; println!("C17 seq s7 {:?}", got); } }
  for m in 0..=10 { let s = "x".repeat(m); let r = rules::c8::try_parse_partial(s.as_str());
    let want: Option<usize> = if m == 0 { None } else if m >= 8 { Some(0) } else { Some(8 - m) };
    match (r, want) { (Err(_), None) => {}, (Ok((cur, node)), Some(w)) => {
      let c = &node.content;
      let somes = [c._0().is_some(), c._1().is_some(), c._2().is_some(), c._3().is_some(), c._4().is_some(), c._5().is_some(), c._6().is_some(), c._7().is_some()]; n_checks += 1;
      if somes.iter().filter(|b| **b).count() != 1 || !somes[w] { bad += 1; println!("C17 accessor c8 m={} somes={:?} want={}", m, somes, w); }
      if pest_typed::Input::byte_offset(&cur) != 8 - w { bad += 1; println!("C17 offset c8 m={}", m); }
      let mut calls = 0usize; let idx = c.if_then(|_| 0usize).else_if(|_| 1usize).else_if(|_| 2usize).else_if(|_| 3usize).else_if(|_| 4usize).else_if(|_| 5usize).else_if(|_| 6usize).else_then(|_| 7usize); if idx != w { bad += 1; println!("C17 chain c8 m={} idx={} want={}", m, idx, w); }
      let idx2 = { use generics; match_choices!(&**c { a0 => 0usize, a1 => 1usize, a2 => 2usize, a3 => 3usize, a4 => 4usize, a5 => 5usize, a6 => 6usize, a7 => 7usize, }) }; if idx2 != w { bad += 1; println!("C17 match_choices c8 m={} idx={} want={}", m, idx2, w); }
    }, (a, b) => { bad += 1; println!("C17 verdict c8 m={} want={:?} ok={}", m, b, a.is_ok()); } } }
  { let s = "a b c d e f g h"; let node = rules::s8::try_parse(s).unwrap(); let t = node.content.get_matched();
    let got: Vec<&str> = vec![t.0.get_content(), t.1.get_content(), t.2.get_content(), t.3.get_content(), t.4.get_content(), t.5.get_content(), t.6.get_content(), t.7.get_content()]; let want: Vec<String> = (0..8).map(|i| ((97u8 + i as u8) as char).to_string()).collect(); n_checks += 1;
    if got.iter().map(|x| x.to_string()).collect::<Vec<_>>() != want { bad += 1; println!("C17 seq s8 {:?}", got); } }
  for m in 0..=11 { let s = "x".repeat(m); let r = rules::c9::try_parse_partial(s.as_str());
    let want: Option<usize> = if m == 0 { None } else if m >= 9 { Some(0) } else { Some(9 - m) };
    match (r, want) { (Err(_), None) => {}, (Ok((cur, node)), Some(w)) => {
      let c = &node.content;
      let somes = [c._0().is_some(), c._1().is_some(), c._2().is_some(), c._3().is_some(), c._4().is_some(), c._5().is_some(), c._6().is_some(), c._7().is_some(), c._8().is_some()]; n_checks += 1;
      if somes.iter().filter(|b| **b).count() != 1 || !somes[w] { bad += 1; println!("C17 accessor c9 m={} somes={:?} want={}", m, somes, w); }
      if pest_typed::Input::byte_offset(&cur) != 9 - w { bad += 1; println!("C17 offset c9 m={}", m); }
      let mut calls = 0usize; let idx = c.if_then(|_| 0usize).else_if(|_| 1usize).else_if(|_| 2usize).else_if(|_| 3usize).else_if(|_| 4usize).else_if(|_| 5usize).else_if(|_| 6usize).else_if(|_| 7usize).else_then(|_| 8usize); if idx != w { bad += 1; println!("C17 chain c9 m={} idx={} want={}", m, idx, w); }
      let idx2 = { use generics; match_choices!(&**c { a0 => 0usize, a1 => 1usize, a2 => 2usize, a3 => 3usize, a4 => 4usize, a5 => 5usize, a6 => 6usize, a7 => 7usize, a8 => 8usize, }) }; if idx2 != w { bad += 1; println!("C17 match_choices c9 m={} idx={} want={}", m, idx2, w); }
    }, (a, b) => { bad += 1; println!("C17 verdict c9 m={} want={:?} ok={}", m, b, a.is_ok()); } } }
  { let s = "a b c d e f g h i"; let node = rules::s9::try_parse(s).unwrap(); let t = node.content.get_matched();
    let got: Vec<&str> = vec![t.0.get_content(), t.1.get_content(), t.2.get_content(), t.3.get_content(), t.4.get_content(), t.5.get_content(), t.6.get_content(), t.7.get_content(), t.8.get_content()]; let want: Vec<String> = (0..9).map(|i| ((97u8 + i as u8) as char).to_string()).collect(); n_checks += 1;
    if got.iter().map(|x| x.to_string()).collect::<Vec<_>>() != want { bad += 1; println!("C17 seq s9 {:?}", got); } }
  for m in 0..=12 { let s = "x".repeat(m); let r = rules::c10::try_parse_partial(s.as_str());
    let want: Option<usize> = if m == 0 { None } else if m >= 10 { Some(0) } else { Some(10 - m) };
    match (r, want) { (Err(_), None) => {}, (Ok((cur, node)), Some(w)) => {
      let c = &node.content;
      let somes = [c._0().is_some(), c._1().is_some(), c._2().is_some(), c._3().is_some(), c._4().is_some(), c._5().is_some(), c._6().is_some(), c._7().is_some(), c._8().is_some(), c._9().is_some()]; n_checks += 1;
      if somes.iter().filter(|b| **b).count() != 1 || !somes[w] { bad += 1; println!("C17 accessor c10 m={} somes={:?} want={}", m, somes, w); }
      if pest_typed::Input::byte_offset(&cur) != 10 - w { bad += 1; println!("C17 offset c10 m={}", m); }
      let mut calls = 0usize; let idx = c.if_then(|_| 0usize).else_if(|_| 1usize).else_if(|_| 2usize).else_if(|_| 3usize).else_if(|_| 4usize).else_if(|_| 5usize).else_if(|_| 6usize).else_if(|_| 7usize).else_if(|_| 8usize).else_then(|_| 9usize); if idx != w { bad += 1; println!("C17 chain c10 m={} idx={} want={}", m, idx, w); }
      let idx2 = { use generics; match_choices!(&**c { a0 => 0usize, a1 => 1usize, a2 => 2usize, a3 => 3usize, a4 => 4usize, a5 => 5usize, a6 => 6usize, a7 => 7usize, a8 => 8usize, a9 => 9usize, }) }; if idx2 != w { bad += 1; println!("C17 match_choices c10 m={} idx={} want={}", m, idx2, w); }
    }, (a, b) => { bad += 1; println!("C17 verdict c10 m={} want={:?} ok={}", m, b, a.is_ok()); } } }
  { let s = "a b c d e f g h i j"; let node = rules::s10::try_parse(s).unwrap(); let t = node.content.get_matched();
    let got: Vec<&str> = vec![t.0.get_content(), t.1.get_content(), t.2.get_content(), t.3.get_content(), t.4.get_content(), t.5.get_content(), t.6.get_content(), t.7.get_content(), t.8.get_content(), t.9.get_content()]; let want: Vec<String> = (0..10).map(|i| ((97u8 + i as u8) as char).to_string()).collect(); n_checks += 1;
    if got.iter().map(|x| x.to_string()).collect::<Vec<_>>() != want { bad += 1; println!("C17 seq s10 {:?}", got); } }
  for m in 0..=13 { let s = "x".repeat(m); let r = rules::c11::try_parse_partial(s.as_str());
    let want: Option<usize> = if m == 0 { None } else if m >= 11 { Some(0) } else { Some(11 - m) };
    match (r, want) { (Err(_), None) => {}, (Ok((cur, node)), Some(w)) => {
      let c = &node.content;
      let somes = [c._0().is_some(), c._1().is_some(), c._2().is_some(), c._3().is_some(), c._4().is_some(), c._5().is_some(), c._6().is_some(), c._7().is_some(), c._8().is_some(), c._9().is_some(), c._10().is_some()]; n_checks += 1;
      if somes.iter().filter(|b| **b).count() != 1 || !somes[w] { bad += 1; println!("C17 accessor c11 m={} somes={:?} want={}", m, somes, w); }
      if pest_typed::Input::byte_offset(&cur) != 11 - w { bad += 1; println!("C17 offset c11 m={}", m); }
      let mut calls = 0usize; let idx = c.if_then(|_| 0usize).else_if(|_| 1usize).else_if(|_| 2usize).else_if(|_| 3usize).else_if(|_| 4usize).else_if(|_| 5usize).else_if(|_| 6usize).else_if(|_| 7usize).else_if(|_| 8usize).else_if(|_| 9usize).else_then(|_| 10usize); if idx != w { bad += 1; println!("C17 chain c11 m={} idx={} want={}", m, idx, w); }
      let idx2 = { use generics; match_choices!(&**c { a0 => 0usize, a1 => 1usize, a2 => 2usize, a3 => 3usize, a4 => 4usize, a5 => 5usize, a6 => 6usize, a7 => 7usize, a8 => 8usize, a9 => 9usize, a10 => 10usize, }) }; if idx2 != w { bad += 1; println!("C17 match_choices c11 m={} idx={} want={}", m, idx2, w); }
    }, (a, b) => { bad += 1; println!("C17 verdict c11 m={} want={:?} ok={}", m, b, a.is_ok()); } } }
  { let s = "a b c d e f g h i j k"; let node = rules::s11::try_parse(s).unwrap(); let t = node.content.get_matched();
    let got: Vec<&str> = vec![t.0.get_content(), t.1.get_content(), t.2.get_content(), t.3.get_content(), t.4.get_content(), t.5.get_content(), t.6.get_content(), t.7.get_content(), t.8.get_content(), t.9.get_content(), t.10.get_content()]; let want: Vec<String> = (0..11).map(|i| ((97u8 + i as u8) as char).to_string()).collect(); n_checks += 1;
    if got.iter().map(|x| x.to_string()).collect::<Vec<_>>() != want { bad += 1; println!("C17 seq s11 {:?}", got); } }
  for m in 0..=14 { let s = "x".repeat(m); let r = rules::c12::try_parse_partial(s.as_str());
    let want: Option<usize> = if m == 0 { None } else if m >= 12 { Some(0) } else { Some(12 - m) };
    match (r, want) { (Err(_), None) => {}, (Ok((cur, node)), Some(w)) => {
      let c = &node.content;
      let somes = [c._0().is_some(), c._1().is_some(), c._2().is_some(), c._3().is_some(), c._4().is_some(), c._5().is_some(), c._6().is_some(), c._7().is_some(), c._8().is_some(), c._9().is_some(), c._10().is_some(), c._11().is_some()]; n_checks += 1;
      if somes.iter().filter(|b| **b).count() != 1 || !somes[w] { bad += 1; println!("C17 accessor c12 m={} somes={:?} want={}", m, somes, w); }
      if pest_typed::Input::byte_offset(&cur) != 12 - w { bad += 1; println!("C17 offset c12 m={}", m); }
      let mut calls = 0usize; let idx = c.if_then(|_| 0usize).else_if(|_| 1usize).else_if(|_| 2usize).else_if(|_| 3usize).else_if(|_| 4usize).else_if(|_| 5usize).else_if(|_| 6usize).else_if(|_| 7usize).else_if(|_| 8usize).else_if(|_| 9usize).else_if(|_| 10usize).else_then(|_| 11usize); if idx != w { bad += 1; println!("C17 chain c12 m={} idx={} want={}", m, idx, w); }
      let idx2 = { use generics; match_choices!(&**c { a0 => 0usize, a1 => 1usize, a2 => 2usize, a3 => 3usize, a4 => 4usize, a5 => 5usize, a6 => 6usize, a7 => 7usize, a8 => 8usize, a9 => 9usize, a10 => 10usize, a11 => 11usize, }) }; if idx2 != w { bad += 1; println!("C17 match_choices c12 m={} idx={} want={}", m, idx2, w); }
    }, (a, b) => { bad += 1; println!("C17 verdict c12 m={} want={:?} ok={}", m, b, a.is_ok()); } } }
  { let s = "a b c d e f g h i j k l"; let node = rules::s12::try_parse(s).unwrap(); let t = node.content.get_matched();
    let got: Vec<&str> = vec![t.0.get_content(), t.1.get_content(), t.2.get_content(), t.3.get_content(), t.4.get_content(), t.5.get_content(), t.6.get_content(), t.7.get_content(), t.8.get_content(), t.9.get_content(), t.10.get_content(), t.11.get_content()]; let want: Vec<String> = (0..12).map(|i| ((97u8 + i as u8) as char).to_string()).collect(); n_checks += 1;
    if got.iter().map(|x| x.to_string()).collect::<Vec<_>>() != want { bad += 1; println!("C17 seq s12 {:?}", got); } }
  for m in 0..=15 { let s = "x".repeat(m); let r = rules::c13::try_parse_partial(s.as_str());
    let want: Option<usize> = if m == 0 { None } else if m >= 13 { Some(0) } else { Some(13 - m) };
    match (r, want) { (Err(_), None) => {}, (Ok((cur, node)), Some(w)) => {
      let c = &node.content;
      let somes = [c._0().is_some(), c._1().is_some(), c._2().is_some(), c._3().is_some(), c._4().is_some(), c._5().is_some(), c._6().is_some(), c._7().is_some(), c._8().is_some(), c._9().is_some(), c._10().is_some(), c._11().is_some(), c._12().is_some()]; n_checks += 1;
      if somes.iter().filter(|b| **b).count() != 1 || !somes[w] { bad += 1; println!("C17 accessor c13 m={} somes={:?} want={}", m, somes, w); }
      if pest_typed::Input::byte_offset(&cur) != 13 - w { bad += 1; println!("C17 offset c13 m={}", m); }
      let mut calls = 0usize; let idx = c.if_then(|_| 0usize).else_if(|_| 1usize).else_if(|_| 2usize).else_if(|_| 3usize).else_if(|_| 4usize).else_if(|_| 5usize).else_if(|_| 6usize).else_if(|_| 7usize).else_if(|_| 8usize).else_if(|_| 9usize).else_if(|_| 10usize).else_if(|_| 11usize).else_then(|_| 12usize); if idx != w { bad += 1; println!("C17 chain c13 m={} idx={} want={}", m, idx, w); }
      let idx2 = { use generics; match_choices!(&**c { a0 => 0usize, a1 => 1usize, a2 => 2usize, a3 => 3usize, a4 => 4usize, a5 => 5usize, a6 => 6usize, a7 => 7usize, a8 => 8usize, a9 => 9usize, a10 => 10usize, a11 => 11usize, a12 => 12usize, }) }; if idx2 != w { bad += 1; println!("C17 match_choices c13 m={} idx={} want={}", m, idx2, w); }
    }, (a, b) => { bad += 1; println!("C17 verdict c13 m={} want={:?} ok={}", m, b, a.is_ok()); } } }
  { let s = "a b c d e f g h i j k l m"; let node = rules::s13::try_parse(s).unwrap(); let t = node.content.get_matched();
    let got: Vec<&str> = vec![t.0.get_content(), t.1.get_content(), t.2.get_content(), t.3.get_content(), t.4.get_content(), t.5.get_content(), t.6.get_content(), t.7.get_content(), t.8.get_content(), t.9.get_content(), t.10.get_content(), t.11.get_content(), t.12.get_content()]; let want: Vec<String> = (0..13).map(|i| ((97u8 + i as u8) as char).to_string()).collect(); n_checks += 1;
    if got.iter().map(|x| x.to_string()).collect::<Vec<_>>() != want { bad += 1; println!("C17 seq s13 {:?}", got); } }
  for m in 0..=16 { let s = "x".repeat(m); let r = rules::c14::try_parse_partial(s.as_str());
    let want: Option<usize> = if m == 0 { None } else if m >= 14 { Some(0) } else { Some(14 - m) };
    match (r, want) { (Err(_), None) => {}, (Ok((cur, node)), Some(w)) => {
      let c = &node.content;
      let somes = [c._0().is_some(), c._1().is_some(), c._2().is_some(), c._3().is_some(), c._4().is_some(), c._5().is_some(), c._6().is_some(), c._7().is_some(), c._8().is_some(), c._9().is_some(), c._10().is_some(), c._11().is_some(), c._12().is_some(), c._13().is_some()]; n_checks += 1;
      if somes.iter().filter(|b| **b).count() != 1 || !somes[w] { bad += 1; println!("C17 accessor c14 m={} somes={:?} want={}", m, somes, w); }
      if pest_typed::Input::byte_offset(&cur) != 14 - w { bad += 1; println!("C17 offset c14 m={}", m); }
      let mut calls = 0usize; let idx = c.if_then(|_| 0usize).else_if(|_| 1usize).else_if(|_| 2usize).else_if(|_| 3usize).else_if(|_| 4usize).else_if(|_| 5usize).else_if(|_| 6usize).else_if(|_| 7usize).else_if(|_| 8usize).else_if(|_| 9usize).else_if(|_| 10usize).else_if(|_| 11usize).else_if(|_| 12usize).else_then(|_| 13usize); if idx != w { bad += 1; println!("C17 chain c14 m={} idx={} want={}", m, idx, w); }
      let idx2 = { use generics; match_choices!(&**c { a0 => 0usize, a1 => 1usize, a2 => 2usize, a3 => 3usize, a4 => 4usize, a5 => 5usize, a6 => 6usize, a7 => 7usize, a8 => 8usize, a9 => 9usize, a10 => 10usize, a11 => 11usize, a12 => 12usize, a13 => 13usize, }) }; if idx2 != w { bad += 1; println!("C17 match_choices c14 m={} idx={} want={}", m, idx2, w); }
    }, (a, b) => { bad += 1; println!("C17 verdict c14 m={} want={:?} ok={}", m, b, a.is_ok()); } } }
  { let s = "a b c d e f g h i j k l m n"; let node = rules::s14::try_parse(s).unwrap(); let t = node.content.get_matched();
    let got: Vec<&str> = vec![t.0.get_content(), t.1.get_content(), t.2.get_content(), t.3.get_content(), t.4.get_content(), t.5.get_content(), t.6.get_content(), t.7.get_content(), t.8.get_content(), t.9.get_content(), t.10.get_content(), t.11.get_content(), t.12.get_content(), t.13.get_content()]; let want: Vec<String> = (0..14).map(|i| ((97u8 + i as u8) as char).to_string()).collect(); n_checks += 1;
    if got.iter().map(|x| x.to_string()).collect::<Vec<_>>() != want { bad += 1; println!("C17 seq s14 {:?}", got); } }
  for m in 0..=17 { let s = "x".repeat(m); let r = rules::c15::try_parse_partial(s.as_str());
    let want: Option<usize> = if m == 0 { None } else if m >= 15 { Some(0) } else { Some(15 - m) };
    match (r, want) { (Err(_), None) => {}, (Ok((cur, node)), Some(w)) => {
      let c = &node.content;
      let somes = [c._0().is_some(), c._1().is_some(), c._2().is_some(), c._3().is_some(), c._4().is_some(), c._5().is_some(), c._6().is_some(), c._7().is_some(), c._8().is_some(), c._9().is_some(), c._10().is_some(), c._11().is_some(), c._12().is_some(), c._13().is_some(), c._14().is_some()]; n_checks += 1;
      if somes.iter().filter(|b| **b).count() != 1 || !somes[w] { bad += 1; println!("C17 accessor c15 m={} somes={:?} want={}", m, somes, w); }
      if pest_typed::Input::byte_offset(&cur) != 15 - w { bad += 1; println!("C17 offset c15 m={}", m); }
      let mut calls = 0usize; let idx = c.if_then(|_| 0usize).else_if(|_| 1usize).else_if(|_| 2usize).else_if(|_| 3usize).else_if(|_| 4usize).else_if(|_| 5usize).else_if(|_| 6usize).else_if(|_| 7usize).else_if(|_| 8usize).else_if(|_| 9usize).else_if(|_| 10usize).else_if(|_| 11usize).else_if(|_| 12usize).else_if(|_| 13usize).else_then(|_| 14usize); if idx != w { bad += 1; println!("C17 chain c15 m={} idx={} want={}", m, idx, w); }
      let idx2 = { use generics; match_choices!(&**c { a0 => 0usize, a1 => 1usize, a2 => 2usize, a3 => 3usize, a4 => 4usize, a5 => 5usize, a6 => 6usize, a7 => 7usize, a8 => 8usize, a9 => 9usize, a10 => 10usize, a11 => 11usize, a12 => 12usize, a13 => 13usize, a14 => 14usize, }) }; if idx2 != w { bad += 1; println!("C17 match_choices c15 m={} idx={} want={}", m, idx2, w); }
    }, (a, b) => { bad += 1; println!("C17 verdict c15 m={} want={:?} ok={}", m, b, a.is_ok()); } } }
  { let s = "a b c d e f g h i j k l m n o"; let node = rules::s15::try_parse(s).unwrap(); let t = node.content.get_matched();
    let got: Vec<&str> = vec![t.0.get_content(), t.1.get_content(), t.2.get_content(), t.3.get_content(), t.4.get_content(), t.5.get_content(), t.6.get_content(), t.7.get_content(), t.8.get_content(), t.9.get_content(), t.10.get_content(), t.11.get_content(), t.12.get_content(), t.13.get_content(), t.14.get_content()]; let want: Vec<String> = (0..15).map(|i| ((97u8 + i as u8) as char).to_string()).collect(); n_checks += 1;
    if got.iter().map(|x| x.to_string()).collect::<Vec<_>>() != want { bad += 1; println!("C17 seq s15 {:?}", got); } }
  for m in 0..=18 { let s = "x".repeat(m); let r = rules::c16::try_parse_partial(s.as_str());
    let want: Option<usize> = if m == 0 { None } else if m >= 16 { Some(0) } else { Some(16 - m) };
    match (r, want) { (Err(_), None) => {}, (Ok((cur, node)), Some(w)) => {
      let c = &node.content;
      let somes = [c._0().is_some(), c._1().is_some(), c._2().is_some(), c._3().is_some(), c._4().is_some(), c._5().is_some(), c._6().is_some(), c._7().is_some(), c._8().is_some(), c._9().is_some(), c._10().is_some(), c._11().is_some(), c._12().is_some(), c._13().is_some(), c._14().is_some(), c._15().is_some()]; n_checks += 1;
      if somes.iter().filter(|b| **b).count() != 1 || !somes[w] { bad += 1; println!("C17 accessor c16 m={} somes={:?} want={}", m, somes, w); }
      if pest_typed::Input::byte_offset(&cur) != 16 - w { bad += 1; println!("C17 offset c16 m={}", m); }
      let mut calls = 0usize; let idx = c.if_then(|_| 0usize).else_if(|_| 1usize).else_if(|_| 2usize).else_if(|_| 3usize).else_if(|_| 4usize).else_if(|_| 5usize).else_if(|_| 6usize).else_if(|_| 7usize).else_if(|_| 8usize).else_if(|_| 9usize).else_if(|_| 10usize).else_if(|_| 11usize).else_if(|_| 12usize).else_if(|_| 13usize).else_if(|_| 14usize).else_then(|_| 15usize); if idx != w { bad += 1; println!("C17 chain c16 m={} idx={} want={}", m, idx, w); }
      let idx2 = { use generics; match_choices!(&**c { a0 => 0usize, a1 => 1usize, a2 => 2usize, a3 => 3usize, a4 => 4usize, a5 => 5usize, a6 => 6usize, a7 => 7usize, a8 => 8usize, a9 => 9usize, a10 => 10usize, a11 => 11usize, a12 => 12usize, a13 => 13usize, a14 => 14usize, a15 => 15usize, }) }; if idx2 != w { bad += 1; println!("C17 match_choices c16 m={} idx={} want={}", m, idx2, w); }
    }, (a, b) => { bad += 1; println!("C17 verdict c16 m={} want={:?} ok={}", m, b, a.is_ok()); } } }
  { let s = "a b c d e f g h i j k l m n o p"; let node = rules::s16::try_parse(s).unwrap(); let t = node.content.get_matched();
    let got: Vec<&str> = vec![t.0.get_content(), t.1.get_content(), t.2.get_content(), t.3.get_content(), t.4.get_content(), t.5.get_content(), t.6.get_content(), t.7.get_content(), t.8.get_content(), t.9.get_content(), t.10.get_content(), t.11.get_content(), t.12.get_content(), t.13.get_content(), t.14.get_content(), t.15.get_content()]; let want: Vec<String> = (0..16).map(|i| ((97u8 + i as u8) as char).to_string()).collect(); n_checks += 1;
    if got.iter().map(|x| x.to_string()).collect::<Vec<_>>() != want { bad += 1; println!("C17 seq s16 {:?}", got); } }
  println!("checks={} bad={}", n_checks, bad); }