// Exploration only (C19): bounded repetition instantiated directly from the runtime crate vs a naive reference.
use pest_typed::{predefined_node::*, choices::Choice2, tracker::Tracker, Input, AsInput, Stack, StringWrapper, TypedNode};
#[derive(Clone, Copy, Debug, Eq, Hash, Ord, PartialEq, PartialOrd)]
enum Rule { EOI }
#[derive(Clone, Hash, PartialEq, Eq)] struct A; impl StringWrapper for A { const CONTENT: &'static str = "a"; }
#[derive(Clone, Hash, PartialEq, Eq)] struct AB; impl StringWrapper for AB { const CONTENT: &'static str = "ab"; }
type Elem = Choice2<Str<AB>, Str<A>>;
type Ignore = AtomicRepeat<CharRange<' ', ' '>>;

fn elem_ref(s: &str, p: usize) -> Option<usize> { if s[p..].starts_with("ab") { Some(p + 2) } else if s[p..].starts_with("a") { Some(p + 1) } else { None } }
fn skip_ref(s: &str, mut p: usize) -> usize { while s[p..].starts_with(' ') { p += 1 } p }
/// reference: greedy, at most max, skip only between iterations and given back, fail iff < min
fn rep_ref(s: &str, skip: bool, min: usize, max: Option<usize>) -> Option<(usize, usize)> {
    let mut p = 0; let mut n = 0;
    loop {
        if let Some(m) = max { if n >= m { break; } }
        let q = if n > 0 && skip { skip_ref(s, p) } else { p };
        match elem_ref(s, q) { Some(e) => { p = e; n += 1; } None => break }
    }
    if n < min { None } else { Some((p, n)) }
}
fn inputs(maxlen: usize) -> Vec<String> {
    let alpha = ['a', 'b', ' ']; let mut res = vec![String::new()]; let mut fr = vec![String::new()];
    for _ in 0..maxlen { let mut nx = vec![]; for s in &fr { for c in alpha { let mut t = s.clone(); t.push(c); nx.push(t); } } res.extend(nx.iter().cloned()); fr = nx; }
    res
}
fn probe_minmax<const SKIP: usize, const MIN: usize, const MAX: usize>(ins: &[String], bad: &mut Vec<String>) {
    for s in ins {
        let i = s.as_str().as_input();
        let p = RepMinMax::<Elem, Ignore, SKIP, MIN, MAX>::try_parse_partial_with(i, &mut Stack::new(), &mut Tracker::<Rule>::new(i)).map(|(c, v)| (c.byte_offset(), v.content.len()));
        let c = RepMinMax::<Elem, Ignore, SKIP, MIN, MAX>::try_check_partial_with(i, &mut Stack::new(), &mut Tracker::<Rule>::new(i)).map(|c| c.byte_offset());
        let r = rep_ref(s, SKIP == 1, MIN, Some(MAX));
        if p != r { bad.push(format!("RepMinMax<skip={},{},{}> {:?}: parse={:?} ref={:?}", SKIP, MIN, MAX, s, p, r)); }
        if p.map(|x| x.0) != c { bad.push(format!("RepMinMax<skip={},{},{}> {:?}: parse={:?} check={:?}", SKIP, MIN, MAX, s, p, c)); }
    }
}
fn probe_min<const SKIP: usize, const MIN: usize>(ins: &[String], bad: &mut Vec<String>) {
    for s in ins {
        let i = s.as_str().as_input();
        let p = RepMin::<Elem, Ignore, SKIP, MIN>::try_parse_partial_with(i, &mut Stack::new(), &mut Tracker::<Rule>::new(i)).map(|(c, v)| (c.byte_offset(), v.content.len()));
        let c = RepMin::<Elem, Ignore, SKIP, MIN>::try_check_partial_with(i, &mut Stack::new(), &mut Tracker::<Rule>::new(i)).map(|c| c.byte_offset());
        let r = rep_ref(s, SKIP == 1, MIN, None);
        if p != r { bad.push(format!("RepMin<skip={},{}> {:?}: parse={:?} ref={:?}", SKIP, MIN, s, p, r)); }
        if p.map(|x| x.0) != c { bad.push(format!("RepMin<skip={},{}> {:?}: parse={:?} check={:?}", SKIP, MIN, s, p, c)); }
    }
}
macro_rules! all_max { ($sk:literal, $min:literal, $ins:expr, $bad:expr) => { probe_minmax::<$sk, $min, 0>($ins, $bad); probe_minmax::<$sk, $min, 1>($ins, $bad); probe_minmax::<$sk, $min, 2>($ins, $bad); probe_minmax::<$sk, $min, 3>($ins, $bad); probe_minmax::<$sk, $min, 4>($ins, $bad); } }
macro_rules! all_min { ($sk:literal, $ins:expr, $bad:expr) => { all_max!($sk, 0, $ins, $bad); all_max!($sk, 1, $ins, $bad); all_max!($sk, 2, $ins, $bad); all_max!($sk, 3, $ins, $bad); all_max!($sk, 4, $ins, $bad);
    probe_min::<$sk, 0>($ins, $bad); probe_min::<$sk, 1>($ins, $bad); probe_min::<$sk, 2>($ins, $bad); probe_min::<$sk, 3>($ins, $bad); probe_min::<$sk, 4>($ins, $bad); } }
fn main() {
    let ins = inputs(7); let mut bad = vec![];
    all_min!(0, &ins, &mut bad); all_min!(1, &ins, &mut bad);
    println!("inputs={} mismatches={}", ins.len(), bad.len());
    let mut seen = std::collections::BTreeMap::new();
    for b in &bad { let k = b.split(' ').next().unwrap().to_string(); let e = seen.entry(k).or_insert((0usize, b.clone())); e.0 += 1; }
    for (k, (n, ex)) in seen { println!("{:6} {}   e.g. {}", n, k, ex); }
}
