#!/usr/bin/env python3
"""Exploration only (see README.md).  usage: mk_diff.py <grammars.jsonl(valid only)> <outdir> <K bins> <maxlen>"""
import json, os, sys, itertools

src, out, K, L = sys.argv[1], sys.argv[2], int(sys.argv[3]), int(sys.argv[4])
ALPHA = sys.argv[5] if len(sys.argv) > 5 else "ab c/"
gs = [json.loads(l) for l in open(src)]
os.makedirs(out, exist_ok=True)

COMMON = r'''
use pest_typed::{ParsableTypedNode, iterators::{Pair, ThinToken}};
#[path = "/verif/design_prototypes/explore/spec_interp.rs"] pub mod spec;
pub use spec::T;
pub fn from_thin<R: pest_typed::RuleType>(t: &ThinToken<R>) -> T {
    T(format!("{:?}", t.rule), t.start, t.end, t.children.iter().map(from_thin).collect())
}
pub fn from_pest<R: pest::RuleType>(p: pest::iterators::Pair<'_, R>, atomic: &dyn Fn(&str) -> bool) -> T {
    let name = format!("{:?}", p.as_rule());
    let (s, e) = (p.as_span().start(), p.as_span().end());
    let ch = if atomic(&name) { vec![] } else { p.into_inner().map(|c| from_pest(c, atomic)).collect() };
    T(name, s, e, ch)
}
pub fn shift(t: &T, a: usize) -> T { T(t.0.clone(), t.1 + a, t.2 + a, t.3.iter().map(|c| shift(c, a)).collect()) }
pub const SPAN_MAXLEN: usize = 3;
pub const ALPHA: [char; ALPHA_N] = ALPHA_V;
pub fn inputs(alpha: &[char], maxlen: usize) -> Vec<String> {
    let mut res = vec![String::new()];
    let mut frontier = vec![String::new()];
    for _ in 0..maxlen {
        let mut next = vec![];
        for s in &frontier { for c in alpha { let mut t = s.clone(); t.push(*c); next.push(t); } }
        res.extend(next.iter().cloned());
        frontier = next;
    }
    res
}
'''

def esc(s):
    return s

bins = [[] for _ in range(K)]
for i, g in enumerate(gs):
    bins[i % K].append(g)

members = []
for b, glist in enumerate(bins):
    if not glist: continue
    d = os.path.join(out, f"b{b}")
    os.makedirs(os.path.join(d, "src"), exist_ok=True)
    members.append(f"b{b}")
    with open(os.path.join(d, "Cargo.toml"), "w") as f:
        f.write(f'''[package]
name = "b{b}"
version = "0.0.0"
edition = "2021"
[dependencies]
pest_typed = {{ path = "/repo/main" }}
pest_typed_derive = {{ path = "/repo/derive" }}
pest = "=2.7.14"
pest_derive = "=2.7.14"
pest_meta = "=2.7.14"
''')
    code = ["#![allow(warnings)]", COMMON.replace("ALPHA_N", str(len(ALPHA))).replace("ALPHA_V", "[" + ", ".join("'\\u{%x}'" % ord(c) for c in ALPHA) + "]")]
    for g in glist:
        gid = g["id"]
        code.append(f'''
mod t{gid} {{
    use pest_typed_derive::TypedParser;
    #[derive(TypedParser)]
    #[grammar_inline = r##"{g["text"]}"##]
    pub struct P;
}}
mod p{gid} {{
    #[derive(pest_derive::Parser)]
    #[grammar_inline = r##"{g["text"]}"##]
    pub struct P;
}}
fn run{gid}(ins: &[String]) -> Vec<String> {{
    use pest::Parser;
    let mut out = vec![];
    let atomic = |n: &str| -> bool {{ match n {{ {" ".join(f'"{n}" => true,' for n,k in g["kinds"].items() if k in ("@","$"))} _ => false }} }};
    let (mut n_ok, mut n_err, mut n_panic, mut n_div) = (0usize, 0usize, 0usize, 0usize);
    let spec = spec::Spec::new(r##"{g["text"]}"##).unwrap();
''')
        for rule, kind in g["kinds"].items():
            if kind == "_": continue
            code.append(f'''
    for s in ins {{
        let typed = match t{gid}::rules::r#{rule}::try_parse_partial(s.as_str()) {{
            Ok((cur, node)) => Some((pest_typed::Input::byte_offset(&cur), from_thin(&node.as_thin_token()))),
            Err(_) => None,
        }};
        // C03: check-only path vs parsing path (partial and full), model-free
        let chk = t{gid}::rules::r#{rule}::try_check_partial(s.as_str()).ok().map(|c| pest_typed::Input::byte_offset(&c));
        if chk != typed.as_ref().map(|x| x.0) {{ out.push(format!("MISMATCH-C03 g{gid} {rule} {{:?}} parse={{:?}} check={{:?}}", s, typed.as_ref().map(|x| x.0), chk)); }}
        let fp = t{gid}::rules::r#{rule}::try_parse(s.as_str()).map(|_| ()).map_err(|e| e.to_string());
        let fc = t{gid}::rules::r#{rule}::try_check(s.as_str()).map_err(|e| e.to_string());
        if fp != fc {{ out.push(format!("MISMATCH-C03FULL g{gid} {rule} {{:?}} parse={{:?}} check={{:?}}", s, fp, fc)); }}
        // C08: every sub-span / position vs a fresh copy of the slice, model-free
        if s.chars().count() <= SPAN_MAXLEN {{
            let bs: Vec<usize> = (0..=s.len()).filter(|i| s.is_char_boundary(*i)).collect();
            for &a in &bs {{ for &b in bs.iter().filter(|b| **b >= a) {{
                let fresh: String = s[a..b].to_owned();
                let rf = t{gid}::rules::r#{rule}::try_parse_partial(fresh.as_str()).ok().map(|(c, n)| (pest_typed::Input::byte_offset(&c) + a, shift(&from_thin(&n.as_thin_token()), a)));
                let rs = t{gid}::rules::r#{rule}::try_parse_partial(pest_typed::Span::new(s.as_str(), a, b).unwrap()).ok().map(|(c, n)| (pest_typed::Input::byte_offset(&c), from_thin(&n.as_thin_token())));
                if rf != rs {{ out.push(format!("MISMATCH-C08 g{gid} {rule} {{:?}} {{}}..{{}} span={{:?}} fresh={{:?}}", s, a, b, rs.map(|x| x.0), rf.map(|x| x.0))); }}
                let ff = t{gid}::rules::r#{rule}::try_parse(fresh.as_str()).is_ok();
                let fs = t{gid}::rules::r#{rule}::try_parse(pest_typed::Span::new(s.as_str(), a, b).unwrap()).is_ok();
                if ff != fs {{ out.push(format!("MISMATCH-C08FULL g{gid} {rule} {{:?}} {{}}..{{}} span={{}} fresh={{}}", s, a, b, fs, ff)); }}
            }} }}
        }}
        let s2 = s.clone();
        let pestr = std::panic::catch_unwind(move || {{
            match p{gid}::P::parse(p{gid}::Rule::r#{rule}, s2.as_str()) {{
                Ok(mut pairs) => {{ let p = pairs.next().unwrap(); let e = p.as_span().end(); Some((e, from_pest(p, &atomic))) }}
                Err(_) => None,
            }}
        }});
        // Spec (reference PEG semantics, immutable stack) vs typed; Spec vs pest where pest returns
        let specr = match spec.run("{rule}", s.as_str(), 2_000_000) {{
            Ok(Some((e, toks))) => Some(Some((e, spec::nest(&toks, &atomic).into_iter().next().unwrap()))),
            Ok(None) => Some(None),
            Err(_) => None,
        }};
        if let Some(sr) = &specr {{
            if sr.as_ref().map(|x| x.0) != typed.as_ref().map(|x| x.0) {{ out.push(format!("MISMATCH-SPEC-TYPED-OFFSET g{gid} {rule} {{:?}} typed={{:?}} spec={{:?}}", s, typed.as_ref().map(|x| x.0), sr.as_ref().map(|x| x.0))); }}
            else if *sr != typed {{ out.push(format!("MISMATCH-SPEC-TYPED-TREE g{gid} {rule} {{:?}}\n   typed={{:?}}\n   spec ={{:?}}", s, typed.as_ref().map(|x| &x.1), sr.as_ref().map(|x| &x.1))); }}
            if let Ok(pr) = &pestr {{
                if sr.as_ref().map(|x| x.0) != pr.as_ref().map(|x| x.0) {{ out.push(format!("MISMATCH-SPEC-PEST-OFFSET g{gid} {rule} {{:?}} pest={{:?}} spec={{:?}}", s, pr.as_ref().map(|x| x.0), sr.as_ref().map(|x| x.0))); }}
                else if sr != pr {{ out.push(format!("MISMATCH-SPEC-PEST-TREE g{gid} {rule} {{:?}}\n   pest={{:?}}\n   spec={{:?}}", s, pr.as_ref().map(|x| &x.1), sr.as_ref().map(|x| &x.1))); }}
            }}
        }} else {{ n_div += 1; }}
        match pestr {{
            Err(_) => {{ n_panic += 1; }}
            Ok(pr) => {{
                if pr.is_some() {{ n_ok += 1 }} else {{ n_err += 1 }}
                let tv = typed.as_ref().map(|x| x.0); let pv = pr.as_ref().map(|x| x.0);
                if tv != pv {{ out.push(format!("MISMATCH-OFFSET g{gid} {rule} {{:?}} typed={{:?}} pest={{:?}}", s, tv, pv)); }}
                else if typed != pr {{ out.push(format!("MISMATCH-TREE g{gid} {rule} {{:?}}\\n   typed={{:?}}\\n   pest ={{:?}}", s, typed.map(|x| x.1), pr.map(|x| x.1))); }}
            }}
        }}
    }}
''')
        code.append(f'''    out.push(format!("STAT g{gid} ok={{}} err={{}} panic={{}} diverge={{}}", n_ok, n_err, n_panic, n_div));
    out
}}
''')
    code.append(f'''
fn main() {{
    std::panic::set_hook(Box::new(|_| {{}}));
    let ins = inputs(&ALPHA, {L});
    let jobs: Vec<(usize, fn(&[String]) -> Vec<String>)> = vec![{", ".join(f"({g['id']}, run{g['id']} as fn(&[String]) -> Vec<String>)" for g in glist)}];
    for (gid, f) in jobs {{
        let (tx, rx) = std::sync::mpsc::channel();
        let ins2 = ins.clone();
        std::thread::Builder::new().stack_size(64 << 20).spawn(move || {{ let r = f(&ins2); let _ = tx.send(r); }}).unwrap();
        match rx.recv_timeout(std::time::Duration::from_secs(20)) {{
            Ok(lines) => {{ for l in lines.iter().take(12) {{ println!("{{}}", l); }} if lines.len() > 12 {{ println!("... g{{}}: {{}} more lines", gid, lines.len() - 12); }} }}
            Err(_) => println!("TIMEOUT g{{}}", gid),
        }}
    }}
    std::process::exit(0);
}}
''')
    open(os.path.join(d, "src", "main.rs"), "w").write("\n".join(code))

with open(os.path.join(out, "Cargo.toml"), "w") as f:
    f.write("[workspace]\nresolver = \"2\"\nmembers = [" + ", ".join(f'"{m}"' for m in members) + "]\n")
print("bins:", members)
