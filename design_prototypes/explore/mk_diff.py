#!/usr/bin/env python3
"""Exploration only (see README.md).
usage: mk_diff.py <grammars.jsonl (valid only)> <outdir> <K bins> <maxlen> [alphabet]
env EXTRAS=1 adds the model-free / Spec-based checks for C10, C15, C18, C20 (slower to compile).

Templates use @NAME@ placeholders (no f-strings: the payload is Rust full of braces)."""
import json, os, re, sys

src, out, K, L = sys.argv[1], sys.argv[2], int(sys.argv[3]), int(sys.argv[4])
ALPHA = sys.argv[5] if len(sys.argv) > 5 else "ab c/"
EXTRAS = os.environ.get("EXTRAS") == "1"
gs = [json.loads(l) for l in open(src)]
GETTERS = {}
if os.environ.get("GETTERS"):
    for g, l in zip(gs, open(os.environ["GETTERS"])):
        GETTERS[g["id"]] = json.loads(l)
os.makedirs(out, exist_ok=True)

def fill(t, **kw):
    for k, v in kw.items():
        t = t.replace("@" + k + "@", str(v))
    return t

COMMON = r'''
use pest_typed::{ParsableTypedNode, iterators::{Pair, ThinToken}};
#[path = "/verif/design_prototypes/explore/spec_interp.rs"] pub mod spec;
pub use spec::T;
pub fn from_thin<R: pest_typed::RuleType>(t: &ThinToken<R>) -> T {
    T(format!("{:?}", t.rule), t.start, t.end, t.children.iter().map(from_thin).collect())
}
pub fn from_pest<R: pest::RuleType>(p: pest::iterators::Pair<'_, R>, atomic: &dyn Fn(&str) -> bool) -> T {
    let name = format!("{:?}", p.as_rule());
    let (s, e) = (p.as_span().start(), p.as_span().end());
    let ch = if atomic(&name) { vec![] } else { p.into_inner().map(|c| from_pest(c, atomic)).collect() };
    T(name, s, e, ch)
}
pub fn shift(t: &T, a: usize) -> T { T(t.0.clone(), t.1 + a, t.2 + a, t.3.iter().map(|c| shift(c, a)).collect()) }
pub fn tok_to_t<R: pest_typed::RuleType>(t: &pest_typed::iterators::Token<'_, R>) -> T {
    T(format!("{:?}", t.rule), t.span.start(), t.span.end(), t.children.iter().map(tok_to_t).collect())
}
pub fn dfs(t: &T, d: usize, out: &mut Vec<(String, usize, usize, usize)>) { out.push((t.0.clone(), t.1, t.2, d)); for c in &t.3 { dfs(c, d + 1, out); } }
pub fn bfs(t: &T) -> Vec<(String, usize, usize)> { let mut lvl = vec![t]; let mut out = vec![]; while !lvl.is_empty() { let mut nx = vec![]; for n in lvl { out.push((n.0.clone(), n.1, n.2)); nx.extend(n.3.iter()); } lvl = nx; } out }
pub fn render(t: &T, d: usize, input: &str, out: &mut String) {
    if t.3.is_empty() { out.push_str(&format!("{}{} {:?}\n", "    ".repeat(d), t.0, &input[t.1..t.2])); }
    else { out.push_str(&format!("{}{}\n", "    ".repeat(d), t.0)); for c in &t.3 { render(c, d + 1, input, out); } }
}
pub trait Flat<'i, R> { fn flat(&self, out: &mut Vec<(usize, usize)>); }
impl<'s, 'i, R: pest_typed::RuleType, X: pest_typed::Spanned<'i, R>> Flat<'i, R> for &'s X { fn flat(&self, out: &mut Vec<(usize, usize)>) { let sp = self.span(); out.push((sp.start(), sp.end())); } }
impl<'i, R, A: Flat<'i, R>> Flat<'i, R> for Option<A> { fn flat(&self, out: &mut Vec<(usize, usize)>) { if let Some(a) = self { a.flat(out); } } }
impl<'i, R, A: Flat<'i, R>> Flat<'i, R> for Vec<A> { fn flat(&self, out: &mut Vec<(usize, usize)>) { for a in self { a.flat(out); } } }
macro_rules! flat_tuple { ($($n:ident $i:tt),+) => { impl<'i, R, $($n: Flat<'i, R>),+> Flat<'i, R> for ($($n,)+) { fn flat(&self, out: &mut Vec<(usize, usize)>) { $( self.$i.flat(out); )+ } } } }
flat_tuple!(A 0, B 1); flat_tuple!(A 0, B 1, C 2); flat_tuple!(A 0, B 1, C 2, D 3); flat_tuple!(A 0, B 1, C 2, D 3, E 4); flat_tuple!(A 0, B 1, C 2, D 3, E 4, F 5);
flat_tuple!(A 0, B 1, C 2, D 3, E 4, F 5, G 6); flat_tuple!(A 0, B 1, C 2, D 3, E 4, F 5, G 6, H 7); flat_tuple!(A 0, B 1, C 2, D 3, E 4, F 5, G 6, H 7, I 8);
pub fn hash_of<H: std::hash::Hash>(h: &H) -> u64 { use std::hash::Hasher; let mut s = std::collections::hash_map::DefaultHasher::new(); h.hash(&mut s); s.finish() }
pub const SPAN_MAXLEN: usize = 3;
pub const ALPHA: [char; @ALPHA_N@] = @ALPHA_V@;
pub fn inputs(alpha: &[char], maxlen: usize) -> Vec<String> {
    let mut res = vec![String::new()];
    let mut frontier = vec![String::new()];
    for _ in 0..maxlen {
        let mut next = vec![];
        for s in &frontier { for c in alpha { let mut t = s.clone(); t.push(*c); next.push(t); } }
        res.extend(next.iter().cloned());
        frontier = next;
    }
    res
}
'''

MODS = r'''
mod t@GID@ {
    use pest_typed_derive::TypedParser;
    #[derive(TypedParser)]
    #[grammar_inline = r##"@TEXT@"##]
    pub struct P;
}
mod p@GID@ {
    #[derive(pest_derive::Parser)]
    #[grammar_inline = r##"@TEXT@"##]
    pub struct P;
}
'''
MODS_EXTRA = r'''
mod u@GID@ {
    use pest_typed_derive::TypedParser;
    #[derive(TypedParser)]
    #[emit_rule_reference]
    #[box_only_if_needed]
    #[no_warnings]
    #[do_not_emit_span]
    #[grammar_inline = r##"@TEXT@"##]
    pub struct P;
}
'''
MOD_RAW = r'''
mod v@GID@ {
    use pest_typed_derive::TypedParser;
    #[derive(TypedParser)]
    #[pest_optimizer = false]
    #[grammar_inline = r##"@TEXT@"##]
    pub struct P;
}
'''

RUN_HEAD = r'''
fn run@GID@(ins: &[String]) -> Vec<String> {
    use pest::Parser;
    let mut out = vec![];
    let atomic = |n: &str| -> bool { match n { @ATOMIC_ARMS@ _ => false } };
    let (mut n_ok, mut n_err, mut n_panic, mut n_div) = (0usize, 0usize, 0usize, 0usize);
    let spec = spec::Spec::new(r##"@TEXT@"##).unwrap();
'''
RUN_TAIL = r'''    out.push(format!("STAT g@GID@ ok={} err={} panic={} diverge={}", n_ok, n_err, n_panic, n_div));
    out
}
'''

RULE = r'''
    for s in ins {
        let typed = match t@GID@::rules::r#@RULE@::try_parse_partial(s.as_str()) {
            Ok((cur, node)) => Some((pest_typed::Input::byte_offset(&cur), from_thin(&node.as_thin_token()))),
            Err(_) => None,
        };
        // C03: check-only path vs parsing path (partial and full), model-free
        let chk = t@GID@::rules::r#@RULE@::try_check_partial(s.as_str()).ok().map(|c| pest_typed::Input::byte_offset(&c));
        if chk != typed.as_ref().map(|x| x.0) { out.push(format!("MISMATCH-C03 g@GID@ @RULE@ {:?} parse={:?} check={:?}", s, typed.as_ref().map(|x| x.0), chk)); }
        let fp = t@GID@::rules::r#@RULE@::try_parse(s.as_str()).map(|_| ()).map_err(|e| e.to_string());
        let fc = t@GID@::rules::r#@RULE@::try_check(s.as_str()).map_err(|e| e.to_string());
        if fp != fc { out.push(format!("MISMATCH-C03FULL g@GID@ @RULE@ {:?} parse={:?} check={:?}", s, fp, fc)); }
        // C08: every sub-span vs a fresh copy of the slice, model-free
        if s.chars().count() <= SPAN_MAXLEN {
            let bs: Vec<usize> = (0..=s.len()).filter(|i| s.is_char_boundary(*i)).collect();
            for &a in &bs { for &b in bs.iter().filter(|b| **b >= a) {
                let fresh: String = s[a..b].to_owned();
                let rf = t@GID@::rules::r#@RULE@::try_parse_partial(fresh.as_str()).ok().map(|(c, n)| (pest_typed::Input::byte_offset(&c) + a, shift(&from_thin(&n.as_thin_token()), a)));
                let rs = t@GID@::rules::r#@RULE@::try_parse_partial(pest_typed::Span::new(s.as_str(), a, b).unwrap()).ok().map(|(c, n)| (pest_typed::Input::byte_offset(&c), from_thin(&n.as_thin_token())));
                if rf != rs { out.push(format!("MISMATCH-C08 g@GID@ @RULE@ {:?} {}..{} span={:?} fresh={:?}", s, a, b, rs.map(|x| x.0), rf.map(|x| x.0))); }
                let ff = t@GID@::rules::r#@RULE@::try_parse(fresh.as_str()).is_ok();
                let fs = t@GID@::rules::r#@RULE@::try_parse(pest_typed::Span::new(s.as_str(), a, b).unwrap()).is_ok();
                if ff != fs { out.push(format!("MISMATCH-C08FULL g@GID@ @RULE@ {:?} {}..{} span={} fresh={}", s, a, b, fs, ff)); }
            } }
        }
@EXTRA@
        let s2 = s.clone();
        let pestr = std::panic::catch_unwind(move || {
            match p@GID@::P::parse(p@GID@::Rule::r#@RULE@, s2.as_str()) {
                Ok(mut pairs) => { let p = pairs.next().unwrap(); let e = p.as_span().end(); Some((e, from_pest(p, &atomic))) }
                Err(_) => None,
            }
        });
        // Spec (reference PEG semantics, immutable stack) vs typed; Spec vs pest where pest returns
        let specr = match spec.run("@RULE@", s.as_str(), 2_000_000) {
            Ok(Some((e, toks))) => Some(Some((e, spec::nest(&toks, &atomic).into_iter().next().unwrap()))),
            Ok(None) => Some(None),
            Err(_) => None,
        };
        if let Some(sr) = &specr {
            if sr.as_ref().map(|x| x.0) != typed.as_ref().map(|x| x.0) { out.push(format!("MISMATCH-SPEC-TYPED-OFFSET g@GID@ @RULE@ {:?} typed={:?} spec={:?}", s, typed.as_ref().map(|x| x.0), sr.as_ref().map(|x| x.0))); }
            else if *sr != typed { out.push(format!("MISMATCH-SPEC-TYPED-TREE g@GID@ @RULE@ {:?}\n   typed={:?}\n   spec ={:?}", s, typed.as_ref().map(|x| &x.1), sr.as_ref().map(|x| &x.1))); }
            if let Ok(pr) = &pestr {
                if sr.as_ref().map(|x| x.0) != pr.as_ref().map(|x| x.0) { out.push(format!("MISMATCH-SPEC-PEST-OFFSET g@GID@ @RULE@ {:?} pest={:?} spec={:?}", s, pr.as_ref().map(|x| x.0), sr.as_ref().map(|x| x.0))); }
                else if sr != pr { out.push(format!("MISMATCH-SPEC-PEST-TREE g@GID@ @RULE@ {:?}\n   pest={:?}\n   spec={:?}", s, pr.as_ref().map(|x| &x.1), sr.as_ref().map(|x| &x.1))); }
            }
        } else { n_div += 1; }
        match pestr {
            Err(_) => { n_panic += 1; }
            Ok(pr) => {
                if pr.is_some() { n_ok += 1 } else { n_err += 1 }
                let tv = typed.as_ref().map(|x| x.0); let pv = pr.as_ref().map(|x| x.0);
                if tv != pv { out.push(format!("MISMATCH-OFFSET g@GID@ @RULE@ {:?} typed={:?} pest={:?}", s, tv, pv)); }
                else if typed != pr { out.push(format!("MISMATCH-TREE g@GID@ @RULE@ {:?}\n   typed={:?}\n   pest ={:?}", s, typed.map(|x| x.1), pr.map(|x| x.1))); }
            }
        }
    }
'''

EXTRA_OPTS = r'''
        // C20: the same grammar derived with other options must give the same verdict / offset / tree
        {
            let u = u@GID@::rules::r#@RULE@::try_parse_partial(s.as_str()).ok().map(|(c, n)| (pest_typed::Input::byte_offset(&c), from_thin(&n.as_thin_token())));
            if u != typed { out.push(format!("MISMATCH-C20-OPTS g@GID@ @RULE@ {:?} default={:?} with_options={:?}", s, typed.as_ref().map(|x| x.0), u.as_ref().map(|x| x.0))); }
        }
'''
EXTRA_RAW = r'''
        {
            let v = v@GID@::rules::r#@RULE@::try_parse_partial(s.as_str()).ok().map(|(c, n)| (pest_typed::Input::byte_offset(&c), from_thin(&n.as_thin_token())));
            if v != typed { out.push(format!("MISMATCH-C20-RAW g@GID@ @RULE@ {:?} optimized={:?} raw={:?}", s, typed.as_ref().map(|x| x.0), v.as_ref().map(|x| x.0))); }
        }
'''
EXTRA_ERR = r'''
        // C10: error report of the full parse
        {
            use pest_typed::AsInput;
            if let Err(e) = t@GID@::rules::r#@RULE@::try_parse(s.as_str()) {
                let loc = match e.location { pest::error::InputLocation::Pos(p) => p, pest::error::InputLocation::Span((a, _)) => a };
                if loc > s.len() || !s.is_char_boundary(loc) { out.push(format!("MISMATCH-C10-BOUNDS g@GID@ @RULE@ {:?} loc={}", s, loc)); }
                if let Some((p, _)) = &typed { if loc < *p { out.push(format!("MISMATCH-C10-BEFORE-PREFIX g@GID@ @RULE@ {:?} loc={} prefix_end={}", s, loc, p)); } }
                let e2 = t@GID@::rules::r#@RULE@::try_parse(s.as_str()).unwrap_err();
                if e.to_string() != e2.to_string() { out.push(format!("MISMATCH-C10-NONDET g@GID@ @RULE@ {:?}", s)); }
                if @STACKFREE@ {
                    let i = s.as_str().as_input();
                    let mut st = pest_typed::Stack::new();
                    let mut tr = pest_typed::tracker::Tracker::<t@GID@::Rule>::new(i);
                    let r = <t@GID@::rules::r#@RULE@ as pest_typed::ParsableTypedNode<'_, t@GID@::Rule>>::try_parse_with(i, &mut st, &mut tr);
                    if r.is_none() {
                        let (pos, attempts) = tr.finish();
                        let p = pos.pos();
                        for (_upper, (positives, negatives, _special)) in attempts {
                            for r in positives {
                                let name = format!("{:?}", r);
                                let fails_somewhere = [spec::Atom::NonAtomic, spec::Atom::Atomic].iter().any(|a| matches!(spec.match_at(&name, s.as_str(), p, *a, 1_000_000), Ok(false) | Err(_)));
                                if !fails_somewhere { out.push(format!("MISMATCH-C10-EXPECTED-BUT-MATCHES g@GID@ @RULE@ {:?} at {}: {}", s, p, name)); }
                            }
                            for r in negatives {
                                let name = format!("{:?}", r);
                                let matches_somewhere = [spec::Atom::NonAtomic, spec::Atom::Atomic].iter().any(|a| matches!(spec.match_at(&name, s.as_str(), p, *a, 1_000_000), Ok(true) | Err(_)));
                                if !matches_somewhere { out.push(format!("MISMATCH-C10-UNEXPECTED-BUT-FAILS g@GID@ @RULE@ {:?} at {}: {}", s, p, name)); }
                            }
                        }
                    }
                }
            }
        }
'''
EXTRA_GETTER = r'''
            { let mut got = vec![]; Flat::<u@GID@::Rule>::flat(&node.r#@X@(), &mut got);
              let exp: Vec<(usize, usize)> = refs.iter().filter(|r| r.0 == "@X@").map(|r| (r.1, r.2)).collect();
              if got != exp { out.push(format!("MISMATCH-C16 g@GID@ @RULE@.@X@() {:?} getter={:?} spec={:?}", s, got, exp)); } }
'''
EXTRA_GETTERS_HEAD = r'''
        // C16: flattened getter results vs the references the Spec run of this rule evaluates directly
        if let (Ok((_, node)), Ok(Some(refs))) = (u@GID@::rules::r#@RULE@::try_parse_partial(s.as_str()), spec.direct_refs("@RULE@", s.as_str(), 2_000_000)) {
'''
EXTRA_FULL = r'''
        // C04: full parse <=> prefix parse + (kind-dependent) trailing skip reaches the end of input
        {
            let full = t@GID@::rules::r#@RULE@::try_parse(s.as_str()).is_ok();
            let exp = match &typed { None => Some(false), Some((p, _)) => if @ATOMICKIND@ { Some(*p == s.len()) } else { spec.skip_end(s.as_str(), *p, 1_000_000).ok().map(|e| e == s.len()) } };
            if let Some(exp) = exp { if exp != full { out.push(format!("MISMATCH-C04 g@GID@ @RULE@ {:?} full={} expected={} prefix={:?}", s, full, exp, typed.as_ref().map(|x| x.0))); } }
        }
'''
EXTRA_TREE = r'''
        // C15: traversal helpers vs plain recursion over as_token()
        if let Ok((_, node)) = t@GID@::rules::r#@RULE@::try_parse_partial(s.as_str()) {
            use pest_typed::iterators::PairTree;
            let root = tok_to_t(&node.as_token());
            if root != from_thin(&node.as_thin_token()) { out.push(format!("MISMATCH-C15-THIN g@GID@ @RULE@ {:?}", s)); }
            let mut exp = vec![]; dfs(&root, 0, &mut exp);
            let mut got = vec![]; let _ = node.iterate_pre_order(|t, d| { got.push((format!("{:?}", t.rule), t.span.start(), t.span.end(), d)); Ok::<(), ()>(()) });
            if exp != got { out.push(format!("MISMATCH-C15-PREORDER g@GID@ @RULE@ {:?} exp={:?} got={:?}", s, exp, got)); }
            let mut gotl = vec![]; let _ = node.iterate_level_order(|t, _| { gotl.push((format!("{:?}", t.rule), t.span.start(), t.span.end())); Ok::<(), ()>(()) });
            if bfs(&root) != gotl { out.push(format!("MISMATCH-C15-LEVEL g@GID@ @RULE@ {:?} exp={:?} got={:?}", s, bfs(&root), gotl)); }
            let mut r = String::new(); render(&root, 0, s.as_str(), &mut r);
            if node.format_as_tree().unwrap() != r { out.push(format!("MISMATCH-C15-FORMAT g@GID@ @RULE@ {:?}\n{}\n---\n{}", s, node.format_as_tree().unwrap(), r)); }
        }
'''
EXTRA_EQ = r'''
        // C18: eq / hash / clone / Debug over all sub-ranges of one input object
        if s.chars().count() <= SPAN_MAXLEN {
            let bs: Vec<usize> = (0..=s.len()).filter(|i| s.is_char_boundary(*i)).collect();
            let mut res = vec![];
            for &a in &bs { for &b in bs.iter().filter(|b| **b >= a) {
                if let Ok(n) = t@GID@::rules::r#@RULE@::try_parse(pest_typed::Span::new(s.as_str(), a, b).unwrap()) { res.push((format!("{:?}", n), hash_of(&n), n)); }
            } }
            for x in &res {
                if x.2.clone() != x.2 || hash_of(&x.2.clone()) != x.1 { out.push(format!("MISMATCH-C18-CLONE g@GID@ @RULE@ {:?}", s)); }
                for y in &res {
                    let eq = x.2 == y.2;
                    if eq != (x.0 == y.0) { out.push(format!("MISMATCH-C18-EQ-VS-DEBUG g@GID@ @RULE@ {:?} eq={}\n  {}\n  {}", s, eq, x.0, y.0)); }
                    if eq && x.1 != y.1 { out.push(format!("MISMATCH-C18-HASH g@GID@ @RULE@ {:?}", s)); }
                }
            }
        }
'''

MAIN = r'''
fn main() {
    std::panic::set_hook(Box::new(|_| {}));
    let ins = inputs(&ALPHA, @L@);
    let jobs: Vec<(usize, fn(&[String]) -> Vec<String>)> = vec![@JOBS@];
    for (gid, f) in jobs {
        let (tx, rx) = std::sync::mpsc::channel();
        let ins2 = ins.clone();
        std::thread::Builder::new().stack_size(64 << 20).spawn(move || { let r = f(&ins2); let _ = tx.send(r); }).unwrap();
        match rx.recv_timeout(std::time::Duration::from_secs(30)) {
            Ok(lines) => { for l in lines.iter().take(12) { println!("{}", l); } if lines.len() > 12 { println!("... g{}: {} more lines", gid, lines.len() - 12); } }
            Err(_) => println!("TIMEOUT g{}", gid),
        }
    }
    std::process::exit(0);
}
'''

bins = [[] for _ in range(K)]
for i, g in enumerate(gs):
    bins[i % K].append(g)

members = []
for b, glist in enumerate(bins):
    if not glist:
        continue
    d = os.path.join(out, f"b{b}")
    os.makedirs(os.path.join(d, "src"), exist_ok=True)
    members.append(f"b{b}")
    with open(os.path.join(d, "Cargo.toml"), "w") as f:
        f.write(f'''[package]
name = "b{b}"
version = "0.0.0"
edition = "2021"
[dependencies]
pest_typed = {{ path = "/repo/main" }}
pest_typed_derive = {{ path = "/repo/derive" }}
pest = "=2.7.14"
pest_derive = "=2.7.14"
pest_meta = "=2.7.14"
''')
    alpha_v = "[" + ", ".join("'\\u{%x}'" % ord(c) for c in ALPHA) + "]"
    code = ["#![allow(warnings)]", fill(COMMON, ALPHA_N=len(ALPHA), ALPHA_V=alpha_v)]
    for g in glist:
        gid, text = g["id"], g["text"]
        has_counted = re.search(r"\)\{", text) is not None
        stackfree = "true" if not re.search(r"PUSH|PEEK|POP|DROP", text) else "false"
        code.append(fill(MODS, GID=gid, TEXT=text))
        if EXTRAS:
            code.append(fill(MODS_EXTRA, GID=gid, TEXT=text))
            if not has_counted:      # F-OPT-2: counted repetition does not compile with pest_optimizer = false
                code.append(fill(MOD_RAW, GID=gid, TEXT=text))
        arms = " ".join(f'"{n}" => true,' for n, k in g["kinds"].items() if k in ("@", "$"))
        code.append(fill(RUN_HEAD, GID=gid, TEXT=text, ATOMIC_ARMS=arms))
        for rule, kind in g["kinds"].items():
            if kind == "_":
                continue
            extra = ""
            if EXTRAS:
                extra += fill(EXTRA_FULL, ATOMICKIND="true" if kind in ("@", "$") else "false")
                xs = [x for x in GETTERS.get(gid, {}).get(rule, []) if g["kinds"].get(x, "_") != "_"]
                if kind != "@" and xs:
                    extra += EXTRA_GETTERS_HEAD + "".join(fill(EXTRA_GETTER, X=x) for x in xs) + "        }\n"
                extra += EXTRA_OPTS
                if not has_counted:
                    extra += EXTRA_RAW
                extra += EXTRA_ERR
                if kind != "@":
                    extra += EXTRA_TREE
                extra += EXTRA_EQ
            code.append(fill(fill(RULE, EXTRA=extra), GID=gid, RULE=rule, STACKFREE=stackfree))
        code.append(fill(RUN_TAIL, GID=gid))
    jobs = ", ".join(f"({g['id']}, run{g['id']} as fn(&[String]) -> Vec<String>)" for g in glist)
    code.append(fill(MAIN, L=L, JOBS=jobs))
    open(os.path.join(d, "src", "main.rs"), "w").write("\n".join(code))

with open(os.path.join(out, "Cargo.toml"), "w") as f:
    f.write("[workspace]\nresolver = \"2\"\nmembers = [" + ", ".join(f'"{m}"' for m in members) + "]\n")
print("bins:", members)
