// Exploration only: does the generator refuse exactly what pest_meta refuses (C11), is it deterministic within a process (C20)?
use std::io::{self, BufRead};
use quote::quote;
fn main() {
    std::panic::set_hook(Box::new(|_| {}));
    let (mut both_ok, mut both_err, mut typed_only_ok, mut typed_only_err, mut nondet) = (0, 0, vec![], vec![], 0);
    for line in io::stdin().lock().lines() {
        let g = line.unwrap().replace("\\n", "\n");
        let pest_ok = std::panic::catch_unwind(|| pest_meta::parse_and_optimize(&g).is_ok()).unwrap_or(false);
        let ast_ok = std::panic::catch_unwind(|| {
            match pest_meta::parser::parse(pest_meta::parser::Rule::grammar_rules, &g) { Ok(p) => pest_meta::parser::consume_rules(p).is_ok(), Err(_) => false }
        }).unwrap_or(false);
        let g2 = g.clone();
        let typed = std::panic::catch_unwind(move || {
            let a = pest_typed_generator::derive_typed_parser(quote! { #[grammar_inline = #g2] struct P; }, false, true).to_string();
            let b = pest_typed_generator::derive_typed_parser(quote! { #[grammar_inline = #g2] struct P; }, false, true).to_string();
            a == b
        });
        match (pest_ok, &typed) {
            (true, Ok(same)) => { both_ok += 1; if !same { nondet += 1; } }
            (false, Err(_)) => both_err += 1,
            (false, Ok(_)) => typed_only_ok.push((ast_ok, g.clone())),
            (true, Err(_)) => typed_only_err.push(g.clone()),
        }
    }
    println!("both_ok={} both_err={} typed_accepts_pest_rejects={} typed_rejects_pest_accepts={} nondeterministic={}", both_ok, both_err, typed_only_ok.len(), typed_only_err.len(), nondet);
    for (ast_ok, g) in typed_only_ok.iter().take(6) { println!("--- typed accepts, pest_meta::parse_and_optimize rejects (consume_rules ok = {}):\n{}", ast_ok, g); }
    for g in typed_only_err.iter().take(6) { println!("--- typed rejects, pest accepts:\n{}", g); }
}
