/-!
Design prototype (round 0) — NOT part of the verification machinery.

Purpose: make the C05 plan concrete (DESIGN.md §3 `Model.Stack`, §5 C05, §7 F-STACK):

* `CStack` is a literal model of `pest::Stack<T>` 2.7.14 (`cache` / `popped` / `lengths`,
  stack.rs:17-131 in the cargo registry).
* `AStack` is the abstract reference: the contents plus the saved contents of every open snapshot.
* `run` replays an operation history on both; `agrees` compares the logical contents.

`abs_restore_exact` : on the abstract stack, `snapshot ; ops ; restore` returns to the snapshot-time
contents (the law the restore points of pest-typed rely on).
`concrete_counterexample` : the history `push a ; snapshot ; snapshot ; pop ; clear_snapshot ; restore`
leaves the concrete stack EMPTY although the outer snapshot held `[a]` — the pop made under the inner,
cleared snapshot is forgotten.  This is the root cause of the deviation replayed on the real code in
DESIGN.md §7 (grammar `r = { PUSH("a") ~ ((POP? ~ "x") | "") ~ PEEK }`, input `aa`).

Build: `lean P3_pest_stack.lean`.
-/
namespace P3

inductive Op where
  | push (x : Nat) | pop | snapshot | clear | restore
  deriving Repr, DecidableEq

/-- `pest::Stack` 2.7.14, field by field.  `cache` and `popped` have their top at the END, as `Vec`. -/
structure CStack where
  cache : List Nat := []
  popped : List Nat := []
  lengths : List (Nat × Nat) := []      -- top at the END
  deriving Repr, DecidableEq

def CStack.step (s : CStack) : Op → CStack
  | .push x => { s with cache := s.cache ++ [x] }
  | .pop =>
    match s.cache.getLast? with
    | none => s
    | some top =>
      let len := s.cache.length
      let cache' := s.cache.dropLast
      match s.lengths.getLast? with
      | some (l, remained) =>
        if len = remained then
          { cache := cache', popped := s.popped ++ [top],
            lengths := s.lengths.dropLast ++ [(l, remained - 1)] }
        else { s with cache := cache' }
      | none => { s with cache := cache' }
  | .snapshot => { s with lengths := s.lengths ++ [(s.cache.length, s.cache.length)] }
  | .clear =>
    match s.lengths.getLast? with
    | some (len, unpopped) =>
      { s with lengths := s.lengths.dropLast,
               popped := s.popped.take (s.popped.length - (len - unpopped)) }
    | none => s
  | .restore =>
    match s.lengths.getLast? with
    | some (lenStack, remained) =>
      let cache1 := if remained < s.cache.length then s.cache.take remained else s.cache
      if lenStack > remained then
        let rewind := lenStack - remained
        let newLen := s.popped.length - rewind
        { cache := cache1 ++ (s.popped.drop newLen).reverse,
          popped := s.popped.take newLen,
          lengths := s.lengths.dropLast }
      else { s with cache := cache1, lengths := s.lengths.dropLast }
    | none => { s with cache := [] }

/-- Abstract stack: contents (top at the END) and the saved contents of the open snapshots. -/
structure AStack where
  cur : List Nat := []
  saved : List (List Nat) := []         -- newest at the HEAD
  deriving Repr, DecidableEq

def AStack.step (s : AStack) : Op → AStack
  | .push x => { s with cur := s.cur ++ [x] }
  | .pop => { s with cur := s.cur.dropLast }
  | .snapshot => { s with saved := s.cur :: s.saved }
  | .clear => { s with saved := s.saved.tail }
  | .restore =>
    match s.saved with
    | c :: rest => { cur := c, saved := rest }
    | [] => { s with cur := [] }

def runC (ops : List Op) : CStack := ops.foldl CStack.step {}
def runA (ops : List Op) : AStack := ops.foldl AStack.step {}

/-- An operation sequence that opens and closes its own snapshots only (what every construct of the
runtime does between its `snapshot()` and its `clear_snapshot()`/`restore()`). -/
def balanced : List Op → Nat → Bool
  | [], d => d == 0
  | .snapshot :: ops, d => balanced ops (d+1)
  | .clear :: ops, d => d > 0 && balanced ops (d-1)
  | .restore :: ops, d => d > 0 && balanced ops (d-1)
  | _ :: ops, d => balanced ops d

theorem abs_fold_saved (ops : List Op) :
    ∀ (s : AStack) (d : Nat), balanced ops d = true → d ≤ s.saved.length →
      (ops.foldl AStack.step s).saved = s.saved.drop d := by
  induction ops with
  | nil => intro s d h _; simp [balanced] at h; simp [h]
  | cons op ops ih =>
    intro s d h hd
    cases op with
    | push x => simpa [AStack.step] using ih { s with cur := s.cur ++ [x] } d (by simpa [balanced] using h) hd
    | pop => simpa [AStack.step] using ih { s with cur := s.cur.dropLast } d (by simpa [balanced] using h) hd
    | snapshot =>
      have := ih { s with saved := s.cur :: s.saved } (d+1) (by simpa [balanced] using h)
        (by simp; omega)
      simpa [AStack.step] using this
    | clear =>
      simp only [balanced, Bool.and_eq_true, decide_eq_true_eq] at h
      obtain ⟨hd0, hb⟩ := h
      have hlen : (s.saved.tail).length = s.saved.length - 1 := by simp
      have := ih { s with saved := s.saved.tail } (d-1) hb (by simp; omega)
      simp only [List.foldl, AStack.step]
      rw [this]
      cases hs : s.saved with
      | nil => simp [hs] at hd; omega
      | cons c rest =>
        simp only [List.tail_cons]
        obtain ⟨d', rfl⟩ : ∃ d', d = d' + 1 := ⟨d - 1, by omega⟩
        simp
    | restore =>
      simp only [balanced, Bool.and_eq_true, decide_eq_true_eq] at h
      obtain ⟨hd0, hb⟩ := h
      cases hs : s.saved with
      | nil => simp [hs] at hd; omega
      | cons c rest =>
        have := ih { cur := c, saved := rest } (d-1) hb (by simp [hs] at hd; simp; omega)
        simp only [List.foldl, AStack.step, hs]
        rw [this]
        obtain ⟨d', rfl⟩ : ∃ d', d = d' + 1 := ⟨d - 1, by omega⟩
        simp

/-- The law restore points rely on: on the abstract stack, `snapshot ; (balanced ops) ; restore`
gives back exactly the contents at the snapshot, whatever `ops` did. -/
theorem abs_restore_exact (s : AStack) (ops : List Op) (h : balanced ops 0 = true) :
    ((([Op.snapshot] ++ ops ++ [Op.restore]).foldl AStack.step s)).cur = s.cur := by
  have hs := abs_fold_saved ops { s with saved := s.cur :: s.saved } 0 h (by simp)
  simp only [List.foldl_append, List.foldl_cons, List.foldl_nil, AStack.step]
  simp only [List.drop_zero] at hs
  rw [hs]

/-- The same law is FALSE for `pest::Stack` 2.7.14: a pop under an inner snapshot that is then
cleared is forgotten when the outer snapshot is restored. -/
def witness : List Op := [.push 7, .snapshot, .snapshot, .pop, .clear, .restore]

theorem concrete_counterexample :
    (runA witness).cur = [7] ∧ (runC witness).cache = [] := by decide

/-- ... while without the inner snapshot it behaves (the case the existing unit tests cover). -/
example : (runC [.push 7, .snapshot, .pop, .restore]).cache = [7] := by decide

#print axioms abs_restore_exact
#print axioms concrete_counterexample
end P3
