#!/usr/bin/env python3
"""Rewrites the generated tables of DESIGN.md §10 (between the marker comments) from props_index.json,
evidence/*.json and seeded/*/meta.json."""
import glob, json, os, re
V = os.path.dirname(os.path.abspath(__file__))
idx = json.load(open(os.path.join(V, "props_index.json")))
rows = ["| id | obligations (theorems) | ties (cases agreeing, quick tier, last committed run) | oracle cases | quick wall |", "|---|---|---|---|---|"]
for pid in sorted(idx):
    ev = os.path.join(V, "evidence", pid + ".json")
    if not os.path.exists(ev):
        rows.append(f"| {pid} | {len(idx[pid]['theorems'])} | (no evidence yet) | | |")
        continue
    e = json.load(open(ev))
    c = e["coverage"]
    ties = "; ".join(f"{k.split('[')[0]} {v['agree']}/{v['cases']}" for k, v in c.get("ties", {}).items())
    rows.append(f"| {pid} | {c['discharged']}/{c['obligations']} | {ties} | {c.get('evaluations')} ({c.get('distinct_nontrivial')} distinct non-trivial) | {e['wall_s']:.0f} s |")
t1 = "\n".join(rows)
rows = ["| seeded change | property | what it does / what it needs to manifest | checks run → verdict |", "|---|---|---|---|"]
for f in sorted(glob.glob(os.path.join(V, "seeded", "*", "meta.json"))):
    m = json.load(open(f))
    if m.get("harmless"):
        quiet = [r["check"] for r in m.get("runs", []) if not r["caught"]]
        loud = [r["check"] for r in m.get("runs", []) if r["caught"]]
        hist = sorted({h["check"] for h in m.get("history", []) if h.get("caught")} - set(loud))
        rows.append(f"| {m['id']} | none (behaviour-preserving) | {(m.get('summary') or '').replace('|', '/')[:300]} | quiet: {len(quiet)} checks"
                    + (f"; ALARM (false): {', '.join(loud)}" if loud else "") + (f"; alarmed before the machinery was corrected: {', '.join(hist)}" if hist else "") + " |")
        continue
    missed_before = sorted({h["check"] for h in m.get("history", []) if h.get("caught") is False or h.get("no_failing_input")})
    runs = ("(earlier: " + ", ".join(missed_before) + " missed or tie-only) " if missed_before else "") + "; ".join(f"{r['check']}: {'caught' + (' (tie/proof only, no failing input)' if (r.get('replay_excerpt') or {}) and isinstance(r.get('replay_excerpt'), dict) and r['replay_excerpt'].get('no_failing_input') else '') if r['caught'] else 'MISSED'}" for r in m.get("runs", []))
    summ = (m.get("summary") or "").replace("|", "/")[:260]
    need = (m.get("needs_to_manifest") or "")
    if isinstance(need, list):
        need = "; ".join(need)
    need = need.replace("|", "/").replace("\n", " ")[:220]
    rows.append(f"| {m['id']} | {m['property']} | {summ} — needs: {need} | {runs} |")
t2 = "\n".join(rows)
p = os.path.join(V, "DESIGN.md")
s = open(p).read()
s = re.sub(r"<!-- PROPS-TABLE-BEGIN -->.*?<!-- PROPS-TABLE-END -->", lambda m: "<!-- PROPS-TABLE-BEGIN -->\n" + t1 + "\n<!-- PROPS-TABLE-END -->", s, flags=re.S)
s = re.sub(r"<!-- SEEDED-TABLE-BEGIN -->.*?<!-- SEEDED-TABLE-END -->", lambda m: "<!-- SEEDED-TABLE-BEGIN -->\n" + t2 + "\n<!-- SEEDED-TABLE-END -->", s, flags=re.S)
open(p, "w").write(s)
print("tables written")
