#!/bin/bash
# usage: tools_import_patch.sh <patch> <id> <property> "<summary>"
# Imports a reviewer-suggested regression (NOT from an isolated agent): confirms in a scratch worktree that the
# workspace's unedited suite still passes with the patch, then stores it under seeded/<id>/.
set -e
P=$1; ID=$2; PROP=$3; SUM=$4
W=/tmp/mut/imp_$ID
git -C /repo worktree add --detach $W HEAD >/dev/null 2>&1
cd $W && git apply $P
R=$(CARGO_NET_OFFLINE=true cargo test --workspace --no-fail-fast --offline 2>&1 | grep -E "^test result" | awk '{p+=$4; f+=$6} END {print "passed",p,"failed",f}')
echo "$ID suite: $R"
git diff > /tmp/mut/imp_$ID.diff
cd /; git -C /repo worktree remove --force $W; git -C /repo worktree prune
case "$R" in *"failed 0") ;; *) echo "suite not green: not imported"; exit 1;; esac
mkdir -p /verif/seeded/$ID && cp /tmp/mut/imp_$ID.diff /verif/seeded/$ID/patch.diff
python3 - "$ID" "$PROP" "$SUM" "$R" <<'PY'
import json,sys
i,p,s,r=sys.argv[1:5]
json.dump({"id":i,"property":p,"summary":s,"origin":"suggested by the second independent review / a verification engineer (NOT written by an isolated agent); the check's own replay is the demonstration","confirmed":f"suite {r} with the change (scratch worktree)","runs":[]},open(f"/verif/seeded/{i}/meta.json","w"),indent=1,ensure_ascii=False)
PY
echo imported $ID
