#!/usr/bin/env python3
"""Regenerates props_index.json from the `theorem Cxx_*` declarations of lean/PestTyped/Props/Cxx.lean
(the proof obligations of each property).  Run by hand after adding theorems; the file is committed."""
import json, os, re
base = os.path.join(os.path.dirname(os.path.abspath(__file__)), "lean", "PestTyped", "Props")
old = json.load(open("props_index.json")) if os.path.exists("props_index.json") else {}
idx = {}
for f in sorted(os.listdir(base)):
    m = re.match(r"(C\d\d)([A-Za-z]*)\.lean$", f)
    if not m:
        continue
    pid = m.group(1)
    src = open(os.path.join(base, f)).read()
    src = re.sub(r"/-.*?-/", "", src, flags=re.S)
    names = re.findall(r"^theorem\s+(" + pid + r"_[A-Za-z0-9_']+)", src, flags=re.M)
    e = idx.setdefault(pid, {"modules": [], "theorems": []})
    e["modules"].append("PestTyped.Props." + f[:-5])
    e["theorems"] += [f"PestTyped.{n}" for n in names]
for pid, v in old.items():
    if pid not in idx:
        idx[pid] = v
json.dump(idx, open("props_index.json", "w"), indent=1)
print({k: len(v["theorems"]) for k, v in idx.items()})
