#!/bin/bash
# Runs every claimed check (quick tier) on the current tree and prints one summary line per property.
cd "$(dirname "$0")"
for p in C01 C02 C03 C04 C05 C06 C07 C08 C09 C10 C11 C12 C13 C14 C15 C16 C17 C18 C19 C20; do
  ./check.py $p --tier ${1:-quick} 2>&1 | grep -E "^VIOLATION|^C[0-9][0-9]:" | cut -c1-140
done
