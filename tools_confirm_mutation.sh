#!/bin/bash
# usage: tools_confirm_mutation.sh <worktree with change applied and _mutation/ dir>
# Confirms: suite green with the change, demo fails with the change, demo passes without it.
W=$1
cd $W || exit 2
export CARGO_NET_OFFLINE=true
if grep -q pest_typed_derive _mutation/demo.rs; then D=derive; PKG=pest_typed_derive; else D=main; PKG=pest_typed; fi
echo "== suite with change"
cargo test --workspace --no-fail-fast --offline 2>&1 | grep -E "^test result" | awk '{p+=$4; f+=$6} END {print "passed",p,"failed",f}'
cp _mutation/demo.rs $D/tests/zz_demo.rs
echo "== demo with change"
cargo test -p $PKG --test zz_demo --offline 2>&1 | grep -E "^test result|panicked" | head -5
git diff > $W.saved.patch; git checkout -- main generator derive
cp _mutation/demo.rs $D/tests/zz_demo.rs
echo "== demo without change"
cargo test -p $PKG --test zz_demo --offline 2>&1 | grep -E "^test result" | head -3
rm -f $D/tests/zz_demo.rs
git apply $W.saved.patch
git status --short | head -5
