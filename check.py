#!/usr/bin/env python3
"""check.py <property id> [--tier quick|thorough] [--replay <file>]

Decides one property: (1) Lean proof obligations + axiom audit, (2) correspondence ties between the
Lean model and /repo's current working tree, (3) implementation-level oracle that searches for a
concrete failing input.  Exit 0 if the property held on everything explored; exit 1 with a line
`VIOLATION property=<id> replay=<path>` otherwise (see DESIGN.md §2.3)."""
import argparse, json, os, sys, time, traceback

sys.path.insert(0, os.path.dirname(os.path.abspath(__file__)))
from checks import common, suites
from checks import props as P


def main():
    ap = argparse.ArgumentParser()
    ap.add_argument("pid")
    ap.add_argument("--tier", default=os.environ.get("VERIF_TIER", "quick"))
    ap.add_argument("--replay")
    args = ap.parse_args()
    pid = args.pid
    tier = args.tier if args.tier in ("quick", "thorough") else "quick"
    seed = int(os.environ.get("VERIF_SEED", "20260927"))
    if pid not in P.CHECKS:
        print(f"unknown property {pid}")
        return 2
    # development aid: tools_seeded.py holds this lock while a seeded patch is applied to /repo, so that
    # concurrent check runs of other engineers wait for the clean tree (the file never exists otherwise)
    lock = os.path.join(os.path.dirname(os.path.abspath(__file__)), "build", "repo.lock")
    waited = 0
    while os.path.exists(lock) and os.environ.get("VERIF_SEEDED") != "1" and waited < 3600:
        time.sleep(5)
        waited += 5
    # marker of a check that is actually running (not merely waiting for the lock)
    import atexit
    rundir = os.path.join(os.path.dirname(lock), "running")
    os.makedirs(rundir, exist_ok=True)
    marker = os.path.join(rundir, str(os.getpid()))
    open(marker, "w").write(pid)
    atexit.register(lambda: os.path.exists(marker) and os.remove(marker))
    t0 = time.time()
    if args.replay:
        return P.replay(pid, args.replay)
    ctx = P.Ctx(pid, tier, seed)
    if pid in P.PRE:   # source-regenerated model parts (T-src) are rewritten before the proofs are re-checked
        try:
            P.PRE[pid](ctx)
        except Exception as e:
            ctx.tie_broken("T-src", {"error": str(e)[-2000:]})
    lean = common.lean_obligations(pid, tier)
    # per-area harnesses (own cargo workspaces and caches) are used by one check run at a time; the shared suites
    # (suites.py) take finer-grained locks of their own, and T-gen (used by C01, C07, C16, C20) has its own lock
    area = {"C15": "acc", "C17": "acc", "C18": "acc", "C16": "c16", "C20": "c20", "C11": "c11",
            "C12": "text", "C13": "text", "C14": "text"}.get(pid)
    import contextlib
    # Memory bound of the thorough tier: the python differ holds every row of a suite in memory, and the thorough-size
    # T-run (≈17 M rows) and T-raw (≈8 M rows) suites together exceed the sandbox's 62 GB for the checks that load several
    # suites at once (measured: C01 thorough 34 GB with T-run alone; C09 thorough was OOM-killed at 65 GB).  For those
    # checks the thorough tier therefore explores MORE SEEDS at quick suite size instead of bigger suites: three
    # independent corpora (seed, seed+1, seed+2: three times the random grammars and random inputs), one after the other,
    # plus Miri (C09) and leanchecker.  Their results are merged below.
    HEAVY = {"C02", "C03", "C04", "C05", "C06", "C07", "C08", "C09", "C10"}
    try:
        with (suites.workspace_lock("area_" + area) if area else contextlib.nullcontext()):
            if tier == "thorough" and pid in HEAVY:
                os.environ["VERIF_MIRI"] = "1"
                nseeds = int(os.environ.get("VERIF_THOROUGH_SEEDS", "3"))
                for k in range(nseeds):
                    sub = P.Ctx(pid, "quick", seed + k)
                    try:
                        P.CHECKS[pid](sub)
                    except Exception as e:
                        sub.tie_broken("harness", {"error": str(e)[-3000:], "trace": traceback.format_exc()[-2000:], "seed": seed + k})
                    ctx.violations += sub.violations
                    ctx.broken_ties += sub.broken_ties
                    for name, t in sub.ties.items():
                        a = ctx.ties.setdefault(name, {"cases": 0, "agree": 0, "observables": t.get("observables", [])})
                        a["cases"] += t.get("cases", 0)
                        a["agree"] += t.get("agree", 0)
                    ctx.evaluations += sub.evaluations
                    ctx.nontrivial += sub.nontrivial
                    ctx.samples = ctx.samples or sub.samples
                    ctx.rule_text = sub.rule_text
                    ctx.assumptions = sub.assumptions
                    for kf, n in sub.known_seen.items():
                        ctx.known_seen[kf] = ctx.known_seen.get(kf, 0) + n
                    cov = dict(sub.coverage)
                    ctx.coverage.setdefault("per_seed", []).append({"seed": seed + k, "evaluations": sub.evaluations,
                                                                     "coverage": {c: v for c, v in cov.items() if isinstance(v, (int, float, str, bool))}})
                    for c, v in cov.items():
                        ctx.coverage.setdefault(c, v)
                    del sub
                    import gc
                    gc.collect()
                ctx.coverage["thorough_scheme"] = f"{nseeds} independent corpora (seeds {seed}..{seed + nseeds - 1}) at quick suite size, run one after the other (memory bound: see check.py), + Miri for C09 + leanchecker"
            else:
                P.CHECKS[pid](ctx)
    except Exception as e:  # a broken runner is a broken tie, reported as such
        ctx.tie_broken("harness", {"error": str(e)[-3000:], "trace": traceback.format_exc()[-2000:]})
    # verdict
    violations = 0
    lines = []
    findings = common.known_findings(pid)
    unlisted = []
    for v in ctx.violations:
        hit = next((f for f in findings if P.signature_matches(f, v)), None)
        if hit:
            ctx.known_seen.setdefault(hit["id"], 0)
            ctx.known_seen[hit["id"]] += 1
        else:
            unlisted.append(v)
    for f in findings:
        if ctx.known_seen.get(f["id"]):
            lines.append(f"KNOWN-FINDING: property={pid} {f['id']}: {f['title']} ({ctx.known_seen[f['id']]} cases this run)")
        else:
            lines.append(f"KNOWN-FINDING: property={pid} {f['id']}: {f['title']} (witness not re-explored this run)")
    if unlisted:
        v = unlisted[0]
        path = common.write_replay(pid, {"property": pid, "kind": "impl-vs-oracle", "repo_head": common.repo_head(),
                                         "seed": seed, "tier": tier, "first": v, "count": len(unlisted),
                                         "more": unlisted[1:10]})
        lines.append(f"VIOLATION property={pid} replay={path}")
        violations = len(unlisted)
    elif lean["failures"] or ctx.broken_ties:
        broken = {"theorems": lean["failures"], "ties": ctx.broken_ties[:5]}
        path = common.write_replay(pid, {"property": pid, "kind": "proof-or-tie-broken", "repo_head": common.repo_head(),
                                         "seed": seed, "tier": tier, "broken": broken,
                                         "note": "no concrete failing input was found by the implementation-level oracle"})
        lines.append(f"VIOLATION property={pid} replay={path} no-failing-input-found")
        violations = 1
    cov = dict(ctx.coverage)
    cov["ties"] = ctx.ties
    cov["known_findings_seen"] = ctx.known_seen
    if not cov.get("samples"):
        cov["samples"] = ctx.samples[:5] or ["(no correspondence cases for this property in this tier)"]
    cov.setdefault("evaluations", ctx.evaluations)
    cov.setdefault("distinct_nontrivial", ctx.nontrivial)
    cov.setdefault("rule", ctx.rule_text)
    common.write_evidence(pid, tier, seed, lean, cov, time.time() - t0, violations, ctx.assumptions)
    for l in lines:
        print(l)
    print(f"{pid}: obligations {lean['discharged']}/{lean['obligations']}, ties {json.dumps({k: v['agree'] for k, v in ctx.ties.items()})}, "
          f"oracle cases {ctx.evaluations}, violations {violations}, {time.time() - t0:.1f}s")
    return 1 if violations else 0


if __name__ == "__main__":
    sys.exit(main())
