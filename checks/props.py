"""Per-property checks: which ties bind the property's theorems to the code, and the
implementation-level oracle that looks for a concrete failing input."""
import json, os, re
from . import common, suites


class Ctx:
    def __init__(self, pid, tier, seed):
        self.pid, self.tier, self.seed = pid, tier, seed
        self.violations = []      # concrete failing inputs on the implementation
        self.broken_ties = []     # model/impl disagreements (correspondence broken)
        self.ties = {}
        self.coverage = {}
        self.samples = []
        self.evaluations = 0
        self.nontrivial = 0
        self.rule_text = ""
        self.assumptions = []
        self.known_seen = {}
        self._distinct = set()
        self._gtexts = {}         # gid -> grammar text of the suites seen (a replay file carries the grammar)
        self._suites_seen = set()
        self.replaying = False    # check.py --replay: one-grammar suite, no coverage floor

    def note_suite(self, result):
        """Every suite a check looks at: remembers the grammar texts (for replay files) and reports the corpus grammars
        whose derive output did not compile (the suite ran without them: one grammar must not hide the rest)."""
        key = getattr(result, "dir", id(result))
        if key in self._suites_seen:
            return
        self._suites_seen.add(key)
        for gid, gi in getattr(result, "grammars", {}).items():
            if isinstance(gi, dict) and "text" in gi:
                self._gtexts[gid] = gi["text"]
        for f in getattr(result, "meta", {}).get("build_failures", []) or []:
            self._gtexts[f["gid"]] = f["text"]
            self.violation("derive output does not compile", (f["gid"], "-", "build", "-", 0, 0, ""), error=f.get("error", "")[:1500],
                           attrs=f.get("attrs", ""), suite=result.meta.get("suite"))

    def tie(self, name, result, keys, case_filter=None):
        self.note_suite(result)
        st = suites.tie_stats(result, keys, case_filter)
        total, n, oof = st["cases"], st["disagree"], st["oof_skipped"]
        self.ties[name] = {"cases": total, "agree": st["agree"], "oof_skipped": oof, "observables": keys}
        if n:
            self.tie_broken(name, {"disagreements": n, "first": st["first"][:5]})
        if total == 0 and not self.replaying:
            # coverage floor: a tie that selected no rows says nothing, so it does not hold
            self.tie_broken(name, {"error": "the tie selected 0 cases (corpus / filter mismatch): nothing was compared"})
        elif oof * 100 > total and not self.replaying:
            self.tie_broken(name, {"error": f"the model ran out of fuel on {oof} of {total} cases (> 1 %): these rows were not compared"})
        return n

    def tie_l0(self, name, result, profile, case_filter=None):
        """Tie of the byte-level model (RunL0, driver command `l0`) to the implementation rows of a suite built in that profile."""
        self.note_suite(result)
        st = suites.l0_tie(result, profile, case_filter, tag=name)
        self.ties[name] = {k: st[k] for k in ("cases", "agree", "oof_skipped", "panic_or_ub", "observables")}
        if st["disagree"]:
            self.tie_broken(name, {"disagreements": st["disagree"], "first": st["first"][:5]})
        if st["cases"] == 0 and not self.replaying:
            self.tie_broken(name, {"error": "the tie selected 0 cases: nothing was compared"})
        elif st["oof_skipped"] * 100 > st["cases"] and not self.replaying:
            self.tie_broken(name, {"error": f"the byte-level model ran out of fuel on {st['oof_skipped']} of {st['cases']} cases (> 1 %)"})
        return st["disagree"]

    def tie_broken(self, name, detail):
        self.broken_ties.append({"tie": name, **detail})

    def violation(self, what, case, **detail):
        v = {"what": what, "case": case_dict(case), **detail}
        if case[0] in self._gtexts:
            v["grammar_text"] = self._gtexts[case[0]]
        self.violations.append(v)

    def count(self, case, nontrivial):
        self.evaluations += 1
        if nontrivial:
            key = (case[0], case[1], case[3], case[4], case[5], case[6])
            if key not in self._distinct:
                self._distinct.add(key)
                self.nontrivial += 1

    def sample(self, case, io):
        if len(self.samples) < 5:
            self.samples.append({"case": case_dict(case), "impl": {k: v for k, v in io.items() if k != "dbg"}})


def case_dict(c):
    return {"grammar": c[0], "rule": c[1], "entry": c[2], "form": c[3], "a": c[4], "b": c[5], "input": c[6]}


def signature_matches(finding, violation):
    sig = finding.get("signature", {})
    kind = sig.get("kind")
    if kind == "what-prefix":
        prefixes = sig.get("prefixes") or [sig["prefix"]]
        return any(violation["what"].startswith(p) for p in prefixes) and all(
            re.search(p, json.dumps(violation, ensure_ascii=False)) for p in sig.get("require", []))
    return False


def group_by_input(result, case_filter=None):
    """(gid, rule, form, a, b, input) -> {entry: impl observables}"""
    groups = {}
    for c, io, mo in result.rows():
        if case_filter and not case_filter(c):
            continue
        groups.setdefault((c[0], c[1], c[3], c[4], c[5], c[6]), {})[c[2]] = (c, io, mo)
    return groups


def nontrivial_obs(io):
    """A case is non-trivial when the run consumed input or recorded something beyond the entry rule."""
    return io.get("v") == "ok" and io.get("end", "0") != "0" or ";" in io.get("trk", "") or io.get("stk", "[]") != "[]"


# ---------------------------------------------------------------------------------------------

def api_oracle(ctx, res):
    """The PUBLIC entry points (`N::try_parse(input)` …, which create their own stack and tracker, and the derived
    `TypedParser` impl's `try_parse::<N>` / `try_check::<N>`) must give what the `_with` functions give on a fresh
    stack and tracker: same verdict, end offset, tree (Debug rendering) and error message."""
    n = 0
    for c, io, mo in res.rows():
        api = io.get("api")
        if api is None:
            continue
        n += 1
        v = io.get("v")
        if api.startswith("ok"):
            parts = api.split(":")
            bad = v != "ok"
            if not bad and c[2] in ("parse_partial", "check_partial") and len(parts) > 1 and parts[1] != io.get("end"):
                bad = True
            if not bad and c[2] in ("parse_partial", "parse") and len(parts) > 2 and parts[2] != io.get("dbg"):
                bad = True
            if bad:
                ctx.violation("public entry point disagrees with the same run on a fresh stack and tracker", c, api=api[:200],
                              with_={k: io.get(k) for k in ("v", "end")})
        elif api.startswith("fail:"):
            if v != "fail" or (io.get("msg") not in (None, "panic", "nondet") and api[5:] != io.get("msg")):
                ctx.violation("public entry point's error differs from the report of the same run", c, api=api[:300], v=v, msg=io.get("msg", "")[:300])
        tp = io.get("tp")
        if tp is not None and tp != v:
            ctx.violation("TypedParser::try_parse / try_check disagrees with the rule struct's entry point", c, tp=tp, v=v)
    ctx.coverage.setdefault("distribution", {})["public_api_cases"] = n


def check_C03(ctx):
    ctx.rule_text = ("T-run + T-raw corpora (systematic + seeded grammars, exhaustive short inputs over each grammar's "
                     "alphabet + random longer ones, three input forms); a case is non-trivial when it consumed input, "
                     "left a non-empty stack or recorded attempts under more than one rule; distinct by (grammar, rule, form, range, input)")
    keys = ["v", "end", "stk", "trk"]
    for name, res in (("T-run", suites.suite_run(ctx.tier, ctx.seed)), ("T-raw", suites.suite_raw(ctx.tier, ctx.seed)),
                      ("T-run-noopt", suites.suite_run_noopt(ctx.tier, ctx.seed))):
        api_oracle(ctx, res)
        # each path separately against its own model function
        ctx.tie(name + ":parse-path", res, keys, lambda c: c[2] in ("parse_partial", "parse"))
        ctx.tie(name + ":check-path", res, keys, lambda c: c[2] in ("check_partial", "check"))
        # model-free oracle on the implementation: parse vs check
        for key, ent in group_by_input(res).items():
            for pe, ce in (("parse_partial", "check_partial"), ("parse", "check")):
                if pe in ent and ce in ent:
                    (c, pio, _), (_, cio, _) = ent[pe], ent[ce]
                    ctx.count(c, nontrivial_obs(pio))
                    ctx.sample(c, pio)
                    bad = [k for k in keys if pio.get(k) != cio.get(k)]
                    if bad:
                        ctx.violation(f"{pe} vs {ce} differ on {bad}", c,
                                      parse={k: pio.get(k) for k in keys}, check={k: cio.get(k) for k in keys})


# ---------------------------------------------------------------------------------------------
# C01 / C02 / C07: three-way comparison  implementation  vs  Spec (Lean, authoritative)  vs  pest

def parse_tokens(txt):
    """'[(r 0 2 (x 0 1))]' -> nested lists [name, s, e, [children]]"""
    import corpus
    sx = corpus.parse_sexp("(" + txt.strip()[1:-1] + ")") if txt and txt.startswith("[") else []

    def conv(t):
        return [t[0], int(t[1]), int(t[2]), [conv(c) for c in t[3:]]]
    return [conv(t) for t in sx]


def prune(toks, atomic):
    return [[t[0], t[1], t[2], [] if t[0] in atomic else prune(t[3], atomic)] for t in toks]


_FWS_CACHE = {}


_SKIPHYP = {}      # (sexp, opt|raw) -> {"like": bool, "implicit": {rule: bool}, "implicit_tok": {rule: bool}}


def _skiphyp_parse(line):
    d = suites.parse_obs(line)
    if "like" not in d:
        raise RuntimeError("model_driver skiphyp: " + line[:200])
    bits = lambda txt: {kv.rsplit(":", 1)[0]: kv.rsplit(":", 1)[1] == "1" for kv in txt.split(",") if ":" in kv}
    return {"like": d["like"] == "1", "implicit": bits(d.get("implicit", "")), "implicit_tok": bits(d.get("implicit_tok", ""))}


def preload_skip_hypotheses(res):
    """One driver process evaluates the Lean hypotheses on the skip rules (`skiphyp`, Driver/SkipHyp.lean) for every grammar
    of a suite; `which` = the AST the suite's derive walked (raw under `#[pest_optimizer = false]`)."""
    import subprocess
    which = "raw" if "pest_optimizer = false" in (getattr(res, "meta", {}) or {}).get("attrs", "") else "opt"
    todo = []
    for gid, gi in getattr(res, "grammars", {}).items():
        if isinstance(gi, dict) and "sexp" in gi:
            gi["_ast"] = which
            if (gi["sexp"], which) not in _SKIPHYP:
                todo.append((gid, gi))
    if not todo or not getattr(res, "dir", None):
        return
    suites.ensure_driver()
    sexp = res.dir + ".sexp"
    p = subprocess.run([suites.DRIVER, sexp, suites.uni_table_for(sexp)], input="".join(f"skiphyp {gid} {which}\n" for gid, _ in todo), capture_output=True, text=True)
    lines = p.stdout.splitlines()
    for (gid, gi), line in zip(todo, lines):
        _SKIPHYP[(gi["sexp"], which)] = _skiphyp_parse(line)


def skip_hypotheses(ginfo):
    """The Lean predicates of one grammar (cached; evaluated by its own driver call when no suite preloaded them)."""
    import subprocess, tempfile
    which = ginfo.get("_ast", "opt")
    key = (ginfo.get("sexp", ""), which)
    if key not in _SKIPHYP:
        suites.ensure_driver()
        with tempfile.NamedTemporaryFile("w", suffix=".sexp", delete=False) as f:
            f.write(ginfo["sexp"] + "\n")
        try:
            gid = ginfo["sexp"].split()[1]
            p = subprocess.run([suites.DRIVER, f.name, ""], input=f"skiphyp {gid} {which}\n", capture_output=True, text=True)
            _SKIPHYP[key] = _skiphyp_parse((p.stdout.splitlines() or ["v=missing " + p.stderr[-200:]])[0])
        finally:
            os.remove(f.name)
    return _SKIPHYP[key]


def fws_predicates(ginfo):
    """THE single place where the applicability of known finding F-WS is decided (every check goes through `fws_grammar` /
    `fws_case`, which only read this).  Authority: the Lean predicates themselves, evaluated by model_driver (`skiphyp`):
      like          = `SkipRulesAtomicLike g`  (hypothesis of C01_* / C02_tree*),
      implicit[e]   = `SkipRulesImplicitOnly g e`    (C01_*_implicit_entry, C07_as_pest_implicit_entry: verdict / offset / stack as pest),
      implicit_tok[e] = `SkipRulesImplicitOnlyTok g e` (C02_tree_implicit, C07_rule_spans_as_pest_implicit: token tree as pest).
    A verdict / offset violation may be attributed to F-WS only if like = 0 and implicit[entry] = 0, a token violation only
    if like = 0 and implicit_tok[entry] = 0.  The python approximation that was used before (`fws_python`) is kept only to
    REPORT where it disagrees with the Lean predicates (coverage `fws_python_vs_lean`)."""
    return skip_hypotheses(ginfo)


def fws_python(ginfo):
    """Python mirror of lean/PestTyped/Lemmas/SkipLike.lean on the optimized AST (NOT the authority, see fws_predicates):
      `SimpleSkipBody`: no sequence, no repetition of any kind, no reference to a rule of the grammar, no `EOI`;
      `SkipRulesAtomicLike g`: every WHITESPACE / COMMENT rule is @ / $ or has a simple body  (= `atomic_like`).
    Returns atomic_like, risky (the skip rules that break the hypothesis), reach (rules that are a risky skip rule or reach
    an EXPLICIT reference to one: verdict / offset may differ from pest there), inner (a risky skip body mentions a rule of
    the grammar: its inner tokens are kept where pest prunes them), can_skip (rules that reach a sequence / repetition,
    i.e. may run the implicit skip and so contain the skip rules' tokens)."""
    import corpus
    key = ginfo.get("sexp", "")
    if key in _FWS_CACHE:
        return _FWS_CACHE[key]
    info = {"atomic_like": True, "risky": set(), "reach": set(), "inner": False, "can_skip": set()}
    sx = corpus.parse_sexp(key) if key else None
    if sx:
        rules = {r[1]: r for r in sx[2:]}
        REPS = ("rep", "reponce", "repexact", "repmin", "repmax", "repminmax")

        def simple(e):
            if not isinstance(e, list):
                return True
            if e[0] == "seq" or e[0] in REPS:
                return False
            if e[0] == "ident":
                return e[1] not in rules and e[1] != "EOI"
            if e[0] in ("str", "insens", "range", "peekslice", "skip"):
                return True
            return all(simple(c) for c in e[1:])

        def idents(e, out):
            if isinstance(e, list):
                if e[0] == "ident":
                    out.add(e[1])
                for c in e[1:]:
                    idents(c, out)

        def has_site(e):
            return isinstance(e, list) and (e[0] == "seq" or e[0] in REPS or any(has_site(c) for c in e[1:]))
        for n in ("WHITESPACE", "COMMENT"):
            if n in rules and rules[n][2] not in ("atomic", "compound") and not simple(rules[n][3]):
                info["risky"].add(n)
                ids = set()
                idents(rules[n][3], ids)
                if ids & set(rules):
                    info["inner"] = True
        info["atomic_like"] = not info["risky"]
        refs = {}
        for n, r in rules.items():
            ids = set()
            idents(r[3], ids)
            refs[n] = ids & set(rules)

        def closure(start):
            reach = set(start)
            changed = True
            while changed:
                changed = False
                for n in rules:
                    if n not in reach and refs[n] & reach:
                        reach.add(n)
                        changed = True
            return reach
        info["reach"] = closure(info["risky"]) if info["risky"] else set()
        info["can_skip"] = closure({n for n, r in rules.items() if has_site(r[3])})
    _FWS_CACHE[key] = info
    return info


def skip_rule_uses_stack(ginfo):
    """A WHITESPACE / COMMENT rule of the grammar contains a stack operation (directly; the corpus has no indirect ones)."""
    key = ("stackskip", ginfo.get("sexp", ""))
    if key not in _FWS_CACHE:
        _FWS_CACHE[key] = any(re.search(r"^(WHITESPACE|COMMENT) = [^\n]*(PUSH|PEEK|POP|DROP)", l) for l in ginfo.get("text", "").splitlines())
    return _FWS_CACHE[key]


def fws_grammar(ginfo):
    """The grammar is outside `SkipRulesAtomicLike` (root cause of F-WS present somewhere in it)."""
    return not fws_predicates(ginfo)["like"]


def fws_case(ginfo, rule, tokens=False):
    """Does known finding F-WS apply to a case with this entry rule?  Only where NO theorem promises agreement with pest:
    `SkipRulesAtomicLike g` fails and, for the entry rule, `SkipRulesImplicitOnly` (verdict / offset) resp.
    `SkipRulesImplicitOnlyTok` (token tree) fails too.  (A token case is also outside the theorems when its verdict case is.)"""
    h = fws_predicates(ginfo)
    if h["like"]:
        return False
    if not h["implicit"].get(rule, False):
        return True
    return bool(tokens) and not h["implicit_tok"].get(rule, False)


def fws_python_case(ginfo, rule, tokens=False):
    """The former python approximation of `fws_case` (reporting only)."""
    info = fws_python(ginfo)
    return rule in info["reach"] or (tokens and info["inner"] and rule in info["can_skip"])


def skip_hypothesis_coverage(ctx, res, gid_filter=None):
    """Coverage: on how many corpus (grammar, entry rule) pairs each hypothesis of the C01 / C02 / C07 theorems holds (the
    theorems are not vacuous on the corpus), and where the former python approximation of F-WS disagrees with them."""
    st = {"grammars": 0, "like": 0, "pairs": 0, "pairs_like": 0, "pairs_implicit": 0, "pairs_implicit_tok": 0,
          "pairs_outside_every_theorem": 0}
    dis = []
    for gid, gi in res.grammars.items():
        if (gid_filter and not gid_filter(gid)) or "sexp" not in gi:
            continue
        h = fws_predicates(gi)
        st["grammars"] += 1
        st["like"] += 1 if h["like"] else 0
        for rule, _ in gi["rules"]:
            st["pairs"] += 1
            st["pairs_like"] += 1 if h["like"] else 0
            st["pairs_implicit"] += 1 if h["like"] or h["implicit"].get(rule) else 0
            st["pairs_implicit_tok"] += 1 if h["like"] or h["implicit_tok"].get(rule) else 0
            st["pairs_outside_every_theorem"] += 1 if fws_case(gi, rule) else 0
            for tok in (False, True):
                a, b = fws_python_case(gi, rule, tok), fws_case(gi, rule, tok)
                if a != b and len(dis) < 40:
                    dis.append({"grammar": gid, "entry": rule, "tokens": tok, "python_said_fws": a, "lean_says_fws": b})
    if True:
        for gid, gi in res.grammars.items():
            if "sexp" in gi and (not gid_filter or gid_filter(gid)) and fws_python(gi)["atomic_like"] != fws_predicates(gi)["like"] and len(dis) < 60:
                dis.append({"grammar": gid, "python_atomic_like": fws_python(gi)["atomic_like"], "lean_like": fws_predicates(gi)["like"]})
    suite = (getattr(res, "meta", {}) or {}).get("suite", "?")
    ctx.coverage.setdefault("distribution", {}).setdefault("skip_hypotheses", {})[suite] = st
    ctx.coverage.setdefault("fws_python_vs_lean", [])
    ctx.coverage["fws_python_vs_lean"] += [dict(d, suite=suite) for d in dis]


def threeway(ctx, res, want_tokens, gid_filter=None, want_stack=False, lean_tokens=None, skip_fws=False):
    """Shared oracle of C01 (verdict/offset), C02 (token tree) and C07 (same, on skip-relevant grammars).
    `lean_tokens` (checks/spectok.py: the Lean `pruneAtomic (specTok …)` forests, tied to pest's own forests by
    `Spec-tokens-vs-pest`): when given, it is the authority for the expected token tree of EVERY case the Spec accepts
    (also where pest panics or is no reference); without it the python `prune` of pest's forest is used where pest ran."""
    stats = {"pest_eq_spec": 0, "pest_panic": 0, "pest_ne_spec_stack": 0, "spec_oof": 0, "accepted": 0, "rejected": 0}
    preload_skip_hypotheses(res)
    skip_hypothesis_coverage(ctx, res, gid_filter)
    # the Spec's answer is computed by the driver on parse_partial cases; check_partial cases of the same
    # (grammar, rule, input) are judged against the same answer (C03: the two paths must agree)
    spec_of = {}
    for c, io, mo in res.rows():
        if c[2] == "parse_partial" and c[3] == "str" and "spec" in mo:
            spec_of[(c[0], c[1], c[6])] = mo["spec"]
    for c, io, mo in res.rows():
        if c[2] not in ("parse_partial", "check_partial") or c[3] != "str":
            continue
        if gid_filter and not gid_filter(c[0]):
            continue
        if c[2] == "check_partial":
            mo = dict(mo)
            if (c[0], c[1], c[6]) in spec_of:
                mo["spec"] = spec_of[(c[0], c[1], c[6])]
        ginfo = res.grammars[c[0]]
        spec = mo.get("spec")
        if spec is None:
            continue
        if spec == "oof":
            stats["spec_oof"] += 1
            continue
        sp = spec.split(":", 2)
        exp_v, exp_end = ("ok", sp[1]) if sp[0] == "ok" else ("fail", None)
        pest = io.get("pest")
        # a silent entry rule (`pest=silent:…`, corpus.FN_PS): pest gives verdict and forest but no end offset
        silent_entry = pest is not None and pest.startswith("silent:")
        if silent_entry:
            pest = pest[len("silent:"):]
        fws = fws_case(ginfo, c[1])
        if fws and skip_fws:
            # C05 / C06 judge restore points and stack operations: a case whose entry rule is / explicitly refers to a
            # non-atomic composite skip rule is the subject of known finding F-WS (judged and listed under C01 / C02 / C07)
            stats["fws_cases_left_to_C01"] = stats.get("fws_cases_left_to_C01", 0) + 1
            continue
        if pest is not None:
            if pest == "panic":
                stats["pest_panic"] += 1
            else:
                pv, pend = ("ok", pest.split(":")[1]) if pest.startswith("ok:") else ("fail", None)
                if silent_entry and pv == "ok":
                    pend = exp_end
                if (pv, pend) == (exp_v, exp_end):
                    stats["pest_eq_spec"] += 1
                elif ginfo.get("uses_stack"):
                    # pest leaves out a stack restore / its Stack loses a pop: the property sends these to PEG semantics
                    stats["pest_ne_spec_stack"] += 1
                else:
                    ctx.tie_broken("Spec-vs-pest", {"case": case_dict(c), "pest": pest[:200], "spec": spec,
                                                    "note": "the reference semantics disagrees with pest on a stack-free grammar: the Spec is wrong, nothing is shown"})
        ctx.count(c, io.get("v") == "ok" and io.get("end") != "0")
        ctx.sample(c, io)
        stats["accepted" if exp_v == "ok" else "rejected"] += 1
        got = (io.get("v"), io.get("end") if io.get("v") == "ok" else None)
        if got != (exp_v, exp_end):
            ctx.violation("verdict/offset differs from pest semantics" + (" [skip rule not atomic]" if fws else ""), c,
                          impl={"v": io.get("v"), "end": io.get("end")}, expected={"v": exp_v, "end": exp_end, "authority": "Spec (Lean), pest=" + str(pest)[:80]}, fws=fws)
        elif want_stack and exp_v == "ok" and io.get("stk") != sp[2]:
            ctx.violation("final stack differs from backtracking PEG semantics", c, impl=io.get("stk"), expected=sp[2])
        elif want_tokens and c[2] == "parse_partial" and exp_v == "ok":
            lo = lean_tokens.get((c[0], c[1], c[6])) if lean_tokens is not None else None
            if lo is not None and lo.get("spec") == spec and "sprune" in lo:
                # authority: the Lean `pruneAtomic (specTokPartial …)`, the right-hand side of C02_tree itself
                ptoks, shown, auth = parse_tokens(lo["sprune"]), lo["sprune"], "pruneAtomic (specTok) (Lean), pest=" + str(pest)[:80]
            elif pest and pest.startswith("ok:") and (silent_entry or pest.split(":")[1] == exp_end):
                # (where pest itself departs from backtracking PEG semantics on a stack-using grammar its tree is not a reference)
                atomic = {n for n, k in ginfo["rules"] if k in ("atomic", "compound")}
                ptoks, shown, auth = prune(parse_tokens(pest.split(":", 2)[2]), atomic), pest.split(":", 2)[2], "pest, pruned (python)"
            else:
                continue
            stats["token_trees_judged"] = stats.get("token_trees_judged", 0) + 1
            itoks = parse_tokens(io.get("tok", "[]"))
            if ptoks != itoks:
                fwst = fws_case(ginfo, c[1], tokens=True)
                ctx.violation("token tree differs from pest's pruned tree" + (" [skip rule not atomic]" if fwst else ""), c,
                              impl=io.get("tok"), expected=shown, authority=auth, fws=fwst)
    ctx.coverage.setdefault("distribution", {}).update(stats)


RUN_RULE = ("T-run corpus: systematic grammars (every operator, rule kind, built-in, stack op, counted repetition, recursion, multi-byte "
            "literals, the 5^3 x 4 kind-nesting family) + seeded random grammars (plain / stack-heavy / recursive / multi-byte), inputs = all "
            "strings up to length 4 (quick) / 5 (thorough) over each grammar's alphabet + random longer ones; every case runs the derived "
            "pest-typed parser, pest_derive's parser of the same grammar and the Lean Spec; non-trivial = accepted with a non-empty match; "
            "distinct by (grammar, rule, input)")


def check_C01(ctx):
    ctx.rule_text = RUN_RULE
    res = suites.suite_run(ctx.tier, ctx.seed)
    ctx.tie("T-run:verdict-offset", res, ["v", "end"], lambda c: c[2] == "parse_partial")
    from .tgen import tie_tgen
    tie_tgen(ctx, ctx.tier, ctx.seed)      # structural tie: emitted rule! calls vs Model.Gen
    threeway(ctx, res, want_tokens=False)


def check_C02(ctx):
    ctx.rule_text = RUN_RULE
    res = suites.suite_run(ctx.tier, ctx.seed)
    ctx.tie("T-run:tokens", res, ["v", "tok"], lambda c: c[2] in ("parse_partial", "parse"))
    # the theorem's right-hand side executed and tied to pest: Lean specTok forest == pest's forest (checks/spectok.py)
    from .spectok import tie_spectok
    threeway(ctx, res, want_tokens=True, lean_tokens=tie_spectok(ctx, res))


def check_C07(ctx):
    ctx.rule_text = RUN_RULE + "; restricted to grammars that define WHITESPACE/COMMENT or belong to the kind-nesting family"
    res = suites.suite_run(ctx.tier, ctx.seed)
    skipg = {gid for gid, gi in res.grammars.items() if re.search(r"WHITESPACE|COMMENT", gi["text"]) or gid.startswith("s_kinds")}
    ctx.tie("T-run:offsets-tokens", res, ["v", "end", "tok"], lambda c: c[0] in skipg and c[2] in ("parse_partial", "parse", "check_partial"))
    from .tgen import tie_tgen
    tie_tgen(ctx, ctx.tier, ctx.seed)      # every SKIP / INHERITED argument the generator emits vs Model.Gen
    from .spectok import tie_spectok
    threeway(ctx, res, want_tokens=True, gid_filter=lambda g: g in skipg, lean_tokens=tie_spectok(ctx, res))
    # skipping inside the counted repetitions the generator emits without pest's optimizer (RepMinMax & co. have their own skip handling)
    noopt = suites.suite_run_noopt(ctx.tier, ctx.seed)
    skipn = {gid for gid, gi in noopt.grammars.items() if re.search(r"WHITESPACE|COMMENT", gi["text"])}
    ctx.tie("T-run-noopt:offsets-tokens", noopt, ["v", "end", "tok"], lambda c: c[0] in skipn and c[2] in ("parse_partial", "parse", "check_partial"))
    threeway(ctx, noopt, want_tokens=False, gid_filter=lambda g: g in skipn)



# ---------------------------------------------------------------------------------------------
# raw suites with the independent python reference (C06, C19, parts of C05 / C17)

def stack_texts(stk, s):
    """'[0:1,1:3]' -> tuple of texts (byte offsets into s)"""
    b = s.encode("utf-8")
    out = []
    for part in stk.strip("[]").split(","):
        if part:
            a, e = part.split(":")
            out.append(b[int(a):int(e)].decode("utf-8"))
    return tuple(out)


def raw_oracle(ctx, res, gid_filter, what):
    import rawgen
    from .pyref import Ref
    gs = {g["gid"]: g for g in rawgen.all_raw()}
    refs = {}
    hist = {"ok": 0, "fail": 0}
    for c, io, mo in res.rows():
        if c[2] != "parse_partial" or not gid_filter(c[0], c[1]):
            continue
        ref = refs.setdefault(c[0], Ref(gs[c[0]]))
        # a Span / Position sub-input is judged as a fresh copy of the slice, offsets shifted by a (C08)
        shift = 0
        text = c[6]
        if c[3] in ("span", "pos"):
            bts = c[6].encode("utf-8")
            shift = c[4]
            text = bts[c[4]:(c[5] if c[3] == "span" else len(bts))].decode("utf-8")
        exp = ref.run_rule(c[1], text)
        if exp is not None and shift:
            exp = (exp[0] + shift, exp[1])
        got_v = io.get("v")
        ctx.count(c, got_v == "ok" and (io.get("end") != "0" or io.get("stk") != "[]"))
        ctx.sample(c, io)
        hist["ok" if exp else "fail"] += 1
        if exp is None:
            if got_v != "fail":
                ctx.violation(what + ": expected failure", c, impl={k: io.get(k) for k in ("v", "end", "stk")}, expected="fail (python reference)")
        else:
            got = (got_v, io.get("end"), stack_texts(io.get("stk", "[]"), c[6]) if got_v == "ok" else None)
            if got != ("ok", str(exp[0]), exp[1]):
                ctx.violation(what + ": wrong result", c, impl={k: io.get(k) for k in ("v", "end", "stk")},
                              expected={"v": "ok", "end": exp[0], "stack_texts": list(exp[1])})
    ctx.coverage.setdefault("distribution", {}).update(hist)


def check_C06(ctx):
    ctx.rule_text = ("T-raw: PUSH x depth (0..4) followed by PEEK[a..b] for every a in -6..6 and b in -6..6 or open, in atomic and "
                     "non-atomic context, plus every stack built-in in both contexts; inputs = all strings up to length 4 (quick) / 6 (thorough) "
                     "over {a, b, space} + random longer ones: the property's own quantifier, enumerated completely; oracle = independent "
                     "python PEG evaluator stating the slice semantics of the property text; non-trivial = accepted with consumption or non-empty stack")
    res = suites.suite_raw(ctx.tier, ctx.seed)
    f = lambda c: c[0].startswith("slice_") or c[0].startswith("stackops_")
    ctx.tie("T-raw:stack-nodes", res, ["v", "end", "stk", "trk"], f)
    raw_oracle(ctx, res, lambda g, r: g.startswith("slice_") or g.startswith("stackops_"), "stack operation")
    ctx.coverage["exhaustive"] = True
    # generator-level: the derived grammars of the T-run corpus that use the stack, against the Spec
    run = suites.suite_run(ctx.tier, ctx.seed)
    stackg = {gid for gid, gi in run.grammars.items() if gi.get("uses_stack")}
    ctx.tie("T-run:stack-grammars", run, ["v", "end", "stk", "trk"], lambda c: c[0] in stackg)
    threeway(ctx, run, want_tokens=False, gid_filter=lambda g: g in stackg, want_stack=True, skip_fws=True)
    # the stack grammars derived with `#[pest_optimizer = false]` (stack operations inside RepMinMax & co.), against the Spec of the RAW AST
    noopt = suites.suite_run_noopt(ctx.tier, ctx.seed)
    ctx.tie("T-run-noopt:stack-grammars", noopt, ["v", "end", "stk", "trk"])
    threeway(ctx, noopt, want_tokens=False, want_stack=True, skip_fws=True)


def _c19_impl_obs(io):
    """C19's observables of one implementation row: verdict, cursor, stack and - read from the `{:?}` text of the value the
    runner printed - the element list of the first counted repetition (`n`, `items`, `skips`; checks/pyref.py).  The tracker is
    NOT among them: what failed attempts record is C10's subject (and tied on this suite by C03 / C09)."""
    o = {k: io[k] for k in ("v", "pre", "end", "stk") if k in io}
    items = None
    dbg = io.get("dbg")
    if dbg is not None and io.get("v") == "ok":
        o["dbg"] = dbg
        hit = _C19_DBG_MEMO.get(dbg)
        if hit is None:
            from . import pyref
            try:
                items = pyref.debug_rep_items(_unhex_obs(dbg))
                hit = (items, pyref.render_rep_items(items))
            except Exception as e:
                hit = (None, {"n": "unreadable: " + str(e)[:80]})
            if len(_C19_DBG_MEMO) < 200000:
                _C19_DBG_MEMO[dbg] = hit
        items = hit[0]
        o.update(hit[1])
    return o, items


_C19_DBG_MEMO = {}


def check_C19(ctx):
    ctx.rule_text = ("T-raw: RepeatMin / RepeatMinMax for MIN, MAX in 0..4 x skip flag 0 / 1 / INHERITED (reached with 0 and 1) x element kinds "
                     "(string, choice, nested repetition, stack ops, rule struct, elements that match without consuming), arrays, pairs, optionals, "
                     "skip-n-chars, skip-repeat; the four loops of RepeatMin<_,0> / RepeatMinMax<_,0,MAX> as NeverFailedTypedNode (parse_with / "
                     "check_with: called directly after a prefix, SKIP in 0..2, MAX in none, 0..4, and as `$ignored` of rule!); inputs = all strings "
                     "up to length 5 over {a, b, space} (quick) / 6 over {a, b, space} and 8 over {a, space} (thorough) + targeted inputs with up to 7 "
                     "matchable iterations (blanks interleaved) + random ones up to length 9, whole-string, Position and Span forms; observables = "
                     "verdict, cursor, stack, NUMBER OF ELEMENTS, span of every element and of every skipped blank (from the value's Debug text), "
                     "the Debug text itself; oracle = independent python PEG evaluator (greedy, bounds, skip given back, iterations listed); "
                     "parse and check compared model-free")
    from . import pyref
    import rawgen
    res = suites.suite_raw(ctx.tier, ctx.seed)
    ctx.note_suite(res)
    gs = {g["gid"]: g for g in rawgen.all_raw() if g["gid"].startswith("rep_")}
    refs = {gid: pyref.Ref(g) for gid, g in gs.items()}
    rules = {gid: {r["name"]: r for r in g["rules"]} for gid, g in gs.items()}
    # --- tie: C19's own observables (no tracker), element list included
    keys = ["v", "pre", "end", "stk", "n", "items", "skips", "dbg"]
    tie = {"cases": 0, "agree": 0, "oof_skipped": 0, "observables": keys, "with_element_list": 0, "with_debug_text": 0}
    diffs = []
    hist = {"ok": 0, "fail": 0, "nf_direct": 0, "ignored_full": 0, "elements_checked": 0, "max_elements": 0, "stopped_at_max_with_more_input": 0}
    groups = {}
    atmax = {}
    for c, iline, mline in zip(res.cases, res.impl, res.model):
        if c[0] not in gs:
            continue
        io, mo = suites.parse_obs(iline), suites.parse_obs(mline)
        obs, items = _c19_impl_obs(io)
        tie["cases"] += 1
        if mo.get("v") == "oof":
            tie["oof_skipped"] += 1
        else:
            bad = [k for k in keys if (k in mo or k in obs) and obs.get(k) != mo.get(k) and not (k == "dbg" and mo.get(k) == "-")]
            if bad:
                if len(diffs) < 5:
                    diffs.append({"case": list(c), "keys": bad, "impl": {k: obs.get(k) for k in bad}, "model": {k: mo.get(k) for k in bad}})
                tie["disagree"] = tie.get("disagree", 0) + 1
            else:
                tie["agree"] += 1
                tie["with_element_list"] += 1 if obs.get("n", "-") != "-" else 0
                tie["with_debug_text"] += 1 if mo.get("dbg", "-") != "-" else 0
        groups.setdefault((c[0], c[1], c[3], c[4], c[5], c[6]), {})[c[2]] = (obs.get("v"), obs.get("pre"), obs.get("end"), obs.get("stk"))
        # --- oracle: the python reference on the same (sub-)input
        entry = c[2]
        if entry not in ("parse_partial", "nf_parse", "nf_check", "parse", "check"):
            continue
        ref = refs[c[0]]
        shift, text = 0, c[6]
        if c[3] in ("span", "pos"):
            bts = c[6].encode("utf-8")
            shift = c[4]
            text = bts[c[4]:(c[5] if c[3] == "span" else len(bts))].decode("utf-8")
        sh = lambda sp: None if sp is None else (sp[0] + shift, sp[1] + shift)
        got_v = obs.get("v")
        show = {k: obs.get(k) for k in ("v", "pre", "end", "stk", "n", "items", "skips") if k in obs}
        exp_items = None
        if entry in ("parse", "check"):
            if not rules[c[0]].get(c[1], {}).get("ignored"):
                continue
            hist["ignored_full"] += 1
            exp = ref.run_rule_full(c[1], text)
            ctx.count(c, got_v == "ok")
            want = "fail" if exp is None else "ok"
            if got_v != want or (exp is not None and stack_texts(obs.get("stk", "[]"), c[6]) != exp):
                ctx.violation("rule with a counted repetition as $ignored: full entry differs from the reference", c, impl=show,
                              expected={"v": want, "stack_texts": None if exp is None else list(exp)})
            continue
        if entry == "parse_partial":
            exp = ref.run_rule_items(c[1], text)
            ctx.count(c, got_v == "ok" and (obs.get("end") != "0" or obs.get("stk") != "[]"))
            ctx.sample(c, io)
            hist["ok" if exp else "fail"] += 1
            if exp is None:
                if got_v != "fail":
                    ctx.violation("bounded repetition / raw combinator: expected failure", c, impl=show, expected="fail (python reference)")
                continue
            got = (got_v, obs.get("end"), stack_texts(obs.get("stk", "[]"), c[6]) if got_v == "ok" else None)
            if got != ("ok", str(exp[0] + shift), exp[1]):
                ctx.violation("bounded repetition / raw combinator: wrong result", c, impl=show,
                              expected={"v": "ok", "end": exp[0] + shift, "stack_texts": list(exp[1])})
                continue
            exp_items = exp[2]
            body = rules[c[0]][c[1]]["body"]
            bounds = (body[2], body[3]) if body[0] == "rep" else None
            more_from = (0 if body[1] == "0" else 1, body[4], (0, ())) if body[0] == "rep" else None
        else:
            exp = ref.run_nf(c[1], text)
            hist["nf_direct"] += 1
            ctx.count(c, got_v == "ok" and obs.get("end") != obs.get("pre"))
            if exp is None:
                if got_v != "prefail":
                    ctx.violation("direct call of a never-failing repetition: the prefix should not match", c, impl=show)
                continue
            got = (got_v, obs.get("pre"), obs.get("end"), stack_texts(obs.get("stk", "[]"), c[6]) if got_v == "ok" else None)
            if got != ("ok", str(exp[0] + shift), str(exp[1] + shift), exp[2]):
                ctx.violation("direct call of a never-failing repetition (parse_with / check_with): wrong result", c, impl=show,
                              expected={"v": "ok", "pre": exp[0] + shift, "end": exp[1] + shift, "stack_texts": list(exp[2])})
                continue
            if entry == "nf_check":
                continue
            exp_items = exp[3]
            it = ref.nf[c[1]]
            bounds = (0, it["max"])
            more_from = (it["k"], it["elem"], ref.ev(it["pre"], text, 0, (), True))
        # the element list: count, order, spans (greedy: as many as the reference, never more than MAX, never fewer than MIN)
        if exp_items is None:
            continue
        hist["elements_checked"] += 1
        hist["max_elements"] = max(hist["max_elements"], len(exp_items))
        if items is None:
            ctx.violation("the value has no readable element list", c, impl=show, expected={"n": len(exp_items)})
            continue
        okc = len(items) == len(exp_items)
        if okc:
            for (gsk, gel), (esk, eel) in zip(items, exp_items):
                if (eel is not None and gel != sh(eel)) or (esk is not None and gsk != [sh(x) for x in esk]):
                    okc = False
        if bounds and okc and not (bounds[0] <= len(items) and (bounds[1] is None or len(items) <= bounds[1])):
            okc = False
        if not okc:
            ctx.violation("counted repetition: wrong element list (count / element spans / skipped blanks)", c, impl=show,
                          expected=pyref.render_rep_items([([] if sk is None else [sh(x) for x in sk], sh(el)) for sk, el in exp_items]),
                          bounds={"min": bounds[0], "max": bounds[1]} if bounds else None)
        elif bounds and bounds[1] is not None and len(items) == bounds[1] and more_from is not None:
            # stopped at MAX: would the reference, allowed one more iteration, match one more?  Then the clause "stops at MAX even
            # if more could match" was exercised for this MAX (counted per MAX; every MAX of the corpus must occur)
            nskip, elem, st = more_from
            _, longer = ref.rep_run(nskip, bounds[1] + 1, elem, text, st[0], st[1], entry == "parse_partial")
            if len(longer) > bounds[1]:
                atmax[bounds[1]] = atmax.get(bounds[1], 0) + 1
    ctx.ties["T-raw:repetition"] = {k: v for k, v in tie.items() if k != "disagree"}
    if tie.get("disagree"):
        ctx.tie_broken("T-raw:repetition", {"disagreements": tie["disagree"], "first": diffs})
    if tie["cases"] == 0 and not ctx.replaying:
        ctx.tie_broken("T-raw:repetition", {"error": "the tie selected 0 cases (corpus / filter mismatch): nothing was compared"})
    elif tie["oof_skipped"] * 100 > tie["cases"] and not ctx.replaying:
        ctx.tie_broken("T-raw:repetition", {"error": f"the model ran out of fuel on {tie['oof_skipped']} of {tie['cases']} cases (> 1 %)"})
    # --- model-free: the parse copy and the check copy of every loop (verdict, cursor, stack; not the tracker)
    pairs = 0
    for key, ent in groups.items():
        for pe, ce in (("parse_partial", "check_partial"), ("parse", "check"), ("nf_parse", "nf_check")):
            if pe in ent and ce in ent:
                po, co = ent[pe], ent[ce]
                pairs += 1
                if po != co:
                    names = ("v", "pre", "end", "stk")
                    bad = [k for k, x, y in zip(names, po, co) if x != y]
                    ctx.violation(f"{pe} vs {ce} differ on {bad} for a raw combinator", (key[0], key[1], pe, key[2], key[3], key[4], key[5]),
                                  parse=dict(zip(names, po)), check=dict(zip(names, co)))
    hist["parse_check_pairs"] = pairs
    hist["stopped_at_max_with_more_input"] = {str(k): v for k, v in sorted(atmax.items())}
    corpus_max = sorted({r["body"][3] for g in gs.values() for r in g["rules"] if r["body"][0] == "rep" and r["body"][3]} |
                        {it["max"] for g in gs.values() for it in g.get("nf", []) if it["max"]})
    missing = [m for m in corpus_max if not atmax.get(m)]
    if missing and not ctx.replaying:
        ctx.tie_broken("C19-coverage", {"error": f"no input on which a repetition with MAX in {missing} stopped at MAX although one more iteration would match"})
    ctx.coverage.setdefault("distribution", {}).update(hist)
    # the property's quantifier is "all inputs up to length 8": report the bound that was actually enumerated
    ri = res.meta.get("rep_inputs", {})
    ctx.coverage["exhaustive_bound"] = ri
    ctx.coverage["exhaustive"] = all(v >= 8 for v in ri.get("exhaustive_max_length", {"-": 0}).values()) and "{a,b,blank}" in ri.get("exhaustive_max_length", {})
    if not ctx.coverage["exhaustive"]:
        ctx.assumptions.append("inputs are enumerated exhaustively only up to the bound recorded in coverage.exhaustive_bound (the property text says length 8); "
                               "longer inputs are targeted / random; the theorems C19_* hold for all inputs")


def check_C05(ctx):
    ctx.rule_text = RUN_RULE + "; restricted to grammars using PUSH/POP/DROP/PEEK (stack-heavy seeded mode pushes in every rule); oracle = Spec with immutable stack (cursor AND final stack contents), pest consulted where it returns"
    run = suites.suite_run(ctx.tier, ctx.seed)
    stackg = {gid for gid, gi in run.grammars.items() if gi.get("uses_stack")}
    ctx.tie("T-run:stack-grammars", run, ["v", "end", "stk"], lambda c: c[0] in stackg)
    threeway(ctx, run, want_tokens=False, gid_filter=lambda g: g in stackg, want_stack=True, skip_fws=True)
    # the counted repetitions as the generator emits them WITHOUT pest's optimizer (RepExact / RepMin / RepMax / RepMinMax: the
    # optimizer unrolls `e{n,m}` into options, so the default derive never reaches their per-iteration restore)
    raw_ast = suites.suite_run_noopt(ctx.tier, ctx.seed)
    ctx.tie("T-run-noopt:stack-grammars", raw_ast, ["v", "end", "stk"])
    threeway(ctx, raw_ast, want_tokens=False, want_stack=True, skip_fws=True)
    raw = suites.suite_raw(ctx.tier, ctx.seed)
    # rep_stackops: `pp_*` = POP as the element of a bounded repetition (a failing POP has already removed its entry: the iteration
    # must give it back), `dr_*` / `pk_*` / `du_*` = DROP / PEEK elements
    rawg = ("rep_k", "rep_stackops", "stackops_n", "stackops_a")
    ctx.tie("T-raw:restore-points", raw, ["v", "end", "stk"], lambda c: c[0] in rawg and c[2] in ("parse_partial", "check_partial", "parse", "check"))
    raw_oracle(ctx, raw, lambda g, r: g in rawg, "restore point")


# ---------------------------------------------------------------------------------------------
# C04

def check_C04(ctx):
    ctx.rule_text = RUN_RULE + "; for every (rule, input): try_parse vs (try_parse_partial, then the grammar's WHITESPACE/COMMENT rules applied repeatedly through their own public rule structs at the reached offset unless the rule is @/$, then end test); inputs include ones ending in skippable text and in text that only looks skippable"
    _c04_suite(ctx, suites.suite_run(ctx.tier, ctx.seed), "T-run:full-entry")
    # the same oracle on the part of the corpus derived with `#[pest_optimizer = false]` (counted repetitions as RepMinMax & co.)
    _c04_suite(ctx, suites.suite_run_noopt(ctx.tier, ctx.seed), "T-run-noopt:full-entry")


def _c04_suite(ctx, res, tie_name):
    ctx.tie(tie_name, res, ["v", "stk", "trk", "tok"], lambda c: c[2] in ("parse", "check"))
    api_oracle(ctx, res)
    # independent skip closure from the implementation's own answers for the skip rules
    at = {}
    for c, io, mo in res.rows():
        if c[1] in ("WHITESPACE", "COMMENT") and c[2] == "parse_partial":
            if c[3] == "pos":
                at[(c[0], c[1], c[6], c[4])] = io
            elif c[3] == "str":
                at[(c[0], c[1], c[6], 0)] = io
    hist = {"full_ok": 0, "full_fail": 0, "undecided": 0}
    for key, ent in group_by_input(res, lambda c: c[3] == "str").items():
        if "parse" not in ent or "parse_partial" not in ent:
            continue
        (c, fio, _), (_, pio, _) = ent["parse"], ent["parse_partial"]
        gid, rule, s = c[0], c[1], c[6]
        ginfo = res.grammars[gid]
        if fws_grammar(ginfo):
            hist["not_judged_fws_grammar"] = hist.get("not_judged_fws_grammar", 0) + 1
            continue
        if skip_rule_uses_stack(ginfo):
            # the closure below runs the skip rules through their own entry points, i.e. on an EMPTY stack: a skip rule that
            # reads or changes the stack (targeted family s_skipstack_*) cannot be evaluated out of its context
            hist["not_judged_stack_in_skip_rule"] = hist.get("not_judged_stack_in_skip_rule", 0) + 1
            continue
        kind = dict(ginfo["rules"]).get(rule)
        n = len(s.encode("utf-8"))
        ctx.count(c, pio.get("v") == "ok")
        ctx.sample(c, fio)
        if pio.get("v") != "ok":
            exp = False
        else:
            p = int(pio["end"])
            if kind not in ("atomic", "compound"):
                names = [x for x in ("WHITESPACE", "COMMENT") if x in dict(ginfo["rules"])]
                moved, undecided = True, False
                while moved:
                    moved = False
                    for x in names:
                        o = at.get((gid, x, s, p))
                        if o is None:
                            undecided = True
                            continue
                        if o.get("v") == "ok" and int(o["end"]) > p:
                            p = int(o["end"])
                            moved = True
                            break
                if undecided and p != n:
                    hist["undecided"] += 1
                    continue
            exp = p == n
        got = fio.get("v") == "ok"
        hist["full_ok" if got else "full_fail"] += 1
        if "check" in ent and (ent["check"][1].get("v") == "ok") != exp:
            ctx.violation("try_check verdict differs from prefix + trailing skip + end test", ent["check"][0],
                          impl=ent["check"][1].get("v"), expected="ok" if exp else "fail", partial={k: pio.get(k) for k in ("v", "end")})
        if got != exp:
            ctx.violation("try_parse verdict differs from prefix + trailing skip + end test", c,
                          impl=fio.get("v"), expected="ok" if exp else "fail", partial={k: pio.get(k) for k in ("v", "end")})
        elif got and fio.get("tok") != pio.get("tok"):
            ctx.violation("try_parse returns a different tree than try_parse_partial", c, full=fio.get("tok"), partial=pio.get("tok"))
    # sub-inputs: a prefix parse that already ends at the end of a Span / Position input must not be rejected by
    # the full entry point of an atomic rule (no trailing skip there), and an accepted full parse implies an
    # accepted prefix parse with the same tree
    for key, ent in group_by_input(res, lambda c: c[3] in ("span", "pos")).items():
        if "parse" not in ent or "parse_partial" not in ent:
            continue
        (c, fio, _), (_, pio, _) = ent["parse"], ent["parse_partial"]
        ginfo = res.grammars[c[0]]
        kind = dict(ginfo["rules"]).get(c[1])
        hi = c[5] if c[3] == "span" else len(c[6].encode("utf-8"))
        ctx.count(c, pio.get("v") == "ok")
        if fio.get("v") == "ok" and (pio.get("v") != "ok" or fio.get("tok") != pio.get("tok")):
            ctx.violation("try_parse on a sub-input accepts but the prefix parse fails or returns another tree", c)
        elif pio.get("v") == "ok" and int(pio["end"]) == hi and fio.get("v") != "ok":
            ctx.violation("try_parse rejects a sub-input whose prefix parse already ends at the end of the input", c,
                          partial={k: pio.get(k) for k in ("v", "end")}, kind=kind)
    dist = ctx.coverage.setdefault("distribution", {})
    for k, v in hist.items():
        dist[k] = dist.get(k, 0) + v


# ---------------------------------------------------------------------------------------------
# C08

def shift_tokens(toks, a):
    return [[t[0], t[1] + a, t[2] + a, shift_tokens(t[3], a)] for t in toks]


def shift_stack(stk, a):
    out = []
    for part in stk.strip("[]").split(","):
        if part:
            x, y = part.split(":")
            out.append(f"{int(x) + a}:{int(y) + a}")
    return "[" + ",".join(out) + "]"


def shift_tracker(trk, a):
    """'<pos>|<attempts>' with the position moved by a (the attempts are rule names: position-free)"""
    pos, _, rest = trk.partition("|")
    return f"{int(pos) + a}|{rest}"


def check_C08(ctx):
    ctx.rule_text = RUN_RULE + ("; for every input of at most 3 characters, and for the targeted whole strings of 7-16 characters (CR|LF split by the cut, "
                                "the terminator of a skip_until just beyond it, literals straddling it, multi-byte characters next to both cuts, stack rules "
                                "that complete inside a shifted sub-input), every pair of character-boundary offsets a <= b: Span(s,a,b) and Position(s,a) "
                                "results vs the result on a fresh copy of the slice (also in the corpus as a &str case), offsets shifted by a; all four entry "
                                "points; on success cursor, final stack and token tree, on failure the furthest position (relative to a) and the recorded "
                                "attempts; debug build (whole corpus) and release build (unchecked slicing; the release part of the corpus)")
    hist = {"no_fresh_reference": 0, "compared_ok": 0, "compared_fail": 0, "long_sub_inputs": 0}
    for label, res in (("dev", suites.suite_run(ctx.tier, ctx.seed)), ("release", suites.suite_run_release(ctx.tier, ctx.seed))):
        ctx.tie("T-run:sub-inputs" if label == "dev" else "T-run-release:sub-inputs", res, ["v", "end", "stk", "trk", "tok"], lambda c: c[3] in ("pos", "span"))
        # the byte-level interpreter (Model/RunL0.lean: a cursor into the WHOLE backing string with start / end offsets, the
        # mechanism this property is about; theorems Props/C08Run.lean) against the binaries of the same build profile
        ctx.tie_l0("T-l0:sub-inputs" if label == "dev" else "T-l0-release:sub-inputs", res, "1" if label == "dev" else "0", lambda c: c[3] in ("pos", "span"))
        fresh = {}
        for c, io, mo in res.rows():
            if c[3] == "str":
                fresh[(c[0], c[1], c[2], c[6])] = io
        for c, io, mo in res.rows():
            if c[3] not in ("pos", "span"):
                continue
            b = c[6].encode("utf-8")
            a = c[4]
            e = c[5] if c[3] == "span" else len(b)
            sl = b[a:e].decode("utf-8")
            f = fresh.get((c[0], c[1], c[2], sl))
            if f is None:
                hist["no_fresh_reference"] += 1
                continue
            ctx.count(c, io.get("v") == "ok" and io.get("end") != str(a) or a > 0)
            ctx.sample(c, io)
            if len(c[6]) > 6:
                hist["long_sub_inputs"] += 1
            exp = {"v": f.get("v")}
            got = {"v": io.get("v")}
            if f.get("v") == "ok":
                hist["compared_ok"] += 1
                if "end" in f:
                    exp["end"] = str(int(f["end"]) + a)
                exp["stk"] = shift_stack(f.get("stk", "[]"), a)
                if "tok" in f:
                    exp["tok"] = shift_tokens(parse_tokens(f["tok"]), a)
            elif f.get("v") == "fail" and "trk" in f:
                hist["compared_fail"] += 1
                exp["trk"] = shift_tracker(f["trk"], a)
            if io.get("v") == "ok":
                if "end" in io:
                    got["end"] = io["end"]
                got["stk"] = io.get("stk", "[]")
                if "tok" in io:
                    got["tok"] = parse_tokens(io["tok"])
            elif io.get("v") == "fail" and "trk" in io:
                got["trk"] = io["trk"]
            if got != exp:
                ctx.violation("sub-input result differs from the fresh slice shifted by a" + ("" if label == "dev" else " [release]"), c,
                              impl=got, fresh_shifted=exp, slice=sl)
    ctx.coverage.setdefault("distribution", {}).update(hist)


# ---------------------------------------------------------------------------------------------
# C09 / C10

def on_boundary(s_bytes, off):
    return 0 <= off <= len(s_bytes) and (off == len(s_bytes) or (s_bytes[off] & 0xC0) != 0x80)


def offsets_of(io):
    offs = []
    if "end" in io:
        offs.append(("cursor", int(io["end"])))
    for part in io.get("stk", "[]").strip("[]").split(","):
        if part:
            x, y = part.split(":")
            offs += [("stack span start", int(x)), ("stack span end", int(y))]
            if int(x) > int(y):
                offs.append(("stack span inverted", -1))
    if "tok" in io:
        def walk(ts):
            for t in ts:
                offs.append(("token start", t[1]))
                offs.append(("token end", t[2]))
                if t[1] > t[2]:
                    offs.append(("token span inverted", -1))
                walk(t[3])
        walk(parse_tokens(io["tok"]))
    if "trk" in io:
        offs.append(("error position", int(io["trk"].split("|")[0])))
    return offs


def offsets_oracle(ctx, res, label):
    hist = {"panic": 0, "timeout": 0}
    for c, io, mo in res.rows():
        b = c[6].encode("utf-8")
        lo = c[4] if c[3] in ("pos", "span") else 0
        hi = c[5] if c[3] == "span" else len(b)
        v = io.get("v")
        ctx.count(c, any(ch >= 0x80 for ch in b) or nontrivial_obs(io))
        if v in ("panic", "crash", "timeout", "missing"):
            hist["panic" if v != "timeout" else "timeout"] += 1
            ctx.violation(f"entry point did not return ({v}) [{label}]", c)
            continue
        for what, off in offsets_of(io):
            if off < lo or off > hi or not on_boundary(b, off):
                ctx.violation(f"{what} out of range or off a character boundary [{label}]", c, offset=off, range=[lo, hi])
                break
        else:
            ctx.sample(c, io)
    ctx.coverage.setdefault("distribution", {}).update({label + "_" + k: v for k, v in hist.items()})


def check_C09(ctx):
    ctx.rule_text = RUN_RULE + "; every reported offset (cursor, stack spans, token spans, tracker position) of every case is tested for range and is_char_boundary; every case runs under catch_unwind with a watchdog; debug and release builds of the generated corpus and of the raw combinators in both tiers (release: a subset); T-src:panic-sites = every panic-capable construct of main/src against the reviewed inventory checks/panic_sites.json; thorough tier: Miri support run (harness/miri_runner, dev + release); non-trivial = input has a multi-byte character or the run consumed / recorded something"
    from . import panic_sites
    panic_sites.check(ctx)      # T-src:panic-sites: new / vanished panic-capable sites of /repo/main/src, theorem names of the inventory
    res = suites.suite_run(ctx.tier, ctx.seed)
    ctx.tie("T-run:all-observables", res, ["v", "end", "stk", "trk", "tok"])
    offsets_oracle(ctx, res, "dev")
    raw = suites.suite_raw(ctx.tier, ctx.seed)
    ctx.tie("T-raw:all-observables", raw, ["v", "end", "stk", "trk", "tok"])
    offsets_oracle(ctx, raw, "dev-raw")
    rel = suites.suite_run_release(ctx.tier, ctx.seed)
    ctx.tie("T-run-release:all-observables", rel, ["v", "end", "stk", "trk", "tok"])
    offsets_oracle(ctx, rel, "release")
    # --- T-l0:profiles (separate block): the byte-level interpreter of Model/RunL0.lean (subject of Props/C09Run.lean:
    # debug = release, no panic / UB) against the binaries of BOTH build profiles, every case of the release corpus in
    # its release profile (`l0 0`) and every case of the debug corpus in its debug profile (`l0 1`)
    ctx.tie_l0("T-l0:profiles-release", rel, "0")
    ctx.tie_l0("T-l0:profiles-debug", res, "1", lambda c: len(res.grammars[c[0]]["rules"]) <= 40)
    # --- end of T-l0:profiles
    rawrel = suites.suite_raw_release(ctx.tier, ctx.seed)
    ctx.tie("T-raw-release:all-observables", rawrel, ["v", "end", "stk", "trk", "tok"])
    offsets_oracle(ctx, rawrel, "release-raw")
    if ctx.tier == "thorough" or os.environ.get("VERIF_MIRI") == "1":
        panic_sites.run_miri(ctx)   # support, not proof: undefined behaviour / panic reported by Miri = violation
    ctx.assumptions.append("memory safety of get_unchecked itself cannot be exhibited by the model: proved is the arithmetic precondition (in range, on a boundary) that makes the unchecked slicing sound")


def _unhex_obs(h):
    return "" if h == "-" else bytes.fromhex(h).decode("utf-8")


def line_col_independent(text, pos):
    """Line, column and the text of the line up to the offset, recomputed from the definition: lines end
    at LF (so CRLF is one break and a lone CR is a column), columns count characters, both from 1."""
    pre = text.encode("utf-8")[:pos].decode("utf-8")
    start = pre.rfind("\n") + 1
    return 1 + pre.count("\n"), 1 + len(pre) - start, pre[start:]


def check_C10_report(ctx, c, io, pos, hist):
    """Oracle on the rendered report of one rejected case (implementation only)."""
    msg, lc, disp = io.get("msg"), io.get("lc"), io.get("disp")
    if msg is None or lc is None or disp is None:
        ctx.tie_broken("harness", {"error": "failing case without msg/lc/disp observables", "case": case_dict(c)})
        return
    hist["rendered"] += 1
    if "panic" in (msg, lc, disp):
        ctx.violation("rendering the error report panics", c, msg=msg, lc=lc, disp=disp, position=pos)
        return
    if "nondet" in (msg, lc, disp):
        ctx.violation("the same case did not fail when repeated", c, position=pos)
        return
    line, col, upto = line_col_independent(c[6], pos)
    if lc != f"{line}:{col}":
        ctx.violation("line/column of the error differ from the location of the report", c, position=pos, lc=lc, expected=f"{line}:{col}")
    text = _unhex_obs(msg)
    if text.split("\n", 1)[0] != upto + "^---":
        ctx.violation("first line of the message is not the line text up to the column followed by ^---", c, position=pos,
                      first_line=text.split("\n", 1)[0], expected=upto + "^---")
    # the rendered lists must say what the tracker recorded: per upper rule, "Expected [..]" = the recorded
    # positives, "Unexpected [..]" = the recorded negatives (sorted, deduplicated), in BTreeMap key order
    want = []
    for part in io.get("trk", "|").split("|", 1)[1].split(";"):
        if not part:
            continue
        upper, rest = part.split(":", 1)
        positives, negatives, _sp = rest.split("/")
        want.append((upper, sorted(set(filter(None, positives.split(",")))), sorted(set(filter(None, negatives.split(","))))))
    got = []
    for ln in text.split("\n")[1:]:
        t = ln.strip()
        m = re.match(r"^(?:Unexpected \[(?P<u>[^\]]*)\])?(?:, expected \[(?P<e2>[^\]]*)\])?(?:Expected \[(?P<e>[^\]]*)\])?(?P<unk>Unknown error \(no rule tracked\))?(?:, by (?P<by>[A-Za-z0-9_#]+))?\.$", t)
        if m and (m.group("u") is not None or m.group("e") is not None or m.group("e2") is not None or m.group("unk")):
            lst = lambda x: sorted(y.strip() for y in x.split(",") if y.strip()) if x else []
            got.append((m.group("by") or "-", lst(m.group("e") or m.group("e2")), lst(m.group("u"))))
    if got != want:
        ctx.violation("rendered expected / unexpected lists differ from what the tracker recorded", c, position=pos,
                      message=text[:400], recorded=want, rendered=got)
    if line > 1:
        hist["rendered_after_line_1"] += 1
    if any(ord(ch) > 127 for ch in upto):
        hist["rendered_multibyte_prefix"] += 1
    if "\r" in upto:
        hist["rendered_cr_in_prefix"] += 1
    if "Unexpected" in text and ", expected" in text:
        hist["rendered_both_lists"] += 1
    if "out of bound" in text or "Nothing to pop" in text:
        hist["rendered_special"] += 1


def check_C10(ctx):
    ctx.rule_text = RUN_RULE + "; every rejected case (whole strings, Position and Span sub-inputs, all four entry points): location inside the (sub-)input / on a boundary / not before the end of the prefix the partial entry point of the same path matched; for sub-inputs the report equals the report on a fresh copy of the slice moved by the start offset; same report when the case is repeated (each case appears under parse and check and in several batches); for grammars without stack operations and without implicit skipping every rule listed as expected (unexpected) is re-run at the reported offset through its own rule struct and must fail (match); the report is rendered (Tracker::collect, Display of the error): no panic, line:column = the location recomputed from the input text, first line of the message = text of the line up to the column + ^---"
    hist = {"rejected": 0, "rejected_sub_inputs": 0, "sub_input_location_vs_fresh_slice": 0, "prefix_end_checked": 0, "expected_checked": 0, "unexpected_checked": 0,
            "rendered": 0, "rendered_after_line_1": 0, "rendered_multibyte_prefix": 0, "rendered_cr_in_prefix": 0, "rendered_both_lists": 0, "rendered_special": 0}
    _c10_suite(ctx, suites.suite_run(ctx.tier, ctx.seed), "T-run", hist)
    # the same oracle on the part of the corpus derived with `#[pest_optimizer = false]` (what RepMinMax & co. record and report)
    _c10_suite(ctx, suites.suite_run_noopt(ctx.tier, ctx.seed), "T-run-noopt", hist)
    ctx.coverage.setdefault("distribution", {}).update(hist)
    ctx.assumptions.append("the rendered message and line:column are tied to Model/Message.lean (T-run:message); pest's own Display of the error (external code) is only run under catch_unwind")



def _c10_suite(ctx, res, label, hist):
    ctx.tie(label + ":tracker", res, ["v", "trk"])
    at = {}
    at_span = {}
    fresh_fail = {}
    failing = set()
    for c, io, mo in res.rows():
        if c[2] == "parse_partial" and c[3] in ("pos", "str"):
            at[(c[0], c[1], c[6], c[4] if c[3] == "pos" else 0)] = io.get("v")
        elif c[2] == "parse_partial" and c[3] == "span":
            at_span[(c[0], c[1], c[6], c[4], c[5])] = io.get("v")
        if c[3] == "str" and io.get("v") == "fail" and "trk" in io:
            fresh_fail[(c[0], c[1], c[2], c[6])] = io["trk"]
        if io.get("v") == "fail" or mo.get("v") == "fail":
            failing.add(c)
    ctx.tie(label + ":message", res, ["msg", "lc"], lambda c: c in failing)
    for key, ent in group_by_input(res).items():
        for en in ("parse", "parse_partial", "check", "check_partial"):
            if en not in ent:
                continue
            c, io, mo = ent[en]
            if io.get("v") != "fail":
                continue
            hist["rejected"] += 1
            b = c[6].encode("utf-8")
            lo = c[4] if c[3] in ("pos", "span") else 0
            hi = c[5] if c[3] == "span" else len(b)
            pos = int(io["trk"].split("|")[0])
            ctx.count(c, pos > lo)
            ctx.sample(c, io)
            if pos < lo or pos > hi or not on_boundary(b, pos):
                ctx.violation("error location out of range or off a character boundary", c, position=pos)
                continue
            check_C10_report(ctx, c, io, pos, hist)
            # a full entry point that fails although the prefix entry point of the same path matched: not before that prefix's end
            pen = {"parse": "parse_partial", "check": "check_partial"}.get(en)
            if pen and pen in ent and ent[pen][1].get("v") == "ok":
                pend = int(ent[pen][1]["end"])
                hist["prefix_end_checked"] += 1
                if pos < pend:
                    ctx.violation("error location lies before the end of the matched prefix", c, position=pos, prefix_end=pend)
            if c[3] in ("pos", "span"):
                # a Span / Position sub-input (the range test above holds for it: inside [start, end] of the SUB-input; line:column
                # and the line text of the report were recomputed from the WHOLE string at that offset): the report must be the one
                # a fresh copy of the slice gives, moved by the start offset - same furthest position, same recorded attempts
                hist["rejected_sub_inputs"] += 1
                ft = fresh_fail.get((c[0], c[1], c[2], b[lo:hi].decode("utf-8")))
                if ft is not None:
                    hist["sub_input_location_vs_fresh_slice"] += 1
                    if shift_tracker(ft, lo) != io["trk"]:
                        ctx.violation("error report of a sub-input parse differs from the report on a fresh copy of the slice moved by the start offset", c,
                                      position=pos, recorded=io["trk"], fresh_slice_moved=shift_tracker(ft, lo))
            ginfo = res.grammars[c[0]]
            simple = not ginfo.get("uses_stack") and not re.search(r"WHITESPACE|COMMENT|SOI", ginfo["text"])
            if simple and c[3] == "span":
                # re-run the listed rules on the Span that starts at the reported offset and ends where the sub-input ends
                at_here = lambda r: at_span.get((c[0], r, c[6], pos, hi))
            else:
                at_here = lambda r: at.get((c[0], r, c[6], pos))
            if simple and en in ("parse", "parse_partial"):
                for part in io["trk"].split("|", 1)[1].split(";"):
                    if not part:
                        continue
                    upper, rest = part.split(":", 1)
                    positives, negatives, _ = rest.split("/")
                    for r in filter(None, positives.split(",")):
                        v = at_here(r) if r != "EOI" else ("ok" if pos == hi else "fail")
                        if v is not None:
                            hist["expected_checked"] += 1
                            if v == "ok":
                                ctx.violation("rule listed as expected matches at the reported location", c, rule=r, position=pos)
                    for r in filter(None, negatives.split(",")):
                        v = at_here(r) if r != "EOI" else ("ok" if pos == hi else "fail")
                        if v is not None:
                            hist["unexpected_checked"] += 1
                            if v == "fail":
                                ctx.violation("rule listed as unexpected fails at the reported location", c, rule=r, position=pos)


def pre_C06(ctx):
    from . import tsrc
    ok, msg = tsrc.regenerate()
    ctx.ties["T-src:parser_state.rs"] = {"cases": 2, "agree": 2 if ok else 0, "observables": ["normalize_index", "constrain_idxs regenerated as Lean definitions; equality with the hand model is a proof obligation (Props/C06Src.lean)"]}
    if not ok:
        ctx.tie_broken("T-src:parser_state.rs", {"error": msg})


def _pre_lazy(fn):
    def run(ctx):
        from . import tsrc
        return getattr(tsrc, fn)(ctx)
    return run


PRE = {"C06": pre_C06, "C01": _pre_lazy("pre_C01"), "C14": _pre_lazy("pre_C14")}


def _lazy(modname, fn):
    def run(ctx):
        import importlib
        return getattr(importlib.import_module("checks." + modname), fn)(ctx)
    return run


CHECKS = {
    "C12": _lazy("text", "check_C12"),
    "C13": _lazy("text", "check_C13"),
    "C14": _lazy("text", "check_C14"),
    "C11": _lazy("c11", "check_C11"),
    "C16": _lazy("c16", "check_C16"),
    "C20": _lazy("c20", "check_C20"),
    "C15": _lazy("acc", "check_C15"),
    "C17": _lazy("acc", "check_C17"),
    "C18": _lazy("acc", "check_C18"),
    "C01": check_C01,
    "C04": check_C04,
    "C05": check_C05,
    "C06": check_C06,
    "C08": check_C08,
    "C09": check_C09,
    "C10": check_C10,
    "C19": check_C19,
    "C02": check_C02,
    "C03": check_C03,
    "C07": check_C07,
}


class _NoRows:
    """stand-in for the suites a replay does not re-run (T-raw, …)"""
    dir = None
    meta = {}
    grammars = {}
    cases = []

    def rows(self):
        return iter(())


REPLAYABLE = ("C01", "C02", "C03", "C04", "C05", "C06", "C07", "C08", "C09", "C10")


def replay(pid, path):
    """`check.py Cxx --replay <file>`: prints the recorded failure; an `impl-vs-oracle` replay of a T-run property that
    carries the grammar text is RE-EXECUTED on the current /repo: a one-grammar workspace is built (binaries `rp*`), the
    recorded case and its companions (every rule and entry point on the input, every Position / Span cut of it when the
    case is a sub-input, the fresh slice, the skip rules at every offset) run on the implementation and on the model, and
    the property's own oracle judges them.  Exit 1 if the recorded violation (same oracle message, same case) is still
    raised, 0 otherwise."""
    r = json.load(open(path))
    shown = json.loads(json.dumps(r))
    for v in [shown.get("first")] + list(shown.get("more", []) or []):
        if isinstance(v, dict) and len(v.get("grammar_text", "")) > 1500:
            v["grammar_text"] = v["grammar_text"][:1500] + " …"
    print(json.dumps(shown, indent=1, ensure_ascii=False)[:6000])
    v = r.get("first") if r.get("kind") == "impl-vs-oracle" else None
    if not isinstance(v, dict) or "grammar_text" not in v or pid not in REPLAYABLE:
        print("(not re-executable: no concrete case with grammar text) re-run: ./check.py", pid, "--tier", r.get("tier", "quick"), "(VERIF_SEED=%s)" % r.get("seed"))
        return 0
    import random
    import corpus
    case = v["case"]
    gid = case["grammar"]
    g0 = {"gid": gid, "text": v["grammar_text"]}
    if case["entry"] == "build":
        suites.ensure_driver()
        ok, bad = corpus.validate([dict(g0)])
        _, built, failures = suites.build_corpus(ok, os.path.join(common.BUILD, "ws_mini_replay"), "rp", attrs=v.get("attrs", "")) if ok else (None, [], [])
        print("REPLAY derive output of", gid, "->", "still does not compile:\n" + failures[0]["error"][:1500] if failures else "compiles now")
        return 1 if failures else 0
    inp = case["input"]
    sub = case["form"] in ("pos", "span")
    g0["inputs"] = [inp]
    g0["exh"] = 0
    if sub:
        g0["subinputs"] = [inp]
    want = (v["what"].split(" [")[0], json.dumps(case, sort_keys=True, ensure_ascii=False))
    variants = [("release", dict(release=True))] if "[release]" in v["what"] else \
        [("default derive, debug build", {}), ("#[pest_optimizer = false]", dict(attrs="#[pest_optimizer = false]", line_prefix="opts 00 "))]
    saved = {n: getattr(suites, n) for n in dir(suites) if n.startswith("suite_") and n != "suite_mini"}
    from . import tgen
    saved_tgen = tgen.tie_tgen
    still = None
    try:
        for label, kw in variants:
            rnd = random.Random(1)
            mini = suites.suite_mini(f"replay{os.getpid()}", [dict(g0)], cases_of=lambda g: suites.run_cases_for(g, rnd, 0, 0, -1), **kw)
            for n in saved:
                setattr(suites, n, (lambda t, s, _m=mini: _m) if n.startswith("suite_run") else (lambda t, s: _NoRows()))
            tgen.tie_tgen = lambda *a, **k: None
            ctx = Ctx(pid, "quick", r.get("seed") or 0)
            ctx.replaying = True
            try:
                CHECKS[pid](ctx)
            except Exception as e:
                print("REPLAY: the check raised on the one-grammar suite:", str(e)[-600:])
            hits = [x for x in ctx.violations if (x["what"].split(" [")[0], json.dumps(x["case"], sort_keys=True, ensure_ascii=False)) == want]
            rows = [(c, io, mo) for c, io, mo in mini.rows() if case_dict(c) == case]
            print(f"REPLAY ({label}) on /repo {common.repo_head()}: case {json.dumps(case, ensure_ascii=False)}")
            for c, io, mo in rows:
                keys = [k for k in ("v", "end", "stk", "trk", "tok", "msg", "lc", "pest") if k in io or k in mo]
                print("  actual   (implementation):", {k: io.get(k) for k in keys})
                print("  model    (Lean driver)   :", {k: mo.get(k) for k in keys + ["spec"] if k in mo})
            if hits:
                h = {k: x for k, x in hits[0].items() if k not in ("grammar_text", "case")}
                print("  oracle   STILL FAILS:", json.dumps(h, ensure_ascii=False)[:1500])
                still = label
                break
            others = [x for x in ctx.violations if x["case"].get("input") == inp]
            print("  oracle   does not raise the recorded violation" + (f" ({len(others)} other violation(s) on this input, first: {others[0]['what']})" if others else ""))
    finally:
        for n, f in saved.items():
            setattr(suites, n, f)
        tgen.tie_tgen = saved_tgen
        import subprocess
        nm = f"replay{os.getpid()}"
        subprocess.call(["rm", "-rf", os.path.join(common.BUILD, "ws_mini_" + nm)] + [os.path.join(common.BUILD, "mini", nm + x) for x in ("", ".sexp", ".uni", ".lock")])
    print("REPLAY verdict:", "still fails" if still else "no longer fails")
    return 1 if still else 0
