"""Per-property checks: which ties bind the property's theorems to the code, and the
implementation-level oracle that looks for a concrete failing input."""
import json, os, re
from . import common, suites


class Ctx:
    def __init__(self, pid, tier, seed):
        self.pid, self.tier, self.seed = pid, tier, seed
        self.violations = []      # concrete failing inputs on the implementation
        self.broken_ties = []     # model/impl disagreements (correspondence broken)
        self.ties = {}
        self.coverage = {}
        self.samples = []
        self.evaluations = 0
        self.nontrivial = 0
        self.rule_text = ""
        self.assumptions = []
        self.known_seen = {}
        self._distinct = set()

    def tie(self, name, result, keys, case_filter=None):
        total, n, diffs = suites.tie_diffs(result, keys, case_filter)
        self.ties[name] = {"cases": total, "agree": total - n, "observables": keys}
        if n:
            self.tie_broken(name, {"disagreements": n, "first": diffs[:5]})
        return n

    def tie_broken(self, name, detail):
        self.broken_ties.append({"tie": name, **detail})

    def violation(self, what, case, **detail):
        self.violations.append({"what": what, "case": case_dict(case), **detail})

    def count(self, case, nontrivial):
        self.evaluations += 1
        if nontrivial:
            key = (case[0], case[1], case[3], case[4], case[5], case[6])
            if key not in self._distinct:
                self._distinct.add(key)
                self.nontrivial += 1

    def sample(self, case, io):
        if len(self.samples) < 5:
            self.samples.append({"case": case_dict(case), "impl": {k: v for k, v in io.items() if k != "dbg"}})


def case_dict(c):
    return {"grammar": c[0], "rule": c[1], "entry": c[2], "form": c[3], "a": c[4], "b": c[5], "input": c[6]}


def signature_matches(finding, violation):
    sig = finding.get("signature", {})
    kind = sig.get("kind")
    if kind == "what-prefix":
        prefixes = sig.get("prefixes") or [sig["prefix"]]
        return any(violation["what"].startswith(p) for p in prefixes) and all(
            re.search(p, json.dumps(violation, ensure_ascii=False)) for p in sig.get("require", []))
    return False


def group_by_input(result, case_filter=None):
    """(gid, rule, form, a, b, input) -> {entry: impl observables}"""
    groups = {}
    for c, io, mo in result.rows():
        if case_filter and not case_filter(c):
            continue
        groups.setdefault((c[0], c[1], c[3], c[4], c[5], c[6]), {})[c[2]] = (c, io, mo)
    return groups


def nontrivial_obs(io):
    """A case is non-trivial when the run consumed input or recorded something beyond the entry rule."""
    return io.get("v") == "ok" and io.get("end", "0") != "0" or ";" in io.get("trk", "") or io.get("stk", "[]") != "[]"


# ---------------------------------------------------------------------------------------------

def api_oracle(ctx, res):
    """The PUBLIC entry points (`N::try_parse(input)` …, which create their own stack and tracker, and the derived
    `TypedParser` impl's `try_parse::<N>` / `try_check::<N>`) must give what the `_with` functions give on a fresh
    stack and tracker: same verdict, end offset, tree (Debug rendering) and error message."""
    n = 0
    for c, io, mo in res.rows():
        api = io.get("api")
        if api is None:
            continue
        n += 1
        v = io.get("v")
        if api.startswith("ok"):
            parts = api.split(":")
            bad = v != "ok"
            if not bad and c[2] in ("parse_partial", "check_partial") and len(parts) > 1 and parts[1] != io.get("end"):
                bad = True
            if not bad and c[2] in ("parse_partial", "parse") and len(parts) > 2 and parts[2] != io.get("dbg"):
                bad = True
            if bad:
                ctx.violation("public entry point disagrees with the same run on a fresh stack and tracker", c, api=api[:200],
                              with_={k: io.get(k) for k in ("v", "end")})
        elif api.startswith("fail:"):
            if v != "fail" or (io.get("msg") not in (None, "panic", "nondet") and api[5:] != io.get("msg")):
                ctx.violation("public entry point's error differs from the report of the same run", c, api=api[:300], v=v, msg=io.get("msg", "")[:300])
        tp = io.get("tp")
        if tp is not None and tp != v:
            ctx.violation("TypedParser::try_parse / try_check disagrees with the rule struct's entry point", c, tp=tp, v=v)
    ctx.coverage.setdefault("distribution", {})["public_api_cases"] = n


def check_C03(ctx):
    ctx.rule_text = ("T-run + T-raw corpora (systematic + seeded grammars, exhaustive short inputs over each grammar's "
                     "alphabet + random longer ones, three input forms); a case is non-trivial when it consumed input, "
                     "left a non-empty stack or recorded attempts under more than one rule; distinct by (grammar, rule, form, range, input)")
    keys = ["v", "end", "stk", "trk"]
    for name, res in (("T-run", suites.suite_run(ctx.tier, ctx.seed)), ("T-raw", suites.suite_raw(ctx.tier, ctx.seed))):
        api_oracle(ctx, res)
        # each path separately against its own model function
        ctx.tie(name + ":parse-path", res, keys, lambda c: c[2] in ("parse_partial", "parse"))
        ctx.tie(name + ":check-path", res, keys, lambda c: c[2] in ("check_partial", "check"))
        # model-free oracle on the implementation: parse vs check
        for key, ent in group_by_input(res).items():
            for pe, ce in (("parse_partial", "check_partial"), ("parse", "check")):
                if pe in ent and ce in ent:
                    (c, pio, _), (_, cio, _) = ent[pe], ent[ce]
                    ctx.count(c, nontrivial_obs(pio))
                    ctx.sample(c, pio)
                    bad = [k for k in keys if pio.get(k) != cio.get(k)]
                    if bad:
                        ctx.violation(f"{pe} vs {ce} differ on {bad}", c,
                                      parse={k: pio.get(k) for k in keys}, check={k: cio.get(k) for k in keys})


# ---------------------------------------------------------------------------------------------
# C01 / C02 / C07: three-way comparison  implementation  vs  Spec (Lean, authoritative)  vs  pest

def parse_tokens(txt):
    """'[(r 0 2 (x 0 1))]' -> nested lists [name, s, e, [children]]"""
    import corpus
    sx = corpus.parse_sexp("(" + txt.strip()[1:-1] + ")") if txt and txt.startswith("[") else []

    def conv(t):
        return [t[0], int(t[1]), int(t[2]), [conv(c) for c in t[3:]]]
    return [conv(t) for t in sx]


def prune(toks, atomic):
    return [[t[0], t[1], t[2], [] if t[0] in atomic else prune(t[3], atomic)] for t in toks]


_FWS_CACHE = {}


def fws_grammar(ginfo):
    key = ginfo.get("sexp", "")[:80] + str(len(ginfo.get("sexp", "")))
    if key not in _FWS_CACHE:
        _FWS_CACHE[key] = _fws_grammar(ginfo)
    return _FWS_CACHE[key]


def fws_case(ginfo, rule, tokens=False):
    """Does known finding F-WS apply to a case with this entry rule?  Verdict / offset: only when the entry rule is a
    risky skip rule itself or reaches an EXPLICIT reference to one (implicit skipping matches skip rules atomically,
    like pest).  Tokens: additionally whenever a risky skip rule's body mentions a grammar rule (inner tokens are
    kept where pest prunes them)."""
    import corpus
    key = ("case", ginfo.get("sexp", "")[:80] + str(len(ginfo.get("sexp", ""))))
    if key not in _FWS_CACHE:
        info = {"risky": set(), "reach": set(), "inner": False}
        if _fws_grammar(ginfo):
            sx = corpus.parse_sexp(ginfo["sexp"])
            rules = {r[1]: r for r in sx[2:]}

            def risky(e):
                if isinstance(e, list):
                    if e[0] in ("seq", "rep", "reponce", "repexact", "repmin", "repmax", "repminmax"):
                        return True
                    if e[0] == "ident" and e[1] in rules:
                        return True
                    return any(risky(c) for c in e[1:])
                return False

            def idents(e, out):
                if isinstance(e, list):
                    if e[0] == "ident":
                        out.add(e[1])
                    for c in e[1:]:
                        idents(c, out)
            for n in ("WHITESPACE", "COMMENT"):
                if n in rules and rules[n][2] not in ("atomic", "compound") and risky(rules[n][3]):
                    info["risky"].add(n)
                    ids = set()
                    idents(rules[n][3], ids)
                    if ids & set(rules):
                        info["inner"] = True
            refs = {}
            for n, r in rules.items():
                ids = set()
                idents(r[3], ids)
                idents(r[4], ids)
                refs[n] = ids & set(rules)
            reach = set(info["risky"])
            changed = True
            while changed:
                changed = False
                for n in rules:
                    if n not in reach and refs[n] & reach:
                        reach.add(n)
                        changed = True
            info["reach"] = reach
        _FWS_CACHE[key] = info
    info = _FWS_CACHE[key]
    return rule in info["reach"] or (tokens and info["inner"])


def _fws_grammar(ginfo):
    """F-WS root cause: a WHITESPACE/COMMENT rule that is not declared @/$ and whose body contains
    a sequence, a repetition or a rule reference (pest forces such bodies atomic, pest-typed does not)."""
    import corpus
    sx = corpus.parse_sexp(ginfo["sexp"]) if "sexp" in ginfo else None
    if not sx:
        return False
    for r in sx[2:]:
        if r[1] in ("WHITESPACE", "COMMENT") and r[2] not in ("atomic", "compound"):
            def risky(e):
                if isinstance(e, list):
                    if e[0] in ("seq", "rep", "reponce", "repexact", "repmin", "repmax", "repminmax"):
                        return True
                    if e[0] == "ident" and e[1] not in ("ANY", "SOI", "EOI", "NEWLINE") and not e[1].startswith("ASCII"):
                        return True
                    return any(risky(c) for c in e[1:])
                return False
            if risky(r[3]):
                return True
    return False


def threeway(ctx, res, want_tokens, gid_filter=None, want_stack=False):
    """Shared oracle of C01 (verdict/offset), C02 (token tree) and C07 (same, on skip-relevant grammars)."""
    stats = {"pest_eq_spec": 0, "pest_panic": 0, "pest_ne_spec_stack": 0, "spec_oof": 0, "accepted": 0, "rejected": 0}
    # the Spec's answer is computed by the driver on parse_partial cases; check_partial cases of the same
    # (grammar, rule, input) are judged against the same answer (C03: the two paths must agree)
    spec_of = {}
    for c, io, mo in res.rows():
        if c[2] == "parse_partial" and c[3] == "str" and "spec" in mo:
            spec_of[(c[0], c[1], c[6])] = mo["spec"]
    for c, io, mo in res.rows():
        if c[2] not in ("parse_partial", "check_partial") or c[3] != "str":
            continue
        if gid_filter and not gid_filter(c[0]):
            continue
        if c[2] == "check_partial":
            mo = dict(mo)
            if (c[0], c[1], c[6]) in spec_of:
                mo["spec"] = spec_of[(c[0], c[1], c[6])]
        ginfo = res.grammars[c[0]]
        spec = mo.get("spec")
        if spec is None:
            continue
        if spec == "oof":
            stats["spec_oof"] += 1
            continue
        sp = spec.split(":", 2)
        exp_v, exp_end = ("ok", sp[1]) if sp[0] == "ok" else ("fail", None)
        pest = io.get("pest")
        fws = fws_case(ginfo, c[1])
        if pest is not None:
            if pest == "panic":
                stats["pest_panic"] += 1
            else:
                pv, pend = ("ok", pest.split(":")[1]) if pest.startswith("ok:") else ("fail", None)
                if (pv, pend) == (exp_v, exp_end):
                    stats["pest_eq_spec"] += 1
                elif ginfo.get("uses_stack"):
                    # pest leaves out a stack restore / its Stack loses a pop: the property sends these to PEG semantics
                    stats["pest_ne_spec_stack"] += 1
                else:
                    ctx.tie_broken("Spec-vs-pest", {"case": case_dict(c), "pest": pest[:200], "spec": spec,
                                                    "note": "the reference semantics disagrees with pest on a stack-free grammar: the Spec is wrong, nothing is shown"})
        ctx.count(c, io.get("v") == "ok" and io.get("end") != "0")
        ctx.sample(c, io)
        stats["accepted" if exp_v == "ok" else "rejected"] += 1
        got = (io.get("v"), io.get("end") if io.get("v") == "ok" else None)
        if got != (exp_v, exp_end):
            ctx.violation("verdict/offset differs from pest semantics" + (" [skip rule not atomic]" if fws else ""), c,
                          impl={"v": io.get("v"), "end": io.get("end")}, expected={"v": exp_v, "end": exp_end, "authority": "Spec (Lean), pest=" + str(pest)[:80]}, fws=fws)
        elif want_stack and exp_v == "ok" and io.get("stk") != sp[2]:
            ctx.violation("final stack differs from backtracking PEG semantics", c, impl=io.get("stk"), expected=sp[2])
        elif want_tokens and c[2] == "parse_partial" and exp_v == "ok" and pest and pest.startswith("ok:") and pest.split(":")[1] == exp_end:
            # (where pest itself departs from backtracking PEG semantics on a stack-using grammar its tree is not a reference)
            atomic = {n for n, k in ginfo["rules"] if k in ("atomic", "compound")}
            ptoks = prune(parse_tokens(pest.split(":", 2)[2]), atomic)
            itoks = parse_tokens(io.get("tok", "[]"))
            if ptoks != itoks:
                fwst = fws_case(ginfo, c[1], tokens=True)
                ctx.violation("token tree differs from pest's pruned tree" + (" [skip rule not atomic]" if fwst else ""), c,
                              impl=io.get("tok"), expected=pest.split(":", 2)[2], fws=fwst)
    ctx.coverage.setdefault("distribution", {}).update(stats)


RUN_RULE = ("T-run corpus: systematic grammars (every operator, rule kind, built-in, stack op, counted repetition, recursion, multi-byte "
            "literals, the 5^3 x 4 kind-nesting family) + seeded random grammars (plain / stack-heavy / recursive / multi-byte), inputs = all "
            "strings up to length 4 (quick) / 5 (thorough) over each grammar's alphabet + random longer ones; every case runs the derived "
            "pest-typed parser, pest_derive's parser of the same grammar and the Lean Spec; non-trivial = accepted with a non-empty match; "
            "distinct by (grammar, rule, input)")


def check_C01(ctx):
    ctx.rule_text = RUN_RULE
    res = suites.suite_run(ctx.tier, ctx.seed)
    ctx.tie("T-run:verdict-offset", res, ["v", "end"], lambda c: c[2] == "parse_partial")
    from .tgen import tie_tgen
    tie_tgen(ctx, ctx.tier, ctx.seed)      # structural tie: emitted rule! calls vs Model.Gen
    threeway(ctx, res, want_tokens=False)


def check_C02(ctx):
    ctx.rule_text = RUN_RULE
    res = suites.suite_run(ctx.tier, ctx.seed)
    ctx.tie("T-run:tokens", res, ["v", "tok"], lambda c: c[2] in ("parse_partial", "parse"))
    threeway(ctx, res, want_tokens=True)


def check_C07(ctx):
    ctx.rule_text = RUN_RULE + "; restricted to grammars that define WHITESPACE/COMMENT or belong to the kind-nesting family"
    res = suites.suite_run(ctx.tier, ctx.seed)
    skipg = {gid for gid, gi in res.grammars.items() if re.search(r"WHITESPACE|COMMENT", gi["text"]) or gid.startswith("s_kinds")}
    ctx.tie("T-run:offsets-tokens", res, ["v", "end", "tok"], lambda c: c[0] in skipg and c[2] in ("parse_partial", "parse", "check_partial"))
    from .tgen import tie_tgen
    tie_tgen(ctx, ctx.tier, ctx.seed)      # every SKIP / INHERITED argument the generator emits vs Model.Gen
    threeway(ctx, res, want_tokens=True, gid_filter=lambda g: g in skipg)



# ---------------------------------------------------------------------------------------------
# raw suites with the independent python reference (C06, C19, parts of C05 / C17)

def stack_texts(stk, s):
    """'[0:1,1:3]' -> tuple of texts (byte offsets into s)"""
    b = s.encode("utf-8")
    out = []
    for part in stk.strip("[]").split(","):
        if part:
            a, e = part.split(":")
            out.append(b[int(a):int(e)].decode("utf-8"))
    return tuple(out)


def raw_oracle(ctx, res, gid_filter, what):
    import rawgen
    from .pyref import Ref
    gs = {g["gid"]: g for g in rawgen.all_raw()}
    refs = {}
    hist = {"ok": 0, "fail": 0}
    for c, io, mo in res.rows():
        if c[2] != "parse_partial" or not gid_filter(c[0], c[1]):
            continue
        ref = refs.setdefault(c[0], Ref(gs[c[0]]))
        # a Span / Position sub-input is judged as a fresh copy of the slice, offsets shifted by a (C08)
        shift = 0
        text = c[6]
        if c[3] in ("span", "pos"):
            bts = c[6].encode("utf-8")
            shift = c[4]
            text = bts[c[4]:(c[5] if c[3] == "span" else len(bts))].decode("utf-8")
        exp = ref.run_rule(c[1], text)
        if exp is not None and shift:
            exp = (exp[0] + shift, exp[1])
        got_v = io.get("v")
        ctx.count(c, got_v == "ok" and (io.get("end") != "0" or io.get("stk") != "[]"))
        ctx.sample(c, io)
        hist["ok" if exp else "fail"] += 1
        if exp is None:
            if got_v != "fail":
                ctx.violation(what + ": expected failure", c, impl={k: io.get(k) for k in ("v", "end", "stk")}, expected="fail (python reference)")
        else:
            got = (got_v, io.get("end"), stack_texts(io.get("stk", "[]"), c[6]) if got_v == "ok" else None)
            if got != ("ok", str(exp[0]), exp[1]):
                ctx.violation(what + ": wrong result", c, impl={k: io.get(k) for k in ("v", "end", "stk")},
                              expected={"v": "ok", "end": exp[0], "stack_texts": list(exp[1])})
    ctx.coverage.setdefault("distribution", {}).update(hist)


def check_C06(ctx):
    ctx.rule_text = ("T-raw: PUSH x depth (0..4) followed by PEEK[a..b] for every a in -6..6 and b in -6..6 or open, in atomic and "
                     "non-atomic context, plus every stack built-in in both contexts; inputs = all strings up to length 4 (quick) / 6 (thorough) "
                     "over {a, b, space} + random longer ones: the property's own quantifier, enumerated completely; oracle = independent "
                     "python PEG evaluator stating the slice semantics of the property text; non-trivial = accepted with consumption or non-empty stack")
    res = suites.suite_raw(ctx.tier, ctx.seed)
    f = lambda c: c[0].startswith("slice_") or c[0].startswith("stackops_")
    ctx.tie("T-raw:stack-nodes", res, ["v", "end", "stk", "trk"], f)
    raw_oracle(ctx, res, lambda g, r: g.startswith("slice_") or g.startswith("stackops_"), "stack operation")
    ctx.coverage["exhaustive"] = True
    # generator-level: the derived grammars of the T-run corpus that use the stack, against the Spec
    run = suites.suite_run(ctx.tier, ctx.seed)
    stackg = {gid for gid, gi in run.grammars.items() if gi.get("uses_stack")}
    ctx.tie("T-run:stack-grammars", run, ["v", "end", "stk", "trk"], lambda c: c[0] in stackg)
    threeway(ctx, run, want_tokens=False, gid_filter=lambda g: g in stackg, want_stack=True)


def check_C19(ctx):
    ctx.rule_text = ("T-raw: RepeatMin / RepeatMinMax for MIN, MAX in 0..4 x skip on/off x element kinds (string, choice, nested repetition, "
                     "stack op), arrays, pairs, optionals, skip-n-chars, skip-repeat; inputs = all strings up to length 4 (quick) / 6 (thorough) over "
                     "{a, b, space} + random ones up to length 8; oracle = independent python PEG evaluator (greedy, bounds, skip given back); "
                     "parse and check compared model-free")
    res = suites.suite_raw(ctx.tier, ctx.seed)
    f = lambda c: c[0].startswith("rep_")
    ctx.tie("T-raw:repetition", res, ["v", "end", "stk", "trk"], f)
    raw_oracle(ctx, res, lambda g, r: g.startswith("rep_"), "bounded repetition / raw combinator")
    for key, ent in group_by_input(res, f).items():
        if "parse_partial" in ent and "check_partial" in ent:
            (c, pio, _), (_, cio, _) = ent["parse_partial"], ent["check_partial"]
            bad = [k for k in ("v", "end", "stk", "trk") if pio.get(k) != cio.get(k)]
            if bad:
                ctx.violation(f"parse vs check differ on {bad} for a raw combinator", c)
    ctx.coverage["exhaustive"] = True


def check_C05(ctx):
    ctx.rule_text = RUN_RULE + "; restricted to grammars using PUSH/POP/DROP/PEEK (stack-heavy seeded mode pushes in every rule); oracle = Spec with immutable stack (cursor AND final stack contents), pest consulted where it returns"
    run = suites.suite_run(ctx.tier, ctx.seed)
    stackg = {gid for gid, gi in run.grammars.items() if gi.get("uses_stack")}
    ctx.tie("T-run:stack-grammars", run, ["v", "end", "stk"], lambda c: c[0] in stackg)
    threeway(ctx, run, want_tokens=False, gid_filter=lambda g: g in stackg, want_stack=True)
    raw = suites.suite_raw(ctx.tier, ctx.seed)
    ctx.tie("T-raw:restore-points", raw, ["v", "end", "stk"], lambda c: c[0] in ("rep_k", "stackops_n", "stackops_a"))
    raw_oracle(ctx, raw, lambda g, r: g in ("rep_k", "stackops_n", "stackops_a"), "restore point")


# ---------------------------------------------------------------------------------------------
# C04

def check_C04(ctx):
    ctx.rule_text = RUN_RULE + "; for every (rule, input): try_parse vs (try_parse_partial, then the grammar's WHITESPACE/COMMENT rules applied repeatedly through their own public rule structs at the reached offset unless the rule is @/$, then end test); inputs include ones ending in skippable text and in text that only looks skippable"
    res = suites.suite_run(ctx.tier, ctx.seed)
    ctx.tie("T-run:full-entry", res, ["v", "stk", "trk", "tok"], lambda c: c[2] in ("parse", "check"))
    api_oracle(ctx, res)
    # independent skip closure from the implementation's own answers for the skip rules
    at = {}
    for c, io, mo in res.rows():
        if c[1] in ("WHITESPACE", "COMMENT") and c[2] == "parse_partial":
            if c[3] == "pos":
                at[(c[0], c[1], c[6], c[4])] = io
            elif c[3] == "str":
                at[(c[0], c[1], c[6], 0)] = io
    hist = {"full_ok": 0, "full_fail": 0, "undecided": 0}
    for key, ent in group_by_input(res, lambda c: c[3] == "str").items():
        if "parse" not in ent or "parse_partial" not in ent:
            continue
        (c, fio, _), (_, pio, _) = ent["parse"], ent["parse_partial"]
        gid, rule, s = c[0], c[1], c[6]
        ginfo = res.grammars[gid]
        if fws_grammar(ginfo):
            continue
        kind = dict(ginfo["rules"]).get(rule)
        n = len(s.encode("utf-8"))
        ctx.count(c, pio.get("v") == "ok")
        ctx.sample(c, fio)
        if pio.get("v") != "ok":
            exp = False
        else:
            p = int(pio["end"])
            if kind not in ("atomic", "compound"):
                names = [x for x in ("WHITESPACE", "COMMENT") if x in dict(ginfo["rules"])]
                moved, undecided = True, False
                while moved:
                    moved = False
                    for x in names:
                        o = at.get((gid, x, s, p))
                        if o is None:
                            undecided = True
                            continue
                        if o.get("v") == "ok" and int(o["end"]) > p:
                            p = int(o["end"])
                            moved = True
                            break
                if undecided and p != n:
                    hist["undecided"] += 1
                    continue
            exp = p == n
        got = fio.get("v") == "ok"
        hist["full_ok" if got else "full_fail"] += 1
        if "check" in ent and (ent["check"][1].get("v") == "ok") != exp:
            ctx.violation("try_check verdict differs from prefix + trailing skip + end test", ent["check"][0],
                          impl=ent["check"][1].get("v"), expected="ok" if exp else "fail", partial={k: pio.get(k) for k in ("v", "end")})
        if got != exp:
            ctx.violation("try_parse verdict differs from prefix + trailing skip + end test", c,
                          impl=fio.get("v"), expected="ok" if exp else "fail", partial={k: pio.get(k) for k in ("v", "end")})
        elif got and fio.get("tok") != pio.get("tok"):
            ctx.violation("try_parse returns a different tree than try_parse_partial", c, full=fio.get("tok"), partial=pio.get("tok"))
    # sub-inputs: a prefix parse that already ends at the end of a Span / Position input must not be rejected by
    # the full entry point of an atomic rule (no trailing skip there), and an accepted full parse implies an
    # accepted prefix parse with the same tree
    for key, ent in group_by_input(res, lambda c: c[3] in ("span", "pos")).items():
        if "parse" not in ent or "parse_partial" not in ent:
            continue
        (c, fio, _), (_, pio, _) = ent["parse"], ent["parse_partial"]
        ginfo = res.grammars[c[0]]
        kind = dict(ginfo["rules"]).get(c[1])
        hi = c[5] if c[3] == "span" else len(c[6].encode("utf-8"))
        ctx.count(c, pio.get("v") == "ok")
        if fio.get("v") == "ok" and (pio.get("v") != "ok" or fio.get("tok") != pio.get("tok")):
            ctx.violation("try_parse on a sub-input accepts but the prefix parse fails or returns another tree", c)
        elif pio.get("v") == "ok" and int(pio["end"]) == hi and fio.get("v") != "ok":
            ctx.violation("try_parse rejects a sub-input whose prefix parse already ends at the end of the input", c,
                          partial={k: pio.get(k) for k in ("v", "end")}, kind=kind)
    ctx.coverage.setdefault("distribution", {}).update(hist)


# ---------------------------------------------------------------------------------------------
# C08

def shift_tokens(toks, a):
    return [[t[0], t[1] + a, t[2] + a, shift_tokens(t[3], a)] for t in toks]


def shift_stack(stk, a):
    out = []
    for part in stk.strip("[]").split(","):
        if part:
            x, y = part.split(":")
            out.append(f"{int(x) + a}:{int(y) + a}")
    return "[" + ",".join(out) + "]"


def check_C08(ctx):
    ctx.rule_text = RUN_RULE + "; for every input of at most 3 characters every pair of character-boundary offsets a <= b: Span(s,a,b) and Position(s,a) results vs the result on a fresh copy of the slice (also in the corpus as a &str case), offsets shifted by a; partial and full entry points"
    res = suites.suite_run(ctx.tier, ctx.seed)
    ctx.tie("T-run:sub-inputs", res, ["v", "end", "stk", "trk", "tok"], lambda c: c[3] in ("pos", "span"))
    fresh = {}
    for c, io, mo in res.rows():
        if c[3] == "str":
            fresh[(c[0], c[1], c[2], c[6])] = io
    for c, io, mo in res.rows():
        if c[3] not in ("pos", "span"):
            continue
        b = c[6].encode("utf-8")
        a = c[4]
        e = c[5] if c[3] == "span" else len(b)
        sl = b[a:e].decode("utf-8")
        f = fresh.get((c[0], c[1], c[2], sl))
        if f is None:
            continue
        ctx.count(c, io.get("v") == "ok" and io.get("end") != str(a) or a > 0)
        ctx.sample(c, io)
        exp = {"v": f.get("v")}
        if f.get("v") == "ok":
            if "end" in f:
                exp["end"] = str(int(f["end"]) + a)
            exp["stk"] = shift_stack(f.get("stk", "[]"), a)
            if "tok" in f:
                exp["tok"] = shift_tokens(parse_tokens(f["tok"]), a)
        got = {"v": io.get("v")}
        if io.get("v") == "ok":
            if "end" in io:
                got["end"] = io["end"]
            got["stk"] = io.get("stk", "[]")
            if "tok" in io:
                got["tok"] = parse_tokens(io["tok"])
        if got != exp:
            ctx.violation("sub-input result differs from the fresh slice shifted by a", c, impl=got, fresh_shifted=exp, slice=sl)


# ---------------------------------------------------------------------------------------------
# C09 / C10

def on_boundary(s_bytes, off):
    return 0 <= off <= len(s_bytes) and (off == len(s_bytes) or (s_bytes[off] & 0xC0) != 0x80)


def offsets_of(io):
    offs = []
    if "end" in io:
        offs.append(("cursor", int(io["end"])))
    for part in io.get("stk", "[]").strip("[]").split(","):
        if part:
            x, y = part.split(":")
            offs += [("stack span start", int(x)), ("stack span end", int(y))]
            if int(x) > int(y):
                offs.append(("stack span inverted", -1))
    if "tok" in io:
        def walk(ts):
            for t in ts:
                offs.append(("token start", t[1]))
                offs.append(("token end", t[2]))
                if t[1] > t[2]:
                    offs.append(("token span inverted", -1))
                walk(t[3])
        walk(parse_tokens(io["tok"]))
    if "trk" in io:
        offs.append(("error position", int(io["trk"].split("|")[0])))
    return offs


def offsets_oracle(ctx, res, label):
    hist = {"panic": 0, "timeout": 0}
    for c, io, mo in res.rows():
        b = c[6].encode("utf-8")
        lo = c[4] if c[3] in ("pos", "span") else 0
        hi = c[5] if c[3] == "span" else len(b)
        v = io.get("v")
        ctx.count(c, any(ch >= 0x80 for ch in b) or nontrivial_obs(io))
        if v in ("panic", "crash", "timeout", "missing"):
            hist["panic" if v != "timeout" else "timeout"] += 1
            ctx.violation(f"entry point did not return ({v}) [{label}]", c)
            continue
        for what, off in offsets_of(io):
            if off < lo or off > hi or not on_boundary(b, off):
                ctx.violation(f"{what} out of range or off a character boundary [{label}]", c, offset=off, range=[lo, hi])
                break
        else:
            ctx.sample(c, io)
    ctx.coverage.setdefault("distribution", {}).update({label + "_" + k: v for k, v in hist.items()})


def check_C09(ctx):
    ctx.rule_text = RUN_RULE + "; every reported offset (cursor, stack spans, token spans, tracker position) of every case is tested for range and is_char_boundary; every case runs under catch_unwind with a watchdog; debug profile in the quick tier, debug and release in the thorough tier; non-trivial = input has a multi-byte character or the run consumed / recorded something"
    res = suites.suite_run(ctx.tier, ctx.seed)
    ctx.tie("T-run:all-observables", res, ["v", "end", "stk", "trk", "tok"])
    offsets_oracle(ctx, res, "dev")
    raw = suites.suite_raw(ctx.tier, ctx.seed)
    ctx.tie("T-raw:all-observables", raw, ["v", "end", "stk", "trk", "tok"])
    offsets_oracle(ctx, raw, "dev-raw")
    rel = suites.suite_run_release(ctx.tier, ctx.seed)
    ctx.tie("T-run-release:all-observables", rel, ["v", "end", "stk", "trk", "tok"])
    offsets_oracle(ctx, rel, "release")
    ctx.assumptions.append("memory safety of get_unchecked itself cannot be exhibited by the model: proved is the arithmetic precondition (in range, on a boundary) that makes the unchecked slicing sound")


def _unhex_obs(h):
    return "" if h == "-" else bytes.fromhex(h).decode("utf-8")


def line_col_independent(text, pos):
    """Line, column and the text of the line up to the offset, recomputed from the definition: lines end
    at LF (so CRLF is one break and a lone CR is a column), columns count characters, both from 1."""
    pre = text.encode("utf-8")[:pos].decode("utf-8")
    start = pre.rfind("\n") + 1
    return 1 + pre.count("\n"), 1 + len(pre) - start, pre[start:]


def check_C10_report(ctx, c, io, pos, hist):
    """Oracle on the rendered report of one rejected case (implementation only)."""
    msg, lc, disp = io.get("msg"), io.get("lc"), io.get("disp")
    if msg is None or lc is None or disp is None:
        ctx.tie_broken("harness", {"error": "failing case without msg/lc/disp observables", "case": case_dict(c)})
        return
    hist["rendered"] += 1
    if "panic" in (msg, lc, disp):
        ctx.violation("rendering the error report panics", c, msg=msg, lc=lc, disp=disp, position=pos)
        return
    if "nondet" in (msg, lc, disp):
        ctx.violation("the same case did not fail when repeated", c, position=pos)
        return
    line, col, upto = line_col_independent(c[6], pos)
    if lc != f"{line}:{col}":
        ctx.violation("line/column of the error differ from the location of the report", c, position=pos, lc=lc, expected=f"{line}:{col}")
    text = _unhex_obs(msg)
    if text.split("\n", 1)[0] != upto + "^---":
        ctx.violation("first line of the message is not the line text up to the column followed by ^---", c, position=pos,
                      first_line=text.split("\n", 1)[0], expected=upto + "^---")
    # the rendered lists must say what the tracker recorded: per upper rule, "Expected [..]" = the recorded
    # positives, "Unexpected [..]" = the recorded negatives (sorted, deduplicated), in BTreeMap key order
    want = []
    for part in io.get("trk", "|").split("|", 1)[1].split(";"):
        if not part:
            continue
        upper, rest = part.split(":", 1)
        positives, negatives, _sp = rest.split("/")
        want.append((upper, sorted(set(filter(None, positives.split(",")))), sorted(set(filter(None, negatives.split(","))))))
    got = []
    for ln in text.split("\n")[1:]:
        t = ln.strip()
        m = re.match(r"^(?:Unexpected \[(?P<u>[^\]]*)\])?(?:, expected \[(?P<e2>[^\]]*)\])?(?:Expected \[(?P<e>[^\]]*)\])?(?P<unk>Unknown error \(no rule tracked\))?(?:, by (?P<by>[A-Za-z0-9_#]+))?\.$", t)
        if m and (m.group("u") is not None or m.group("e") is not None or m.group("e2") is not None or m.group("unk")):
            lst = lambda x: sorted(y.strip() for y in x.split(",") if y.strip()) if x else []
            got.append((m.group("by") or "-", lst(m.group("e") or m.group("e2")), lst(m.group("u"))))
    if got != want:
        ctx.violation("rendered expected / unexpected lists differ from what the tracker recorded", c, position=pos,
                      message=text[:400], recorded=want, rendered=got)
    if line > 1:
        hist["rendered_after_line_1"] += 1
    if any(ord(ch) > 127 for ch in upto):
        hist["rendered_multibyte_prefix"] += 1
    if "\r" in upto:
        hist["rendered_cr_in_prefix"] += 1
    if "Unexpected" in text and ", expected" in text:
        hist["rendered_both_lists"] += 1
    if "out of bound" in text or "Nothing to pop" in text:
        hist["rendered_special"] += 1


def check_C10(ctx):
    ctx.rule_text = RUN_RULE + "; every rejected case: location in range / on a boundary / not before the end of the matched prefix; same report when the case is repeated (each case appears under parse and check and in several batches); for grammars without stack operations and without implicit skipping every rule listed as expected (unexpected) is re-run at the reported offset through its own rule struct and must fail (match); the report is rendered (Tracker::collect, Display of the error): no panic, line:column = the location recomputed from the input text, first line of the message = text of the line up to the column + ^---"
    res = suites.suite_run(ctx.tier, ctx.seed)
    ctx.tie("T-run:tracker", res, ["v", "trk"])
    at = {}
    failing = set()
    for c, io, mo in res.rows():
        if c[2] == "parse_partial" and c[3] in ("pos", "str"):
            at[(c[0], c[1], c[6], c[4] if c[3] == "pos" else 0)] = io.get("v")
        if io.get("v") == "fail" or mo.get("v") == "fail":
            failing.add(c)
    ctx.tie("T-run:message", res, ["msg", "lc"], lambda c: c in failing)
    hist = {"rejected": 0, "expected_checked": 0, "unexpected_checked": 0, "rendered": 0, "rendered_after_line_1": 0, "rendered_multibyte_prefix": 0, "rendered_cr_in_prefix": 0, "rendered_both_lists": 0, "rendered_special": 0}
    for key, ent in group_by_input(res).items():
        for en in ("parse", "parse_partial", "check", "check_partial"):
            if en not in ent:
                continue
            c, io, mo = ent[en]
            if io.get("v") != "fail":
                continue
            hist["rejected"] += 1
            b = c[6].encode("utf-8")
            lo = c[4] if c[3] in ("pos", "span") else 0
            hi = c[5] if c[3] == "span" else len(b)
            pos = int(io["trk"].split("|")[0])
            ctx.count(c, pos > lo)
            ctx.sample(c, io)
            if pos < lo or pos > hi or not on_boundary(b, pos):
                ctx.violation("error location out of range or off a character boundary", c, position=pos)
                continue
            check_C10_report(ctx, c, io, pos, hist)
            if en == "parse" and "parse_partial" in ent and ent["parse_partial"][1].get("v") == "ok":
                pend = int(ent["parse_partial"][1]["end"])
                if pos < pend:
                    ctx.violation("error location lies before the end of the matched prefix", c, position=pos, prefix_end=pend)
            ginfo = res.grammars[c[0]]
            simple = not ginfo.get("uses_stack") and not re.search(r"WHITESPACE|COMMENT|SOI", ginfo["text"]) and c[3] != "span"
            if simple and en in ("parse", "parse_partial"):
                for part in io["trk"].split("|", 1)[1].split(";"):
                    if not part:
                        continue
                    upper, rest = part.split(":", 1)
                    positives, negatives, _ = rest.split("/")
                    for r in filter(None, positives.split(",")):
                        v = at.get((c[0], r, c[6], pos)) if r != "EOI" else ("ok" if pos == hi else "fail")
                        if v is not None:
                            hist["expected_checked"] += 1
                            if v == "ok":
                                ctx.violation("rule listed as expected matches at the reported location", c, rule=r, position=pos)
                    for r in filter(None, negatives.split(",")):
                        v = at.get((c[0], r, c[6], pos)) if r != "EOI" else ("ok" if pos == hi else "fail")
                        if v is not None:
                            hist["unexpected_checked"] += 1
                            if v == "fail":
                                ctx.violation("rule listed as unexpected fails at the reported location", c, rule=r, position=pos)
    ctx.coverage.setdefault("distribution", {}).update(hist)
    ctx.assumptions.append("the rendered message and line:column are tied to Model/Message.lean (T-run:message); pest's own Display of the error (external code) is only run under catch_unwind")


def pre_C06(ctx):
    from . import tsrc
    ok, msg = tsrc.regenerate()
    ctx.ties["T-src:parser_state.rs"] = {"cases": 2, "agree": 2 if ok else 0, "observables": ["normalize_index", "constrain_idxs regenerated as Lean definitions; equality with the hand model is a proof obligation (Props/C06Src.lean)"]}
    if not ok:
        ctx.tie_broken("T-src:parser_state.rs", {"error": msg})


def _pre_lazy(fn):
    def run(ctx):
        from . import tsrc
        return getattr(tsrc, fn)(ctx)
    return run


PRE = {"C06": pre_C06, "C01": _pre_lazy("pre_C01"), "C14": _pre_lazy("pre_C14")}


def _lazy(modname, fn):
    def run(ctx):
        import importlib
        return getattr(importlib.import_module("checks." + modname), fn)(ctx)
    return run


CHECKS = {
    "C12": _lazy("text", "check_C12"),
    "C13": _lazy("text", "check_C13"),
    "C14": _lazy("text", "check_C14"),
    "C11": _lazy("c11", "check_C11"),
    "C16": _lazy("c16", "check_C16"),
    "C20": _lazy("c20", "check_C20"),
    "C15": _lazy("acc", "check_C15"),
    "C17": _lazy("acc", "check_C17"),
    "C18": _lazy("acc", "check_C18"),
    "C01": check_C01,
    "C04": check_C04,
    "C05": check_C05,
    "C06": check_C06,
    "C08": check_C08,
    "C09": check_C09,
    "C10": check_C10,
    "C19": check_C19,
    "C02": check_C02,
    "C03": check_C03,
    "C07": check_C07,
}


def replay(pid, path):
    r = json.load(open(path))
    print(json.dumps(r, indent=1, ensure_ascii=False)[:4000])
    print("re-run: ./check.py", pid, "--tier", r.get("tier", "quick"), "(VERIF_SEED=%s)" % r.get("seed"))
    return 0
