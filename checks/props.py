"""Per-property checks: which ties bind the property's theorems to the code, and the
implementation-level oracle that looks for a concrete failing input."""
import json, os, re
from . import common, suites


class Ctx:
    def __init__(self, pid, tier, seed):
        self.pid, self.tier, self.seed = pid, tier, seed
        self.violations = []      # concrete failing inputs on the implementation
        self.broken_ties = []     # model/impl disagreements (correspondence broken)
        self.ties = {}
        self.coverage = {}
        self.samples = []
        self.evaluations = 0
        self.nontrivial = 0
        self.rule_text = ""
        self.assumptions = []
        self.known_seen = {}
        self._distinct = set()

    def tie(self, name, result, keys, case_filter=None):
        total, n, diffs = suites.tie_diffs(result, keys, case_filter)
        self.ties[name] = {"cases": total, "agree": total - n, "observables": keys}
        if n:
            self.tie_broken(name, {"disagreements": n, "first": diffs[:5]})
        return n

    def tie_broken(self, name, detail):
        self.broken_ties.append({"tie": name, **detail})

    def violation(self, what, case, **detail):
        self.violations.append({"what": what, "case": case_dict(case), **detail})

    def count(self, case, nontrivial):
        self.evaluations += 1
        if nontrivial:
            key = (case[0], case[1], case[3], case[4], case[5], case[6])
            if key not in self._distinct:
                self._distinct.add(key)
                self.nontrivial += 1

    def sample(self, case, io):
        if len(self.samples) < 5:
            self.samples.append({"case": case_dict(case), "impl": {k: v for k, v in io.items() if k != "dbg"}})


def case_dict(c):
    return {"grammar": c[0], "rule": c[1], "entry": c[2], "form": c[3], "a": c[4], "b": c[5], "input": c[6]}


def signature_matches(finding, violation):
    sig = finding.get("signature", {})
    kind = sig.get("kind")
    if kind == "what-prefix":
        return violation["what"].startswith(sig["prefix"]) and all(
            re.search(p, json.dumps(violation, ensure_ascii=False)) for p in sig.get("require", []))
    return False


def group_by_input(result, case_filter=None):
    """(gid, rule, form, a, b, input) -> {entry: impl observables}"""
    groups = {}
    for c, io, mo in result.rows():
        if case_filter and not case_filter(c):
            continue
        groups.setdefault((c[0], c[1], c[3], c[4], c[5], c[6]), {})[c[2]] = (c, io, mo)
    return groups


def nontrivial_obs(io):
    """A case is non-trivial when the run consumed input or recorded something beyond the entry rule."""
    return io.get("v") == "ok" and io.get("end", "0") != "0" or ";" in io.get("trk", "") or io.get("stk", "[]") != "[]"


# ---------------------------------------------------------------------------------------------

def check_C03(ctx):
    ctx.rule_text = ("T-run + T-raw corpora (systematic + seeded grammars, exhaustive short inputs over each grammar's "
                     "alphabet + random longer ones, three input forms); a case is non-trivial when it consumed input, "
                     "left a non-empty stack or recorded attempts under more than one rule; distinct by (grammar, rule, form, range, input)")
    keys = ["v", "end", "stk", "trk"]
    for name, res in (("T-run", suites.suite_run(ctx.tier, ctx.seed)), ("T-raw", suites.suite_raw(ctx.tier, ctx.seed))):
        # each path separately against its own model function
        ctx.tie(name + ":parse-path", res, keys, lambda c: c[2] in ("parse_partial", "parse"))
        ctx.tie(name + ":check-path", res, keys, lambda c: c[2] in ("check_partial", "check"))
        # model-free oracle on the implementation: parse vs check
        for key, ent in group_by_input(res).items():
            for pe, ce in (("parse_partial", "check_partial"), ("parse", "check")):
                if pe in ent and ce in ent:
                    (c, pio, _), (_, cio, _) = ent[pe], ent[ce]
                    ctx.count(c, nontrivial_obs(pio))
                    ctx.sample(c, pio)
                    bad = [k for k in keys if pio.get(k) != cio.get(k)]
                    if bad:
                        ctx.violation(f"{pe} vs {ce} differ on {bad}", c,
                                      parse={k: pio.get(k) for k in keys}, check={k: cio.get(k) for k in keys})


CHECKS = {
    "C03": check_C03,
}


def replay(pid, path):
    r = json.load(open(path))
    print(json.dumps(r, indent=1, ensure_ascii=False)[:4000])
    print("re-run: ./check.py", pid, "--tier", r.get("tier", "quick"), "(VERIF_SEED=%s)" % r.get("seed"))
    return 0
