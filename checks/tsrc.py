"""T-src: a small translator that re-emits, from /repo's CURRENT source text, the index arithmetic of
`main/src/parser_state.rs` (`normalize_index`, `constrain_idxs`) as Lean definitions over `Int`/`Nat`.
`lean/PestTyped/Generated/ParserStateSrc.lean` is rewritten on every run and
`PestTyped/Props/C06Src.lean` proves that the regenerated definitions equal the hand model
(`normalizeIndex`, `constrainIdxs` of Model/Run.lean) — so an edit to those lines changes the theorem's
subject and the proof is re-checked against what the code says now.  The translator understands a
tiny Rust subset (if / else-if / else, let, comparisons, +, `as i32`, `as usize`, Some/None, `?`,
`map_or`); anything else raises `Unsupported` (reported as a broken tie, never guessed)."""
import os, re
from .common import LEAN

SRC = "/repo/main/src/parser_state.rs"
OUT = os.path.join(LEAN, "PestTyped", "Generated", "ParserStateSrc.lean")


class Unsupported(Exception):
    pass


TOK = re.compile(r"\s*(//[^\n]*|->|\.\.|>=|<=|==|!=|&&|\|\||[A-Za-z_][A-Za-z0-9_]*|\d+|[{}()\[\];:,.<>+\-*/?|=&])")


def tokenize(src):
    pos, out = 0, []
    while pos < len(src):
        m = TOK.match(src, pos)
        if not m:
            if src[pos:].strip() == "":
                break
            raise Unsupported("cannot tokenize: " + src[pos:pos + 30])
        pos = m.end()
        t = m.group(1)
        if not t.startswith("//"):
            out.append(t)
    return out


class Parser:
    """expr := if | block | binary ; results are Lean terms (strings) with a Rust type tag."""

    def __init__(self, toks, env):
        self.t, self.i, self.env = toks, 0, dict(env)

    def peek(self, k=0):
        return self.t[self.i + k] if self.i + k < len(self.t) else None

    def eat(self, x=None):
        tok = self.peek()
        if x is not None and tok != x:
            raise Unsupported(f"expected {x!r}, got {tok!r}")
        self.i += 1
        return tok

    # block: '{' (let x = e ;)* e '}'
    def block(self):
        self.eat("{")
        lets = []
        while self.peek() == "let":
            self.eat("let")
            name = self.eat()
            self.eat("=")
            e, ty = self.expr()
            self.eat(";")
            self.env[name] = ty
            lets.append((name, e))
        e, ty = self.expr()
        self.eat("}")
        for name, v in reversed(lets):
            e = f"(let {name} := {v}; {e})"
        return e, ty

    def expr(self):
        if self.peek() == "if":
            self.eat("if")
            c, _ = self.cmp()
            a, ta = self.block()
            self.eat("else")
            if self.peek() == "if":
                b, tb = self.expr()
            else:
                b, tb = self.block()
            return f"(if {c} then {a} else {b})", ta
        return self.cmp()

    def cmp(self):
        a, ta = self.add()
        if self.peek() in (">", "<", ">=", "<=", "==", "!="):
            op = self.eat()
            b, tb = self.add()
            lean_op = {">": ">", "<": "<", ">=": "≥", "<=": "≤", "==": "=", "!=": "≠"}[op]
            return f"({a} {lean_op} {b})", "bool"
        return a, ta

    def add(self):
        a, ta = self.postfix()
        while self.peek() in ("+", "-"):
            op = self.eat()
            b, tb = self.postfix()
            a = f"({a} {op} {b})"
        return a, ta

    def postfix(self):
        e, ty = self.atom()
        while True:
            if self.peek() == "as":
                self.eat("as")
                to = self.eat()
                if to == "i32":
                    # `usize as i32`: exact below 2^31 (hypothesis of C06_i32); i32 as i32 is the identity
                    e = f"(({e} : Nat) : Int)" if ty == "usize" else e
                    ty = "i32"
                elif to == "usize":
                    e = f"(Int.toNat {e})" if ty == "i32" else e
                    ty = "usize"
                else:
                    raise Unsupported("cast to " + to)
            elif self.peek() == "?":
                self.eat("?")
                e, ty = ("TRY", e), ty.replace("opt:", "", 1) if ty.startswith("opt:") else ty
            elif self.peek() == "." and self.peek(1) == "map_or":
                self.eat("."); self.eat("map_or"); self.eat("(")
                d, td = self.expr()
                self.eat(",")
                self.eat("|"); v = self.eat(); self.eat("|")
                self.env[v] = ty.replace("opt:", "", 1)
                body, tb = self.expr()
                self.eat(")")
                e = f"(match {e} with | none => {d} | some {v} => {body})"
                ty = td
            else:
                return e, ty

    def atom(self):
        t = self.eat()
        if t == "(":
            e, ty = self.expr()
            self.eat(")")
            return e, ty
        if t == "None":
            return "none", "opt:?"
        if t == "Some":
            self.eat("(")
            e, ty = self.expr()
            self.eat(")")
            return f"(some {e})", "opt:" + ty
        if t.isdigit():
            return t, "lit"
        if re.match(r"[A-Za-z_]", t):
            if self.peek() == "(":
                self.eat("(")
                args = []
                while self.peek() != ")":
                    a, _ = self.expr()
                    args.append(a)
                    if self.peek() == ",":
                        self.eat(",")
                self.eat(")")
                name = {"normalize_index": "normalizeIndexSrc"}.get(t)
                if not name:
                    raise Unsupported("call to " + t)
                return "(" + name + " " + " ".join(args) + ")", "opt:usize"
            if t not in self.env:
                raise Unsupported("unknown identifier " + t)
            return t, self.env[t]
        raise Unsupported("unexpected token " + t)


def extract_fn(src, name):
    m = re.search(r"fn\s+" + name + r"\s*\(([^)]*)\)\s*->\s*([^{]+)\{", src)
    if not m:
        raise Unsupported("function " + name + " not found")
    depth, i = 1, m.end()
    while depth:
        if src[i] == "{":
            depth += 1
        elif src[i] == "}":
            depth -= 1
        i += 1
    return m.group(1), "{" + src[m.end():i]


def bind_tries(e):
    """Turn the `?` markers produced inside let-chains into Option binds (only the two shapes used)."""
    return e


def translate():
    src = open(SRC).read()
    _, body = extract_fn(src, "normalize_index")
    p = Parser(tokenize(body), {"i": "i32", "len": "usize"})
    norm, _ = p.block()
    if not isinstance(norm, str):
        raise Unsupported("`?` in normalize_index")
    # constrain_idxs: `let a = f(..)?; let b = e.map_or(Some(len), |e| f(e, len))?; Some(a..b)`
    _, body = extract_fn(src, "constrain_idxs")
    toks = tokenize(body)
    p = Parser(toks, {"start": "i32", "end": "opt:i32", "len": "usize"})
    p.eat("{")
    binds = []
    while p.peek() == "let":
        p.eat("let")
        name = p.eat()
        p.eat("=")
        e, ty = p.expr()
        p.eat(";")
        if not (isinstance(e, tuple) and e[0] == "TRY"):
            raise Unsupported("constrain_idxs: let without `?`")
        p.env[name] = "usize"
        binds.append((name, e[1]))
    p.eat("Some"); p.eat("(")
    lo = p.eat(); p.eat(".."); hi = p.eat()
    p.eat(")"); p.eat("}")
    cons = f"some ({lo}, {hi})"
    for name, e in reversed(binds):
        cons = f"(match {e} with | none => none | some {name} => {cons})"
    text = f"""/-
GENERATED by checks/tsrc.py from /repo/main/src/parser_state.rs on every run — do not edit.
`len as i32` is read as the exact integer (valid below 2^31 entries, see C06_i32).
-/
namespace PestTyped.Src

def normalizeIndexSrc (i : Int) (len : Nat) : Option Nat :=
  {norm}

def constrainIdxsSrc (start : Int) («end» : Option Int) (len : Nat) : Option (Nat × Nat) :=
  {cons.replace(' end ', ' «end» ').replace('match end with', 'match «end» with')}

end PestTyped.Src
"""
    return text


def regenerate():
    """Writes the generated file if its content changed; returns (ok, message)."""
    try:
        text = translate()
    except Unsupported as e:
        return False, "translator: unsupported syntax in parser_state.rs: " + str(e)
    os.makedirs(os.path.dirname(OUT), exist_ok=True)
    old = open(OUT).read() if os.path.exists(OUT) else None
    if old != text:
        open(OUT, "w").write(text)
    return True, "regenerated"
