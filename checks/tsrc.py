"""T-src: a small translator that re-emits, from /repo's CURRENT source text, the index arithmetic of
`main/src/parser_state.rs` (`normalize_index`, `constrain_idxs`) as Lean definitions over `Int`/`Nat`.
`lean/PestTyped/Generated/ParserStateSrc.lean` is rewritten on every run and
`PestTyped/Props/C06Src.lean` proves that the regenerated definitions equal the hand model
(`normalizeIndex`, `constrainIdxs` of Model/Run.lean) — so an edit to those lines changes the theorem's
subject and the proof is re-checked against what the code says now.  The translator understands a
tiny Rust subset (if / else-if / else, let, comparisons, +, `as i32`, `as usize`, Some/None, `?`,
`map_or`); anything else raises `Unsupported` (reported as a broken tie, never guessed)."""
import os, re
from .common import LEAN

SRC = "/repo/main/src/parser_state.rs"
OUT = os.path.join(LEAN, "PestTyped", "Generated", "ParserStateSrc.lean")


class Unsupported(Exception):
    pass


TOK = re.compile(r"\s*(//[^\n]*|->|\.\.|>=|<=|==|!=|&&|\|\||[A-Za-z_][A-Za-z0-9_]*|\d+|[{}()\[\];:,.<>+\-*/?|=&])")


def tokenize(src):
    pos, out = 0, []
    while pos < len(src):
        m = TOK.match(src, pos)
        if not m:
            if src[pos:].strip() == "":
                break
            raise Unsupported("cannot tokenize: " + src[pos:pos + 30])
        pos = m.end()
        t = m.group(1)
        if not t.startswith("//"):
            out.append(t)
    return out


class Parser:
    """expr := if | block | binary ; results are Lean terms (strings) with a Rust type tag."""

    def __init__(self, toks, env):
        self.t, self.i, self.env = toks, 0, dict(env)

    def peek(self, k=0):
        return self.t[self.i + k] if self.i + k < len(self.t) else None

    def eat(self, x=None):
        tok = self.peek()
        if x is not None and tok != x:
            raise Unsupported(f"expected {x!r}, got {tok!r}")
        self.i += 1
        return tok

    # block: '{' (let x = e ;)* e '}'
    def block(self):
        self.eat("{")
        lets = []
        while self.peek() == "let":
            self.eat("let")
            name = self.eat()
            self.eat("=")
            e, ty = self.expr()
            self.eat(";")
            self.env[name] = ty
            lets.append((name, e))
        e, ty = self.expr()
        self.eat("}")
        for name, v in reversed(lets):
            e = f"(let {name} := {v}; {e})"
        return e, ty

    def expr(self):
        if self.peek() == "if":
            self.eat("if")
            c, _ = self.cmp()
            a, ta = self.block()
            self.eat("else")
            if self.peek() == "if":
                b, tb = self.expr()
            else:
                b, tb = self.block()
            return f"(if {c} then {a} else {b})", ta
        return self.cmp()

    def cmp(self):
        a, ta = self.add()
        if self.peek() in (">", "<", ">=", "<=", "==", "!="):
            op = self.eat()
            b, tb = self.add()
            lean_op = {">": ">", "<": "<", ">=": "≥", "<=": "≤", "==": "=", "!=": "≠"}[op]
            return f"({a} {lean_op} {b})", "bool"
        return a, ta

    def add(self):
        a, ta = self.postfix()
        while self.peek() in ("+", "-"):
            op = self.eat()
            b, tb = self.postfix()
            a = f"({a} {op} {b})"
        return a, ta

    def postfix(self):
        e, ty = self.atom()
        while True:
            if self.peek() == "as":
                self.eat("as")
                to = self.eat()
                if to == "i32":
                    # `usize as i32`: exact below 2^31 (hypothesis of C06_i32); i32 as i32 is the identity
                    e = f"(({e} : Nat) : Int)" if ty == "usize" else e
                    ty = "i32"
                elif to == "usize":
                    e = f"(Int.toNat {e})" if ty == "i32" else e
                    ty = "usize"
                else:
                    raise Unsupported("cast to " + to)
            elif self.peek() == "?":
                self.eat("?")
                e, ty = ("TRY", e), ty.replace("opt:", "", 1) if ty.startswith("opt:") else ty
            elif self.peek() == "." and self.peek(1) == "map_or":
                self.eat("."); self.eat("map_or"); self.eat("(")
                d, td = self.expr()
                self.eat(",")
                self.eat("|"); v = self.eat(); self.eat("|")
                self.env[v] = ty.replace("opt:", "", 1)
                body, tb = self.expr()
                self.eat(")")
                e = f"(match {e} with | none => {d} | some {v} => {body})"
                ty = td
            else:
                return e, ty

    def atom(self):
        t = self.eat()
        if t == "(":
            e, ty = self.expr()
            self.eat(")")
            return e, ty
        if t == "None":
            return "none", "opt:?"
        if t == "Some":
            self.eat("(")
            e, ty = self.expr()
            self.eat(")")
            return f"(some {e})", "opt:" + ty
        if t.isdigit():
            return t, "lit"
        if re.match(r"[A-Za-z_]", t):
            if self.peek() == "(":
                self.eat("(")
                args = []
                while self.peek() != ")":
                    a, _ = self.expr()
                    args.append(a)
                    if self.peek() == ",":
                        self.eat(",")
                self.eat(")")
                name = {"normalize_index": "normalizeIndexSrc"}.get(t)
                if not name:
                    raise Unsupported("call to " + t)
                return "(" + name + " " + " ".join(args) + ")", "opt:usize"
            if t not in self.env:
                raise Unsupported("unknown identifier " + t)
            return t, self.env[t]
        raise Unsupported("unexpected token " + t)


def extract_fn(src, name):
    m = re.search(r"fn\s+" + name + r"\s*\(([^)]*)\)\s*->\s*([^{]+)\{", src)
    if not m:
        raise Unsupported("function " + name + " not found")
    depth, i = 1, m.end()
    while depth:
        if src[i] == "{":
            depth += 1
        elif src[i] == "}":
            depth -= 1
        i += 1
    return m.group(1), "{" + src[m.end():i]


def bind_tries(e):
    """Turn the `?` markers produced inside let-chains into Option binds (only the two shapes used)."""
    return e


def translate():
    src = open(SRC).read()
    _, body = extract_fn(src, "normalize_index")
    p = Parser(tokenize(body), {"i": "i32", "len": "usize"})
    norm, _ = p.block()
    if not isinstance(norm, str):
        raise Unsupported("`?` in normalize_index")
    # constrain_idxs: `let a = f(..)?; let b = e.map_or(Some(len), |e| f(e, len))?; Some(a..b)`
    _, body = extract_fn(src, "constrain_idxs")
    toks = tokenize(body)
    p = Parser(toks, {"start": "i32", "end": "opt:i32", "len": "usize"})
    p.eat("{")
    binds = []
    while p.peek() == "let":
        p.eat("let")
        name = p.eat()
        p.eat("=")
        e, ty = p.expr()
        p.eat(";")
        if not (isinstance(e, tuple) and e[0] == "TRY"):
            raise Unsupported("constrain_idxs: let without `?`")
        p.env[name] = "usize"
        binds.append((name, e[1]))
    p.eat("Some"); p.eat("(")
    lo = p.eat(); p.eat(".."); hi = p.eat()
    p.eat(")"); p.eat("}")
    cons = f"some ({lo}, {hi})"
    for name, e in reversed(binds):
        cons = f"(match {e} with | none => none | some {name} => {cons})"
    text = f"""/-
GENERATED by checks/tsrc.py from /repo/main/src/parser_state.rs on every run — do not edit.
`len as i32` is read as the exact integer (valid below 2^31 entries, see C06_i32).
-/
namespace PestTyped.Src

def normalizeIndexSrc (i : Int) (len : Nat) : Option Nat :=
  {norm}

def constrainIdxsSrc (start : Int) («end» : Option Int) (len : Nat) : Option (Nat × Nat) :=
  {cons.replace(' end ', ' «end» ').replace('match end with', 'match «end» with')}

end PestTyped.Src
"""
    return text


def regenerate():
    """Writes the generated file if its content changed; returns (ok, message)."""
    try:
        text = translate()
    except Unsupported as e:
        return False, "translator: unsupported syntax in parser_state.rs: " + str(e)
    os.makedirs(os.path.dirname(OUT), exist_ok=True)
    old = open(OUT).read() if os.path.exists(OUT) else None
    if old != text:
        open(OUT, "w").write(text)
    return True, "regenerated"


# =================================================================================================
# T-src for the two remaining table-like sources (DESIGN.md §2.2):
#   (a) the built-in alias block of main/src/predefined_node/mod.rs  →  Generated/AliasSrc.lean   (C01)
#   (b) the control-picture table of main/src/formatter.rs           →  Generated/VisTableSrc.lean (C14)
# Both translators accept a tiny subset and raise `Unsupported` on anything else.

ALIAS_SRC = "/repo/main/src/predefined_node/mod.rs"
ALIAS_OUT = os.path.join(LEAN, "PestTyped", "Generated", "AliasSrc.lean")
VIS_SRC = "/repo/main/src/formatter.rs"
VIS_OUT = os.path.join(LEAN, "PestTyped", "Generated", "VisTableSrc.lean")


def strip_comments(src):
    """Removes `//…` and (non-nested) `/* … */` comments outside char / string literals."""
    out, i, n = [], 0, len(src)
    while i < n:
        c = src[i]
        if src.startswith("//", i):
            j = src.find("\n", i)
            i = n if j < 0 else j
        elif src.startswith("/*", i):
            j = src.find("*/", i + 2)
            if j < 0:
                raise Unsupported("unterminated block comment")
            if "/*" in src[i + 2:j]:
                raise Unsupported("nested block comment")
            out.append(" ")
            i = j + 2
        elif c == '"':
            if re.search(r"(?<![A-Za-z0-9_])b?r#*$", "".join(out[-8:])):
                raise Unsupported("raw string literal")
            j = i + 1
            while j < n and src[j] != '"':
                j += 2 if src[j] == "\\" else 1
            out.append(src[i:j + 1])
            i = j + 1
        elif c == "'":
            m = CHARLIT.match(src, i)
            if m:
                out.append(m.group(0))
                i = m.end()
            else:       # a lifetime
                out.append(c)
                i += 1
        else:
            out.append(c)
            i += 1
    return "".join(out)


CHARLIT = re.compile(r"'(\\x[0-9a-fA-F]{2}|\\u\{[0-9a-fA-F_]{1,8}\}|\\[nrt0\\'\"]|[^\\'\n])'")


def char_value(lit):
    """Code point of a Rust char literal (the whole token, quotes included)."""
    m = CHARLIT.fullmatch(lit)
    if not m:
        raise Unsupported("char literal " + lit)
    b = m.group(1)
    if b.startswith("\\x"):
        v = int(b[2:], 16)
        if v > 0x7f:
            raise Unsupported("\\x escape above 7f in a char literal: " + lit)
        return v
    if b.startswith("\\u"):
        v = int(b[3:-1].replace("_", ""), 16)
        if v > 0x10ffff or 0xd800 <= v <= 0xdfff:
            raise Unsupported("not a scalar value: " + lit)
        return v
    if b.startswith("\\"):
        return {"n": 10, "r": 13, "t": 9, "0": 0, "\\": 92, "'": 39, '"': 34}[b[1]]
    return ord(b)


# ---- (a) alias block ---------------------------------------------------------------------------

TYTOK = re.compile(r"\s*(" + CHARLIT.pattern + r"|[A-Za-z_][A-Za-z0-9_]*|[<>,])")


def _ty_tokens(text):
    pos, out = 0, []
    while pos < len(text):
        if text[pos:].strip() == "":
            break
        m = TYTOK.match(text, pos)
        if not m:
            raise Unsupported("alias type: cannot tokenize " + text[pos:pos + 30])
        out.append(m.group(1))
        pos = m.end()
    return out


def _parse_ty(toks, i):
    """type := IDENT ['<' arg (',' arg)* [','] '>'] ; arg := CHARLIT | type.  Returns (tree, next)."""
    if i >= len(toks) or not re.match(r"[A-Za-z_]", toks[i]):
        raise Unsupported("alias type: expected a type name at " + " ".join(toks[i:i + 3]))
    name, i = toks[i], i + 1
    args = None
    if i < len(toks) and toks[i] == "<":
        i += 1
        args = []
        while True:
            if i >= len(toks):
                raise Unsupported("alias type: unterminated `<`")
            if toks[i] == ">":
                i += 1
                break
            if toks[i].startswith("'"):
                args.append(("char", char_value(toks[i])))
                i += 1
            else:
                t, i = _parse_ty(toks, i)
                args.append(t)
            if i < len(toks) and toks[i] == ",":
                i += 1
            elif i < len(toks) and toks[i] == ">":
                pass
            else:
                raise Unsupported("alias type: expected `,` or `>`")
    return ("ty", name, args), i


def _alias_node(tree, defined, choice_names):
    """Lean `Node` term of a type tree (aliases defined earlier are inlined, as Rust resolves them)."""
    _, name, args = tree
    if name == "CharRange":
        if args is None or len(args) != 2 or any(a[0] != "char" for a in args):
            raise Unsupported("CharRange with arguments other than two char literals")
        return f"(Node.range (Char.ofNat {args[0][1]}) (Char.ofNat {args[1][1]}))"
    m = re.fullmatch(r"Choice(\d+)", name)
    if m:
        if name not in choice_names:
            raise Unsupported(name + " is not imported from crate::choices")
        if args is None or len(args) != int(m.group(1)) or any(a[0] != "ty" for a in args):
            raise Unsupported(name + " with a wrong number / kind of arguments")
        return "(Node.choice [" + ", ".join(_alias_node(a, defined, choice_names) for a in args) + "])"
    if args is None and name in defined:
        return defined[name]
    raise Unsupported("alias type: unknown type " + name + ("<…>" if args is not None else ""))


def translate_aliases(src=None):
    src = open(ALIAS_SRC).read() if src is None else src
    code = strip_comments(src)
    if not re.search(r"\bpub\s+struct\s+CharRange\s*<\s*const\s+MIN\s*:\s*char\s*,\s*const\s+MAX\s*:\s*char\s*>", code):
        raise Unsupported("`pub struct CharRange<const MIN: char, const MAX: char>` not found")
    choice_names = set()
    for m in re.finditer(r"\buse\s+crate::choices::(\{[^}]*\}|[A-Za-z0-9_]+)\s*;", code):
        for n in re.findall(r"[A-Za-z0-9_]+", m.group(1)):
            choice_names.add(n)
    items = list(re.finditer(r"\bpub\s+type\s+([A-Za-z_][A-Za-z0-9_]*)\s*=\s*([^;]*);", code))
    # every `type` keyword at item level of this file must be one of the aliases understood here
    # (`type X = …;` inside impl blocks are associated types: they are indented, aliases are not)
    top = [m for m in re.finditer(r"^(?:pub(?:\([a-z]+\))?\s+)?type\b[^\n]*", code, flags=re.M)]
    if len(top) != len(items) or any(not t.group(0).startswith("pub type ") for t in top):
        raise Unsupported("a top-level `type` item is not of the form `pub type NAME = TYPE;`")
    if not items:
        raise Unsupported("no `pub type` alias found")
    defined, out = {}, []
    for m in items:
        name = m.group(1)
        if name in defined:
            raise Unsupported("alias defined twice: " + name)
        toks = _ty_tokens(m.group(2))
        tree, j = _parse_ty(toks, 0)
        if j != len(toks):
            raise Unsupported("alias type: trailing tokens in " + name)
        node = _alias_node(tree, defined, choice_names)
        defined[name] = node
        out.append((name, node))
    rows = ",\n".join(f'  ("{n}", {t})' for n, t in out)
    return f"""/-
GENERATED by checks/tsrc.py from /repo/main/src/predefined_node/mod.rs on every run — do not edit.
Every top-level `pub type NAME = TYPE;` of that file, in source order, with `CharRange<'a','b'>` read as
`Node.range`, `ChoiceN<…>` (imported from crate::choices) as `Node.choice […]` and earlier aliases inlined.
-/
import PestTyped.Model.Node
namespace PestTyped.Src

def builtinAliasSrc : List (String × Node) := [
{rows}]

end PestTyped.Src
"""


# ---- (b) control-picture table -------------------------------------------------------------------

def translate_vis(src=None):
    src = open(VIS_SRC).read() if src is None else src
    code = strip_comments(src)
    # The private function may be renamed: it is identified as THE function `fn <name>(<x>: &str) -> String` of the
    # non-test code whose body contains a `match` with an arm `'<char>' => '<U+24xx picture>'`, and it must be called
    # from elsewhere in the non-test code (the display code).  Two such functions, or none, are refused.
    test_at = re.search(r"#\s*\[\s*cfg\s*\(\s*test\s*\)\s*\]", code)
    nontest = code[:test_at.start()] if test_at else code
    cands = []
    for h0 in re.finditer(r"\bfn\s+([A-Za-z_][A-Za-z0-9_]*)\s*\(\s*([a-z_][a-z0-9_]*)\s*:\s*&\s*str\s*\)\s*->\s*String\s*\{", nontest):
        d0, i0 = 1, h0.end()
        while d0 and i0 < len(nontest):
            if CHARLIT.match(nontest, i0):
                i0 = CHARLIT.match(nontest, i0).end()
                continue
            d0 += {"{": 1, "}": -1}.get(nontest[i0], 0)
            i0 += 1
        body0 = nontest[h0.end():i0]
        pics = [m0 for m0 in re.finditer(r"(" + CHARLIT.pattern + r")\s*=>\s*(" + CHARLIT.pattern + r")", body0)
                if 0x2400 <= char_value(m0.group(3)) <= 0x243f]
        if re.search(r"\bmatch\b", body0) and pics:
            cands.append((h0, i0))
    if len(cands) != 1:
        raise Unsupported(f"expected exactly one `fn <name>(<x>: &str) -> String` whose `match` maps characters to control "
                          f"pictures (U+24xx), found {len(cands)}")
    h, end0 = cands[0]
    fname = h.group(1)
    rest_code = nontest[:h.start()] + nontest[end0:]
    if not re.search(r"\b" + re.escape(fname) + r"\s*\(", rest_code):
        raise Unsupported(f"`{fname}` is not called from the display code")
    h = re.compile(r"\bfn\s+" + re.escape(fname) + r"\s*\(\s*([a-z_][a-z0-9_]*)\s*:\s*&\s*str\s*\)\s*->\s*String\s*\{").search(code)
    arg = h.group(1)
    depth, i = 1, h.end()
    while depth:
        if i >= len(code):
            raise Unsupported("unbalanced braces in " + fname)
        if CHARLIT.match(code, i):
            i = CHARLIT.match(code, i).end()
            continue
        depth += {"{": 1, "}": -1}.get(code[i], 0)
        i += 1
    body = code[h.end():i - 1]
    m = re.fullmatch(r"\s*" + arg + r"\s*\.\s*chars\s*\(\s*\)\s*\.\s*map\s*\(\s*\|\s*([a-z_][a-z0-9_]*)\s*\|\s*match\s+([a-z_][a-z0-9_]*)\s*\{(.*)\}\s*\)\s*\.\s*collect\s*\(\s*\)\s*", body, flags=re.S)
    if m:
        var, scrut, arms = m.group(1), m.group(2), m.group(3)
    else:
        # second accepted shape, the same function written as an explicit loop:
        #   let mut OUT = String::new() | String::with_capacity(<expr without braces/semicolons>);
        #   for C in <x>.chars() { let V = match C { … }; OUT.push(V); }   (or `OUT.push(match C { … });`)
        #   OUT
        I = r"([a-z_][a-z0-9_]*)"
        m2 = re.fullmatch(r"\s*let\s+mut\s+" + I + r"\s*=\s*String\s*::\s*(?:new\s*\(\s*\)|with_capacity\s*\([^;{}]*\))\s*;"
                          r"\s*for\s+" + I + r"\s+in\s+" + arg + r"\s*\.\s*chars\s*\(\s*\)\s*\{"
                          r"\s*(?:let\s+" + I + r"\s*=\s*match\s+" + I + r"\s*\{(.*)\}\s*;\s*" + I + r"\s*\.\s*push\s*\(\s*" + I + r"\s*\)\s*;"
                          r"|" + I + r"\s*\.\s*push\s*\(\s*match\s+" + I + r"\s*\{(.*)\}\s*\)\s*;)"
                          r"\s*\}\s*" + I + r"\s*", body, flags=re.S)
        if not m2:
            raise Unsupported("body is neither `<x>.chars().map(|c| match c { … }).collect()` nor the explicit push loop")
        out, var = m2.group(1), m2.group(2)
        if m2.group(3) is not None:
            v, scrut, arms, out2, v2 = m2.group(3), m2.group(4), m2.group(5), m2.group(6), m2.group(7)
            if v != v2 or v in (var, out):
                raise Unsupported("the pushed value is not the match result")
        else:
            out2, scrut, arms = m2.group(8), m2.group(9), m2.group(10)
        if out2 != out or m2.group(11) != out or out == var:
            raise Unsupported("the loop does not push to / return the one output string")
    if var != scrut:
        raise Unsupported("the match scrutinee is not the closure variable")
    # arms := (CHARLIT '=>' CHARLIT ',')* (('_' | IDENT) '=>' IDENT ','?)
    armtok = re.compile(r"\s*(" + CHARLIT.pattern + r"|=>|,|[A-Za-z_][A-Za-z0-9_]*)")
    toks, pos = [], 0
    while pos < len(arms):
        if arms[pos:].strip() == "":
            break
        t = armtok.match(arms, pos)
        if not t:
            raise Unsupported("match arms: cannot tokenize " + arms[pos:pos + 30].strip())
        toks.append(t.group(1))
        pos = t.end()
    table, k, catch_all = [], 0, False
    while k < len(toks):
        if catch_all:
            raise Unsupported("an arm after the catch-all arm")
        if toks[k].startswith("'"):
            if k + 2 >= len(toks) or toks[k + 1] != "=>" or not toks[k + 2].startswith("'"):
                raise Unsupported("arm is not `'x' => 'y'`")
            table.append((char_value(toks[k]), char_value(toks[k + 2])))
            k += 3
            if k < len(toks):
                if toks[k] != ",":
                    raise Unsupported("missing `,` after an arm")
                k += 1
        else:
            pat = toks[k]
            if k + 2 >= len(toks) or toks[k + 1] != "=>":
                raise Unsupported("catch-all arm is not `_ => c`")
            res = toks[k + 2]
            if not ((pat == "_" and res == var) or (pat == res and re.fullmatch(r"[a-z_][a-z0-9_]*", pat) and pat != "_")):
                raise Unsupported(f"catch-all arm `{pat} => {res}` is not the identity")
            catch_all = True
            k += 3
            if k < len(toks) and toks[k] == ",":
                k += 1
    if not catch_all:
        raise Unsupported("no catch-all identity arm")
    keys = [a for a, _ in table]
    if len(set(keys)) != len(keys):
        raise Unsupported("a pattern occurs twice (later arm unreachable)")
    rows = ", ".join(f"(0x{a:x}, 0x{b:x})" for a, b in table)
    return f"""/-
GENERATED by checks/tsrc.py from /repo/main/src/formatter.rs (`visualize_ws_and_cntrl`) on every run — do not edit.
`visTableSrc`: the arms `'x' => 'y'` of the `match`, in source order, as (code point, code point).  The translator
checked that the function is `line.chars().map(|c| match c {{ … }}).collect()`, that no pattern occurs twice and that
the LAST arm is the identity catch-all (`_ => c`): `visCharSrc` is therefore the meaning of the source `match`.
-/
namespace PestTyped.Src

def visTableSrc : List (Nat × Nat) := [{rows}]

/-- The source `match`: the first arm whose pattern is `c`, else the catch-all `_ => c`. -/
def visCharSrc (c : Char) : Char :=
  match visTableSrc.lookup c.toNat with
  | some p => Char.ofNat p
  | none => c

end PestTyped.Src
"""


def _write(path, text):
    os.makedirs(os.path.dirname(path), exist_ok=True)
    old = open(path).read() if os.path.exists(path) else None
    if old != text:
        open(path, "w").write(text)


def regenerate_aliases():
    """Writes Generated/AliasSrc.lean if its content changed; returns (ok, message)."""
    try:
        _write(ALIAS_OUT, translate_aliases())
    except Unsupported as e:
        return False, "translator: unsupported syntax in predefined_node/mod.rs: " + str(e)
    return True, "regenerated"


def regenerate_vis():
    """Writes Generated/VisTableSrc.lean if its content changed; returns (ok, message)."""
    try:
        _write(VIS_OUT, translate_vis())
    except Unsupported as e:
        return False, "translator: unsupported syntax in formatter.rs: " + str(e)
    return True, "regenerated"


def regenerate_all():
    """All three generated files (used by setup.sh); returns [(name, ok, message)]."""
    return [("parser_state.rs",) + tuple(regenerate()), ("predefined_node/mod.rs",) + tuple(regenerate_aliases()),
            ("formatter.rs",) + tuple(regenerate_vis())]


def pre_C01(ctx):
    ok, msg = regenerate_aliases()
    n = len(re.findall(r'^  \("', open(ALIAS_OUT).read(), flags=re.M)) if ok else 0
    ctx.ties["T-src:predefined_node/mod.rs"] = {"cases": n, "agree": n if ok else 0, "observables": [
        "every top-level `pub type` alias regenerated as a Lean `Node`; equality with Model/Gen.lean's `builtinNode` "
        "and the list of alias names are proof obligations (Props/C01Src.lean)"]}
    if not ok:
        ctx.tie_broken("T-src:predefined_node/mod.rs", {"error": msg})


def pre_C14(ctx):
    ok, msg = regenerate_vis()
    n = len(re.findall(r"\(0x", open(VIS_OUT).read())) if ok else 0
    ctx.ties["T-src:formatter.rs"] = {"cases": n, "agree": n if ok else 0, "observables": [
        "arms of `visualize_ws_and_cntrl` regenerated as `visTableSrc` (+ catch-all identity arm checked); equality "
        "with Model/Text.lean's `visChar` on every character is a proof obligation (Props/C14Src.lean)"]}
    if not ok:
        ctx.tie_broken("T-src:formatter.rs", {"error": msg})
