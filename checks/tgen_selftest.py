"""Sensitivity self-test of the tie T-gen:structure (checks/tgen.py).

    python3 -m checks.tgen_selftest            (from /verif; ~1-2 min, mostly one cold cargo build)

Copies /repo to a scratch directory under /tmp (never touches /repo), builds a copy of harness/tgen_tool against
the scratch generator, checks that the tie agrees on the unmodified copy, then applies small mutations to the
scratch generator / runtime one at a time and reports what the tie says: the number of disagreeing modules and,
for the first one, the rule and the sub-term it is localised to.  Each mutation carries a predicate on that first
report (`expect`); the script exits 1 if a mutation is missed or mis-localised.  The scratch copy is removed."""
import json, os, shutil, subprocess, sys, tempfile, time
from . import tgen
import corpus

MUTATIONS = [
    {"id": "M1-skip-flag-inherited-to-1",
     "file": "generator/src/graph/optimized_rule.rs",
     "old": "            None => quote! {INHERITED},\n        };\n        macro_rules! walk",
     "new": "            None => quote! {1},\n        };\n        macro_rules! walk",
     "what": "optimized path: the SKIP token of normal / silent rules becomes `1` instead of `INHERITED`",
     "expect": lambda d: d["where"] == "body" and "pest_optimizer" not in d["options"] and d["model"] == "INHERITED" and d["impl"] == "1" and d["path"].endswith(".skip")},
    {"id": "M2-nonatomic-rule-declared-atomic",
     "file": "generator/src/graph/optimized_rule.rs",
     "old": "RuleType::NonAtomic => (Some(false), Emission::Both),",
     "new": "RuleType::NonAtomic => (Some(true), Emission::Both),",
     "what": "optimized path: `!{…}` rules get `$atomicity = true` (and SKIP = 0)",
     "expect": lambda d: d["where"] == "$atomicity" and d["impl"] == "true" and d["model"] == "false"
                         and (d["rule"] + " = !{") in d["text"].replace("  ", " ") and "pest_optimizer" not in d["options"]},
    {"id": "M3-ascii-oct-digit-upper-bound",
     "file": "main/src/predefined_node/mod.rs",
     "old": "pub type ASCII_OCT_DIGIT = CharRange<'0', '7'>;",
     "new": "pub type ASCII_OCT_DIGIT = CharRange<'0', '8'>;",
     "what": "runtime alias ASCII_OCT_DIGIT = '0'..'8' (no rebuild: the extractor reads the alias from the sources)",
     "rebuild": False,
     "expect": lambda d: d["where"] == "body" and d["impl"] == "56" and d["model"] == "55" and d["path"].endswith("range.hi") and "ASCII_OCT_DIGIT" in d["text"]},
    {"id": "M4-skipped-alias-order",
     "file": "generator/src/graph.rs",
     "old": "                        #root::#rules_mod::WHITESPACE<'i, 0>,\n                        #root::#rules_mod::COMMENT<'i, 0>,",
     "new": "                        #root::#rules_mod::COMMENT<'i, 0>,\n                        #root::#rules_mod::WHITESPACE<'i, 0>,",
     "what": "generics::Skipped tries COMMENT before WHITESPACE",
     "expect": lambda d: d["where"] == "generics::Skipped" and "WHITESPACE" in d["text"] and "COMMENT" in d["text"]},
    {"id": "M5-repmax-alias-min-1",
     "file": "generator/src/graph.rs",
     "old": "predefined_node::RepMinMax<T, Skipped<'i>, SKIP, 0, MAX>;",
     "new": "predefined_node::RepMinMax<T, Skipped<'i>, SKIP, 1, MAX>;",
     "what": "raw path: the emitted alias `generics::RepMax` has MIN = 1",
     "expect": lambda d: d["where"] == "body" and "pest_optimizer = false" in d["options"] and d["impl"] == "1" and d["model"] == "0" and d["path"].endswith("rep.min")},
    {"id": "M6-repmin-forgets-min",
     "file": "generator/src/graph/rule.rs",
     "old": "quote! { #root::#generics::RepMin::<'i, #skip, #inner_name, #min> }",
     "new": "quote! { #root::#generics::RepMin::<'i, #skip, #inner_name, 0usize> }",
     "what": "raw path: `e{n,}` forgets its lower bound",
     "expect": lambda d: d["where"] == "body" and "pest_optimizer = false" in d["options"] and d["impl"] == "0" and d["path"].endswith("rep.min")},
    {"id": "M7-construct-outside-Node",
     "file": "generator/src/graph/optimized_rule.rs",
     "old": "#root::#generics::Positive::<#inner>",
     "new": "::core::marker::PhantomData::<#inner>",
     "what": "optimized path: `&e` is emitted as a type `Node` cannot express (the extractor must say so, not guess)",
     "expect": lambda d: d["where"] == "body" and d["impl"].startswith("(unsupported external:") and d["model"].startswith("(pos ")},
]


def build_tool(tool_dir, env):
    p = subprocess.run(["cargo", "build", "--offline", "-q"], cwd=tool_dir, env=env, capture_output=True, text=True)
    if p.returncode != 0:
        raise RuntimeError("scratch tgen_tool does not build:\n" + p.stderr[-3000:])


def main():
    tier = "quick"
    seed = int(os.environ.get("VERIF_SEED", "20260927"))
    root = tempfile.mkdtemp(prefix="tgen_selftest_", dir="/tmp")
    failures = 0
    try:
        repo = os.path.join(root, "repo")
        shutil.copytree("/repo", repo, ignore=shutil.ignore_patterns("target", ".git"))
        tool_dir = os.path.join(root, "tool")
        shutil.copytree(tgen.TOOL_DIR, tool_dir)
        toml = open(os.path.join(tool_dir, "Cargo.toml")).read()
        assert 'path = "/repo/generator"' in toml
        open(os.path.join(tool_dir, "Cargo.toml"), "w").write(toml.replace('path = "/repo/generator"', f'path = "{repo}/generator"'))
        shutil.copy("/repo/Cargo.lock", os.path.join(tool_dir, "Cargo.lock"))
        env = dict(corpus.ENV, CARGO_TARGET_DIR=os.path.join(root, "target"))
        tool = os.path.join(root, "target", "debug", "tgen_tool")
        runtime = os.path.join(repo, "main", "src")
        tgen.ensure_driver()
        t0 = time.time()
        build_tool(tool_dir, env)
        print(f"scratch copy {root}: tool built in {time.time() - t0:.1f}s")
        work = os.path.join(root, "work")
        base = tgen.compute(tier, seed, tool=tool, runtime_src=runtime, workdir=work)
        print(f"baseline (unmodified copy): {base['agree']}/{base['cases']} modules agree, {base['rules_compared']} rules, "
              f"{base['nunsupported']} unsupported constructs, {base['npanics']} panics")
        if base["agree"] != base["cases"]:
            failures += 1
        for m in MUTATIONS:
            path = os.path.join(repo, m["file"])
            src = open(path).read()
            if src.count(m["old"]) != 1:
                print(f"{m['id']}: pattern occurs {src.count(m['old'])} times in {m['file']} - mutation not applicable")
                failures += 1
                continue
            open(path, "w").write(src.replace(m["old"], m["new"]))
            try:
                t0 = time.time()
                if m.get("rebuild", True):
                    build_tool(tool_dir, env)
                r = tgen.compute(tier, seed, tool=tool, runtime_src=runtime, workdir=work)
                first = r["diffs"][0] if r["diffs"] else None
                ok = bool(first) and bool(m["expect"](first))
                print(f"\n{m['id']}: {m['what']}\n  {m['file']}: `{m['old'].strip().splitlines()[0].strip()}` -> `{m['new'].strip().splitlines()[0].strip()}`")
                print(f"  tie: {r['cases'] - r['agree']}/{r['cases']} modules disagree ({time.time() - t0:.1f}s incl. rebuild); "
                      f"unsupported={r['nunsupported']} panics={r['npanics']}")
                if first:
                    print("  first: " + json.dumps({k: v for k, v in first.items() if k != "text"}, ensure_ascii=False))
                print("  => " + ("FLAGGED, localised as expected" if ok else "NOT flagged as expected"))
                if not ok:
                    failures += 1
            finally:
                open(path, "w").write(src)
        build_tool(tool_dir, env)
        again = tgen.compute(tier, seed, tool=tool, runtime_src=runtime, workdir=work)
        print(f"\nafter reverting everything: {again['agree']}/{again['cases']} agree")
        if again["agree"] != again["cases"]:
            failures += 1
    finally:
        shutil.rmtree(root, ignore_errors=True)
    print("self-test " + ("PASSED" if not failures else f"FAILED ({failures})"))
    return 1 if failures else 0


if __name__ == "__main__":
    sys.exit(main())
