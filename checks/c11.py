"""C11: ill-formed grammars are refused at generation time, accepted ones compile, and every parse
of a well-founded accepted grammar returns.

Three implementation-level oracles, all on /repo's current working tree:
  A (refusal)   harness/gen_runner calls `derive_typed_parser` under `catch_unwind` with the default options AND
                with every option set of `OPTION_SETS` (`pest_optimizer = false`, `no_warnings`,
                `emit_rule_reference`, `box_only_if_needed`, `do_not_emit_span`, a combination) and,
                independently, every stage of pest_meta's front end; the generator must refuse (panic, or
                emit `compile_error!`: rustc refuses either way) exactly when `parse`/`consume_rules`
                (= `validate_ast`) reject the grammar, and must not refuse when pest's whole front end accepts
                it.  `refusal_through_proc_macro`: a sample of rejected grammars (and accepted controls) goes
                through the REAL `#[derive(TypedParser)]`, one bin target each, rotating the option sets:
                exactly the rejected ones must fail to build, with the validator's message in rustc's output.
  B (compiles)  a seeded sample of the accepted grammars is derived through the real proc macro in a
                16-crate cargo workspace; a rustc error is attributed to its grammar by bisection.
  C (returns)   every rule of every compiled grammar that is statically well-founded is run on all
                short inputs under the runners' 6 s watchdog.  "Well-founded" is decided by the Lean
                model's `wfCheck` (Lemmas/Termination.lean: `NulOK`/`NoLeftRec`/`Progressing` with computed
                witnesses, proved sound and proved to imply termination: `C11_terminates_checked`), run
                through `model_driver`; `corpus.analyse` is a stricter python filter.
Ties (Lean side): `lean_static` compares `wfCheck` with an independent python implementation of the same
definitions and with `corpus.analyse`; `tie_wf` runs the model with exactly the theorem's fuel bound on the
cases of oracle C (never `oof`, same verdict as the implementation); `validator-mirror` runs the Lean mirror of pest_meta's
`validate_ast` (Model/Validator.lean, the `pestValidate` of theorems `C11_refuses`, `C11_validator_*`: Props/C11Validator.lean) on the
very `ParserRule`s gen_runner hands to the real `validate_ast` (every grammar of the corpus that parses): same verdict, same
multiset of error classes."""
import concurrent.futures, os, random, re, subprocess, time
from . import common, suites
import corpus
import opts as optsmod

GEN_DIR = os.path.join(corpus.HERE, "gen_runner")
GEN_EXE = os.path.join(corpus.TARGET, "release", "gen_runner")


def target_dir(tier):
    """The derived crates are called b0..b15 like those of the shared suites and of the other tier, and cargo does
    not re-link `target/debug/bK` when a crate of that name is already fresh: every tier gets its own target
    directory, so that the binaries that are run are the ones that were just built."""
    return os.path.join(corpus.BUILD, f"target_c11_{tier}")
KINDS = ["", "_", "@", "$", "!"]

# validator error classes, in matching order (the repetition messages contain the WHITESPACE ones' tail)
ERR_CLASSES = [
    ("left-recursion", "left-recursive"),
    ("rep-cannot-fail", "inside repetition cannot fail"),
    ("rep-non-progressing", "inside repetition is non-progressing"),
    ("choice-unreachable", "following choices cannot be reached"),
    ("skip-cannot-fail", "cannot fail and will repeat infinitely"),
    ("skip-non-progressing", "is non-progressing and will repeat infinitely"),
]
LISTED = [c for c, _ in ERR_CLASSES]


def classify_vmsg(vmsg):
    """Every line of the validator's report -> set of error classes."""
    out = set()
    for line in vmsg.split("\n"):
        if not line.strip():
            continue
        for cls, sub in ERR_CLASSES:
            if sub in line:
                out.add(cls)
                break
        else:
            out.add("other")
    return out


# ---------------------------------------------------------------------------------------------
# gen_runner

def build_gen_runner():
    subprocess.check_call(["cp", "/repo/Cargo.lock", os.path.join(GEN_DIR, "Cargo.lock")])
    p = subprocess.run(["cargo", "build", "--offline", "--release", "-q"], cwd=GEN_DIR, env=corpus.ENV,
                       capture_output=True, text=True)
    if p.returncode != 0 or not os.path.exists(GEN_EXE):
        raise RuntimeError("gen_runner does not build against /repo's generator:\n" + p.stderr[-3000:])
    return GEN_EXE


# non-default derive option sets under which refusal (oracle A) is observed as well
OPTION_SETS = [
    "#[pest_optimizer = false]",
    "#[no_warnings]",
    "#[emit_rule_reference]",
    "#[box_only_if_needed]",
    "#[do_not_emit_span]",
    "#[pest_optimizer = false] #[no_warnings] #[emit_rule_reference] #[box_only_if_needed] #[do_not_emit_span]",
    "#[no_warnings] #[emit_tagged_node_reference] #[simulate_pair_api] #[truncate_getter_at_node_tag = false]",
]
REFUSED = ("panic", "cerr")


def run_gen(grammars, nproc=4, optsets=OPTION_SETS):
    """gid -> observables of gen_runner (messages already decoded); `dopt` = list of the derive verdicts under `optsets`."""
    chunks = [grammars[i::nproc] for i in range(nproc)]
    optcol = corpus.hexs("\n".join(optsets)) if optsets else "-"

    def run(chunk):
        if not chunk:
            return []
        inp = "".join(f"{g['gid']}\t{corpus.hexs(g['text'])}\t{optcol}\n" for g in chunk)
        p = subprocess.run([GEN_EXE], input=inp, capture_output=True, text=True)
        lines = p.stdout.splitlines()
        if p.returncode != 0 or len(lines) != len(chunk):
            nxt = chunk[len(lines)]["gid"] if len(lines) < len(chunk) else "-"
            raise RuntimeError(f"gen_runner died or lost lines: exit {p.returncode}, {len(lines)}/{len(chunk)} answers, "
                               f"next grammar {nxt}; stderr tail:\n{p.stderr[-1500:]}")
        return lines
    res = {}
    with concurrent.futures.ThreadPoolExecutor(nproc) as ex:
        for chunk, lines in zip(chunks, ex.map(run, chunks)):
            for g, l in zip(chunk, lines):
                f = l.split("\t")
                if f[0] != g["gid"]:
                    raise RuntimeError(f"gen_runner answered out of order: expected {g['gid']}, got {f[0]}")
                o = suites.parse_obs(l)
                for k in ("vmsg", "pmsg", "dmsg", "doptmsg"):
                    o[k] = corpus.unhex(o.get(k, "-"))
                o["dopt"] = [] if o.get("dopt", "-") == "-" else o["dopt"].split(",")
                o["doptmsg"] = o["doptmsg"].split("\n") if o["dopt"] else []
                if len(o["dopt"]) != len(optsets or []):
                    raise RuntimeError(f"gen_runner answered {len(o['dopt'])} option sets for {g['gid']}, expected {len(optsets or [])}")
                res[g["gid"]] = o
    return res


# ---------------------------------------------------------------------------------------------
# corpus: valid grammars with unusual constructs

def unusual_grammars():
    gs = []

    def add(name, text, compile_ok=True, mutate=True):
        gs.append({"gid": "u_" + name, "text": text, "class": "valid", "unusual": True, "compile": compile_ok, "mutate": mutate})
    letters = "abcdefghijklmnopqrstuvwxyz"
    add("choice13", "r0 = { " + " | ".join(f'"{c}"' for c in letters[:13]) + " }\n")
    add("choice17", "r0 = { " + " | ".join(f'"{c}"' for c in letters[:17]) + ' }\nr1 = @{ ' +
        " | ".join(f'"{c}" ~ r0' if i % 3 == 0 else f'"{c}"+' for i, c in enumerate(letters[:17])) + " }\n")
    add("choice33", "r0 = { " + " | ".join(f'"{a}{b}"' for a in "abc" for b in letters[:11]) + " }\n")
    add("seq13", "r0 = { " + " ~ ".join(f'"{c}"' for c in letters[:13]) + " }\nWHITESPACE = _{ \" \" }\n")
    add("seq17", "r0 = ${ " + " ~ ".join(f'"{c}"?' if i % 2 else f'"{c}"' for i, c in enumerate(letters[:17])) + " }\n")
    add("nested_counted", 'r0 = { (("a"{2}){1,3}){,2} }\nr1 = { ("a"{1,2} ~ "b"{2,}){2} }\nr2 = { (("a" | "b"){2,3} ~ "c"){1,} }\n'
        'r3 = { "a"{12} ~ "b"{3,9} }\n')
    add("unicode_props", 'r0 = { LETTER ~ UPPERCASE_LETTER* }\nr1 = { EMOJI+ }\nr2 = { HAN | LOWERCASE_LETTER }\n'
        'r3 = { (!WHITE_SPACE ~ ANY)+ }\nr4 = @{ XID_START ~ XID_CONTINUE* }\nr5 = { DECIMAL_NUMBER+ ~ (PUNCTUATION | MATH_SYMBOL)? }\n'
        'r6 = { CYRILLIC+ ~ GREEK* ~ ALPHABETIC }\n')
    add("peek_neg", 'r0 = { PUSH("a") ~ PUSH("b") ~ PUSH("c") ~ PEEK[-2..-1] ~ PEEK[..-1] ~ PEEK[-1..] ~ PEEK[-3..] }\n'
        'r1 = { PUSH("a") ~ (PEEK[-1..0] | PEEK[0..-1] | PEEK[-4..] | PEEK[..] | "z") }\nr2 = { PEEK[2..1] | PEEK[-1..-2] | "q" }\n')
    add("kinds", 'n = { "a" ~ s ~ a ~ c ~ x }\ns = _{ "b" ~ "c"* }\na = @{ "d" ~ n? }\nc = ${ "e" ~ x* }\nx = !{ "f" ~ "g"+ }\nWHITESPACE = _{ " " }\n')
    deep = '"a"'
    for i in range(14):
        deep = ["(%s ~ \"b\")", "(%s | \"c\")", "(%s)*", "(%s)?", "!(%s) ~ ANY", "&(%s) ~ \"a\"", "(%s)+"][i % 7] % deep
    add("deep", f"r0 = {{ {deep} }}\n")
    add("kw_names", 'type = { "a" }\nfn = { type ~ "b" }\nstruct = _{ fn | type }\nmatch = @{ struct+ }\nasync = ${ "x" ~ match? }\n'
        'dyn = !{ "d" ~ async* }\ntry = { dyn | union }\nunion = { "u" }\nmacro_rules = { "m" ~ abstract }\nabstract = { "a" ~ yield? }\n'
        'yield = { "y" }\nloop = { "l" ~ (while | for)* }\nwhile = { "w" }\nfor = { "f" ~ in }\nin = { "i" }\nmod = { pub ~ use }\npub = { "p" }\n'
        'use = { "u" ~ impl? }\nimpl = { "i" ~ trait? }\ntrait = { "t" }\nlet = { "l" ~ mut }\nmut = { "m" ~ ref? }\nref = { "r" }\n'
        'static = { "s" ~ const? }\nconst = { "c" }\nenum = { "e" ~ (true | false) }\ntrue = { "t" }\nfalse = { "f" }\nas = { "a" ~ where? }\n'
        'where = { "w" ~ unsafe? }\nunsafe = { "u" ~ extern? }\nextern = { "e" ~ move? }\nmove = { "m" ~ return? }\nreturn = { "r" ~ break? }\n'
        'break = { "b" ~ continue? }\ncontinue = { "c" ~ if? }\nif = { "i" ~ else? }\nelse = { "e" ~ box? }\nbox = { "b" ~ do? }\ndo = { "d" }\n')
    # rule names rustc does not accept as raw identifiers: pest_meta accepts them, no generator can emit them
    for kw in ("self", "Self", "crate", "super"):
        add("kw_" + kw.lower() + ("_cap" if kw == "Self" else ""), f'{kw} = {{ "s" }}\nr0 = {{ {kw} ~ "t" }}\n', compile_ok=False)
    add("chain", "".join(f"r{i} = {{ r{i + 1} }}\n" for i in range(9)) + 'r9 = { "a" ~ "b"? }\n')
    add("chain_kinds", "".join(f"r{i} = {KINDS[i % 5]}{{ \"{letters[i]}\"? ~ r{i + 1} }}\n" for i in range(10)) + 'r10 = { "z" }\nWHITESPACE = _{ " " }\n')
    add("multibyte", 'r0 = { "é" ~ "中" ~ "\U0001F600" }\nr1 = { ("é" | "ée" | "中")+ }\nr2 = @{ "ß"{2} ~ \'α\'..\'ω\'* }\nr3 = { (!"中" ~ ANY)* ~ "中" }\n')
    add("insens", 'r0 = { ^"abc" ~ ^"É" }\nr1 = { ^"a"+ ~ ^"" ~ ^"ß"? }\nr2 = { ^"Hello World" | ^"x" }\n')
    add("ranges", "r0 = { 'a'..'z' ~ '\\u{00}'..'\\u{10FFFF}' ~ 'é'..'中' }\nr1 = { 'b'..'a' | '0'..'9'+ }\nr2 = { 'a'..'a' ~ '\\x41'..'\\x5a' ~ '\\''..'\\\\' }\n")
    add("soi_eoi", 'r0 = { SOI ~ "a"* ~ EOI }\nr1 = { SOI ~ SOI ~ r2 ~ EOI ~ EOI }\nr2 = { "a" ~ (EOI | "b") }\nr3 = { !SOI ~ ANY | &EOI }\nr4 = { (SOI ~ "a")+ }\n')
    add("stack", 'r0 = { PUSH("a" | "b") ~ PUSH(ANY) ~ PEEK ~ POP ~ DROP }\nr1 = { PUSH("a")+ ~ PEEK_ALL ~ POP_ALL }\n'
        'r2 = { PUSH(PUSH("a") ~ "b") ~ POP ~ POP }\nr3 = { PUSH("") ~ PEEK ~ "a" ~ DROP }\nr4 = { (PUSH("a") ~ "x")* ~ (POP ~ "y")* }\n'
        'r5 = { &PUSH("a") ~ !PEEK ~ "a" }\nr6 = { PUSH( "a" ) ~ ( POP_ALL | PEEK_ALL | DROP )? }\n')
    add("comments", '//! grammar level doc\n//! second line\n\n/// doc of r0\n/// more doc "quoted" `code`\nr0 = { "a" ~ r1 } // trailing line comment\n'
        '/* block\n   comment */\nr1 = { /* inline */ "b" | // eol\n  "c" }\n/// doc of WHITESPACE\nWHITESPACE = _{ " " /* x */ }\n/* /* nested */ block */\nr2 = { r0+ }\n')
    add("escapes", 'r0 = { "\\n\\t\\r\\0\\\\\\"\\\'" ~ "\\u{1F600}\\x41" }\nr1 = { "{" ~ "}" ~ "{{}}" ~ "\\u{7b}" }\nr2 = { "/*" ~ "//" ~ "*/" ~ "r#" }\nr3 = { "\'" ~ "`" ~ "$crate" }\n')
    add("underscore_names", '_a = { "x" }\na_ = { _a ~ "y" }\nA1 = { a_+ }\n__ = { A1 | _a }\n_0 = { __? ~ "z" }\n')
    add("big_counted", 'r0 = { "a"{20} }\nr1 = { "ab"{3,17} }\nr2 = { ("a" | "b"){,16} ~ "c" }\nr3 = { "a"{13,} }\n')
    add("long_literal", 'r0 = { "' + "abcdefghij" * 30 + '" }\nr1 = { ^"' + "Klm" * 50 + '" }\n')
    add("many_rules", "".join(f"q{i} = {KINDS[(i * 7) % 5]}{{ \"{letters[i % 26]}\" ~ q{i + 1}? }}\n" for i in range(60)) + 'q60 = { "z" }\n')
    add("skip_kinds", 'r0 = { "a" ~ "b"* ~ r1 }\nr1 = @{ "c" ~ "d" }\nr2 = ${ r0 ~ r1 }\nWHITESPACE = @{ " " | "\\t" }\nCOMMENT = ${ "#" ~ (!NEWLINE ~ ANY)* }\n')
    add("skip_normal", 'r0 = { "a" ~ "b" }\nr1 = !{ r0+ }\nWHITESPACE = { " " }\nCOMMENT = { "#" }\n')
    add("skip_only_comment", 'r0 = { "a"+ ~ "b" }\nCOMMENT = _{ "/*" ~ (!"*/" ~ ANY)* ~ "*/" }\n')
    add("ws_nonatomic", 'WHITESPACE = !{ "a"? ~ "b" }\nr0 = { "x" ~ "y" }\n')
    add("peekall_rep", 'r0 = { PUSH("a") ~ (PEEK_ALL)* }\nr1 = { (POP_ALL)+ ~ "x" }\nr2 = { (PEEK[0..])* }\n')
    add("builtin_shadow", 'ASCII_DIGIT = { "x" }\nNEWLINE = { "n" }\nLETTER = { "l" }\nr0 = { ASCII_DIGIT+ ~ NEWLINE ~ LETTER? }\n')
    add("names_rule_enum", 'Rule = { "a" }\nrules = { Rule ~ "b" }\ngenerics = { rules? }\npairs = { generics ~ "p"+ }\nrules_impl = { "r" }\n'
        'unicode = { "u" }\nconstant_wrappers = { "c" }\nw_0 = { "w" }\nP = { "p" }\n')
    add("names_std", 'Box = { "b" }\nOption = { Box? ~ "o" }\nVec = { Option* ~ "v" }\nString = { "s" }\nSome = { "s" }\nNone = { "n" }\n'
        'Ok = { "o" }\nErr = { "e" }\ncore = { "c" }\nstd = { "s" }\nalloc = { "a" }\npest_typed = { "p" }\nstr = { "s" }\nisize = { "u" }\n'
        'bool = { "b" }\nchar = { "c" }\nu8 = { "u" }\n')
    add("names_generics", 'Str = { "a" }\nSeq2 = { Str ~ "b" }\nChoice2 = { Str | Seq2 }\nRep = { Choice2* }\nRepOnce = { Str+ }\nSkipped = { "s" }\n'
        'Positive = { &Str }\nNegative = { !Str ~ ANY }\nPush = { PUSH(Str) }\nInsens = { ^"a" }\nCharRange = { \'a\'..\'b\' }\nRepMinMax = { Str{1,2} }\n'
        'Input = { "i" }\nSpan = { "s" }\nPosition = { "p" }\nStack = { "s" }\nTracker = { "t" }\n')
    add("names_members", 'content = { "a" }\nspan = { content ~ "b" }\nnew = { span? }\nclone = { new ~ "c" }\nres = { clone* ~ "d" }\n'
        'matched = { res | content }\nfmt = { matched }\neq = { "e" }\nhash = { "h" }\ndefault = { "d" }\nInherited = { "i" }\ni = { "i" }\ns = { i ~ "s" }\n'
        'T = { "t" }\nI = { T ~ "i" }\nS = { I? }\nR = { "r" }\n')
    # more names of the prelude / core / alloc / the runtime's own API: each rule refers to the previous one, so that with
    # `#[emit_rule_reference]` an accessor named after it is emitted next to the generated `Vec` / `Option` / `Box` code
    def chain(names):
        out, prev = [], None
        for k, n in enumerate(names):
            body = f'"{letters[k % 26]}"' if prev is None else [f'{prev} ~ "{letters[k % 26]}"?', f'{prev}* ~ "{letters[k % 26]}"',
                                                                 f'({prev} | "{letters[k % 26]}")+', f'{prev}? ~ {names[0]}'][k % 4]
            out.append(f"{n} = {{ {body} }}\n")
            prev = n
        return "".join(out)
    def chains(name, names, size=14):
        # rustc's default recursion_limit (drop-check of the nested content types) is exceeded by a non-recursive chain of
        # ~30 such rules (reported separately): these grammars are about NAMES, so the chains stay short
        for k in range(0, len(names), size):
            add(f"{name}{k // size}", chain(names[k:k + size]))
    chains("names_prelude", ["Result", "Default", "Debug", "Clone", "Copy", "Iterator", "IntoIterator", "PartialEq", "Eq", "Hash", "Ord",
                             "PartialOrd", "Sized", "Send", "Sync", "From", "Into", "AsRef", "AsMut", "ToString", "ToOwned", "Fn", "FnMut",
                             "FnOnce", "Drop", "Extend", "DoubleEndedIterator", "ExactSizeIterator", "TryFrom", "TryInto", "FromIterator"])
    chains("names_prims", ["u32", "i32", "i64", "u64", "u16", "i8", "i16", "f32", "f64", "u128", "i128", "never", "unit", "slice", "array", "tuple"])
    chains("names_alloc", ["Cow", "Rc", "Arc", "Cell", "RefCell", "HashMap", "BTreeMap", "BTreeSet", "VecDeque", "PhantomData", "Deref", "Display",
                           "Formatter", "Error", "Write", "Hasher", "Ordering", "Any", "Borrow", "Pin", "Range"])
    chains("names_self_adjacent", ["Self_", "self_", "Selfish", "selfie", "super_", "crate_", "_Self", "_self", "SELF", "Super", "Crate"])
    chains("names_runtime_api", ["res", "content", "span", "T", "R", "Rule", "rules", "generics", "pairs", "Pairs", "Pair", "RuleType", "TypedNode",
                                 "TypedParser", "ParsableTypedNode", "RuleWrapper", "RuleStruct", "NeverFailedTypedNode", "Storage", "Spanned",
                                 "wrapper", "iter", "into_iter", "as_ref", "unwrap", "map", "get", "first", "last", "len", "deref", "next",
                                 "try_parse", "try_parse_partial", "try_check", "check", "parse", "input", "stack", "tracker", "start", "end"])
    # depth, not names: a NON-recursive chain in which every rule wraps the previous one; 26 rules compile, 31 exceed rustc's
    # default recursion_limit in the drop-check of the nested content types (known finding F-DEPTH; pest_derive compiles both)
    add("chain_26_ok", chain([f"q{i}" for i in range(26)]), mutate=False)
    add("deep_chain_31", chain([f"q{i}" for i in range(31)]), mutate=False)
    # the same mechanism through ONE self-recursive rule: the un-optimized AST of `a ~ b ~ c ~ …` is left-nested and only the
    # right spine is flattened, so with `#[pest_optimizer = false]` 33 terms nest 32 `Seq2<Skipped<…>>`, and the drop-check
    # unfolds the rule's own reference before it cuts the cycle (F-DEPTH; the same sequence without the self reference, and
    # the self-recursive one under the default options, compile); 16 terms must compile under every option set
    def selfseq(n):
        ts = [f'"{a}{b}"' for a in "abc" for b in letters[:11]][:n]
        ts[1] = ts[n * 2 // 3] = "r0"
        return "r0 = { " + " ~ ".join(ts) + " }\n"
    add("selfseq16_raw_ok", selfseq(16), mutate=False)
    add("deep_seq33_raw", selfseq(33), mutate=False)
    add("names_vec_option_box", 'Vec = { Option* ~ "v" }\nOption = { Box? ~ "o" }\nBox = { "b" ~ (Some | None)? }\nSome = { "s" ~ String }\nNone = { "n" }\n'
        'String = { "t"+ }\nr = { Vec ~ Option ~ Box ~ (Some | None){2} ~ String* ~ (Vec ~ Option)+ ~ (Box ~ Vec?)* }\n')
    # two names the runtime's macros use unqualified at the expansion site (found by this check; pest_derive compiles both)
    add("name_usize", 'usize = { "x" }\n', mutate=False)
    add("name_inherited", 'INHERITED = { "x" }\n', mutate=False)
    add("names_builtin_case", 'any = { "a" }\nsoi = { any ~ "b" }\neoi = { soi ~ EOI }\npush = { PUSH(any) ~ pop }\npop = { POP }\npeek = { "p" }\ndrop = { "d" }\nascii_digit = { ASCII_DIGIT }\n')
    add("empty_literals", 'r0 = { "" ~ "a" }\nr1 = { "a" | "" }\nr2 = { ("" ~ "a")* }\nr3 = { ^"" ~ "b" ~ "" }\nr4 = { !"" | "c" }\n')
    add("predicates", 'r0 = { &"a" ~ !"b" ~ ANY }\nr1 = { !(!"a") ~ "a" }\nr2 = { &(&(&"a")) ~ ANY+ }\nr3 = { !ANY }\nr4 = { (!"a" ~ &ANY ~ ANY)* ~ "a" }\nr5 = { &r0 ~ !r3 ~ r1 }\n')
    add("same_literals", 'r0 = { "a" ~ "a" ~ "a" }\nr1 = { "a" | "a" }\nr2 = { ("a" ~ "a")* ~ "a" }\nr3 = { ^"a" ~ "A" ~ ^"A" }\n')
    add("optimizer_shapes", 'r0 = { (!"ab" ~ ANY)* }\nr1 = { (!("a" | "b" | "cd") ~ ANY)* ~ "a" }\nr2 = { "a" ~ "b" ~ "c" | "a" ~ "b" ~ "d" }\n'
        'r3 = { "a" ~ ("b" ~ "c") ~ ("d" | "e") }\nr4 = { ("a" | "b") | ("c" | "d") }\nr5 = { "a"{1} ~ "b"{1,1} ~ ("c"{,1}) }\nr6 = { "x"* ~ "x" }\nr7 = { ("a" ~ "b")+ }\n')
    add("one_rule_any", "r0 = { ANY }\n")
    add("whitespace_layout", 'r0={"a"~"b"|"c"}r1=_{r0*}\n\n\n   r2   =   @{   r1   ~   "d"   }\t\r\n')
    add("tag_syntax", 'r0 = { #t = "a" ~ #u = r1* }\nr1 = { "b" }\n')
    add("odd_but_accepted", 'r0 = { "x"{3,2} }\nr1 = { "x"{0,} ~ "y" }\nr2 = { &&"x" ~ !!"x" ~ ANY }\nr3 = { "x"?? ~ "y"*? }\nr4 = { "x"{1, 2} }\n'
        'r5 = { PEEK[..] ~ PEEK[-1..-2] ~ PEEK[1..] }\nr6 = { !(!"") | "y" }\nr7 = { "x"{ 2 } ~ "y"{ ,2 } }\n'
        'r8 = { ("a"?){2} ~ ("b"?){,3} ~ ("c"?){1,3} }\n')
    add("empty", "")
    add("only_comments", "// nothing here\n/* at all */\n")
    add("skip_used_explicitly", 'r0 = { "a" ~ WHITESPACE ~ "b" }\nr1 = @{ "a" ~ (WHITESPACE | COMMENT)* ~ "b" }\nWHITESPACE = _{ " " }\nCOMMENT = _{ "#" }\n')
    return gs


def counted_grammars():
    """Well-founded grammars with counted repetitions (`{n}`, `{n,}`, `{,m}`, `{n,m}`): alone, nested inside `*` / `+` /
    `{k,}`, under `!` / `&`, in `@` / `$` / `!` rules, behind rule references, with the implicit skip.  With the default
    options pest's optimizer unrolls them; with `#[pest_optimizer = false]` they become `RepeatMin` / `RepeatMinMax`."""
    gs = []
    WS = 'WHITESPACE = _{ " " }\n'
    more = ["b", "ab", "aab", "aaab", "aaaab", "aabaab", "a b", "aa b", " aab", "aaaaab", "ababc", "aac"]

    def add(name, text, inputs=more):
        gs.append({"gid": "cnt_" + name, "text": text, "class": "valid", "unusual": True, "counted": True, "compile": True,
                   "mutate": True, "inputs": list(inputs)})
    add("star_mn", 'r = { ("a"{1,2})* ~ "b" }\n')
    add("plus_mn", 'r = { ("a"{1,2})+ ~ "b" }\n')
    add("min_mn", 'r = { ("a"{2,3}){1,} ~ "b" }\n')
    add("star_exact", 'r = { ("a"{2})* ~ "b" }\n')
    add("star_min", 'r = { ("a"{1,})* ~ "b" }\n')
    add("star_max", 'r = { ("a"{,2} ~ "b")* ~ "c" }\n')
    add("neg", 'r = { !("a"{1,2} ~ "b") ~ ANY* }\n')
    add("neg_star", 'r = { !(("a"{1,2})* ~ "b") ~ ("a" | "b")* }\n')
    add("pos_plus", 'r = { &(("a"{1,2})+ ~ "b") ~ ("a" | "b")+ }\n')
    add("neg_in_star", 'r = { (!("a"{2,3}) ~ ANY)* ~ "a"* }\n')
    add("pos_in_plus", 'r = { (&("a"{1,2}) ~ "a")+ ~ "b" }\n')
    add("atomic", 'r = @{ ("a"{1,2})* ~ "b" }\n' + WS)
    add("compound", 'r = ${ ("a"{1,3} ~ "b"?)* ~ "c" }\n' + WS)
    add("nonatomic", 'r = !{ ("a"{1,2})* ~ "b" }\n' + WS)
    add("ws", 'r = { ("a"{2,3})* ~ "b" }\n' + WS)
    add("ws_comment", 'r = { ("a"{1,2})+ ~ "b" }\n' + WS + 'COMMENT = @{ "#" }\n')
    add("choice", 'r = { (("a" | "b"){1,2})* ~ "c" }\n')
    add("nested", 'r = { (("a"{1,2}){1,2})* ~ "b" }\n')
    add("nested_min", 'r = { (("a"{2}){1,})+ ~ "b"{,2} }\n')
    add("min_min", 'r = { ("a"{1,}){2,} | "b" }\n')
    add("rule_exact", 'r = { (x{2})* ~ "b" }\nx = { "a" }\n')
    add("rule_mn", 'r = { (x{1,2})* ~ "b" }\nx = @{ "a" ~ "c"? }\n')
    add("silent", 'r = { x* ~ "b" }\nx = _{ "a"{1,2} }\n')
    add("atomic_ref", 'r = { x* ~ "b" }\nx = @{ "a"{1,2} }\n' + WS)
    add("opt", 'r = { ("a"{1,2})? ~ "b" }\n')
    add("push", 'r = { PUSH("a"{1,2}) ~ "b" ~ POP }\n')
    add("push_star", 'r = { (PUSH("a"{1,2}) ~ "b")* ~ "c" }\n')
    add("in_choice_star", 'r = { ("b" | "a"{2,3})* ~ "c" }\n')
    add("seq_body", 'r = { (("a" ~ "b"){1,2})* ~ "c" }\n')
    add("insens", 'r = { (^"a"{1,2})* ~ "b" }\n', more + ["AaB", "Ab"])
    add("range", "r = { ('a'..'b'{1,2})* ~ \"c\" }\n")
    add("multibyte", 'r = { ("é"{1,2})* ~ "a" }\n', ["a", "éa", "ééa", "éééa", "é"])
    add("soi_eoi", 'r = { SOI ~ ("a"{2})* ~ EOI }\n')
    add("two_levels", 'r = { (y ~ "c")* ~ "b" }\ny = { ("a"{1,2})+ }\n', more + ["acb", "aacacb", "aaacb"])
    add("min_in_star_atomic", 'r = ${ (("a"{2,} ~ "b"){1,2})* ~ "c" }\n', more + ["aabc", "aabaabc", "aabaabaabc"])
    add("nullable_bounded", 'r = { (("a"?){,2} ~ "b")* ~ "c" }\n', more + ["bc", "abbc", "aabc"])
    return gs


def recursive_part(tier, seed):
    """The recursive part of the corpus, for the boxing analysis (`collect_reachability` in generator/src/graph.rs decides which
    rules are boxed under `#[box_only_if_needed]`): C20's hand-written recursive grammars and its systematic cycle family
    (cycle length 1..6 x definition order x leading / trailing rules x edge container, interlocking cycles; imported from
    harness/opts.py), plus ordinary arithmetic-expression grammars whose 4- and 5-rule cycles are written top-down and are
    followed by terminal rules (`num`, `WHITESPACE`) that gain nothing in any pass of the analysis."""
    gs = []
    for g in optsmod.recursive_grammars() + optsmod.cycle_family(tier, seed):
        gs.append({"gid": g["gid"], "text": g["text"], "class": "valid", "recursive": True, "mutate": False})

    def add(name, text):
        gs.append({"gid": "rec_" + name, "text": text, "class": "valid", "recursive": True, "mutate": False})
    NUM, WS = 'num = @{ ASCII_DIGIT+ }\n', 'WHITESPACE = _{ " " }\n'
    arith4 = ('expr = { term ~ (("+" | "-") ~ term)* }\nterm = { factor ~ (("*" | "/") ~ factor)* }\n'
              'factor = { "-"? ~ atom }\natom = { num | "(" ~ expr ~ ")" }\n')
    arith5 = ('expr = { term ~ (("+" | "-") ~ term)* }\nterm = { power ~ (("*" | "/") ~ power)* }\npower = { factor ~ ("^" ~ factor)? }\n'
              'factor = { "-"? ~ atom }\natom = { num | "(" ~ expr ~ ")" }\n')
    add("arith4_num_ws", arith4 + NUM + WS)
    add("arith4_num", arith4 + NUM)
    add("arith4_ws", arith4.replace("num |", "ASCII_DIGIT+ |") + WS)
    add("arith4_bare", arith4.replace("num |", "ASCII_DIGIT+ |"))
    add("arith4_num_first", NUM + WS + arith4)
    add("arith5_num_ws", arith5 + NUM + WS)
    add("arith4_atomic_num_comment", arith4 + NUM + WS + 'COMMENT = @{ "#" ~ (!NEWLINE ~ ANY)* }\n')
    add("stmt_expr", 'prog = { SOI ~ stmt* ~ EOI }\nstmt = { ident ~ "=" ~ expr ~ ";" | "{" ~ stmt* ~ "}" }\n' + arith4.replace("num |", "num | ident |")
        + NUM + 'ident = @{ ASCII_ALPHA+ }\n' + WS)
    return gs


COUNTED = re.compile(r"\((repexact|repmin|repmax|repminmax) ")


def has_counted(g):
    """A counted repetition occurs in pest_meta's un-optimized AST of the grammar."""
    return bool(COUNTED.search(g.get("sexp", "")))


# ---------------------------------------------------------------------------------------------
# corpus: ill-formed families.  A core is (rules, focus): rules = [(name, body)], the context is wrapped
# around the body of rule `focus`; rule names ra..re never occur inside literals, so renaming is textual.

def _cores(*specs):
    out = []
    for s in specs:
        rules = []
        for part in s.split(";"):
            n, b = part.split(":=")
            rules.append((n.strip(), b.strip()))
        out.append(rules)
    return out


FAMILIES = {
    "leftrec": {
        "cores": _cores(
            'ra := ra ~ "x"', 'ra := rb ; rb := ra ~ "x"', 'ra := "x"? ~ ra', 'ra := !"x" ~ ra', 'ra := &rb ~ "y" ; rb := ra',
            'ra := rb ~ "x" ; rb := ra', 'ra := PUSH(ra) ~ "x"', 'ra := PUSH("x"?) ~ ra', 'ra := "x"* ~ ra', 'ra := ra*', 'ra := ra+ ~ "x"',
            'ra := "x" | ra ~ "y"', 'ra := ra ~ "y" | "x"', 'ra := rb ~ "x" ; rb := rc ; rc := ra ~ "y"',
            'ra := rb ; rb := rc ~ "x" ; rc := rd ; rd := "y"? ~ ra', 'ra := rb ; rb := rc ; rc := rd ; rd := re ; re := ra ~ "x"',
            'ra := SOI ~ ra', 'ra := &"x" ~ ra', 'ra := "" ~ ra', 'ra := ("x" | "")  ~ ra', 'ra := "x"{,2} ~ ra', 'ra := (ra)', 'ra := ra',
            'ra := !ra ~ "x"', 'ra := &ra ~ "x"', 'ra := ra?', 'ra := "x"? ~ "y"* ~ ra', 'ra := rb? ~ ra ; rb := "x"', 'ra := rb ~ ra ; rb := "x"?',
            'ra := rb ~ ra ; rb := !"x"', 'ra := rb ~ ra ; rb := EOI', 'ra := (rb | "x") ~ "y" ; rb := "z" | ra',
            'ra := "x"{2} ~ ra | rb ; rb := ra ~ "y"', 'ra := ra{2}', 'ra := ra{,2}', 'ra := ra{1,}', 'ra := PEEK ~ ra', 'ra := POP? ~ ra',
            'ra := PEEK_ALL ~ ra', 'ra := PEEK[0..] ~ ra', 'ra := DROP ~ ra', 'ra := ("x" ~ "y")? ~ rb ; rb := "z"* ~ ra'),
        "contexts": ['%s', '(%s) ~ "t"', '(%s) | "q"', '"q" | (%s)', '"o"? ~ (%s)', '(%s)?', '(%s)+', '&(%s) ~ "t"', '!(%s) ~ "t"', 'PUSH(%s)', '"o"* ~ (%s)'],
    },
    "rep_nonfailing": {
        "cores": _cores(
            'ra := (""?)*', 'ra := ("x"?)*', 'ra := ("x"*)*', 'ra := ("x"?)+', 'ra := ("x"? ~ "y"?){2,}', 'ra := ("")*', 'ra := rb* ; rb := "x"?',
            'ra := ("x" | "")*', 'ra := ("" | "x")+', 'ra := ("x"{,3})*', 'ra := ("x"*){1,}', 'ra := (rb ~ rc)+ ; rb := "x"? ; rc := "y"*',
            'ra := (&"")*', 'ra := (PUSH(""))*', 'ra := (PUSH("x"?))+', 'ra := (^"")*', 'ra := (("x"?)?)*', 'ra := ("x"* ~ "y"*)*',
            'ra := (rb)* ; rb := rc? ; rc := "x"', 'ra := rb+ ; rb := "" | "x"', 'ra := ("x"?){3,}', 'ra := ("x"{0,1})*',
            'ra := "y" ~ ("x"?)* ~ "z"', 'ra := (("x" ~ "y")?)*', 'ra := (&("x"?))*', 'ra := (&rb)* ; rb := "x"*',
            # shapes pest's validate_repetition does not look at (bounded / optional repetition of an unfailing body)
            'ra := ("x"?){2}', 'ra := ("x"?){,3}', 'ra := ("x"?){1,3}', 'ra := ("x"*)?'),
        "contexts": ['%s', '"p" ~ (%s)', '(%s) ~ "t"', '"q" | (%s)', '((%s))', '!(%s) ~ "z"', '&(%s) ~ "z"', 'PUSH(%s)', '"p" ~ ((%s) | "q") ~ "t"', '(%s){2}'],
    },
    "rep_nonprogressing": {
        "cores": _cores(
            'ra := (&"x")*', 'ra := (!"x")*', 'ra := (SOI)*', 'ra := (EOI)+', 'ra := (&"x" ~ !"y")*', 'ra := rb+ ; rb := &"x"', 'ra := rb* ; rb := !"x" ~ &"y"',
            'ra := (!"x"){1,}', 'ra := (&"x"){3,}', 'ra := (SOI ~ &"x")*', 'ra := (!rb)* ; rb := "x" ~ "y"', 'ra := (&rb)+ ; rb := "x"',
            'ra := (!"x" | "y")*', 'ra := ("y" | &"x")+', 'ra := (PUSH(&"x"))*', 'ra := (PUSH(EOI))+', 'ra := (rb ~ rc)* ; rb := SOI ; rc := !"x"',
            'ra := ((!"x")+)+', 'ra := (!"x" ~ EOI)*', 'ra := (&(!"x"))*', 'ra := (!(&"x"))+', 'ra := "y" ~ (!"x")* ~ "z"', 'ra := (rb)* ; rb := rc ; rc := &"x"',
            'ra := (!"x" ~ (SOI | EOI))*', 'ra := ((&"x"){2})*', 'ra := ((!"x"){1,2})+',
            # not looked at by validate_repetition
            'ra := (&"x"){2}', 'ra := (!"x"){,2}', 'ra := (EOI){1,2}', 'ra := (!"x")?'),
        "contexts": ['%s', '"p" ~ (%s)', '(%s) ~ "t"', '"q" | (%s)', '((%s))', '!(%s) ~ "z"', '&(%s) ~ "z"', 'PUSH(%s)', '"p" ~ ((%s) | "q") ~ "t"', '(%s){2}'],
    },
    "choice_unreachable": {
        "cores": _cores(
            'ra := "" | "x"', 'ra := "x"? | "y"', 'ra := "x"* | "y" | "z"', 'ra := "y" | "x"? | "z"', 'ra := "y" | "z" | "x"? | "w"',
            'ra := ("x"? | "y") ~ "z"', 'ra := rb | "y" ; rb := "x"?', 'ra := rb | rc ; rb := "x"* ; rc := "y"', 'ra := "x"{,2} | "y"',
            'ra := ("x"? ~ "y"?) | "z"', 'ra := ("x" | "") | "y"', 'ra := PUSH("x"?) | "y"', 'ra := &"" | "y"', 'ra := ^"" | "y"',
            'ra := "w" | ("x"?) | "y" | "z"', 'ra := ("y" | "x"?) | "z"', 'ra := "y" | ("x"? | "z")', 'ra := ("x"?)? | "y"', 'ra := "x"{0,1} | "y"',
            'ra := (rb | "y") | "z" ; rb := "x"*', 'ra := "x"? | "y"? | "z"?', 'ra := !"q" ~ ("x"? | "y")', 'ra := ("x"? | "y")*', 'ra := ("x"? | "y")+',
            # uncaught shapes: the unfailing alternative is last, or sits where validate_choices does not look
            'ra := "y" | "x"?', 'ra := "y" | "z" | ""', 'ra := ("x"?) ~ "z" | "y"', 'ra := "w" | "x"? ~ "z" | "y"', 'ra := !"x" | "y"', 'ra := &"x" | "y"',
            'ra := SOI | "y"', 'ra := EOI | "y"', 'ra := !(!"") | "y"', 'ra := !("x" ~ !"x") | "y"', 'ra := PEEK_ALL | "y"', 'ra := ("x"?){2} | "y"', 'ra := "x"+ | "y"', 'ra := rb | "y" ; rb := ra? ~ "x"'),
        "contexts": ['%s', '"p" ~ (%s)', '(%s) ~ "t"', '((%s))', '(%s)?', '!(%s) ~ "z"', '&(%s) ~ "z"', 'PUSH(%s)', '"p" ~ (%s) ~ "t"', '("q" ~ (%s))+', '(%s){2}'],
    },
    "skip_nonprogressing": {
        "cores": _cores(
            'WHITESPACE := "" ; ra := "x" ~ "y"', 'WHITESPACE := " "* ; ra := "x" ~ "y"', 'COMMENT := "x"? ; ra := "x" ~ "y"', 'COMMENT := &"x" ; ra := "x" ~ "y"',
            'WHITESPACE := SOI ; ra := "x" ~ "y"', 'WHITESPACE := !"x" ; ra := "x" ~ "y"', 'WHITESPACE := EOI ; ra := "x" ~ "y"', 'COMMENT := " "{,3} ; ra := "x"*',
            'WHITESPACE := " " | "" ; ra := "x"+', 'WHITESPACE := rb ; rb := " "? ; ra := "x" ~ "y"', 'COMMENT := rb ; rb := !"x" ; ra := "x" ~ "y"',
            'WHITESPACE := " " ; COMMENT := "#"* ; ra := "x" ~ "y"', 'WHITESPACE := &" " ~ !"x" ; ra := "x" ~ "y"', 'WHITESPACE := " "? ~ "\\t"? ; ra := "x" ~ "y"',
            'COMMENT := ^"" ; ra := "x" ~ "y"', 'WHITESPACE := PUSH("") ; ra := "x" ~ "y"', 'WHITESPACE := PUSH(&" ") ; ra := "x" ~ "y"', 'COMMENT := ("#"?)? ; ra := "x"',
            'WHITESPACE := (!"x")+ ; ra := "x" ~ "y"', 'WHITESPACE := " " | EOI ; ra := "x" ~ "y"', 'WHITESPACE := (" " | "\\n")* ; ra := "x" ~ "y"',
            'COMMENT := &ra ; ra := "x" ~ "y"', 'WHITESPACE := !ra ; ra := "x" ~ "y"', 'WHITESPACE := " "{2} | &"x" ; ra := "x" ~ "y"',
            # uncaught / legal shapes
            'WHITESPACE := PEEK_ALL ; ra := "x" ~ "y"', 'WHITESPACE := " "+ ; ra := "x" ~ "y"', 'COMMENT := "#" ~ "x"? ; ra := "x" ~ "y"', 'WHITESPACE := !"x" ~ ANY ; ra := "x" ~ "y"'),
        "contexts": ['%s', '(%s)', '((%s))', '(%s) ~ ""', '"" ~ (%s)', '(%s) | SOI', '(%s)?', '&(%s)', 'PUSH(%s)'],
    },
}

LIT_SUBS = [None, '"é"', '^"x"', "'x'..'z'", '"xyz"', '"中"']
RENAMES = [None, {"ra": "expr", "rb": "term", "rc": "factor", "rd": "atom", "re": "unit"},
           {"ra": "type", "rb": "fn", "rc": "match", "rd": "struct", "re": "loop"},
           {"ra": "A", "rb": "b_1", "rc": "_c", "rd": "D0", "re": "e__"}]
PREFIX = 'p0 = { "a" ~ "b" }\np1 = { p0* ~ "c" }\n'


def family_grammar(cores, contexts, combo, rnd):
    ci, kind, xi, place, li, ri = combo
    rules = cores[ci]
    lines = []
    for j, (n, b) in enumerate(rules):
        if j == 0:
            b = contexts[xi] % b
            k = kind
        else:
            k = rnd.choice(KINDS) if place else ""
        lines.append(f"{n} = {k}{{ {b} }}")
    text = "\n".join(lines) + "\n"
    first = rules[0][0] if rules[0][0] not in ("WHITESPACE", "COMMENT") else "ra"
    if place == 1:
        text = PREFIX + text
    elif place == 2:
        text = PREFIX + f'top = {{ "s" ~ {first} ~ p1? }}\n' + text
    elif place == 3:
        text = text + f'top = {{ {first}+ ~ "s" }}\nlast = _{{ top | "l" }}\n'
    if LIT_SUBS[li]:
        text = text.replace('"x"', LIT_SUBS[li])
    if RENAMES[ri]:
        for a, b in RENAMES[ri].items():
            text = re.sub(r"\b%s\b" % a, b, text)
    return text


def family_grammars(cls, target, rnd):
    fam = FAMILIES[cls]
    cores, contexts = fam["cores"], fam["contexts"]
    seen, out = set(), []

    def push(text):
        if text not in seen:
            seen.add(text)
            out.append({"gid": f"f_{cls}_{len(out)}", "text": text, "class": cls})
    for ci in range(len(cores)):
        push(family_grammar(cores, contexts, (ci, "", 0, 0, 0, 0), rnd))
    combos = [(ci, k, xi, p, li, ri) for ci in range(len(cores)) for k in KINDS for xi in range(len(contexts))
              for p in range(4) for li in range(len(LIT_SUBS)) for ri in range(len(RENAMES))]
    rnd.shuffle(combos)
    for combo in combos:
        if len(out) >= target:
            break
        push(family_grammar(cores, contexts, combo, rnd))
    return out


def pairs_only_grammars():
    texts = ['a = { "x" }\na = { "y" }\n', 'a = { b }\n', 'ANY = { "a" }\n', 'PUSH = { "a" }\nr0 = { "b" }\n', 'a = { "x" ~ undefined_rule }\nb = { a }\n',
             'SOI = { "a" }\n', 'EOI = { "a" }\nr0 = { EOI }\n', 'PEEK = { "a" }\n', 'POP = { "a" }\n', 'DROP = { "a" }\n', 'PEEK_ALL = { "a" }\n', 'POP_ALL = { "a" }\n',
             '_ = { "a" }\n', 'a = { "x" }\nb = { a }\na = _{ "y" ~ b }\n', 'a = @{ "x" }\na = @{ "x" }\n', 'a = { b ~ c }\nb = { "x" }\n',
             'a = { (bb | "x")* }\n', 'a = { !zz ~ ANY }\n', 'WHITESPACE = { " " }\nWHITESPACE = { "\\t" }\na = { "x" }\n', 'a = { PUSH(q) }\n',
             'a = { "x" }\nb = { "y" }\nc = { a ~ b ~ d }\n', 'a = { ASCII_DIGITS }\n', 'a = { any }\n', 'a = { "x" }\nb = { "y" }\nb = { "z" }\nc = { "w" }\n',
             'COMMENT = { "#" }\nCOMMENT = { "//" }\na = { "x" }\n', 'a = { a2? }\n', 'ANY = { "a" }\nANY = { "b" }\n', 'a = { "x" ~ a ~ nope | "y" }\n']
    return [{"gid": f"p_{i}", "text": t, "class": "pairs_only"} for i, t in enumerate(texts)]


def syntax_grammars():
    texts = ['a = { ', 'a = "x"', 'a = { "x" ~ }', "a = { 'b'..'a' }", 'a = { "x"{0} }', 'a = { "x"{3,2} }', 'a = { }', 'a { "x" }', '= { "x" }', 'a = { "x" | }',
             'a = { ("x" }', 'a = { "x") }', 'a = { "x }', "a = { 'ab' }", "a = { 'a'.. }", 'a = { "x"{,} }', 'a = { "x"{a} }', 'a = { "x"{1,2,3} }', 'a = { "x"{,0} }',
             'a = { "x"{0,0} }', 'a = { "x"{0,} }', 'a = { "x"{99999999999} }', 'a = %{ "x" }', 'a = { "x" } }', 'a = { "x" ~ ~ "y" }', 'a = { * "x" }', 'a = { "\\q" }',
             'a = { "\\u{110000}" }', 'a = { PEEK[a..b] }', 'a = { PEEK[1..2 }', 'a = { PUSH "x" }', 'a = { PUSH() }', '1a = { "x" }', 'a-b = { "x" }', 'a = { "x" } b',
             'a = { &&"x" }', 'a = { "x"?? }', 'a = { ^\'a\' }', 'a = { "x" } /* unterminated', 'r#type = { "x" }', 'a = { #t "x" }', 'a = { "x"{-1} }', 'a = _@{ "x" }',
             'a = { "x"{1, 2} }', 'a = { PEEK[..] ~ PEEK[-1..-2] ~ PEEK[1..] }', '', '// only a comment\n', '//! only docs\n']
    return [{"gid": f"x_{i}", "text": t, "class": "syntax"} for i, t in enumerate(texts)]


# ---------------------------------------------------------------------------------------------
# mutants: a light pest-grammar reader / printer, and random tree edits

TOK = re.compile(r'''(?P<ws>\s+)|(?P<com>//[^\n]*|/\*.*?\*/)|(?P<str>\^?"(?:\\.|[^"\\])*")
 |(?P<chr>'(?:\\u\{[0-9a-fA-F]+\}|\\x[0-9a-fA-F]{2}|\\.|[^'\\])')|(?P<id>[A-Za-z_][A-Za-z0-9_]*)|(?P<num>-?\d+)|(?P<dots>\.\.)
 |(?P<op>[~|?*+&!(){}\[\]=,@$])''', re.X | re.S)


class _NoParse(Exception):
    pass


def read_grammar(text):
    """-> [[name, kind, expr]] with expr = ['seq'|'choice', [..]] | ['pre', op, e] | ['post', op, e] | ['push', e] | ['lit', t] | ['id', n] | ['atom', t]."""
    toks, pos = [], 0
    while pos < len(text):
        m = TOK.match(text, pos)
        if not m:
            raise _NoParse(text[pos:pos + 10])
        pos = m.end()
        if m.lastgroup not in ("ws", "com"):
            toks.append((m.lastgroup, m.group()))
    i = 0

    def peek():
        return toks[i] if i < len(toks) else ("eof", "")

    def eat(v=None):
        nonlocal i
        t = peek()
        if v is not None and t[1] != v:
            raise _NoParse(f"expected {v} got {t}")
        i += 1
        return t

    def expr():
        alts = [seq()]
        while peek()[1] == "|":
            eat()
            alts.append(seq())
        return alts[0] if len(alts) == 1 else ["choice", alts]

    def seq():
        ts = [term()]
        while peek()[1] == "~":
            eat()
            ts.append(term())
        return ts[0] if len(ts) == 1 else ["seq", ts]

    def term():
        pres = []
        while peek()[1] in ("&", "!"):
            pres.append(eat()[1])
        k, v = peek()
        if v == "(":
            eat()
            e = expr()
            eat(")")
        elif k == "id" and v == "PUSH" and i + 1 < len(toks) and toks[i + 1][1] == "(":
            eat()
            eat("(")
            e = ["push", expr()]
            eat(")")
        elif k == "id" and v == "PEEK" and i + 1 < len(toks) and toks[i + 1][1] == "[":
            s = ""
            while peek()[1] != "]":
                s += eat()[1]
                if peek()[0] == "eof":
                    raise _NoParse("peek slice")
            e = ["atom", s + eat()[1]]
        elif k == "id":
            e = ["id", eat()[1]]
        elif k == "str":
            e = ["lit", eat()[1]]
        elif k == "chr":
            a = eat()[1]
            eat("..")
            if peek()[0] != "chr":
                raise _NoParse("range")
            e = ["atom", a + ".." + eat()[1]]
        else:
            raise _NoParse(f"term at {peek()}")
        while True:
            v = peek()[1]
            if v in ("?", "*", "+"):
                e = ["post", eat()[1], e]
            elif v == "{":
                s = ""
                while peek()[1] != "}":
                    s += eat()[1]
                    if peek()[0] == "eof":
                        raise _NoParse("repeat")
                e = ["post", s + eat()[1], e]
            else:
                break
        for p in reversed(pres):
            e = ["pre", p, e]
        return e
    rules = []
    while i < len(toks):
        k, name = eat()
        if k != "id":
            raise _NoParse("rule name")
        eat("=")
        kind = ""
        if peek()[1] in ("_", "@", "$", "!"):
            kind = eat()[1]
        eat("{")
        e = expr()
        eat("}")
        rules.append([name, kind, e])
    return rules


def show(e, top=False):
    k = e[0]
    if k in ("seq", "choice"):
        s = (" ~ " if k == "seq" else " | ").join(show(c) for c in e[1])
        return s if top else "(" + s + ")"
    if k == "pre":
        return e[1] + show(e[2])
    if k == "post":
        inner = show(e[2])
        return ("(" + inner + ")" if e[2][0] == "pre" else inner) + e[1]
    if k == "push":
        return "PUSH(" + show(e[1], True) + ")"
    return e[1]


def show_grammar(rules):
    return "".join(f"{n} = {k}{{ {show(e, True)} }}\n" for n, k, e in rules)


def _slots(e, out, holder, key):
    """All (holder, key) positions of sub-expressions, holder[key] is the node."""
    out.append((holder, key))
    k = e[0]
    if k in ("seq", "choice"):
        for j in range(len(e[1])):
            _slots(e[1][j], out, e[1], j)
    elif k in ("pre", "post"):
        _slots(e[2], out, e, 2)
    elif k == "push":
        _slots(e[1], out, e, 1)


BUILTIN_IDS = {"ANY", "SOI", "EOI", "PEEK", "POP", "DROP", "PEEK_ALL", "POP_ALL", "NEWLINE", "PUSH"}


def mutate(rules, rnd):
    """One random edit, in place; returns the operator's name or None when it did not apply."""
    slots = []
    for r in rules:
        _slots(r[2], slots, r, 2)
    names = [r[0] for r in rules]
    op = rnd.choice(["swap", "swap", "delete", "delete", "wrap", "wrap", "wrap", "empty", "empty", "lit2rule", "lit2rule", "lit2rule",
                     "rule2rule", "rule2rule", "kind", "skipname", "dup", "unwrap"])
    pick = lambda pred: rnd.choice([s for s in slots if pred(s[0][s[1]])] or [None])
    if op == "swap":
        s = pick(lambda e: e[0] in ("seq", "choice"))
        if not s:
            return None
        e = s[0][s[1]]
        e[0] = "choice" if e[0] == "seq" else "seq"
    elif op == "delete":
        s = pick(lambda e: e[0] in ("seq", "choice"))
        if not s:
            return None
        e = s[0][s[1]]
        del e[1][rnd.randrange(len(e[1]))]
        if len(e[1]) == 1:
            s[0][s[1]] = e[1][0]
    elif op == "wrap":
        s = rnd.choice(slots)
        w = rnd.choice(["?", "*", "+", "&", "!", "*", "?"])
        e = s[0][s[1]]
        s[0][s[1]] = ["pre", w, e] if w in "&!" else ["post", w, e]
    elif op == "unwrap":
        s = pick(lambda e: e[0] in ("pre", "post", "push"))
        if not s:
            return None
        e = s[0][s[1]]
        s[0][s[1]] = e[1] if e[0] == "push" else e[2]
    elif op == "empty":
        s = pick(lambda e: e[0] == "lit")
        if not s:
            return None
        s[0][s[1]] = ["lit", '""']
    elif op == "lit2rule":
        s = pick(lambda e: e[0] in ("lit", "atom"))
        if not s:
            return None
        s[0][s[1]] = ["id", rnd.choice(names)]
    elif op == "rule2rule":
        s = pick(lambda e: e[0] == "id" and e[1] in names)
        if not s:
            return None
        s[0][s[1]] = ["id", rnd.choice(names)]
    elif op == "kind":
        r = rnd.choice(rules)
        r[1] = rnd.choice([k for k in KINDS if k != r[1]])
    elif op == "skipname":
        r = rnd.choice(rules)
        old, new = r[0], rnd.choice(["WHITESPACE", "COMMENT"])
        if old in ("WHITESPACE", "COMMENT"):
            return None
        r[0] = new
        for h, k in slots:
            if h[k][0] == "id" and h[k][1] == old:
                h[k] = ["id", new]
    elif op == "dup":
        if rnd.random() < 0.6:      # keep redefinitions (a validate_pairs matter) rare
            return None
        r = rnd.choice(rules)
        rules.append([r[0], r[1], read_grammar(show_grammar([r]))[0][2]])
    return op


def mutant_grammars(sources, n, rnd):
    parsed = []
    for g in sources:
        try:
            rs = read_grammar(g["text"])
        except _NoParse:
            continue
        if 1 <= len(rs) <= 8 and len(g["text"]) < 700 and g.get("compile", True) and g.get("mutate", True):
            parsed.append((g["gid"], g["text"]))
    out, seen, tries = [], set(), 0
    while len(out) < n and tries < 40 * n and parsed:
        tries += 1
        src, text = rnd.choice(parsed)
        rules = read_grammar(text)
        ops = []
        for _ in range(rnd.randint(1, 3)):
            o = mutate(rules, rnd)
            if o:
                ops.append(o)
        new = show_grammar(rules)
        if not ops or new in seen:
            continue
        seen.add(new)
        out.append({"gid": f"m{len(out)}", "text": new, "class": "mutant", "from": src, "ops": ops})
    return out, len(parsed)


def build_corpus(tier, seed):
    rnd = random.Random(seed * 1000003 + 11)
    quick = tier == "quick"
    gs = []
    for g in corpus.systematic_grammars():
        if not g["gid"].startswith("s_kinds_"):
            gs.append({"gid": g["gid"], "text": g["text"], "class": "valid"})
    for g in corpus.random_grammars(seed, 150 if quick else 600):
        gs.append({"gid": g["gid"], "text": g["text"], "class": "valid", "random": True})
    gs += unusual_grammars()
    gs += counted_grammars()
    gs += recursive_part(tier, seed)
    valid = list(gs)
    per_family = 100 if quick else 420
    for cls in FAMILIES:
        gs += family_grammars(cls, per_family, rnd)
    gs += pairs_only_grammars()
    gs += syntax_grammars()
    target = 1600 if quick else 4500
    mut, nsrc = mutant_grammars(valid, max(200, target - len(gs)), rnd)
    gs += mut
    for g in gs:
        assert re.fullmatch(r"[a-z0-9_]+", g["gid"]), g["gid"]
    assert len({g["gid"] for g in gs}) == len(gs)
    return gs, nsrc


# ---------------------------------------------------------------------------------------------
# oracle B helpers: compile, and attribute rustc errors to grammars

def _cargo(ws, args, tier):
    return subprocess.run(["cargo"] + args, cwd=ws, env=dict(corpus.ENV, CARGO_TARGET_DIR=target_dir(tier)), capture_output=True, text=True)


def failing_bins(stderr, prefix="b"):
    return sorted({int(m) for m in re.findall(r"could not compile `" + prefix + r"(\d+)`", stderr)})


def rustc_errors(stderr):
    """The diagnostics from the first error on (the warnings of the dependencies come first)."""
    m = re.search(r"^error", stderr, re.M)
    return stderr[m.start():] if m else stderr[-1500:]


def bisect_guilty(glist, stats, tier, suspects=(), attrs=""):
    """Grammars of one failing crate whose own derive expansion does not type-check; -> [(g, rustc text)].
    `suspects`: gids whose module contains a line rustc pointed at; they are tried first (1 + |suspects|
    checks when the hint is right), plain bisection otherwise."""
    ws = os.path.join(common.BUILD, f"ws_c11_bisect_{tier}")

    def check(sub):
        subprocess.call(["rm", "-rf", os.path.join(ws, "b0")])
        corpus.emit_workspace(sub, ws, 1, attrs=attrs, with_pest=False)
        p = _cargo(ws, ["check", "--offline", "-q"], tier)
        stats["bisect_checks"] = stats.get("bisect_checks", 0) + 1
        return p.returncode == 0, p.stderr

    def rec(sub):
        ok, err = check(sub)
        if ok:
            return []
        if len(sub) == 1:
            return [(sub[0], err)]
        h = len(sub) // 2
        return rec(sub[:h]) + rec(sub[h:])
    sus = [g for g in glist if g["gid"] in suspects]
    rest = [g for g in glist if g["gid"] not in suspects]
    if sus and len(sus) <= 4 and (not rest or check(rest)[0]):
        found = []
        for g in sus:
            ok, err = check([g])
            if not ok:
                found.append((g, err))
        if found:
            return found
    return rec(list(glist))


def error_suspects(ws, stderr, prefix="b"):
    """{bin: gids} of the grammar modules containing a source line of a rustc diagnostic."""
    out = {}
    for b, line in set(re.findall(r"--> " + prefix + r"(\d+)/src/main\.rs:(\d+)", stderr)):
        try:
            src = open(os.path.join(ws, f"{prefix}{b}", "src", "main.rs")).read().split("\n")
        except OSError:
            continue
        gid = None
        for no, l in enumerate(src[:int(line)], 1):
            m = re.match(r"pub mod t_(\w+) \{", l)
            if m:
                gid = m.group(1)
        if gid:
            out.setdefault(int(b), set()).add(gid)
    return out


def _placeholder(g):
    """Same gid and number of rules (so every other grammar stays in its crate), trivially compiling."""
    n = len(g["rules"])
    return dict(g, text="".join(f'zz{i} = {{ "x" }}\n' for i in range(n)), rules=[(f"zz{i}", "normal") for i in range(n)], placeholder=True)


def compile_sample(ctx, sample, tier, stats, attrs="", prefix="b", wsname=None, report=True):
    """-> (compiled grammars, where) ; reports non-compiling grammars as violations (`report`: only for the default
    options; a grammar that does not compile under another option set belongs to C20 and is only dropped here).
    Crate names are `<prefix>K`: they must differ between the workspaces that share the tier's target directory."""
    ws = wsname or os.path.join(common.BUILD, f"ws_c11_{tier}")
    current = list(sample)
    for attempt in range(4):
        where = corpus.emit_workspace(current, ws, suites.NBINS, attrs=attrs, with_pest=False, prefix=prefix)
        t0 = time.time()
        p = _cargo(ws, ["build", "--offline", "-q", "--keep-going"], tier)
        if p.returncode != 0 and "keep-going" in p.stderr and "unexpected argument" in p.stderr:
            p = _cargo(ws, ["build", "--offline", "-q"], tier)
        stats.setdefault("build_s", []).append(round(time.time() - t0, 1))
        if p.returncode == 0:
            # pin the binaries of *this* build (a hard link keeps the inode whatever a later build does to the target directory)
            bindir = os.path.join(ws, "bin")
            os.makedirs(bindir, exist_ok=True)
            for b in sorted(set(where.values())):
                dst = os.path.join(bindir, f"{prefix}{b}")
                if os.path.lexists(dst):
                    os.remove(dst)
                src = os.path.join(target_dir(tier), "debug", f"{prefix}{b}")
                try:
                    os.link(src, dst)
                except OSError:
                    subprocess.check_call(["cp", src, dst])
            return [g for g in current if not g.get("placeholder")], where
        bins = failing_bins(p.stderr, prefix)
        if not bins:
            raise RuntimeError("C11 compile workspace fails outside the derived crates:\n" + p.stderr[-3000:])
        hints = error_suspects(ws, p.stderr, prefix)
        guilty = []
        for b in bins:
            glist = [g for g in current if where[g["gid"]] == b and not g.get("placeholder")]
            found = bisect_guilty(glist, stats, tier, hints.get(b, ()), attrs)
            if not found:
                raise RuntimeError(f"crate {prefix}{b} of the C11 workspace fails but every grammar of it checks alone:\n" + rustc_errors(p.stderr)[:2000])
            guilty += found
        for g, err in guilty:
            if report:
                ctx.violations.append({"what": "derive output does not compile for a grammar pest accepts",
                                       "case": {"grammar": g["text"], "gid": g["gid"], "class": g["class"], "options": attrs or "(default)"},
                                       "rustc": rustc_errors(err)[:1500]})
            else:
                stats.setdefault("not_compiling_detail", []).append({"gid": g["gid"], "grammar": g["text"][:200], "rustc": rustc_errors(err)[:300]})
        bad = {g["gid"] for g, _ in guilty}
        stats.setdefault("not_compiling", []).extend(sorted(bad))
        current = [_placeholder(g) if g["gid"] in bad else g for g in current]
    stats["compile_gave_up"] = True
    return [], {}


# ---------------------------------------------------------------------------------------------
# oracle A through the real proc macro

def _raw_str(text):
    n = 1
    while '"' + "#" * n in text:
        n += 1
    return "r" + "#" * n + '"' + text + '"' + "#" * n


def refusal_through_proc_macro(ctx, gs, obs, tier, seed, dist):
    """A sample of the grammars pest's validator (or parser) rejects, plus accepted controls, each as ONE bin target of a
    cargo package that derives `TypedParser` through the real proc macro (`pest_typed_derive`), rotating through the
    default and the non-default option sets.  `cargo build --keep-going`: exactly the rejected grammars must fail to
    build, and rustc's diagnostic for a validator-rejected grammar must carry the validator's message."""
    quick = tier == "quick"
    rnd = random.Random(seed * 104729 + 3)
    per_class = 10 if quick else 40
    by_cls = {}
    controls = []
    for g in gs:
        o = obs[g["gid"]]
        if o["parse"] == "err":
            by_cls.setdefault("syntax", []).append(g)
        elif o["consume"] == "err":
            for c in classify_vmsg(o["vmsg"]):
                by_cls.setdefault(c, []).append(g)
        elif o["full"] == "ok" and o.get("pgen") != "panic" and g["class"] in FAMILIES and len(g["text"]) < 400:
            controls.append(g)
    chosen, seen = [], set()
    for c in sorted(by_cls):
        pool = [g for g in by_cls[c] if g["gid"] not in seen and len(g["text"]) < 1500]
        for g in rnd.sample(pool, min(per_class, len(pool))):
            seen.add(g["gid"])
            chosen.append((g, True))
    for g in rnd.sample(controls, min(16 if quick else 48, len(controls))):
        chosen.append((g, False))
    sets = [""] + OPTION_SETS
    ws = os.path.join(common.BUILD, f"ws_c11_refuse_{tier}")
    bindir = os.path.join(ws, "src", "bin")
    subprocess.call(["rm", "-rf", bindir])
    os.makedirs(bindir, exist_ok=True)
    open(os.path.join(ws, "Cargo.toml"), "w").write(
        '[package]\nname = "c11refuse"\nversion = "0.0.0"\nedition = "2021"\n[workspace]\n[dependencies]\n'
        'pest_typed = { path = "/repo/main" }\npest_typed_derive = { path = "/repo/derive" }\n' + corpus.PROFILE)
    subprocess.check_call(["cp", "/repo/Cargo.lock", os.path.join(ws, "Cargo.lock")])
    jobs = {}
    for k, (g, rejected) in enumerate(chosen):
        attrs = sets[k % len(sets)]
        name = f"x{k}"
        jobs[name] = (g, rejected, attrs)
        open(os.path.join(bindir, name + ".rs"), "w").write(
            "#![allow(warnings)]\nuse pest_typed_derive::TypedParser;\n#[derive(TypedParser)]\n#[grammar_inline = "
            + _raw_str(g["text"]) + "]\n" + attrs + "\npub struct P;\nfn main() {}\n")
    t0 = time.time()
    p = _cargo(ws, ["build", "--offline", "--keep-going", "--message-format=json", "--bins"], tier)
    import json as _json
    built, errors = set(), {}
    for line in p.stdout.splitlines():
        try:
            j = _json.loads(line)
        except ValueError:
            continue
        tname = (j.get("target") or {}).get("name")
        if j.get("reason") == "compiler-artifact" and tname in jobs:
            built.add(tname)
        elif j.get("reason") == "compiler-message" and tname in jobs and j["message"].get("level") == "error":
            errors.setdefault(tname, []).append(j["message"].get("rendered") or j["message"].get("message", ""))
    if not built and not errors:
        raise RuntimeError("C11 refusal crate: cargo gave neither artifacts nor diagnostics:\n" + p.stderr[-2000:])
    bad = 0
    st = {"targets": len(jobs), "rejected": sum(1 for v in jobs.values() if v[1]), "controls": sum(1 for v in jobs.values() if not v[1]),
          "by_option_set": {}, "build_s": round(time.time() - t0, 1)}
    for name, (g, rejected, attrs) in jobs.items():
        o = obs[g["gid"]]
        text = "\n".join(errors.get(name, []))
        case = {"grammar": g["text"], "gid": g["gid"], "class": g["class"], "options": attrs or "(default)"}
        ok_build = name in built and name not in errors
        os_ = st["by_option_set"].setdefault(attrs or "(default)", {"rejected_refused": 0, "controls_built": 0})
        if rejected:
            if ok_build:
                bad += 1
                ctx.violations.append({"what": "the derive macro compiled a grammar pest's validator rejects (real proc macro)", "case": case, "validator": o["vmsg"]})
                continue
            if name not in errors:
                raise RuntimeError(f"C11 refusal crate: target {name} neither built nor reported an error:\n" + p.stderr[-1500:])
            if o["parse"] != "err":
                want = [re.sub(r"^panic in \w+: ", "", l.strip()) for l in o["vmsg"].split("\n") if l.strip()]
                if not any(w in text for w in want):
                    bad += 1
                    ctx.violations.append({"what": "the derive macro refused a rejected grammar without the validator's message (real proc macro)",
                                           "case": case, "validator": o["vmsg"], "rustc": text[:800]})
                    continue
            os_["rejected_refused"] += 1
        else:
            if not ok_build:
                bad += 1
                ctx.violations.append({"what": "the derive macro refused or mis-compiled a grammar pest accepts (real proc macro)", "case": case, "rustc": text[:1200]})
                continue
            os_["controls_built"] += 1
    ctx.evaluations += len(jobs)
    ctx.ties["derive-vs-validator:proc-macro"] = {"cases": len(jobs), "agree": len(jobs) - bad,
                                                  "observables": ["cargo build fails/succeeds per bin target", "validator message in rustc's diagnostic"]}
    dist["refusal_through_proc_macro"] = st


# ---------------------------------------------------------------------------------------------
# oracle C helpers

ENTRIES = ("parse_partial", "check_partial", "parse", "check")


def run_bins_bounded(prefix, where, cases, bindir, max_bad=3):
    """Like suites.run_bins, but a grammar is abandoned after `max_bad` cases that did not return (the watchdog of
    `vh_common::serve` prints `v=timeout` after 6 s and exits with code 3; a crash kills the process without an
    answer): its remaining cases are answered `v=skipped`.  Keeps the cost of a looping parser bounded."""
    per = {}
    for no, c in enumerate(cases):
        per.setdefault(where[c[0]], []).append((no, c))
    out = [None] * len(cases)

    def run(b):
        todo, res, bad = per[b], {}, {}
        while todo:
            p = subprocess.run([os.path.join(bindir, f"{prefix}{b}")], input="".join(f"{no} {suites.case_line(c)}\n" for no, c in todo),
                               capture_output=True, text=True)
            n = 0
            for l in p.stdout.splitlines():
                no, _, rest = l.partition(" ")
                if n < len(todo) and no == str(todo[n][0]):
                    res[todo[n][0]] = rest
                    n += 1
            if p.returncode == 0 and n >= len(todo):
                break
            if n and res[todo[n - 1][0]].startswith("v=timeout"):
                gid = todo[n - 1][1][0]
            elif n < len(todo):
                # died without answering the next case (stack overflow, abort)
                gid = todo[n][1][0]
                res[todo[n][0]] = "v=crash"
                n += 1
            else:
                break
            bad[gid] = bad.get(gid, 0) + 1
            rest = todo[n:]
            dead = {g for g, k in bad.items() if k >= max_bad}
            for no, c in rest:
                if c[0] in dead:
                    res[no] = "v=skipped"
            todo = [(no, c) for no, c in rest if c[0] not in dead]
        return res
    with concurrent.futures.ThreadPoolExecutor(suites.NBINS) as ex:
        for res in ex.map(run, sorted(per)):
            for no, l in res.items():
                out[no] = l
    return [o if o is not None else "v=missing" for o in out]


def count_inputs(nalpha, maxlen):
    return sum(nalpha ** k for k in range(maxlen + 1))


def plan_inputs(g, budget, maxlen):
    """(maxlen, alphabet cap) for one grammar so that rules x 4 entries x inputs stays within the budget."""
    has_skip = bool(re.search(r"WHITESPACE|COMMENT", g["text"]))
    nr = max(1, len(g["rules"]))
    choices = [(maxlen, 5), (maxlen, 4), (maxlen, 3), (maxlen - 1, 4), (maxlen - 1, 3), (maxlen - 1, 2), (maxlen - 2, 3), (2, 2), (1, 2)]
    for ml, cap in choices:
        n = min(cap, max(1, len(g["alphabet"])))
        if has_skip and " " not in g["alphabet"][:n]:
            n = min(n, 4) + 1
        if nr * len(ENTRIES) * (count_inputs(n, ml) + 6 + len(g.get("inputs", []))) <= budget:
            return ml, cap
    return 1, 2


# ---------------------------------------------------------------------------------------------
# the Lean side: static well-foundedness as decided by `wfCheck` (Lemmas/Termination.lean, proved
# sound: `C11_terminates_checked`) and runs of the model with exactly the theorem's fuel

STACKN = {"PEEK", "PEEK_ALL", "POP", "POP_ALL", "DROP"}
SID = "<skip>"
PEST_BUILTINS = {"ANY", "SOI", "EOI", "PEEK", "PEEK_ALL", "POP", "POP_ALL", "DROP", "NEWLINE", "ASCII", "ASCII_DIGIT",
                 "ASCII_NONZERO_DIGIT", "ASCII_BIN_DIGIT", "ASCII_OCT_DIGIT", "ASCII_HEX_DIGIT", "ASCII_ALPHA_LOWER",
                 "ASCII_ALPHA_UPPER", "ASCII_ALPHA", "ASCII_ALPHANUMERIC", "WHITESPACE", "COMMENT"}


def lean_wf_mirror(sx, which=3):
    """Python mirror of `wfCheck (gen g)` on dump_ast's optimized expressions (`which=3`; `which=4`: the un-optimized
    AST that `#[pest_optimizer = false]` walks, where counted repetitions are `.rep n (some m)` nodes): `nullable` (least fixpoint),
    `heads` with the pseudo id of the skip type after a nullable prefix of a sequence whose skip flag is not `0`
    (rule kinds @ and $ give flag `0`), `Progressing` (the body of every unbounded repetition and of `Skipped` non-nullable),
    `NoLeftRec` (the head graph over rules + skip type is acyclic)."""
    rules = [(r[1], r[2], r[which]) for r in sx[2:]]
    names = {n for n, _, _ in rules}
    flag = {n: ("zero" if k in ("atomic", "compound") else "one" if k == "nonatomic" else "inh") for n, k, _ in rules}
    nul = {n: False for n in names}

    def nullable(e):
        k = e[0]
        if k in ("str", "insens"):
            return e[1] == "-"
        if k == "ident":
            n = e[1]
            return nul[n] if n in names else (n in STACKN or n in ("SOI", "EOI"))
        if k in ("peekslice", "pos", "neg", "opt", "rep", "repmax", "skip"):
            return True
        if k in ("reponce", "push", "restore"):
            return nullable(e[1])
        if k in ("repexact", "repmin", "repminmax"):
            return int(e[2]) == 0 or nullable(e[1])
        if k == "seq":
            return nullable(e[1]) and nullable(e[2])
        if k == "choice":
            return nullable(e[1]) or nullable(e[2])
        return False
    changed = True
    while changed:
        changed = False
        for n, _, body in rules:
            if not nul[n] and nullable(body):
                nul[n] = changed = True

    def heads(e, sk, out):
        k = e[0]
        if k == "ident":
            if e[1] in names:
                out.add(e[1])
        elif k in ("pos", "neg", "opt", "push", "restore"):
            heads(e[1], sk, out)
        elif k in ("rep", "reponce", "repexact", "repmin", "repmax", "repminmax"):
            heads(e[1], sk, out)
            if nullable(e[1]) and sk != "zero":       # a second iteration may run the skip at the same position
                out.add(SID)
        elif k == "choice":
            heads(e[1], sk, out)
            heads(e[2], sk, out)
        elif k == "seq":
            heads(e[1], sk, out)
            if nullable(e[1]):
                if sk != "zero":
                    out.add(SID)
                heads(e[2], sk, out)

    def reps_ok(e):
        if not isinstance(e, list):
            return True
        if e[0] in ("rep", "reponce", "repmin") and nullable(e[1]):      # unbounded repetitions only
            return False
        return all(reps_ok(c) for c in e[1:])
    progressing = all(reps_ok(b) for _, _, b in rules) and not any(nul.get(s, False) for s in ("WHITESPACE", "COMMENT"))
    graph = {}
    for n, _, body in rules:
        hs = set()
        heads(body, flag[n], hs)
        graph[n] = hs
    graph[SID] = {s for s in ("WHITESPACE", "COMMENT") if s in names}
    color = {}

    def dfs(n):
        color[n] = 1
        for m in graph[n]:
            if color.get(m) == 1 or (m not in color and dfs(m)):
                return True
        color[n] = 2
        return False
    cyc = any(n not in color and dfs(n) for n in list(graph))
    return {"wf": progressing and not cyc, "noleftrec": not cyc, "progressing": progressing, "nul": sorted(n for n in names if nul[n])}


def uses_unicode_property(sx):
    """The model driver has no unicode tables (`uni = fun _ _ => false`): verdicts of such grammars are not compared."""
    names = {r[1] for r in sx[2:]}
    found = []

    def walk(e):
        if isinstance(e, list):
            if e[0] == "ident" and e[1] not in names and e[1] not in PEST_BUILTINS:
                found.append(e[1])
            for c in e[1:]:
                walk(c)
    for r in sx[2:]:
        walk(r[3])
    return bool(found)


def run_driver_lines(sexp_path, lines, nproc=8):
    chunks = [lines[i::nproc] for i in range(nproc)]

    def run(chunk):
        if not chunk:
            return []
        p = subprocess.run([suites.DRIVER, sexp_path], input="\n".join(chunk) + "\n", capture_output=True, text=True)
        return p.stdout.splitlines()
    out = [None] * len(lines)
    with concurrent.futures.ThreadPoolExecutor(nproc) as ex:
        for k, res in enumerate(ex.map(run, chunks)):
            for j, l in enumerate(res):
                if k + j * nproc < len(out):
                    out[k + j * nproc] = l
    return [o if o is not None else "v=missing" for o in out]


def lean_static(ctx, compiled, sexp_path, cmd="wf", which=3, label=""):
    """Static part of the tie.  Returns {gid: driver report}; records
    * wf-static:lean-vs-python-mirror — `wfCheck` of the Lean model (through `model_driver`, command `wf <gid>`) against an
      independent python implementation of the same definitions on pest_meta's AST: verdict, the failing hypothesis and the
      set of nullable rules must agree for every compiled grammar;
    * wf-static:analyse-implies-lean — the corpus filter `corpus.analyse` (stricter: it ignores rule kinds and also looks at
      the un-optimized AST) never calls a grammar well-founded that the Lean definitions reject."""
    suites.ensure_driver()
    lines = run_driver_lines(sexp_path, [f"{cmd} {g['gid']}" for g in compiled], nproc=4)
    t_mirror, t_impl = f"wf-static{label}:lean-vs-python-mirror", f"wf-static{label}:analyse-implies-lean"
    rep, nd, nimp = {}, 0, 0
    both = lean_only = neither = 0
    why = {"noleftrec": 0, "progressing": 0}
    for g, l in zip(compiled, lines):
        d = suites.parse_obs(l)
        rep[g["gid"]] = d
        if "wf" not in d:
            ctx.tie_broken(t_mirror, {"error": f"model_driver did not answer `{cmd}`", "gid": g["gid"], "line": l})
            nd += 1
            continue
        sx = corpus.parse_sexp(g["sexp"])
        m = lean_wf_mirror(sx, which)
        lean_nul = sorted(x for x in d.get("nul", "").split(",") if x and x != "EOI")
        same = ((d["wf"] == "1") == m["wf"] and (d["noleftrec"] == "1") == m["noleftrec"] and (d["progressing"] == "1") == m["progressing"]
                and lean_nul == m["nul"] and d.get("nulok") == "1")
        if not same:
            nd += 1
            if nd <= 5:
                ctx.tie_broken(t_mirror, {"gid": g["gid"], "grammar": g["text"][:400], "lean": l, "python": m})
        a_ok = g.get("wf_reason") is None
        if a_ok and d["wf"] != "1":
            nimp += 1
            if nimp <= 5:
                ctx.tie_broken(t_impl, {"gid": g["gid"], "grammar": g["text"][:400], "lean": l, "analyse": "well-founded"})
        if d["wf"] == "1":
            both += a_ok
            lean_only += not a_ok
        else:
            neither += 1
            for k in why:
                why[k] += d.get(k) == "0"
    n = len(compiled)
    ctx.ties[t_mirror] = {"cases": n, "agree": n - nd, "observables": ["wf", "noleftrec", "progressing", "nullable rules"]}
    ctx.ties[t_impl] = {"cases": n, "agree": n - nimp, "observables": ["corpus.analyse is None => wfCheck"]}
    ctx.coverage.setdefault("distribution", {})["wellfounded_static" + label] = {
        "compiled": n, "lean_and_analyse": both, "lean_only(analyse stricter: bounded repetitions in the raw AST, atomic rule kinds)": lean_only,
        "not_wellfounded": neither, "failing_hypothesis": why}
    return rep


def emitted_static(ctx, glist, model_rep, attrs, label, path):
    """`wfCheck` evaluated on the module the REAL generator emits: harness/tgen_tool (the extractor of the T-gen tie) turns
    the token stream of `derive_typed_parser` into a `(nodegrammar …)` S-expression, `model_driver` loads it and answers
    `wf e_<gid>`; this verdict (kernel-checked sound for every module: `C11_wfCheck_sound_emitted`, `C11_emitted_terminates`)
    is the one oracle C uses.  Tie `wf-static<label>:emitted-vs-model`: it equals `wfCheck` of the Lean model's
    `gen` / `genWith` of pest_meta's AST in every field (verdict, failing hypothesis, rank bound, depth, nullable rules)."""
    from . import tgen
    tgen.ensure_tool()
    res = tgen.run_tool([(g, attrs) for g in glist])
    lines, ok, skipped = [], [], []
    for g, (st, txt) in zip(glist, res):
        if st == "OK" and "(unsupported" not in txt and "(problem" not in txt and txt.startswith("(nodegrammar "):
            lines.append(re.sub(r"^\(nodegrammar \S+", lambda m: "(nodegrammar e_" + g["gid"], txt))
            ok.append(g)
        else:
            skipped.append({"gid": g["gid"], "why": (st + " " + txt)[:160]})
    open(path, "w").write("\n".join(lines) + "\n")
    out = run_driver_lines(path, [f"wf e_{g['gid']}" for g in ok], nproc=4) if ok else []
    rep, nd = {}, 0
    name = f"wf-static{label}:emitted-vs-model"
    for g, l in zip(ok, out):
        d = suites.parse_obs(l)
        if "wf" not in d:
            ctx.tie_broken(name, {"error": "model_driver did not answer `wf` on the emitted module", "gid": g["gid"], "line": l[:200]})
            nd += 1
            continue
        rep[g["gid"]] = d
        m = model_rep.get(g["gid"], {})
        keys = ["wf", "nulok", "noleftrec", "progressing", "K", "D", "nul"]
        if any(d.get(k) != m.get(k) for k in keys):
            nd += 1
            if nd <= 5:
                ctx.tie_broken(name, {"gid": g["gid"], "grammar": g["text"][:400], "options": attrs or "(default)", "emitted": l, "model": {k: m.get(k) for k in keys}})
    ctx.ties[name] = {"cases": len(ok), "agree": len(ok) - nd, "observables": ["wf", "nulok", "noleftrec", "progressing", "K", "D", "nullable rules"]}
    ctx.coverage.setdefault("distribution", {})["emitted_modules" + label] = {"extracted": len(ok), "not_extracted(model verdict used)": skipped[:10]}
    return rep


def module_graph(txt):
    """({rule: rules its emitted `rule!` type mentions}, {rule: "true"|"false"}) of a `(nodegrammar …)` S-expression
    (rule 0 is EOI; the skip type sits behind AtomicRepeat's Vec and is not an edge: as harness/opts.ref_edges)."""
    sx = corpus.parse_sexp(txt)
    rules = [r for r in sx[3:] if isinstance(r, list) and r and r[0] == "rule"]
    names = [r[1] for r in rules]
    edges, boxed = {}, {}

    def refs(e, out):
        if isinstance(e, list):
            if e and e[0] == "ref":
                k = int(e[1])
                if 1 <= k <= len(names):
                    out.add(names[k - 1])
            for c in e[1:]:
                refs(c, out)
    for r in rules:
        out = set()
        refs(r[5], out)
        edges[r[1]] = sorted(out)
        boxed[r[1]] = r[4]
    return edges, boxed


def has_cycle(edges):
    return optsmod.unboxed_cycle(edges, {r: "false" for r in edges}) is not None


def cycles_boxed(ctx, glist, attrs, stats):
    """rustc-independent: in the module the real generator emits under `attrs` (T-gen extraction) every reference cycle
    contains a boxed rule — otherwise the rule structs form an infinitely sized type (E0072).  Uses C20's
    `opts.unboxed_cycle`.  Returns the gids of the grammars whose emitted module is recursive."""
    from . import tgen
    tgen.ensure_tool()
    res = tgen.run_tool([(g, attrs) for g in glist])
    rec, bad, unread = [], 0, 0
    for g, (st, txt) in zip(glist, res):
        if st != "OK" or not txt.startswith("(nodegrammar "):
            unread += 1
            continue
        edges, boxed = module_graph(txt)
        if not has_cycle(edges):
            continue
        rec.append(g["gid"])
        cyc = optsmod.unboxed_cycle(edges, boxed)
        if cyc:
            bad += 1
            ctx.violations.append({"what": "reference cycle without a boxed rule in the emitted module (infinitely sized type)",
                                   "case": {"grammar": g["text"], "gid": g["gid"], "class": g.get("class"), "options": attrs or "(default)"},
                                   "cycle": cyc, "boxed": {r: boxed[r] for r in cyc}})
    stats[attrs or "(default)"] = {"modules": len(glist), "recursive": len(rec), "unboxed_cycles": bad, "not_extracted": unread}
    return set(rec)


def tie_wf(ctx, compiled, rep, cases, impl_lines, sexp_path, cmd="wf", label=""):
    """Dynamic part: every case of a grammar with `wfCheck = true` is run on the Lean model with exactly the fuel of theorem
    `C11_terminates_checked` (`entryFuel G (wfRank G) |input|`, command `wf <gid> <rule> <entry> <hex>`): the model must
    never answer `oof` (the theorem, executed), and its verdict (and end offset for `check_partial`) must be the
    implementation's (the model the theorem speaks about is the code that ran)."""
    quick = ctx.tier == "quick"
    by_gid = {g["gid"]: g for g in compiled}
    uni = {g["gid"]: uses_unicode_property(corpus.parse_sexp(g["sexp"])) for g in compiled}
    big = {g["gid"] for g in compiled if len(g["rules"]) > 40}     # the rank table is recomputed per case: keep huge grammars few
    idx = [k for k, c in enumerate(cases) if rep.get(c[0], {}).get("wf") == "1"]
    rnd = random.Random(ctx.seed * 31 + 11)
    limit = 1000000 if quick else 3000000
    bigidx = [k for k in idx if cases[k][0] in big]
    idx = [k for k in idx if cases[k][0] not in big] + rnd.sample(bigidx, min(len(bigidx), 400))
    if len(idx) > limit:
        idx = sorted(rnd.sample(idx, limit))
    lines = run_driver_lines(sexp_path, [f"{cmd} {cases[k][0]} {cases[k][1]} {cases[k][2]} {corpus.hexs(cases[k][6])}" for k in idx])
    t_oof, t_v = f"wf-fuel{label}:model-never-oof", f"wf-fuel{label}:verdict"
    noof = nbad = ncmp = 0
    maxfuel = 0
    for k, l in zip(idx, lines):
        c = cases[k]
        mo, io = suites.parse_obs(l), suites.parse_obs(impl_lines[k])
        maxfuel = max(maxfuel, int(mo.get("fuel", "0") or 0))
        if mo.get("v") not in ("ok", "fail"):
            noof += 1
            if noof <= 5:
                ctx.tie_broken(t_oof, {"case": {"gid": c[0], "grammar": by_gid[c[0]]["text"][:300], "rule": c[1], "entry": c[2], "input": c[6]},
                                                           "model": l, "note": "the model ran out of the fuel theorem C11_terminates_checked promises to suffice"})
            continue
        if uni[c[0]] or io.get("v") not in ("ok", "fail"):
            continue
        ncmp += 1
        keys = ["v", "end"] if c[2] in ("check_partial", "parse_partial") else ["v"]
        if any(mo.get(x) != io.get(x) for x in keys):
            nbad += 1
            if nbad <= 5:
                ctx.tie_broken(t_v, {"case": {"gid": c[0], "grammar": by_gid[c[0]]["text"][:300], "rule": c[1], "entry": c[2], "input": c[6]},
                                                   "model": {x: mo.get(x) for x in keys}, "impl": {x: io.get(x) for x in keys}})
    ctx.ties[t_oof] = {"cases": len(idx), "agree": len(idx) - noof, "observables": ["v != oof with fuel = entryFuel G (wfRank G) |input|"]}
    ctx.ties[t_v] = {"cases": ncmp, "agree": ncmp - nbad, "observables": ["v", "end (parse_partial, check_partial)"]}
    ctx.coverage.setdefault("distribution", {})["theorem_fuel" + label] = {"cases": len(idx), "largest_fuel_bound": maxfuel}



# ---------------------------------------------------------------------------------------------
# tie `validator-mirror`: the Lean mirror of pest_meta's validate_ast (lean/PestTyped/Model/Validator.lean) against the real one

def classes_of_messages(msg):
    """Every line of a validate_ast report -> list (multiset) of error classes."""
    out = []
    for line in msg.split("\n"):
        if not line.strip():
            continue
        for cls, sub in ERR_CLASSES:
            if sub in line:
                out.append(cls)
                break
        else:
            out.append("other")
    return sorted(out)


def tie_validator_mirror(ctx, gs, obs):
    """For every grammar of the corpus whose text parses and converts to `ParserRule`s (gen_runner's front.rs, pest_meta's own
    private conversion copied verbatim), three facts:
    * validator-mirror — `pestValidate` of the Lean mirror, run by `model_driver validate <S-expression of the rules>` on the
      very rules the REAL `pest_meta::validator::validate_ast` was called on, reports the same verdict (accept / reject) and the
      same multiset of error classes (pest sorts its errors by source span, which the un-spanned AST cannot reproduce);
    * validator-mirror:front-vs-consume_rules — the real validate_ast on front.rs' rules says what `consume_rules` says (same
      messages in the same order), i.e. the rules handed to both validators are the rules the derive validates;
    * validator-mirror:ast-vs-dump_ast is checked later for the accepted grammars (the raw AST printed from front.rs' rules is
      the raw AST `dump_ast` prints from `consume_rules`' own result)."""
    suites.ensure_driver()
    todo = [g for g in gs if obs[g["gid"]].get("vfront") == "ok"]
    lines = ["validate " + corpus.unhex(obs[g["gid"]]["vast"]) for g in todo]
    nproc = 4
    chunks = [lines[i::nproc] for i in range(nproc)]

    def run(chunk):
        if not chunk:
            return []
        p = subprocess.run([suites.DRIVER], input="\n".join(chunk) + "\n", capture_output=True, text=True)
        return p.stdout.splitlines()
    out = [None] * len(lines)
    with concurrent.futures.ThreadPoolExecutor(nproc) as ex:
        for k, res in enumerate(ex.map(run, chunks)):
            for j, l in enumerate(res):
                if k + j * nproc < len(out):
                    out[k + j * nproc] = l
    nbad = nfront = 0
    by_class = {}
    rejected = accepted = 0
    for g, l in zip(todo, out):
        o = obs[g["gid"]]
        real_msg = corpus.unhex(o.get("vreal", "-"))
        real = classes_of_messages(real_msg)
        d = suites.parse_obs(l or "v=missing")
        lean = sorted(x for x in d.get("cls", "").split(",") if x)
        for c in real:
            by_class[c] = by_class.get(c, 0) + 1
        rejected += bool(real)
        accepted += not real
        if d.get("v") != ("reject" if real else "accept") or lean != real:
            nbad += 1
            if nbad <= 5:
                ctx.tie_broken("validator-mirror", {"gid": g["gid"], "grammar": g["text"][:400], "lean": l, "pest_meta": real, "messages": real_msg[:400]})
        # the same rules are what consume_rules validates
        if o.get("consume") in ("ok", "err") and real_msg != o["vmsg"]:
            nfront += 1
            if nfront <= 5:
                ctx.tie_broken("validator-mirror:front-vs-consume_rules", {"gid": g["gid"], "grammar": g["text"][:400], "validate_ast(front.rs rules)": real_msg[:400],
                                                                           "consume_rules": o["vmsg"][:400]})
    # grammars that parse but whose conversion fails must fail in consume_rules with the same message
    for g in gs:
        o = obs[g["gid"]]
        if o.get("parse") == "ok" and o.get("vfront") == "err" and corpus.unhex(o.get("vreal", "-")) != o["vmsg"]:
            nfront += 1
            if nfront <= 5:
                ctx.tie_broken("validator-mirror:front-vs-consume_rules", {"gid": g["gid"], "grammar": g["text"][:400], "front.rs": corpus.unhex(o.get("vreal", "-"))[:300],
                                                                           "consume_rules": o["vmsg"][:300]})
    n = len(todo)
    ctx.ties["validator-mirror"] = {"cases": n, "agree": n - nbad, "observables": ["accept/reject", "multiset of validate_ast error classes"],
                                    "rejected_by_pest_meta": rejected, "accepted_by_pest_meta": accepted, "errors_by_class": by_class}
    nconv = sum(1 for g in gs if obs[g["gid"]].get("parse") == "ok")
    ctx.ties["validator-mirror:front-vs-consume_rules"] = {"cases": nconv, "agree": nconv - nfront,
                                                           "observables": ["messages of validate_ast(front.rs rules) = messages of consume_rules"]}
    missing = [c for c in LISTED if by_class.get(c, 0) == 0]
    if missing:
        ctx.tie_broken("validator-mirror", {"error": "no grammar exercises the mirror's error class(es): " + ", ".join(missing)})


def tie_validator_ast(ctx, acc, obs):
    """validator-mirror:ast-vs-dump_ast — for every accepted grammar the raw expressions printed from front.rs' rules are the raw
    expressions `dump_ast` prints from what `pest_meta::parser::consume_rules` returned."""
    nbad = n = 0
    for g in acc:
        o = obs.get(g["gid"], {})
        if o.get("vfront") != "ok" or "sexp" not in g:
            continue
        n += 1
        va = corpus.parse_sexp(corpus.unhex(o["vast"]))
        sx = corpus.parse_sexp(g["sexp"])
        mine = [(r[1], r[2], r[3]) for r in va[1:]]
        theirs = [(r[1], r[2], r[4]) for r in sx[2:]]
        if mine != theirs:
            nbad += 1
            if nbad <= 5:
                ctx.tie_broken("validator-mirror:ast-vs-dump_ast", {"gid": g["gid"], "grammar": g["text"][:400]})
    ctx.ties["validator-mirror:ast-vs-dump_ast"] = {"cases": n, "agree": n - nbad, "observables": ["rule names, kinds, raw expressions"]}

# ---------------------------------------------------------------------------------------------

def check_C11(ctx):
    tier, seed = ctx.tier, ctx.seed
    quick = tier == "quick"
    timing = {}
    t0 = time.time()
    build_gen_runner()
    timing["gen_runner_build_s"] = round(time.time() - t0, 1)

    # ---- corpus + oracle A -------------------------------------------------------------------
    gs, nsrc = build_corpus(tier, seed)
    t0 = time.time()
    obs = run_gen(gs)
    timing["derive_s"] = round(time.time() - t0, 1)
    by_class, by_err, pairs_only = {}, {c: 0 for c in LISTED + ["other"]}, {}
    syntax_errors = accepted = disagreements = judged = nontrivial = 0
    accepted_gs, leftrec_accepted = [], []
    examples, panic_kind, pgen_refuses, refusal_how = {}, {}, {}, {}
    opt_judged = opt_bad = 0
    for g in gs:
        o = obs[g["gid"]]
        g["obs"] = o
        st = by_class.setdefault(g["class"], {"total": 0, "validator_rejects": 0, "derive_panics": 0, "fully_accepted": 0})
        st["total"] += 1
        rejected = o["parse"] == "err" or o["consume"] == "err"
        panics = o["derive"] in REFUSED          # a panic or `compile_error!` tokens: rustc refuses the grammar either way
        if o["derive"] == "cerr":
            refusal_how["compile_error"] = refusal_how.get("compile_error", 0) + 1
        st["validator_rejects"] += rejected
        st["derive_panics"] += panics
        case = {"grammar": g["text"], "gid": g["gid"], "class": g["class"]}
        if o["parse"] == "err":
            syntax_errors += 1
            classes = {"syntax"}
        else:
            classes = classify_vmsg(o["vmsg"]) if rejected else set()
            for c in classes:
                by_err[c] += 1
        if rejected:
            judged += 1
            if classes & set(LISTED):
                nontrivial += 1
            if panics:
                # is the panic pest_meta's report (`unwrap_or_report` / "error parsing"), i.e. the refusal the property means?
                how = "validator_report" if o["dmsg"].startswith(("grammar error", "error parsing")) else "other_panic"
                panic_kind[how] = panic_kind.get(how, 0) + 1
                if how == "other_panic":
                    panic_kind.setdefault("other_examples", [])
                    if len(panic_kind["other_examples"]) < 3:
                        panic_kind["other_examples"].append({"grammar": g["text"][:120], "panic": o["dmsg"][:120]})
            if not panics:
                disagreements += 1
                ctx.violations.append({"what": f"generator accepted a grammar pest's validator rejects [{', '.join(sorted(classes))}]",
                                       "case": case, "validator": o["vmsg"], "ntok": o.get("ntok")})
            elif len(ctx.samples) < 3 and classes & set(LISTED) and not any(s["impl"].get("classes") == sorted(classes) for s in ctx.samples):
                ctx.samples.append({"case": case, "impl": {"derive": "panic", "classes": sorted(classes), "validator": o["vmsg"][:200]}})
        elif o["full"] == "ok" and o.get("pgen") == "panic":
            # pest_meta's front end accepts, but pest's own generator (pest_generator::derive_parser, i.e. pest_derive)
            # panics at macro expansion as well (rule names `self`, `Self`, `crate`, `super`: "cannot be a raw identifier"):
            # pest does not accept the grammar, so there is no obligation either way; counted.
            k = "derive_" + o["derive"]
            pgen_refuses[k] = pgen_refuses.get(k, 0) + 1
            pgen_refuses.setdefault("examples", [])
            if len(pgen_refuses["examples"]) < 4:
                pgen_refuses["examples"].append({"grammar": g["text"][:100], "derive": o["derive"], "panic": o["dmsg"][:100]})
        elif o["full"] == "ok":
            judged += 1
            accepted += 1
            st["fully_accepted"] += 1
            if panics:
                disagreements += 1
                ctx.violations.append({"what": "generator refused a grammar pest accepts", "case": case, "panic": o["dmsg"],
                                       "pest_generator": "pest_generator::derive_parser " + {"ok": "accepts it", "panic": "panics on it as well"}.get(o.get("pgen"), "not run")})
            else:
                nontrivial += 1
                accepted_gs.append(g)
                if g["class"] == "leftrec":
                    leftrec_accepted.append(g["text"])
        else:
            # only validate_pairs rejects (undefined rule, redefinition, pest keyword): outside the property
            key = "derive_" + o["derive"]
            pairs_only[key] = pairs_only.get(key, 0) + 1
            line = o["pmsg"].split("\n")[0]
            kind = ("undefined" if "is undefined" in line else "already defined" if "already defined" in line
                    else "pest keyword" if "pest keyword" in line else "other")
            pairs_only.setdefault("by_first_message", {}).setdefault(kind, {"derive_ok": 0, "derive_panic": 0})["derive_" + o["derive"]] += 1
        for c in classes:
            examples.setdefault(c, g["text"])
        # the same obligation under every non-default option set
        pest_accepts = (not rejected) and o["full"] == "ok" and o.get("pgen") != "panic"
        if rejected or pest_accepts:
            for oset, v, m in zip(OPTION_SETS, o["dopt"], o["doptmsg"]):
                opt_judged += 1
                if v == "badattrs":
                    raise RuntimeError(f"gen_runner could not parse the option set {oset!r}")
                if rejected and v not in REFUSED:
                    opt_bad += 1
                    ctx.violations.append({"what": f"generator accepted a grammar pest's validator rejects [{', '.join(sorted(classes))}] under non-default options",
                                           "case": dict(case, options=oset), "validator": o["vmsg"]})
                elif pest_accepts and not panics and v in REFUSED:
                    opt_bad += 1
                    ctx.violations.append({"what": "generator refused a grammar pest accepts under non-default options",
                                           "case": dict(case, options=oset), "panic": m})
    ctx.evaluations += opt_judged
    ctx.ties["derive-vs-validator:option-sets"] = {"cases": opt_judged, "agree": opt_judged - opt_bad,
                                                   "observables": ["refusal (panic | compile_error!) under " + " ; ".join(OPTION_SETS)]}
    ctx.evaluations += judged
    ctx.nontrivial += nontrivial
    ctx.ties["derive-vs-validator"] = {"cases": judged, "agree": judged - disagreements, "observables": ["panic", "consume_rules verdict"]}
    t0 = time.time()
    tie_validator_mirror(ctx, gs, obs)          # the Lean mirror of validate_ast against pest_meta's, on every grammar that parses
    timing["validator_mirror_s"] = round(time.time() - t0, 1)
    missing = [c for c in LISTED if by_err[c] == 0]
    if missing:
        ctx.tie_broken("corpus-coverage", {"error": "no grammar of the corpus is rejected by pest's validator for: " + ", ".join(missing),
                                           "by_validator_error": by_err})
    dist = {"grammars": len(gs), "by_class": by_class, "by_validator_error": by_err, "pairs_only": pairs_only, "syntax_errors": syntax_errors,
            "accepted": accepted, "mutation_sources": nsrc, "refusal_panics": panic_kind, "refusal_by_compile_error": refusal_how,
            "front_end_accepts_but_pest_generator_panics": pgen_refuses,
            "leftrec_family_accepted_by_validator": {"count": len(leftrec_accepted), "examples": leftrec_accepted[:6]},
            "first_example_per_error": {k: v[:160] for k, v in examples.items()}}
    ctx.coverage["distribution"] = dist
    t0 = time.time()
    refusal_through_proc_macro(ctx, gs, obs, tier, seed, dist)
    timing["refusal_proc_macro_s"] = round(time.time() - t0, 1)

    # ---- oracle B: the accepted grammars compile ----------------------------------------------
    rnd = random.Random(seed * 7919 + 5)
    t0 = time.time()
    # pest_meta's ASTs of every accepted grammar (dump_ast), and the static well-foundedness verdict
    acc, bad = corpus.validate([{k: v for k, v in g.items() if k != "obs"} for g in accepted_gs], need_pest=True, need_wf=False)
    if bad:
        ctx.tie_broken("gen_runner-vs-dump_ast", {"error": "dump_ast rejects grammars gen_runner reports as accepted by pest's front end",
                                                  "first": [{"gid": g["gid"], "grammar": g["text"][:300], "why": g["reject"][:200]} for g in bad[:5]]})
    tie_validator_ast(ctx, acc, obs)
    why_not, skip_rec = {}, []
    for g in acc:
        sx = corpus.parse_sexp(g["sexp"])
        why = corpus.analyse(sx)
        g["wf_reason"] = why
        if why is not None:
            k = "left recursion" if "left recursion" in why else "repetition body may match empty" if "repetition" in why else "skip rule may match empty"
            if k == "left recursion" and corpus.analyse(sx[:2] + [r for r in sx[2:] if r[1] not in ("WHITESPACE", "COMMENT")]) is None:
                k = "recursion only through the implicit skip (WHITESPACE/COMMENT body not atomic)"
                skip_rec.append(g["text"])
            why_not[k] = why_not.get(k, 0) + 1
    dist["accepted_not_wellfounded"] = sum(g["wf_reason"] is not None for g in acc)
    dist["not_wellfounded_reasons"] = why_not
    dist["not_wellfounded_examples"] = [g["text"][:120] for g in acc if g["wf_reason"] is not None][:6]
    dist["recursion_through_skip_examples"] = [t[:160] for t in skip_rec[:4]]
    must = [g for g in acc if g.get("compile", True) and (g.get("unusual") or g.get("recursive") or g["gid"].startswith("s_"))]
    pool = [g for g in acc if g.get("compile", True) and not (g.get("unusual") or g.get("recursive") or g["gid"].startswith("s_"))]
    nsample = 650 if quick else 2300

    def weight(g):
        nrules = len(g["rules"])
        w = 3.0 + 0.3 * nrules if g["class"] == "mutant" else 1.0 + 0.6 * nrules if g.get("random") else 2.0
        return w * (1.0 if g["wf_reason"] is None else 0.5)       # the ones that can also be run count double
    keyed = sorted(pool, key=lambda g: -(rnd.random() ** (1.0 / weight(g))))       # weighted sampling without replacement
    sample = must + keyed[:max(0, nsample - len(must))]
    stats = {}
    compiled, where = compile_sample(ctx, sample, tier, stats)
    timing["compile_s"] = round(time.time() - t0, 1)
    ctx.coverage["compiled"] = len(compiled)
    ctx.evaluations += len(sample)
    dist["compile_sample"] = {"size": len(sample), "of_accepted": len(acc), "unusual_or_systematic": len(must),
                              "mutants": sum(g["class"] == "mutant" for g in sample), "random": sum(bool(g.get("random")) for g in sample),
                              "family_variants_accepted": sum(g["class"] in FAMILIES for g in sample),
                              "left_out_not_expressible": [g["gid"] for g in gs if not g.get("compile", True)], **stats}
    os.makedirs(common.BUILD, exist_ok=True)
    sexp_path = os.path.join(common.BUILD, f"c11_{tier}.sexp")
    open(sexp_path, "w").write("\n".join(g["sexp"] for g in compiled) + "\n")

    # ---- oracle C: every parse of a well-founded grammar returns ---------------------------------
    t0 = time.time()
    lean = lean_static(ctx, compiled, sexp_path)
    timing["lean_static_s"] = round(time.time() - t0, 1)
    t0 = time.time()
    lean_e = emitted_static(ctx, compiled, lean, "", "", os.path.join(common.BUILD, f"c11_{tier}_emitted.sexp"))
    timing["emitted_static_s"] = round(time.time() - t0, 1)

    def wf_of(g, e=lean_e, m=lean):      # the verdict on the EMITTED module; the model's where the extractor gave none
        return e.get(g["gid"], m.get(g["gid"], {})).get("wf") == "1"
    wf = [g for g in compiled if wf_of(g)]
    not_wf = [g for g in compiled if not wf_of(g)]
    dist["compiled_wellfounded"] = len(wf)
    dist["compiled_wellfounded_by_corpus_analyse"] = sum(g["wf_reason"] is None for g in compiled)
    dist["compiled_not_wellfounded"] = len(not_wf)
    by_gid = {g["gid"]: g for g in compiled}
    maxlen = 4 if quick else 5
    inputs_of, plan_hist = {}, {}

    def cases_for(glist, cap):
        budget = cap // max(1, len(glist))
        cs = []
        for g in glist:
            if g["gid"] not in inputs_of:
                ml, acap = plan_inputs(g, budget, maxlen)
                plan_hist[f"len<={ml},alphabet<={acap}"] = plan_hist.get(f"len<={ml},alphabet<={acap}", 0) + 1
                g2 = dict(g)
                g2["alphabet"] = list(g["alphabet"])[:acap]
                inputs_of[g["gid"]] = corpus.inputs_for(g2, rnd, ml, 6)
            for (rule, kind) in g["rules"]:
                for entry in ENTRIES:
                    for s in inputs_of[g["gid"]]:
                        cs.append((g["gid"], rule, entry, "str", 0, 0, s))
        return cs

    def judge(cs, lines, options):
        verdicts = {}
        for c, l in zip(cs, lines):
            v = suites.parse_obs(l).get("v", "missing")
            verdicts[v] = verdicts.get(v, 0) + 1
            if v in ("nodispatch", "badentry", "badform"):
                raise RuntimeError(f"C11 runner does not know the case {c}: {l}")
            if v in ("timeout", "crash", "missing", "panic"):
                what = ("parse panicked on a well-founded grammar" if v == "panic" else
                        f"parse does not return on a well-founded grammar ({v})")
                if sum(1 for x in ctx.violations if x["case"].get("gid") == c[0] and x["case"].get("options") == options) < 3:
                    ctx.violations.append({"what": what, "case": {"grammar": by_gid[c[0]]["text"], "gid": c[0], "options": options,
                                                                  "rule": c[1], "entry": c[2], "input": c[6]}})
        return verdicts
    # default options: every statically well-founded compiled grammar, the four entry points
    t0 = time.time()
    ws_dir = os.path.join(common.BUILD, f"ws_c11_{tier}")
    all_cases = cases_for(wf, 3200000 if quick else 9000000)
    all_lines = run_bins_bounded("b", where, all_cases, os.path.join(ws_dir, "bin")) if all_cases else []
    verdicts = judge(all_cases, all_lines, "(default)")
    timing["run_s"] = round(time.time() - t0, 1)
    ctx.evaluations += len(all_cases)
    for c, l in zip(all_cases, all_lines):
        if len(ctx.samples) >= 5:
            break
        o = suites.parse_obs(l)
        if o.get("v") == "ok" and len(c[6]) >= 3 and not any(s["case"].get("gid") == c[0] for s in ctx.samples):
            ctx.samples.append({"case": {"gid": c[0], "grammar": by_gid[c[0]]["text"][:200], "rule": c[1], "entry": c[2], "input": c[6]},
                                "impl": {k: v for k, v in o.items() if k in ("v", "end", "stk")}})
    dist["run"] = {"cases": len(all_cases), "entries": list(ENTRIES), "verdicts": verdicts, "input_plan": dict(plan_hist)}

    # `#[pest_optimizer = false]`: the un-optimized AST keeps counted repetitions, which become RepeatMin / RepeatMinMax
    # (with the default options pest's optimizer unrolls them, so those loops are never instantiated)
    t0 = time.time()
    RAW = "#[pest_optimizer = false]"
    counted = [g for g in wf if has_counted(g)]
    nraw = 120 if quick else 500
    counted = [g for g in counted if g.get("counted")] + [g for g in counted if not g.get("counted")][:max(0, nraw - sum(bool(g.get("counted")) for g in counted))]
    # … and every hand-written / systematic grammar (names, 13-/17-/33-ary choices, nested and big counted repetitions, …) is
    # compiled under this option as well: "emits code that compiles" is not limited to the default options
    cgids = {g["gid"] for g in counted}
    raw_set = counted + [g for g in compiled if g["gid"] not in cgids and (g.get("unusual") or g["gid"].startswith("s_"))]
    rstats = {}
    raw_compiled, raw_where = compile_sample(ctx, raw_set, tier, rstats, attrs=RAW, prefix="c", wsname=os.path.join(common.BUILD, f"ws_c11_raw_{tier}"),
                                             report=True) if raw_set else ([], {})
    timing["raw_compile_s"] = round(time.time() - t0, 1)
    ctx.evaluations += len(raw_set)
    # accessor code: `#[emit_rule_reference]` makes the generator emit getters (`Vec`, `Option`, `Box` paths next to rule
    # structs of any name): the name-collision, keyword and systematic grammars must compile with it too
    t0 = time.time()
    ACC = "#[emit_rule_reference]"
    acc_set = [g for g in compiled if g.get("unusual") or g["gid"].startswith("s_")]
    astats = {}
    acc_compiled, _ = compile_sample(ctx, acc_set, tier, astats, attrs=ACC, prefix="a", wsname=os.path.join(common.BUILD, f"ws_c11_acc_{tier}"),
                                     report=True) if acc_set else ([], {})
    timing["accessor_compile_s"] = round(time.time() - t0, 1)
    ctx.evaluations += len(acc_set)
    dist["compile_other_options"] = {RAW: {"grammars": len(raw_set), "compiled": len(raw_compiled), "not_compiling": rstats.get("not_compiling", [])},
                                     ACC: {"grammars": len(acc_set), "compiled": len(acc_compiled), "not_compiling": astats.get("not_compiling", [])}}
    # reduced boxing: under `#[box_only_if_needed]` only the rules the generator's reachability analysis finds on a cycle are
    # boxed; a recursive grammar whose cycle it misses has no finite size (rustc E0072).  The recursive part of the compiled
    # grammars (C20's cycle family, the arithmetic grammars, every sampled grammar whose emitted module has a reference cycle)
    # is built with it, alone and together with `#[pest_optimizer = false]`; independently of rustc, every reference cycle of
    # the emitted module must contain a boxed rule (under every option set used here).
    t0 = time.time()
    BOX, BOXRAW = "#[box_only_if_needed]", "#[pest_optimizer = false] #[box_only_if_needed]"
    cstats = {}
    rec_gids = cycles_boxed(ctx, compiled, "", cstats)
    rec_set = [g for g in compiled if g.get("recursive")] + [g for g in compiled if g["gid"] in rec_gids and not g.get("recursive")][:120 if quick else 600]
    cycles_boxed(ctx, [g for g in rec_set if g["gid"] in {x["gid"] for x in raw_compiled}], RAW, cstats)
    for attrs, pfx, wsn in ((BOX, "d", "box"), (BOXRAW, "e", "boxraw")):
        cycles_boxed(ctx, rec_set, attrs, cstats)
        bstats = {}
        bcomp, _ = compile_sample(ctx, rec_set, tier, bstats, attrs=attrs, prefix=pfx, wsname=os.path.join(common.BUILD, f"ws_c11_{wsn}_{tier}"),
                                  report=True) if rec_set else ([], {})
        ctx.evaluations += len(rec_set)
        dist["compile_other_options"][attrs] = {"grammars": len(rec_set), "compiled": len(bcomp), "not_compiling": bstats.get("not_compiling", [])}
    dist["cycles_boxed"] = cstats
    dist["recursive_part"] = {"family_and_handwritten": sum(bool(g.get("recursive")) for g in rec_set), "sampled_recursive": sum(not g.get("recursive") for g in rec_set)}
    timing["boxing_s"] = round(time.time() - t0, 1)
    if sum(bool(g.get("recursive")) for g in rec_set) < 100:
        ctx.tie_broken("corpus-coverage", {"error": "fewer than 100 grammars of the recursive family reached the reduced-boxing builds"})
    lean_raw = lean_static(ctx, raw_compiled, sexp_path, cmd="wfraw", which=4, label="[raw]") if raw_compiled else {}
    lean_raw_e = emitted_static(ctx, raw_compiled, lean_raw, RAW, "[raw]", os.path.join(common.BUILD, f"c11_{tier}_emitted_raw.sexp")) if raw_compiled else {}
    raw_wf = [g for g in raw_compiled if g["gid"] in cgids and wf_of(g, lean_raw_e, lean_raw)]
    t0 = time.time()
    raw_cases = cases_for(raw_wf, 1200000 if quick else 4000000)
    raw_lines = run_bins_bounded("c", raw_where, raw_cases, os.path.join(common.BUILD, f"ws_c11_raw_{tier}", "bin")) if raw_cases else []
    raw_verdicts = judge(raw_cases, raw_lines, RAW)
    timing["raw_run_s"] = round(time.time() - t0, 1)
    ctx.evaluations += len(raw_cases)
    dist["run_raw_option"] = {"option": RAW, "grammars_with_counted_repetitions": len(counted), "compiled": len(raw_compiled),
                              "wellfounded_raw_module": len(raw_wf), "from_counted_family": sum(bool(g.get("counted")) for g in raw_wf),
                              "not_compiling_under_this_option (reported as violations)": rstats.get("not_compiling", []),
                              "cases": len(raw_cases), "verdicts": raw_verdicts}
    if len(raw_wf) < 30:
        ctx.tie_broken("corpus-coverage", {"error": f"only {len(raw_wf)} well-founded grammars with counted repetitions were run with {RAW} (need >= 30)",
                                           "not_compiling": rstats.get("not_compiling_detail", [])[:3]})
    ctx.coverage["timing_s"] = timing
    ctx.rule_text = (
        f"{len(gs)} grammars: hand-written feature grammars and grammars with unusual constructs, seeded random grammars, programmatic variants "
        "(rule kind, literal, surrounding context, position in a larger grammar, rule names) of ill-formed families — left recursion "
        "(direct, indirect, through optionals, predicates, silent rules, PUSH, repetitions, choices, cycles of 3-5 rules), repetitions whose body "
        "cannot fail or cannot progress, unreachable alternatives, non-progressing WHITESPACE/COMMENT — grammars only `validate_pairs` rejects, "
        "syntax errors, and seeded tree-edit mutants of the valid grammars.  Oracle A judges every grammar that pest_meta's parse/consume_rules "
        "rejects (derive must panic) or that pest's whole front end accepts (derive must not panic); a grammar is non-trivial when the validator "
        "rejects it for one of the six listed reasons, or when it is accepted and the generator emitted code.  Oracle A is evaluated under the default and seven non-default option sets, and for a sample through the real proc macro "
        "(one bin target per grammar: exactly the rejected ones must fail to build, with the validator's message).  Oracle B compiles a seeded sample of "
        "the accepted grammars through the real derive macro (the hand-written and systematic grammars also with `#[pest_optimizer = false]` and with `#[emit_rule_reference]`); oracle C runs every rule through the four entry points (parse_partial, check_partial, "
        "parse, check) of the compiled grammars that "
        "are statically well-founded (decided by `wfCheck` of the Lean model, proved sound: no rule reaches itself through a nullable prefix, the "
        "implicit skip included; no unbounded repetition body or skip rule body may match empty; stack-reading terminals count as nullable) on all inputs up to length "
        f"{maxlen} over (a cap of) the grammar's alphabet plus random longer ones, under a 6 s watchdog (a grammar is abandoned after 3 cases that do not return); "
        "the well-founded grammars that contain a counted repetition (a hand-written family of them nested in `*`/`+`/`{k,}`, under predicates, in atomic rules, "
        "plus those of the sample) are also compiled with `#[pest_optimizer = false]` — the only way RepeatMin/RepeatMinMax are instantiated — and run on the same inputs.  "
        "Outside the property: grammars rejected only by "
        "validate_pairs (undefined / redefined rules, pest keywords as rule names: no verdict, counted), compilation under option sets other than the default, `#[pest_optimizer = false]` and `#[emit_rule_reference]` (C20), "
        "and accepted grammars that are not well-founded (e.g. `(PEEK_ALL)*`, `!\"x\" ~ a`, non-atomic WHITESPACE bodies with a nullable prefix): "
        "they are compiled but not run.")
    t0 = time.time()
    tie_wf(ctx, compiled, lean, all_cases, all_lines, sexp_path)
    if raw_cases:
        tie_wf(ctx, raw_compiled, lean_raw, raw_cases, raw_lines, sexp_path, cmd="wfraw", label="[raw]")
    timing["lean_fuel_s"] = round(time.time() - t0, 1)
