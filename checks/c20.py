"""C20 — generation options change representation only; generation is deterministic.

Three layers (see DESIGN.md "### C20"):
 * oracle on the implementation (model-free): the same corpus compiled under every option set and run
   on the same cases — verdict, end offset, stack, tracker, token tree and `{:?}` must not depend on
   the options that keep the AST; verdict, end offset, stack-on-success and token tree must not depend
   on `pest_optimizer`; every option set must compile (recursive grammars with reduced boxing);
   `derive_typed_parser`'s token stream must be byte-identical across separate processes; options
   other than `emit_rule_reference` / `pest_optimizer` must leave the token stream unchanged up to the
   storage decision.
 * ties: the Lean `genWith cfg` + `parse` against the implementation for every option set exercised
   (`v`, `end`, `stk`, `trk`, `tok`), and the model's `boxed` decisions against the `$boxed` argument of
   every emitted `rule!`.
 * known findings: raw-vs-optimized differences are attributed to pest_meta optimizer passes by
   running the Lean model on the AST after each pass (Python mirror of the passes, cross-checked
   against pest_meta's own output): only differences introduced by `unroll` in a grammar with skip
   rules (F-OPT-3), by `unroll` of an `e{n,m}` with n > m in a grammar without skip rules (F-OPT-4) or by
   `list` (F-OPT-1) get the known prefixes, everything else is "unexplained".
 * boxing: a systematic family of cycle shapes (opts.cycle_family) is part of the corpus; a derive expansion
   that rustc rejects under some option set is isolated (the diagnostics name the grammar module; bisection
   otherwise), reported as a violation with grammar + option set, replaced by a placeholder in that option set and
   the run goes on; independently of rustc, every cycle of the reference graph read off the emitted `rule!` types
   must contain a rule whose `$boxed` argument is `true` (the statement of `C20_cycles_boxed`)."""
import concurrent.futures, hashlib, json, os, random, re, subprocess, time
from . import common, suites
from .common import BUILD, CACHE
import corpus, opts

NPROC_DET = 3
SAME_AST_KEYS = ["v", "end", "stk", "trk", "tok", "dbg"]
CROSS_AST_KEYS = ["v", "end", "tok"]
TIE_KEYS = ["v", "end", "stk", "trk", "tok"]

P_LISTER = "raw-vs-optimized: lister"
P_SKIP = "raw-vs-optimized: trailing skip of unrolled repetition"
P_MINMAX = "raw-vs-optimized: counted repetition with MIN > MAX"
P_UNEXPLAINED = "raw-vs-optimized: unexplained"
P_NOCOMPILE_BOX = "recursive grammar does not compile when boxing is reduced"
P_NOCOMPILE = "derive output does not compile under option set"
P_CYCLE = "reference cycle without a boxed rule"
MAX_BUILD_ATTEMPTS = 4


def _cycle_walks(g):
    """Inputs that actually go round the cycle of a cycle-shape grammar: the letters of c0, c1, … in cyclic order."""
    n = sum(1 for r, _ in g["rules"] if re.fullmatch(r"c\d+", r))
    if not n:
        return ["a", "ab", "an", "ano", "anoa", "anop", "anopa!", "ab!", "aba!", "abano", "z"]
    out = []
    for k in range(1, 2 * n + 3):
        w = "".join(chr(97 + (i % n)) for i in range(k))
        out += [w, w + "!", "u" + w, "u" + w + "v"]
        if n > 1:
            out.append("".join(chr(97 + ((i + 1) % n)) for i in range(k)))
    return out + ["z"]


def _cases_for(g, rnd, maxlen, nrand, extra=()):
    cases = []
    ins = corpus.inputs_for(g, rnd, maxlen, nrand)
    ins += [x for x in extra if x not in ins]
    for (rule, kind) in g["rules"]:
        for s in ins:
            for entry in ("parse_partial", "parse"):
                cases.append((g["gid"], rule, entry, "str", 0, 0, s))
    return cases


def _short_dbg(line):
    """The `{:?}` rendering is only compared for equality: keep a digest."""
    k = line.find("\tdbg=")
    if k < 0:
        return line
    e = line.find("\t", k + 1)
    val = line[k + 5:] if e < 0 else line[k + 5:e]
    return line[:k] + "\tdbg=" + hashlib.md5(val.encode()).hexdigest()[:16] + ("" if e < 0 else line[e:])


def _driver_lines(sexp_path, lines, nproc=8):
    chunks = [lines[i::nproc] for i in range(nproc)]

    def run(chunk):
        if not chunk:
            return []
        p = subprocess.run([suites.DRIVER, sexp_path], input="\n".join(chunk) + "\n", capture_output=True, text=True)
        return p.stdout.splitlines()
    out = [None] * len(lines)
    with concurrent.futures.ThreadPoolExecutor(nproc) as ex:
        for k, res in enumerate(ex.map(run, chunks)):
            for j, l in enumerate(res):
                out[k + j * nproc] = l
    return [o if o is not None else "v=missing" for o in out]


def suite_opts(tier, seed):
    """Builds and runs everything once per (tree state, tier, seed); returns the directory with the raw results."""
    d = suites._cache_dir("opts", tier, seed)
    if os.path.exists(os.path.join(d, "meta.json")):
        return d
    t0 = time.time()
    timing = {}
    suites.ensure_driver()
    gs = opts.corpus_grammars(tier, seed)
    ok, bad = corpus.validate(gs)
    sets = opts.option_sets(tier, seed)
    dsets = opts.determinism_sets(tier, seed)
    os.makedirs(d, exist_ok=True)

    # --- determinism: NPROC_DET separate processes per option set --------------------------------
    t1 = time.time()
    opts.build_runner()
    det = {}
    streams = {}
    for s in dsets:
        runs = [opts.token_streams(ok, s) for _ in range(NPROC_DET)]
        digests = [hashlib.sha256(r[1]).hexdigest() for r in runs]
        first = runs[0][0]
        diff_gids = []
        if len(set(digests)) > 1:
            for g in ok:
                vals = {r[0].get(g["gid"]) for r in runs}
                if len(vals) > 1:
                    diff_gids.append(g["gid"])
        det[s.name] = {"attrs": s.attrs, "digests": digests, "bytes": len(runs[0][1]), "differing": diff_gids,
                       "panics": {gid: v[1][:300] for gid, v in first.items() if v[0] != "OK"},
                       "missing": [g["gid"] for g in ok if g["gid"] not in first]}
        streams[s.name] = {gid: v[1] for gid, v in first.items() if v[0] == "OK"}
    timing["determinism_s"] = round(time.time() - t1, 1)

    # --- token-stream level facts -----------------------------------------------------------------
    boxed_impl = {s.name: {gid: opts.boxed_flags(st) for gid, st in streams[s.name].items()} for s in sets}
    structure = []   # every set against the set with the same emit_rule_reference / pest_optimizer and nothing else
    refcache = {}
    for s in dsets:
        r = opts.structure_reference(s)
        if r.attrs == s.attrs and not s.extra:
            continue
        if r.attrs not in refcache:
            refcache[r.attrs] = {gid: v[1] for gid, v in opts.token_streams(ok, r)[0].items() if v[0] == "OK"}
        rs = refcache[r.attrs]
        bad_g = [gid for gid in streams[s.name] if gid not in rs or opts.strip_boxing(streams[s.name][gid]) != opts.strip_boxing(rs[gid])]
        same = sum(1 for gid in streams[s.name] if streams[s.name].get(gid) == rs.get(gid))
        structure.append({"set": s.name, "attrs": s.attrs, "ref_attrs": r.attrs or "(default)", "grammars": len(streams[s.name]),
                          "differ_beyond_boxing": bad_g, "identical": same})

    # --- boxing soundness on the emitted code (no rustc, no model): every reference cycle keeps a boxed rule ----
    box_cycles = []
    box_checked = 0
    for s in dsets:
        for gid, st in streams[s.name].items():
            edges = opts.ref_edges(st)
            flags = dict(opts.boxed_flags(st))
            box_checked += 1
            cyc = opts.unboxed_cycle(edges, flags)
            if cyc:
                box_cycles.append({"set": s.name, "attrs": s.attrs, "gid": gid, "cycle": cyc, "boxed": flags, "edges": edges})

    # --- compile the corpus under every option set; isolate what rustc rejects and go on --------------
    t1 = time.time()
    ws = os.path.join(BUILD, f"ws_opts_{tier}")
    by_set = {s.name: s for s in sets}
    by_gid = {g["gid"]: g for g in ok}
    exclude = {}
    not_compiling = []
    build_log = []
    rc, err = 1, ""
    for attempt in range(MAX_BUILD_ATTEMPTS):
        layout = opts.emit_all(ok, sets, ws, suites.NBINS, tag=tier[0], exclude=exclude)
        t2 = time.time()
        rc, err = opts.build_all(ws)
        build_log.append({"attempt": attempt, "rc": rc, "s": round(time.time() - t2, 1)})
        if rc == 0:
            break
        crates = opts.failing_crates(err)
        if not crates:
            break                                   # fails outside the derived crates: a harness problem
        guilty = dict(opts.blame(ws, err))          # (set, gid) -> rustc text
        for crate in crates:
            m = re.match(r"c20%s(\w+)_b(\d+)$" % tier[0], crate)
            if not m or m.group(1) not in layout:
                continue
            sname, b = m.group(1), int(m.group(2))
            where = layout[sname][1]
            members = [by_gid[g] for g, k in where.items() if k == b and g not in exclude.get(sname, ())]
            if not any((sname, g["gid"]) in guilty for g in members):
                # the diagnostics do not point into a grammar module of this crate: bisect it
                for g, e2 in opts.bisect_guilty(members, by_set[sname], tag=tier[0]):
                    guilty[(sname, g["gid"])] = e2[e2.find("error"):][:1500] if "error" in e2 else e2[-1500:]
        new = 0
        for (sname, gid), text in sorted(guilty.items()):
            if gid in by_gid and gid not in exclude.get(sname, ()):
                exclude.setdefault(sname, set()).add(gid)
                not_compiling.append({"set": sname, "attrs": by_set[sname].attrs, "box": by_set[sname].box, "gid": gid,
                                      "grammar": by_gid[gid]["text"], "rustc": text})
                new += 1
        if not new:
            break
    timing["build_s"] = round(time.time() - t1, 1)
    timing["build_attempts"] = build_log

    # --- run the same cases on every option set --------------------------------------------------
    t1 = time.time()
    rnd = random.Random(seed)
    cases = []
    for g in ok:
        big = len(g["rules"]) > 40
        if g["gid"].startswith("y_"):
            cases += _cases_for(g, rnd, 2, 4, _cycle_walks(g))     # the cycle-shape family: many small grammars
        elif tier == "quick":
            cases += _cases_for(g, rnd, 4, 10)
        else:
            cases += _cases_for(g, rnd, 3 if big else 4, 4 if big else 24)
    json.dump(cases, open(os.path.join(d, "cases.json"), "w"), ensure_ascii=False)
    for s in sets:
        prefix, where = layout[s.name]
        ex = exclude.get(s.name, ())
        if rc != 0:
            impl = ["v=nobuild"] * len(cases)        # the workspace still does not build: nothing to run
        elif ex:
            sub = [c for c in cases if c[0] not in ex]
            it = iter(suites.run_bins(prefix, where, sub))
            impl = [next(it) if c[0] not in ex else "v=nobuild" for c in cases]
        else:
            impl = suites.run_bins(prefix, where, cases)
        open(os.path.join(d, f"impl_{s.name}.txt"), "w").write("\n".join(_short_dbg(l) for l in impl) + "\n")
    timing["run_impl_s"] = round(time.time() - t1, 1)

    # --- the model under each (box_only_if_needed, pest_optimizer) -------------------------------
    t1 = time.time()
    sexp = d + ".sexp"
    open(sexp, "w").write("\n".join(g["sexp"] for g in ok) + "\n")
    for bits in sorted({s.bits for s in sets}):
        model = _driver_lines(sexp, [f"opts {bits} " + suites.case_line(c) for c in cases])
        open(os.path.join(d, f"model_{bits}.txt"), "w").write("\n".join(model) + "\n")
    boxed_model = {}
    for bits in sorted({s.bits for s in sets}):
        lines = _driver_lines(sexp, [f"opts {bits} {g['gid']} boxed" for g in ok], nproc=1)
        boxed_model[bits] = {g["gid"]: l for g, l in zip(ok, lines)}
    timing["run_model_s"] = round(time.time() - t1, 1)

    meta = {"suite": "opts", "tier": tier, "seed": seed, "wall_s": round(time.time() - t0, 1), "timing": timing,
            "sets": [{"name": s.name, "attrs": s.attrs, "bits": s.bits, "opt": s.opt, "box": s.box, "ref": s.ref,
                      "nospan": s.nospan, "nowarn": s.nowarn} for s in sets],
            "grammars": {g["gid"]: {"text": g["text"], "rules": g["rules"], "sexp": g["sexp"]} for g in ok},
            "rejected": [{"gid": g["gid"], "why": g["reject"][:200]} for g in bad],
            "determinism": det, "structure": structure, "boxed_impl": boxed_impl, "boxed_model": boxed_model,
            "build_rc": rc, "build_err": (err[err.find("error"):][:3000] if rc != 0 and "error" in err else err[-3000:] if rc != 0 else ""),
            "not_compiling": not_compiling, "excluded": {k: sorted(v) for k, v in exclude.items()},
            "box_cycles": box_cycles, "box_cycle_checked": box_checked, "sexp": sexp}
    json.dump(meta, open(os.path.join(d, "meta.json"), "w"), ensure_ascii=False)
    suites._gc_cache(12)
    return d


class _Rows:
    """Adapter for Ctx.tie: (case, impl observables, model observables)."""

    def __init__(self, cases, impl, model):
        self.cases, self.impl, self.model = cases, impl, model

    def rows(self):
        for c, i, m in zip(self.cases, self.impl, self.model):
            yield c, suites.parse_obs(i), suites.parse_obs(m)


def _read(d, name, n):
    return open(os.path.join(d, name)).read().split("\n")[:n]


def _obs(io, keys):
    return {k: io.get(k) for k in keys}


def _cross_differs(a, b):
    """Observables compared across ASTs: verdict, end offset, token tree, and the stack after a success."""
    if any(a.get(k) != b.get(k) for k in CROSS_AST_KEYS):
        return True
    return a.get("v") == "ok" and a.get("stk") != b.get("stk")


def classify_raw_vs_opt(meta, diffs):
    """diffs: list of (case, impl default obs, impl raw obs).  Runs the Lean model on the AST after each
    optimizer pass and returns [(what, detail)] aligned with diffs."""
    by_gid = {}
    for k, (c, _, _) in enumerate(diffs):
        by_gid.setdefault(c[0], []).append(k)
    lines_sexp = []
    info = {}
    for gid in by_gid:
        sx = corpus.parse_sexp(meta["grammars"][gid]["sexp"])
        stages = opts.pass_stages(sx)
        pest_opt = {r[1]: r[3] for r in sx[2:]}
        mirror_ok = stages[-1][1] == pest_opt
        info[gid] = {"stages": [n for n, _ in stages], "mirror_ok": mirror_ok,
                     "lister_pattern": any(opts.has_lister_pattern(r[4]) for r in sx[2:]),
                     "unrolled_rep": any(opts.has_unrolled_rep(r[4]) for r in sx[2:]),
                     "skip_defined": opts.skip_defined(sx),
                     "inverted_minmax": any(opts.has_inverted_minmax(r[4]) for r in sx[2:])}
        for n, exprs in stages:
            lines_sexp.append(opts.stage_grammar_sexp(sx, f"{gid}@{n}", exprs))
    path = os.path.join(BUILD, "c20", "stages_%d.sexp" % os.getpid())
    os.makedirs(os.path.dirname(path), exist_ok=True)
    open(path, "w").write("\n".join(lines_sexp) + "\n")
    req = []
    for k, (c, _, _) in enumerate(diffs):
        for n in info[c[0]]["stages"]:
            req.append(suites.case_line((f"{c[0]}@{n}",) + tuple(c[1:])))
    out = _driver_lines(path, req) if req else []
    res = []
    pos = 0
    for k, (c, dio, rio) in enumerate(diffs):
        gi = info[c[0]]
        names = gi["stages"]
        obs = [suites.parse_obs(out[pos + j]) for j in range(len(names))]
        pos += len(names)
        changed = [names[j] for j in range(1, len(names)) if _cross_differs(obs[j - 1], obs[j])]
        ends = {names[j]: (obs[j].get("v"), obs[j].get("end")) for j in range(len(names))}
        detail = {"passes_that_change_the_model": changed, "per_stage": ends, "grammar_signature": {k2: gi[k2] for k2 in ("lister_pattern", "unrolled_rep", "skip_defined", "inverted_minmax")}}
        anchored = gi["mirror_ok"] and not _cross_differs(obs[0], rio) and not _cross_differs(obs[-1], dio) \
            and obs[0].get("v") != "oof" and obs[-1].get("v") != "oof"
        if not anchored:
            detail["why"] = "the per-pass replay does not reproduce the two implementations (pass mirror %s)" % ("ok" if gi["mirror_ok"] else "differs from pest_meta")
            res.append((P_UNEXPLAINED, detail))
        elif changed and set(changed) <= {"unroll", "list"} and "list" in changed and gi["lister_pattern"]:
            res.append((P_LISTER + (" (with unroll)" if "unroll" in changed else ""), detail))
        elif changed == ["unroll"] and gi["unrolled_rep"] and gi["skip_defined"] and not gi["inverted_minmax"]:
            res.append((P_SKIP, detail))
        elif changed == ["unroll"] and gi["inverted_minmax"] and not gi["skip_defined"]:
            res.append((P_MINMAX, detail))
        else:
            detail["why"] = "difference introduced by pass(es) %s" % changed
            res.append((P_UNEXPLAINED, detail))
    try:
        os.remove(path)
    except OSError:
        pass
    return res


# ---------------------------------------------------------------------------------------------
# tie `optimizer-mirror`: the Lean mirror of pest_meta's optimizer (lean/PestTyped/Model/PestOpt.lean) against the real one

OPT_MIRROR_PROBES = [
    'a = { (PUSH("x")?)? ~ "y" }',                                       # the restorer does not look inside a RestoreOnErr it has just built
    'a = @{ (!("x" | b | "yz") ~ ANY)* ~ b }\nb = { "q" | "r" }',        # skipper: inlining a two-alternative rule
    'a = @{ (!c ~ ANY)* }\nc = { "q" | "r" | "s" }',                     # skipper: the rule map is un-rotated, three alternatives do not inline
    'a = @{ (!(b | "x") ~ ANY)* }\nb = { "q" | "r" }',
    'a = ${ "a" ~ "b" | "a" }\nb = @{ "a" ~ "b" | "a" ~ "c" | "a" }\nc = { "a" | "a" ~ "b" }',      # factorizer, all three arms
    'a = { ("a" ~ "b")* ~ "a" ~ "c" }\nb = { ("a" ~ b)* ~ "a" }',        # lister
    'a = @{ "a" ~ "b" ~ ^"c" ~ ^"d" ~ ("e" ~ "f")+ }',                    # concatenator after unroll
    'a = { "a"{3} ~ "b"{2,} ~ "c"{,2} ~ "d"{1,3} ~ ("e"{2}){2} }',        # unroller
    'a = { (b | "x")? ~ c* }\nb = { POP | "y" }\nc = { d }\nd = { DROP ~ c? | "z" }',       # restorer through rule references, with a cycle
    'a = { (("a" ~ "b") ~ "c") ~ (("d" | "e") | "f") }',                  # rotater
]


def tie_optimizer_mirror(ctx, meta):
    """`optimize raw` of the Lean mirror (command `pestopt <gid>` of model_driver, Driver/PestOpt.lean) must be the optimized AST
    pest_meta produced, rule by rule, for every grammar of the T-run corpus (the grammar list of `suites.suite_run`), of the C20
    corpus and of a few probes written around the individual passes; both ASTs of every rule are in the grammar's `dump_ast` line.
    Second tie `optimizer-mirror:stages-vs-python`: after each of the six `ast::Expr` passes (rotate … list) the Lean mirror and
    the python mirror `opts.pass_stages` (two independent transcriptions of pest_meta's source) hold the same expressions."""
    suites.ensure_driver()
    tier, seed = ctx.tier, ctx.seed
    gs = corpus.systematic_grammars() + corpus.random_grammars(seed, 16 if tier == "quick" else 160)
    reg = os.path.join(common.VERIF, "harness", "regressions", "grammars.json")
    if os.path.exists(reg):
        gs = json.load(open(reg)) + gs
    ok, _ = corpus.validate(gs, need_pest=False, need_wf=False)
    sexps = {g["gid"]: g["sexp"] for g in ok}
    origin = {gid: "T-run" for gid in sexps}
    for gid, g in meta["grammars"].items():
        if gid not in sexps:
            sexps[gid] = g["sexp"]
            origin[gid] = "C20"
    probes, bad = corpus.validate([{"gid": f"optprobe{i}", "text": t} for i, t in enumerate(OPT_MIRROR_PROBES)], need_pest=False, need_wf=False)
    if bad:
        ctx.tie_broken("optimizer-mirror", {"error": "pest_meta rejects a probe grammar", "first": [{"grammar": g["text"], "why": g["reject"][:200]} for g in bad[:3]]})
    for g in probes:
        sexps[g["gid"]] = g["sexp"]
        origin[g["gid"]] = "probe"
    gids = sorted(sexps)
    path = os.path.join(BUILD, "c20", "optmirror_%s_%d.sexp" % (tier, os.getpid()))
    os.makedirs(os.path.dirname(path), exist_ok=True)
    open(path, "w").write("\n".join(sexps[g] for g in gids) + "\n")
    out = _driver_lines(path, [f"pestopt {g}" for g in gids], nproc=4)
    st_out = _driver_lines(path, [f"pestopt {g} stages" for g in gids], nproc=4)
    try:
        os.remove(path)
    except OSError:
        pass
    nrules = nbad = changed = 0
    nst = nst_bad = 0
    py_restore_diff = []
    per_origin = {}
    pass_changes = {}
    for gid, l, sl in zip(gids, out, st_out):
        sx = corpus.parse_sexp(sexps[gid])
        try:
            lx = corpus.parse_sexp(l)
            lean = {r[1]: r[2] for r in lx[1:]} if lx and lx[0] == "opt" else None
        except Exception:
            lean = None
        per_origin[origin[gid]] = per_origin.get(origin[gid], 0) + 1
        for r in sx[2:]:
            nrules += 1
            changed += r[3] != r[4]
            if lean is None or lean.get(r[1]) != r[3]:
                nbad += 1
                if nbad <= 5:
                    ctx.tie_broken("optimizer-mirror", {"gid": gid, "rule": r[1], "raw": opts.show_sexp(r[4]), "pest_meta": opts.show_sexp(r[3]),
                                                        "lean": opts.show_sexp(lean[r[1]]) if lean and r[1] in lean else l[:200]})
        # the stages: Lean vs the python mirror
        stages = opts.pass_stages(sx)
        try:
            groups = corpus.parse_sexp("(all " + sl + ")")[1:]
            lst = {grp[1]: {r[1]: r[2] for r in grp[2:]} for grp in groups}
        except Exception:
            lst = {}
        prev = stages[0][1]
        for name, exprs in stages[1:]:
            if name == "restore":
                # the last stage of the python mirror against pest_meta's own output (the Lean driver prints the six
                # `ast::Expr` stages only; its final result is compared with pest_meta by the tie above)
                nst += 1
                if any(exprs[r[1]] != r[3] for r in sx[2:]):
                    py_restore_diff.append(gid)
                    nst_bad += 1
                    if nst_bad <= 5:
                        ctx.tie_broken("optimizer-mirror:stages-vs-python", {"gid": gid, "stage": "restore (python mirror vs pest_meta)"})
                continue
            nst += 1
            pass_changes[name] = pass_changes.get(name, 0) + sum(1 for k in exprs if exprs[k] != prev[k])
            prev = exprs
            if lst.get(name) != exprs:
                nst_bad += 1
                if nst_bad <= 5:
                    ctx.tie_broken("optimizer-mirror:stages-vs-python", {"gid": gid, "stage": name})
    ctx.ties["optimizer-mirror"] = {"cases": nrules, "agree": nrules - nbad, "observables": ["optimized expression of every rule"], "grammars": len(gids),
                                    "grammars_by_origin": per_origin, "rules_changed_by_the_optimizer": changed, "rules_changed_per_pass": pass_changes}
    ctx.ties["optimizer-mirror:stages-vs-python"] = {"cases": nst, "agree": nst - nst_bad, "observables": ["every rule after rotate, skip, unroll, concatenate, factor, list (Lean vs python mirror) and after restore (python mirror vs pest_meta)"]}
    if py_restore_diff:
        # information (not a broken tie of the Lean mirror): opts.p_restore looks inside RestoreOnErr wrappers, pest_meta's iterator does not
        ctx.coverage.setdefault("notes", []).append({"python_mirror_restore_differs_from_pest_meta": len(py_restore_diff), "first": py_restore_diff[:8]})


def check_C20(ctx):
    from . import props
    from .tgen import tie_tgen
    tie_tgen(ctx, ctx.tier, ctx.seed)      # structural tie of the emitted module vs Model.Gen / GenOpts for four option sets
    ctx.rule_text = ("corpus = hand-written (mutually) recursive grammars + a systematic family of cycle shapes (length 1..6 x definition order x rules outside the cycle x container of the edges, interlocking cycles) + probes around the optimizer passes + systematic feature grammars + "
                     "seeded random grammars (plain / stack-heavy / recursive / multi-byte, and a second batch of recursive ones), each compiled "
                     "under every option set of the tier (quick: default, all-on, pest_optimizer=false, box_only_if_needed alone, 2 seeded combinations; thorough: all 16 "
                     "combinations of box_only_if_needed x emit_rule_reference x do_not_emit_span x pest_optimizer); cases = every rule x all strings "
                     "up to length 4 over the grammar's alphabet + random longer ones x {parse_partial, parse}; one evaluation = one case "
                     "compared between the default option set and another one; non-trivial = the default run consumed input, left a stack or recorded "
                     "attempts under several rules; distinct by (grammar, rule, input)")
    d = suite_opts(ctx.tier, ctx.seed)
    meta = json.load(open(os.path.join(d, "meta.json")))
    cases = [tuple(x) for x in json.load(open(os.path.join(d, "cases.json")))]
    n = len(cases)
    tie_optimizer_mirror(ctx, meta)         # the Lean mirror of pest_meta's optimizer against pest_meta's own output
    sets = meta["sets"]
    by_name = {s["name"]: s for s in sets}
    ctx.assumptions += [
        "default cargo features only: emit_tagged_node_reference / truncate_getter_at_node_tag are read only under `grammar-extras` (node tags), which is outside the modelled surface; they are exercised in the determinism runs only",
        "do_not_emit_span and simulate_pair_api are parsed into Config and never read (generator/src: no use besides typed.rs:111,121); no_warnings only guards an eprintln! in parse_typed_derive",
        "pest_meta's optimizer is external: both ASTs are inputs of the model; raw-vs-optimized differences caused by its `unroll` (with skip rules) and `list` passes are known findings F-OPT-3 / F-OPT-1",
        "`compiles` is validated on the corpus (rustc), not proved; the Lean theorem C20_cycles_boxed proves that every reference cycle keeps a boxed rule",
    ]

    # ---------------- determinism ----------------
    det = meta["determinism"]
    nd_total = 0
    for name, r in det.items():
        nd_total += 1
        if len(set(r["digests"])) != 1:
            ctx.violation("nondeterministic token stream across processes", (",".join(r["differing"][:5]), "*", "derive", "tokens", 0, 0, ""),
                          option_set=r["attrs"], digests=r["digests"], grammars=r["differing"][:20])
        if r["panics"] or r["missing"]:
            ctx.tie_broken("opts_runner", {"set": name, "panics": r["panics"], "missing": r["missing"]})
    # ---------------- structure on the token stream ----------------
    for st in meta["structure"]:
        for gid in st["differ_beyond_boxing"]:
            ctx.violation("token stream differs beyond the storage decision", (gid, "*", "derive", "tokens", 0, 0, ""),
                          option_set=st["attrs"], reference=st["ref_attrs"])
    # ---------------- T-gen: boxed decisions ----------------
    tot = agree = 0
    bdiffs = []
    for s in sets:
        for gid, flags in meta["boxed_impl"][s["name"]].items():
            tot += 1
            impl = "boxed=" + ",".join(f"{nm}:{b}" for nm, b in flags)
            mod = meta["boxed_model"][s["bits"]].get(gid)
            if impl == mod:
                agree += 1
            elif len(bdiffs) < 5:
                bdiffs.append({"set": s["name"], "grammar": gid, "impl": impl, "model": mod})
    ctx.ties["T-gen:boxed"] = {"cases": tot, "agree": agree, "observables": ["$boxed argument of every rule!"]}
    if tot != agree:
        ctx.tie_broken("T-gen:boxed", {"disagreements": tot - agree, "first": bdiffs})
    # ---------------- rustc: every option set must compile every grammar pest accepts ----------------
    for nc in meta["not_compiling"]:
        ctx.violation(P_NOCOMPILE_BOX if nc["box"] else P_NOCOMPILE, (nc["gid"], "*", "rustc", "build", 0, 0, ""),
                      grammar=nc["grammar"], option_set=nc["attrs"] or "(default)", rustc=nc["rustc"],
                      replay="derive TypedParser on `grammar` with the attributes `option_set` and run cargo build")
    if meta["build_rc"] != 0:
        ctx.tie_broken("harness", {"error": "the option workspace still does not build after isolating the grammars rustc pointed at",
                                   "excluded": meta["excluded"], "cargo": meta["build_err"]})
    # ---------------- boxing soundness read off the emitted code ----------------
    for bc in meta["box_cycles"]:
        ctx.violation(P_CYCLE, (bc["gid"], bc["cycle"][0], "derive", "tokens", 0, 0, ""),
                      grammar=meta["grammars"][bc["gid"]]["text"], option_set=bc["attrs"] or "(default)",
                      cycle=" -> ".join(bc["cycle"]), boxed=bc["boxed"], edges=bc["edges"])

    # ---------------- ties: model under each option set ----------------
    impl = {s["name"]: _read(d, f"impl_{s['name']}.txt", n) for s in sets}
    model = {b: _read(d, f"model_{b}.txt", n) for b in sorted({s["bits"] for s in sets})}
    for s in sets:
        ex = set(meta["excluded"].get(s["name"], ()))
        ctx.tie(f"T-opts:{s['name']}[{s['attrs'] or 'default'}]", _Rows(cases, impl[s["name"]], model[s["bits"]]), TIE_KEYS,
                lambda c, ex=ex: c[0] not in ex)

    # ---------------- oracle: option invariance on the implementation ----------------
    def plain(s):
        return (s["box"], s["ref"], s["nospan"], s["nowarn"])
    ref = min((s for s in sets if s["opt"]), key=plain)               # the default option set
    raws = [s for s in sets if not s["opt"]]
    ref_raw = min(raws, key=plain) if raws else None
    ref_obs = [suites.parse_obs(l) for l in impl[ref["name"]]]
    dist = {"same_ast_compared": 0, "cross_ast_compared": 0, "cross_ast_differ": 0, "accepted": 0, "rejected": 0,
            "recursive_grammars": sum(1 for g in meta["grammars"] if g.startswith(("m_", "rec")) or g == "s_rec"),
            "grammars": len(meta["grammars"]), "option_sets": len(sets), "processes_per_option_set": NPROC_DET,
            "determinism_option_sets": nd_total, "cycle_shape_grammars": sum(1 for g in meta["grammars"] if g.startswith("y_")),
            "boxing_oracle_checked": meta["box_cycle_checked"], "not_compiling": len(meta["not_compiling"])}
    for c, io in zip(cases, ref_obs):
        dist["accepted" if io.get("v") == "ok" else "rejected"] += 1
    cross = []
    for s in sets:
        base = ref if s["opt"] else ref_raw
        if s is base:
            continue
        base_obs = ref_obs if base is ref else [suites.parse_obs(l) for l in impl[base["name"]]]
        for c, io_r, line in zip(cases, base_obs, impl[s["name"]]):
            io = suites.parse_obs(line)
            if io.get("v") == "nobuild" or io_r.get("v") == "nobuild":
                continue
            ctx.count(c, props.nontrivial_obs(io_r))
            dist["same_ast_compared"] += 1
            bad = [k for k in SAME_AST_KEYS if io.get(k) != io_r.get(k)]
            if bad:
                ctx.violation("options that keep the AST change " + ",".join(bad), c, option_set=s["attrs"],
                              reference_set=base["attrs"] or "(default)", reference=_obs(io_r, TIE_KEYS), other=_obs(io, TIE_KEYS))
    if ref_raw is not None:
        for c, io_r, line in zip(cases, ref_obs, impl[ref_raw["name"]]):
            io = suites.parse_obs(line)
            if io.get("v") == "nobuild" or io_r.get("v") == "nobuild":
                continue
            ctx.count(c, props.nontrivial_obs(io_r))
            dist["cross_ast_compared"] += 1
            if _cross_differs(io_r, io):
                dist["cross_ast_differ"] += 1
                cross.append((c, io_r, io, ref_raw["attrs"]))
    for c, io in zip(cases, ref_obs):
        ctx.sample(c, io)
    # the raw path of every non-optimized set walks the same AST: attribute each distinct case once
    seen = {}
    for c, io_r, io, attrs in cross:
        seen.setdefault(c, (io_r, io, attrs))
    diffs = [(c, v[0], v[1]) for c, v in seen.items()]
    classes = classify_raw_vs_opt(meta, diffs) if diffs else []
    cls_count = {}
    for (c, io_r, io), (what, detail) in zip(diffs, classes):
        cls_count[what] = cls_count.get(what, 0) + 1
        ctx.violation(what, c, option_set=seen[c][2], default=_obs(io_r, ["v", "end", "stk", "tok"]),
                      raw=_obs(io, ["v", "end", "stk", "tok"]), **detail)
    dist["cross_ast_classes"] = cls_count
    dist["timing"] = meta["timing"]
    ctx.coverage["distribution"] = dist
    ctx.coverage["option_sets"] = [{"name": s["name"], "attrs": s["attrs"] or "(default)"} for s in sets]
    ctx.coverage["determinism"] = {k: {"attrs": v["attrs"], "bytes": v["bytes"], "identical": len(set(v["digests"])) == 1} for k, v in det.items()}
    ctx.coverage["structure"] = meta["structure"]
