"""C20 — generation options change representation only; generation is deterministic.

Three layers (see DESIGN.md "### C20"):
 * oracle on the implementation (model-free): the same corpus compiled under every option set and run
   on the same cases — verdict, end offset, stack, tracker, token tree and `{:?}` must not depend on
   the options that keep the AST; verdict, end offset, stack-on-success and token tree must not depend
   on `pest_optimizer`; every option set must compile (recursive grammars with reduced boxing);
   `derive_typed_parser`'s token stream must be byte-identical across separate processes; options
   other than `emit_rule_reference` / `pest_optimizer` must leave the token stream unchanged up to the
   storage decision.
 * ties: the Lean `genWith cfg` + `parse` against the implementation for every option set exercised
   (`v`, `end`, `stk`, `trk`, `tok`), and the model's `boxed` decisions against the `$boxed` argument of
   every emitted `rule!`.
 * known findings: raw-vs-optimized differences are attributed to pest_meta optimizer passes by
   running the Lean model on the AST after each pass (Python mirror of the passes, cross-checked
   against pest_meta's own output): only differences introduced by `unroll` in a grammar with skip
   rules (F-OPT-3), by `unroll` of an `e{n,m}` with n > m in a grammar without skip rules (F-OPT-4) or by
   `list` (F-OPT-1) get the known prefixes, everything else is "unexplained".
 * boxing: a systematic family of cycle shapes (opts.cycle_family) is part of the corpus; a derive expansion
   that rustc rejects under some option set is isolated (the diagnostics name the grammar module; bisection
   otherwise), reported as a violation with grammar + option set, replaced by a placeholder in that option set and
   the run goes on; independently of rustc, every cycle of the reference graph read off the emitted `rule!` types
   must contain a rule whose `$boxed` argument is `true` (the statement of `C20_cycles_boxed`)."""
import concurrent.futures, hashlib, json, os, random, re, subprocess, time
from . import common, suites
from .common import BUILD, CACHE
import corpus, opts

NPROC_DET = 3
SAME_AST_KEYS = ["v", "end", "stk", "trk", "tok", "dbg"]
CROSS_AST_KEYS = ["v", "end", "tok"]
TIE_KEYS = ["v", "end", "stk", "trk", "tok"]

P_LISTER = "raw-vs-optimized: lister"
P_SKIP = "raw-vs-optimized: trailing skip of unrolled repetition"
P_MINMAX = "raw-vs-optimized: counted repetition with MIN > MAX"
P_UNEXPLAINED = "raw-vs-optimized: unexplained"
P_NOCOMPILE_BOX = "recursive grammar does not compile when boxing is reduced"
P_NOCOMPILE = "derive output does not compile under option set"
P_CYCLE = "reference cycle without a boxed rule"
MAX_BUILD_ATTEMPTS = 4


def _cycle_walks(g):
    """Inputs that actually go round the cycle of a cycle-shape grammar: the letters of c0, c1, … in cyclic order."""
    n = sum(1 for r, _ in g["rules"] if re.fullmatch(r"c\d+", r))
    if not n:
        return ["a", "ab", "an", "ano", "anoa", "anop", "anopa!", "ab!", "aba!", "abano", "z"]
    out = []
    for k in range(1, 2 * n + 3):
        w = "".join(chr(97 + (i % n)) for i in range(k))
        out += [w, w + "!", "u" + w, "u" + w + "v"]
        if n > 1:
            out.append("".join(chr(97 + ((i + 1) % n)) for i in range(k)))
    return out + ["z"]


CHECK_MAXLEN = 2      # `check*` entries: every input up to this length, and every third longer one
FORM_MAXLEN = 2       # Position / Span input forms: every boundary / sub-range of the inputs up to this length


def _cases_for(g, rnd, maxlen, nrand, extra=(), form_maxlen=FORM_MAXLEN):
    """Entries `parse_partial`, `parse` on every input; `check_partial`, `check` on the short ones and the extras; the
    `Position` and `Span` forms (every boundary, every proper sub-range) of the shortest ones."""
    cases = []
    ins = corpus.inputs_for(g, rnd, maxlen, nrand)
    ins += [x for x in extra if x not in ins]
    extra = set(extra)
    for (rule, kind) in g["rules"]:
        for k, s in enumerate(ins):
            for entry in ("parse_partial", "parse"):
                cases.append((g["gid"], rule, entry, "str", 0, 0, s))
            if len(s) <= CHECK_MAXLEN or (k % 3 == 0 and (len(s) <= CHECK_MAXLEN + 1 or s in extra)):
                for entry in ("check_partial", "check"):
                    cases.append((g["gid"], rule, entry, "str", 0, 0, s))
            if 0 < len(s) <= form_maxlen and (len(s) == 1 or k % 2 == 0):
                bs = corpus.boundaries(s)
                for a in bs:
                    if a > 0:
                        cases.append((g["gid"], rule, "parse_partial", "pos", a, 0, s))
                        cases.append((g["gid"], rule, "check", "pos", a, 0, s))
                    for b in bs:
                        if b >= a and not (a == 0 and b == bs[-1]):
                            cases.append((g["gid"], rule, "parse_partial", "span", a, b, s))
                            cases.append((g["gid"], rule, "check_partial", "span", a, b, s))
    return cases


def _ast_refs(sx, which):
    """{rule: sorted names of the defined rules its AST mentions}; which = 3 (optimized) or 4 (raw)."""
    names = {r[1] for r in sx[2:]}
    out = {}

    def walk(e, acc):
        if isinstance(e, list):
            if e[0] == "ident" and e[1] in names:
                acc.add(e[1])
            for c in e[1:]:
                walk(c, acc)
    for r in sx[2:]:
        acc = set()
        walk(r[which], acc)
        out[r[1]] = sorted(acc)
    return out


def _syn_facts(ok, dsets, tool=None):
    """The emitted modules parsed with `syn` (harness/tgen_tool): per option set and grammar, the `$boxed` argument of every
    rule and the rules every rule's type expression refers to (`(ref k f)`, `k ≥ 1`).  -> ({set: {gid: {"boxed": [(rule,
    "true"|"false")], "edges": {rule: [rules]}}}}, problems)"""
    from . import tgen
    tgen.ensure_tool()
    jobs = [(g, s.attrs) for s in dsets for g in ok]
    res = tgen.run_tool(jobs, tool=tool or tgen.TOOL)
    facts = {s.name: {} for s in dsets}
    problems = []
    k = 0
    for s in dsets:
        for g in ok:
            st, text = res[k]
            k += 1
            if st != "OK":
                problems.append({"set": s.name, "gid": g["gid"], "status": st, "message": text[:200]})
                continue
            try:
                sx = corpus.parse_sexp(text)
                rules = [r for r in sx[2:] if isinstance(r, list) and r[0] == "rule"]
                names = [r[1] for r in rules]
                edges = {}
                for r in rules:
                    acc = set()

                    def walk(e):
                        if isinstance(e, list):
                            if e and e[0] == "ref" and int(e[1]) >= 1:
                                acc.add(names[int(e[1]) - 1])
                            for c in e[1:]:
                                walk(c)
                    walk(r[5])
                    edges[r[1]] = sorted(acc)
                facts[s.name][g["gid"]] = {"boxed": [(r[1], r[4]) for r in rules], "edges": edges}
            except Exception as e:     # the extractor's output is not what this reader expects: loud, not vacuous
                problems.append({"set": s.name, "gid": g["gid"], "status": "unreadable", "message": str(e)[:200] + " in " + text[:120]})
    return facts, problems


def _short_dbg(line):
    """The `{:?}` rendering is only compared for equality: keep a digest."""
    k = line.find("\tdbg=")
    if k < 0:
        return line
    e = line.find("\t", k + 1)
    val = line[k + 5:] if e < 0 else line[k + 5:e]
    return line[:k] + "\tdbg=" + hashlib.md5(val.encode()).hexdigest()[:16] + ("" if e < 0 else line[e:])


def _driver_lines(sexp_path, lines, nproc=8):
    chunks = [lines[i::nproc] for i in range(nproc)]

    def run(chunk):
        if not chunk:
            return []
        p = subprocess.run([suites.DRIVER, sexp_path], input="\n".join(chunk) + "\n", capture_output=True, text=True)
        return p.stdout.splitlines()
    out = [None] * len(lines)
    with concurrent.futures.ThreadPoolExecutor(nproc) as ex:
        for k, res in enumerate(ex.map(run, chunks)):
            for j, l in enumerate(res):
                out[k + j * nproc] = l
    return [o if o is not None else "v=missing" for o in out]


def extras_suite(tier, seed, d):
    """Everything behind `#[cfg(feature = "grammar-extras")]`: node tags (`#tag = e`), `emit_tagged_node_reference`,
    `truncate_getter_at_node_tag`, and pest_meta's feature-only `OptimizedExpr::{NodeTag, RepOnce}` arms of the generator.
    Model-free (node tags are not part of the Lean `PExpr`): a tag must change nothing but the accessor API.
     E1  rule types (syn-parsed, harness/tgen_tool_extras) of a tagged grammar with the tag options on = with them off;
     E2  for `e+`-only rules the optimized path (feature-only `RepOnce` arm) emits the type of the raw path;
     E3  token streams of the tagged grammars are identical across NPROC_DET processes (the `tagged_nodes` maps are populated);
     E4  tagged and untagged twins, compiled with the feature, answer every case alike (verdict, offsets, stack, tracker,
         tokens) under every option set, and the tagged grammar answers alike (also `{:?}`) under all sets that keep the AST."""
    from . import tgen
    opts.build_extras()
    pairs = opts.tagged_grammars()
    rep = opts.reponce_grammars()
    ok, bad = corpus.validate([g for pr in pairs for g in pr] + rep, need_pest=False)
    by = {g["gid"]: g for g in ok}
    pairs = [(by[t["gid"]], by[p["gid"]]) for t, p in pairs if t["gid"] in by and p["gid"] in by]
    out = {"pairs": len(pairs), "rejected": [g["gid"] for g in bad], "option_sets": [s.describe() for s in opts.EXTRAS_SETS]}
    # E1: the tag options on / off, same grammar (a tag itself may change the NESTING of the emitted type: pest_meta's `rotate`
    # does not look through a `NodeTag`, so `a ~ #t = (b ~ c)` keeps the inner sequence; twins are compared by behaviour, E4)
    bases = [opts.OptSet(s.name + "_base", box_only_if_needed=s.box, emit_rule_reference=s.ref, do_not_emit_span=s.nospan,
                         no_warnings=s.nowarn, pest_optimizer=s.opt) for s in opts.EXTRAS_SETS]
    jobs = [(g, a) for s, b in zip(opts.EXTRAS_SETS, bases) for pr in pairs for g in pr for a in (s.attrs, b.attrs)]
    res = tgen.run_tool(jobs, tool=opts.EXTRAS_TGEN)
    k = 0
    types_differ, e1 = [], 0
    for s, b in zip(opts.EXTRAS_SETS, bases):
        for pr in pairs:
            for g in pr:
                (st1, x1), (st2, x2) = res[k], res[k + 1]
                k += 2
                if s.attrs == b.attrs:
                    continue
                e1 += 1
                if st1 != "OK" or st2 != "OK" or x1 != x2 or "(problem" in x1 or "(unsupported" in x1:
                    types_differ.append({"grammar": g["text"], "option_set": s.attrs, "reference_set": b.attrs or "(default)",
                                         "with": (st1 + " " + x1)[:600], "without": (st2 + " " + x2)[:600]})
    out["E1_compared"], out["types_differ"] = e1, types_differ
    # E2
    rep_ok = [by[g["gid"]] for g in rep if g["gid"] in by]
    r2 = tgen.run_tool([(g, a) for g in rep_ok for a in ("", "#[pest_optimizer = false]")], tool=opts.EXTRAS_TGEN)
    out["reponce_differ"] = [{"grammar": g["text"], "optimized": r2[2 * i][1][:600], "raw": r2[2 * i + 1][1][:600]}
                             for i, g in enumerate(rep_ok) if r2[2 * i] != r2[2 * i + 1] or r2[2 * i][0] != "OK"]
    out["E2_compared"] = len(rep_ok)
    # E3
    tagged = [t for t, _ in pairs]
    nondet, tagmods = [], 0
    for s in opts.EXTRAS_SETS:
        runs = [opts.token_streams(tagged, s, runner=opts.EXTRAS_RUNNER) for _ in range(NPROC_DET)]
        if len({hashlib.sha256(r[1]).hexdigest() for r in runs}) != 1:
            nondet.append({"option_set": s.attrs, "grammars": [g["gid"] for g in tagged if len({r[0].get(g["gid"]) for r in runs}) > 1]})
        if "emit_tagged_node_reference" in s.attrs:
            tagmods += sum(1 for g in tagged if "pub mod tags" in runs[0][0].get(g["gid"], ("", ""))[1])
    out["nondeterministic"], out["tag_modules_emitted"] = nondet, tagmods
    # E4
    ws = os.path.join(BUILD, f"ws_opts_extras_{tier}")
    lay = opts.emit_extras(pairs, opts.EXTRAS_SETS, ws, tag=tier[0])
    rc, err = opts.build_all(ws)
    out["build_rc"] = rc
    if rc != 0:
        out["build_err"] = err[err.find("error"):][:3000] if "error" in err else err[-3000:]
        blamed = opts.blame(ws, err)
        out["not_compiling"] = [{"set": sn, "gid": gid, "grammar": by[gid]["text"] if gid in by else "", "rustc": tx,
                                 "attrs": next(x.attrs for x in opts.EXTRAS_SETS if x.name == sn)} for (sn, gid), tx in blamed.items()]
        return out
    rnd = random.Random(seed)
    run_differ, e4 = [], 0
    for t, p in pairs:
        base = _cases_for(p, rnd, 3 if tier == "quick" else 4, 6)
        ref = None
        for s in opts.EXTRAS_SETS:
            prefix, where = lay[s.name]
            ot = suites.run_bins(prefix, where, [(t["gid"],) + c[1:] for c in base])
            op = suites.run_bins(prefix, where, [(p["gid"],) + c[1:] for c in base])
            for c, a, b in zip(base, ot, op):
                e4 += 1
                ia, ib = suites.parse_obs(a), suites.parse_obs(b)
                badk = [x for x in TIE_KEYS if ia.get(x) != ib.get(x)]
                if badk and len(run_differ) < 20:
                    run_differ.append({"case": list((t["gid"],) + c[1:]), "grammar": t["text"], "option_set": s.attrs or "(default)", "keys": badk,
                                       "tagged": _obs(ia, TIE_KEYS), "untagged": _obs(ib, TIE_KEYS)})
            if s.opt:
                if ref is None:
                    ref = (s, ot)
                else:
                    for c, a, b in zip(base, ref[1], ot):
                        ia, ib = suites.parse_obs(a), suites.parse_obs(b)
                        badk = [x for x in SAME_AST_KEYS if ia.get(x) != ib.get(x)]
                        if badk and len(run_differ) < 20:
                            run_differ.append({"case": list((t["gid"],) + c[1:]), "grammar": t["text"], "option_set": s.attrs, "keys": badk,
                                               "reference_set": ref[0].attrs or "(default)", "reference": _obs(ia, TIE_KEYS), "other": _obs(ib, TIE_KEYS)})
    out["E4_compared"], out["run_differ"] = e4, run_differ
    return out


def suite_opts(tier, seed):
    """Builds and runs everything once per (tree state, tier, seed); returns the directory with the raw results."""
    d = suites._cache_dir("opts", tier, seed)
    if os.path.exists(os.path.join(d, "meta.json")):
        return d
    t0 = time.time()
    timing = {}
    suites.ensure_driver()
    gs = opts.corpus_grammars(tier, seed)
    ok, bad = corpus.validate(gs)
    sets = opts.option_sets(tier, seed)
    dsets = opts.determinism_sets(tier, seed)
    os.makedirs(d, exist_ok=True)

    # --- determinism: NPROC_DET separate processes per option set --------------------------------
    t1 = time.time()
    opts.build_runner()
    det = {}
    streams = {}
    for s in dsets:
        runs = [opts.token_streams(ok, s) for _ in range(NPROC_DET)]
        digests = [hashlib.sha256(r[1]).hexdigest() for r in runs]
        first = runs[0][0]
        diff_gids = []
        if len(set(digests)) > 1:
            for g in ok:
                vals = {r[0].get(g["gid"]) for r in runs}
                if len(vals) > 1:
                    diff_gids.append(g["gid"])
        det[s.name] = {"attrs": s.attrs, "digests": digests, "bytes": len(runs[0][1]), "differing": diff_gids,
                       "panics": {gid: v[1][:300] for gid, v in first.items() if v[0] != "OK"},
                       "missing": [g["gid"] for g in ok if g["gid"] not in first]}
        streams[s.name] = {gid: v[1] for gid, v in first.items() if v[0] == "OK"}
    timing["determinism_s"] = round(time.time() - t1, 1)

    # --- the grammar source through a file (`#[grammar = "x.pest"]`: collect_data / include_str!) ----------------
    t1 = time.time()
    fdir = os.path.join(BUILD, "c20", f"grammar_files_{tier}")
    file_mode = []
    for s in (opts.DEFAULT, opts.ALL_ON, opts.RAW_BOX):
        runs = [opts.token_streams(ok, s, file_dir=fdir) for _ in range(NPROC_DET)]
        same = len({hashlib.sha256(r[1]).hexdigest() for r in runs}) == 1
        first = runs[0][0]
        inline = streams.get(s.name) or {gid: v[1] for gid, v in opts.token_streams(ok, s)[0].items() if v[0] == "OK"}
        differ = [g["gid"] for g in ok if first.get(g["gid"], ("", ""))[0] != "OK"
                  or opts.after_first_item(first[g["gid"]][1]) != opts.after_first_item(inline.get(g["gid"], ""))]
        uses_file = sum(1 for g in ok if "include_str !" in first.get(g["gid"], ("", ""))[1][:600])
        file_mode.append({"attrs": s.attrs, "deterministic": same, "differ_from_inline": differ, "grammars": len(ok), "include_str": uses_file})
    timing["file_mode_s"] = round(time.time() - t1, 1)

    # --- token-stream level facts -----------------------------------------------------------------
    t1 = time.time()
    syn, syn_problems = _syn_facts(ok, dsets)
    boxed_impl = {s.name: {gid: f["boxed"] for gid, f in syn[s.name].items()} for s in sets}
    # the two regex readers of the token text are kept as a redundant second reading: where they disagree with the `syn`
    # reading the harness is broken (reported as a broken tie), they decide nothing themselves
    extractor_diffs = []
    ast_refs = {g["gid"]: (_ast_refs(corpus.parse_sexp(g["sexp"]), 3), _ast_refs(corpus.parse_sexp(g["sexp"]), 4)) for g in ok}
    edge_checked = edge_total = 0
    for s in dsets:
        for gid, st in streams[s.name].items():
            f = syn[s.name].get(gid)
            if f is None:
                continue
            if opts.boxed_flags(st) != [tuple(x) for x in f["boxed"]]:
                extractor_diffs.append({"what": "$boxed: regex vs syn", "set": s.name, "gid": gid})
            known = set(f["edges"])
            if {r: [q for q in qs if q in known] for r, qs in opts.ref_edges(st).items()} != f["edges"]:     # (`rules::EOI` is rule 0, no grammar rule)
                extractor_diffs.append({"what": "references: regex vs syn", "set": s.name, "gid": gid})
            want = ast_refs[gid][0 if s.opt else 1]
            edge_checked += 1
            edge_total += sum(len(v) for v in f["edges"].values())
            if f["edges"] != want:
                extractor_diffs.append({"what": "references read off the emitted types vs the rule references of the AST that was walked",
                                        "set": s.name, "gid": gid, "emitted": f["edges"], "ast": want})
    structure = []   # every set against the set with the same emit_rule_reference / pest_optimizer and nothing else
    refcache = {}
    for s in dsets:
        r = opts.structure_reference(s)
        if r.attrs == s.attrs and not s.extra:
            continue
        if r.attrs not in refcache:
            refcache[r.attrs] = {gid: v[1] for gid, v in opts.token_streams(ok, r)[0].items() if v[0] == "OK"}
        rs = refcache[r.attrs]
        bad_g = []
        for gid in streams[s.name]:
            dd = [{"at": 0, "left": "(no stream)", "right": ""}] if gid not in rs else opts.storage_diff(streams[s.name][gid], rs[gid])
            if dd:
                bad_g.append({"gid": gid, "first": dd[0]})
        same = sum(1 for gid in streams[s.name] if streams[s.name].get(gid) == rs.get(gid))
        structure.append({"set": s.name, "attrs": s.attrs, "ref_attrs": r.attrs or "(default)", "grammars": len(streams[s.name]),
                          "differ_beyond_boxing": bad_g, "identical": same})
    # accessor functions: which option sets emit which accessors
    acc_impl = {s.name: {gid: opts.accessor_names(st) for gid, st in streams[s.name].items()} for s in dsets}

    # --- boxing soundness on the emitted code (no rustc, no model): every reference cycle keeps a boxed rule ----
    box_cycles = []
    box_checked = 0
    for s in dsets:
        for gid, f in syn[s.name].items():
            edges = f["edges"]
            flags = dict(f["boxed"])
            box_checked += 1
            cyc = opts.unboxed_cycle(edges, flags)
            if cyc:
                box_cycles.append({"set": s.name, "attrs": s.attrs, "gid": gid, "cycle": cyc, "boxed": flags, "edges": edges})
    timing["stream_facts_s"] = round(time.time() - t1, 1)

    # --- compile the corpus under every option set; isolate what rustc rejects and go on --------------
    t1 = time.time()
    ws = os.path.join(BUILD, f"ws_opts_{tier}")
    by_set = {s.name: s for s in sets}
    by_gid = {g["gid"]: g for g in ok}
    exclude = {}
    not_compiling = []
    build_log = []
    rc, err = 1, ""
    for attempt in range(MAX_BUILD_ATTEMPTS):
        layout = opts.emit_all(ok, sets, ws, suites.NBINS, tag=tier[0], exclude=exclude)
        t2 = time.time()
        rc, err = opts.build_all(ws)
        build_log.append({"attempt": attempt, "rc": rc, "s": round(time.time() - t2, 1)})
        if rc == 0:
            break
        crates = opts.failing_crates(err)
        if not crates:
            break                                   # fails outside the derived crates: a harness problem
        guilty = dict(opts.blame(ws, err))          # (set, gid) -> rustc text
        for crate in crates:
            m = re.match(r"c20%s(\w+)_b(\d+)$" % tier[0], crate)
            if not m or m.group(1) not in layout:
                continue
            sname, b = m.group(1), int(m.group(2))
            where = layout[sname][1]
            members = [by_gid[g] for g, k in where.items() if k == b and g not in exclude.get(sname, ())]
            if not any((sname, g["gid"]) in guilty for g in members):
                # the diagnostics do not point into a grammar module of this crate: bisect it
                for g, e2 in opts.bisect_guilty(members, by_set[sname], tag=tier[0]):
                    guilty[(sname, g["gid"])] = e2[e2.find("error"):][:1500] if "error" in e2 else e2[-1500:]
        new = 0
        for (sname, gid), text in sorted(guilty.items()):
            if gid in by_gid and gid not in exclude.get(sname, ()):
                exclude.setdefault(sname, set()).add(gid)
                not_compiling.append({"set": sname, "attrs": by_set[sname].attrs, "box": by_set[sname].box, "gid": gid,
                                      "grammar": by_gid[gid]["text"], "rustc": text})
                new += 1
        if not new:
            break
    timing["build_s"] = round(time.time() - t1, 1)
    timing["build_attempts"] = build_log

    # --- run the same cases on every option set --------------------------------------------------
    t1 = time.time()
    rnd = random.Random(seed)
    cases = []
    for g in ok:
        big = len(g["rules"]) > 40
        if g["gid"].startswith("y_"):
            cases += _cases_for(g, rnd, 2, 4, _cycle_walks(g), form_maxlen=1)     # the cycle-shape family: many small grammars
        elif tier == "quick":
            cases += _cases_for(g, rnd, 4, 10)
        else:
            cases += _cases_for(g, rnd, 3 if big else 4, 4 if big else 24)
    os.makedirs(d, exist_ok=True)          # (another check's cache collection may have removed the still empty directory)
    json.dump(cases, open(os.path.join(d, "cases.json"), "w"), ensure_ascii=False)
    for s in sets:
        prefix, where = layout[s.name]
        ex = exclude.get(s.name, ())
        if rc != 0:
            impl = ["v=nobuild"] * len(cases)        # the workspace still does not build: nothing to run
        elif ex:
            sub = [c for c in cases if c[0] not in ex]
            it = iter(suites.run_bins(prefix, where, sub))
            impl = [next(it) if c[0] not in ex else "v=nobuild" for c in cases]
        else:
            impl = suites.run_bins(prefix, where, cases)
        os.makedirs(d, exist_ok=True)
        open(os.path.join(d, f"impl_{s.name}.txt"), "w").write("\n".join(_short_dbg(l) for l in impl) + "\n")
    timing["run_impl_s"] = round(time.time() - t1, 1)

    # --- the model under each (box_only_if_needed, pest_optimizer) -------------------------------
    t1 = time.time()
    sexp = d + ".sexp"
    open(sexp, "w").write("\n".join(g["sexp"] for g in ok) + "\n")
    for bits in sorted({s.bits for s in sets}):
        model = _driver_lines(sexp, [f"opts {bits} " + suites.case_line(c) for c in cases])
        os.makedirs(d, exist_ok=True)
        open(os.path.join(d, f"model_{bits}.txt"), "w").write("\n".join(model) + "\n")
    boxed_model = {}
    for bits in sorted({s.bits for s in sets}):
        lines = _driver_lines(sexp, [f"opts {bits} {g['gid']} boxed" for g in ok], nproc=1)
        boxed_model[bits] = {g["gid"]: l for g, l in zip(ok, lines)}
    acc_model = {}
    for s in dsets:
        b3 = s.bits + ("1" if s.ref else "0")
        if b3 not in acc_model:
            lines = _driver_lines(sexp, [f"opts {b3} {g['gid']} accessors" for g in ok], nproc=1)
            acc_model[b3] = {g["gid"]: l for g, l in zip(ok, lines)}
    timing["run_model_s"] = round(time.time() - t1, 1)

    # --- cargo feature `grammar-extras`: node tags ----------------------------------------------------------------
    t1 = time.time()
    try:
        extras = extras_suite(tier, seed, d)
    except Exception as e:
        extras = {"error": str(e)[-2000:]}
    timing["extras_s"] = round(time.time() - t1, 1)

    meta = {"suite": "opts", "tier": tier, "seed": seed, "wall_s": round(time.time() - t0, 1), "timing": timing,
            "sets": [{"name": s.name, "attrs": s.attrs, "bits": s.bits, "opt": s.opt, "box": s.box, "ref": s.ref,
                      "nospan": s.nospan, "nowarn": s.nowarn} for s in sets],
            "grammars": {g["gid"]: {"text": g["text"], "rules": g["rules"], "sexp": g["sexp"]} for g in ok},
            "rejected": [{"gid": g["gid"], "why": g["reject"][:200]} for g in bad],
            "determinism": det, "structure": structure, "boxed_impl": boxed_impl, "boxed_model": boxed_model,
            "build_rc": rc, "build_err": (err[err.find("error"):][:3000] if rc != 0 and "error" in err else err[-3000:] if rc != 0 else ""),
            "not_compiling": not_compiling, "excluded": {k: sorted(v) for k, v in exclude.items()},
            "box_cycles": box_cycles, "box_cycle_checked": box_checked, "sexp": sexp,
            "dsets": [{"name": s.name, "attrs": s.attrs, "bits3": s.bits + ("1" if s.ref else "0"), "ref": s.ref} for s in dsets],
            "syn_problems": syn_problems[:20], "extractor_diffs": extractor_diffs[:20], "n_extractor_diffs": len(extractor_diffs),
            "edge_checked": edge_checked, "edge_total": edge_total, "acc_impl": acc_impl, "acc_model": acc_model,
            "file_mode": file_mode, "extras": extras}
    os.makedirs(d, exist_ok=True)
    json.dump(meta, open(os.path.join(d, "meta.json"), "w"), ensure_ascii=False)
    suites._gc_cache(12)
    return d


class _Rows:
    """Adapter for Ctx.tie: (case, impl observables, model observables)."""

    def __init__(self, cases, impl, model):
        self.cases, self.impl, self.model = cases, impl, model

    def rows(self):
        for c, i, m in zip(self.cases, self.impl, self.model):
            yield c, suites.parse_obs(i), suites.parse_obs(m)


def _read(d, name, n):
    return open(os.path.join(d, name)).read().split("\n")[:n]


def _obs(io, keys):
    return {k: io.get(k) for k in keys}


def _cross_differs(a, b):
    """Observables compared across ASTs: verdict, end offset, token tree, and the stack after a success."""
    if any(a.get(k) != b.get(k) for k in CROSS_AST_KEYS):
        return True
    return a.get("v") == "ok" and a.get("stk") != b.get("stk")


def classify_raw_vs_opt(meta, diffs):
    """diffs: list of (case, impl default obs, impl raw obs).  Runs the Lean model on the AST after each
    optimizer pass and returns [(what, detail)] aligned with diffs."""
    by_gid = {}
    for k, (c, _, _) in enumerate(diffs):
        by_gid.setdefault(c[0], []).append(k)
    lines_sexp = []
    info = {}
    for gid in by_gid:
        sx = corpus.parse_sexp(meta["grammars"][gid]["sexp"])
        stages = opts.pass_stages(sx)
        pest_opt = {r[1]: r[3] for r in sx[2:]}
        mirror_ok = stages[-1][1] == pest_opt
        info[gid] = {"stages": [n for n, _ in stages], "mirror_ok": mirror_ok,
                     "lister_pattern": any(opts.has_lister_pattern(r[4]) for r in sx[2:]),
                     "unrolled_rep": any(opts.has_unrolled_rep(r[4]) for r in sx[2:]),
                     "skip_defined": opts.skip_defined(sx),
                     "inverted_minmax": any(opts.has_inverted_minmax(r[4]) for r in sx[2:])}
        for n, exprs in stages:
            lines_sexp.append(opts.stage_grammar_sexp(sx, f"{gid}@{n}", exprs))
    path = os.path.join(BUILD, "c20", "stages_%d.sexp" % os.getpid())
    os.makedirs(os.path.dirname(path), exist_ok=True)
    open(path, "w").write("\n".join(lines_sexp) + "\n")
    req = []
    for k, (c, _, _) in enumerate(diffs):
        for n in info[c[0]]["stages"]:
            req.append(suites.case_line((f"{c[0]}@{n}",) + tuple(c[1:])))
    out = _driver_lines(path, req) if req else []
    res = []
    pos = 0
    for k, (c, dio, rio) in enumerate(diffs):
        gi = info[c[0]]
        names = gi["stages"]
        obs = [suites.parse_obs(out[pos + j]) for j in range(len(names))]
        pos += len(names)
        changed = [names[j] for j in range(1, len(names)) if _cross_differs(obs[j - 1], obs[j])]
        ends = {names[j]: (obs[j].get("v"), obs[j].get("end")) for j in range(len(names))}
        detail = {"passes_that_change_the_model": changed, "per_stage": ends, "grammar_signature": {k2: gi[k2] for k2 in ("lister_pattern", "unrolled_rep", "skip_defined", "inverted_minmax")}}
        anchored = gi["mirror_ok"] and not _cross_differs(obs[0], rio) and not _cross_differs(obs[-1], dio) \
            and obs[0].get("v") != "oof" and obs[-1].get("v") != "oof"
        if not anchored:
            detail["why"] = "the per-pass replay does not reproduce the two implementations (pass mirror %s)" % ("ok" if gi["mirror_ok"] else "differs from pest_meta")
            res.append((P_UNEXPLAINED, detail))
        elif changed and set(changed) <= {"unroll", "list"} and "list" in changed and gi["lister_pattern"]:
            res.append((P_LISTER + (" (with unroll)" if "unroll" in changed else ""), detail))
        elif changed == ["unroll"] and gi["unrolled_rep"] and gi["skip_defined"] and not gi["inverted_minmax"]:
            res.append((P_SKIP, detail))
        elif changed == ["unroll"] and gi["inverted_minmax"] and not gi["skip_defined"]:
            res.append((P_MINMAX, detail))
        else:
            detail["why"] = "difference introduced by pass(es) %s" % changed
            res.append((P_UNEXPLAINED, detail))
    try:
        os.remove(path)
    except OSError:
        pass
    return res


# ---------------------------------------------------------------------------------------------
# tie `optimizer-mirror`: the Lean mirror of pest_meta's optimizer (lean/PestTyped/Model/PestOpt.lean) against the real one

OPT_MIRROR_PROBES = [
    'a = { (PUSH("x")?)? ~ "y" }',                                       # the restorer does not look inside a RestoreOnErr it has just built
    'a = @{ (!("x" | b | "yz") ~ ANY)* ~ b }\nb = { "q" | "r" }',        # skipper: inlining a two-alternative rule
    'a = @{ (!c ~ ANY)* }\nc = { "q" | "r" | "s" }',                     # skipper: the rule map is un-rotated, three alternatives do not inline
    'a = @{ (!(b | "x") ~ ANY)* }\nb = { "q" | "r" }',
    'a = ${ "a" ~ "b" | "a" }\nb = @{ "a" ~ "b" | "a" ~ "c" | "a" }\nc = { "a" | "a" ~ "b" }',      # factorizer, all three arms
    'a = { ("a" ~ "b")* ~ "a" ~ "c" }\nb = { ("a" ~ b)* ~ "a" }',        # lister
    'a = @{ "a" ~ "b" ~ ^"c" ~ ^"d" ~ ("e" ~ "f")+ }',                    # concatenator after unroll
    'a = { "a"{3} ~ "b"{2,} ~ "c"{,2} ~ "d"{1,3} ~ ("e"{2}){2} }',        # unroller
    'a = { (b | "x")? ~ c* }\nb = { POP | "y" }\nc = { d }\nd = { DROP ~ c? | "z" }',       # restorer through rule references, with a cycle
    'a = { (("a" ~ "b") ~ "c") ~ (("d" | "e") | "f") }',                  # rotater
]


def tie_optimizer_mirror(ctx, meta):
    """`optimize raw` of the Lean mirror (command `pestopt <gid>` of model_driver, Driver/PestOpt.lean) must be the optimized AST
    pest_meta produced, rule by rule, for every grammar of the T-run corpus (the grammar list of `suites.suite_run`), of the C20
    corpus and of a few probes written around the individual passes; both ASTs of every rule are in the grammar's `dump_ast` line.
    Second tie `optimizer-mirror:stages-vs-python`: after each of the six `ast::Expr` passes (rotate … list) the Lean mirror and
    the python mirror `opts.pass_stages` (two independent transcriptions of pest_meta's source) hold the same expressions."""
    suites.ensure_driver()
    tier, seed = ctx.tier, ctx.seed
    gs = corpus.systematic_grammars() + corpus.random_grammars(seed, 16 if tier == "quick" else 160)
    reg = os.path.join(common.VERIF, "harness", "regressions", "grammars.json")
    if os.path.exists(reg):
        gs = json.load(open(reg)) + gs
    ok, _ = corpus.validate(gs, need_pest=False, need_wf=False)
    sexps = {g["gid"]: g["sexp"] for g in ok}
    origin = {gid: "T-run" for gid in sexps}
    for gid, g in meta["grammars"].items():
        if gid not in sexps:
            sexps[gid] = g["sexp"]
            origin[gid] = "C20"
    probes, bad = corpus.validate([{"gid": f"optprobe{i}", "text": t} for i, t in enumerate(OPT_MIRROR_PROBES)], need_pest=False, need_wf=False)
    if bad:
        ctx.tie_broken("optimizer-mirror", {"error": "pest_meta rejects a probe grammar", "first": [{"grammar": g["text"], "why": g["reject"][:200]} for g in bad[:3]]})
    for g in probes:
        sexps[g["gid"]] = g["sexp"]
        origin[g["gid"]] = "probe"
    gids = sorted(sexps)
    path = os.path.join(BUILD, "c20", "optmirror_%s_%d.sexp" % (tier, os.getpid()))
    os.makedirs(os.path.dirname(path), exist_ok=True)
    open(path, "w").write("\n".join(sexps[g] for g in gids) + "\n")
    out = _driver_lines(path, [f"pestopt {g}" for g in gids], nproc=4)
    st_out = _driver_lines(path, [f"pestopt {g} stages" for g in gids], nproc=4)
    try:
        os.remove(path)
    except OSError:
        pass
    nrules = nbad = changed = 0
    nst = nst_bad = 0
    py_restore_diff = []
    per_origin = {}
    pass_changes = {}
    for gid, l, sl in zip(gids, out, st_out):
        sx = corpus.parse_sexp(sexps[gid])
        try:
            lx = corpus.parse_sexp(l)
            lean = {r[1]: r[2] for r in lx[1:]} if lx and lx[0] == "opt" else None
        except Exception:
            lean = None
        per_origin[origin[gid]] = per_origin.get(origin[gid], 0) + 1
        for r in sx[2:]:
            nrules += 1
            changed += r[3] != r[4]
            if lean is None or lean.get(r[1]) != r[3]:
                nbad += 1
                if nbad <= 5:
                    ctx.tie_broken("optimizer-mirror", {"gid": gid, "rule": r[1], "raw": opts.show_sexp(r[4]), "pest_meta": opts.show_sexp(r[3]),
                                                        "lean": opts.show_sexp(lean[r[1]]) if lean and r[1] in lean else l[:200]})
        # the stages: Lean vs the python mirror
        stages = opts.pass_stages(sx)
        try:
            groups = corpus.parse_sexp("(all " + sl + ")")[1:]
            lst = {grp[1]: {r[1]: r[2] for r in grp[2:]} for grp in groups}
        except Exception:
            lst = {}
        prev = stages[0][1]
        for name, exprs in stages[1:]:
            if name == "restore":
                # the last stage of the python mirror against pest_meta's own output (the Lean driver prints the six
                # `ast::Expr` stages only; its final result is compared with pest_meta by the tie above)
                nst += 1
                if any(exprs[r[1]] != r[3] for r in sx[2:]):
                    py_restore_diff.append(gid)
                    nst_bad += 1
                    if nst_bad <= 5:
                        ctx.tie_broken("optimizer-mirror:stages-vs-python", {"gid": gid, "stage": "restore (python mirror vs pest_meta)"})
                continue
            nst += 1
            pass_changes[name] = pass_changes.get(name, 0) + sum(1 for k in exprs if exprs[k] != prev[k])
            prev = exprs
            if lst.get(name) != exprs:
                nst_bad += 1
                if nst_bad <= 5:
                    ctx.tie_broken("optimizer-mirror:stages-vs-python", {"gid": gid, "stage": name})
    ctx.ties["optimizer-mirror"] = {"cases": nrules, "agree": nrules - nbad, "observables": ["optimized expression of every rule"], "grammars": len(gids),
                                    "grammars_by_origin": per_origin, "rules_changed_by_the_optimizer": changed, "rules_changed_per_pass": pass_changes}
    ctx.ties["optimizer-mirror:stages-vs-python"] = {"cases": nst, "agree": nst - nst_bad, "observables": ["every rule after rotate, skip, unroll, concatenate, factor, list (Lean vs python mirror) and after restore (python mirror vs pest_meta)"]}
    if py_restore_diff:
        # information (not a broken tie of the Lean mirror): opts.p_restore looks inside RestoreOnErr wrappers, pest_meta's iterator does not
        ctx.coverage.setdefault("notes", []).append({"python_mirror_restore_differs_from_pest_meta": len(py_restore_diff), "first": py_restore_diff[:8]})


def check_C20(ctx):
    from . import props
    from .tgen import tie_tgen
    tie_tgen(ctx, ctx.tier, ctx.seed)      # structural tie of the emitted module vs Model.Gen / GenOpts for four option sets
    ctx.rule_text = ("corpus = hand-written (mutually) recursive grammars + a systematic family of cycle shapes (length 1..6 x definition order x rules outside the cycle x container of the edges, interlocking cycles) + probes around the optimizer passes + systematic feature grammars + "
                     "seeded random grammars (plain / stack-heavy / recursive / multi-byte, and a second batch of recursive ones), each compiled "
                     "under every option set of the tier (quick: default, all-on, pest_optimizer=false, box_only_if_needed alone, 2 seeded combinations; thorough: all 16 "
                     "combinations of box_only_if_needed x emit_rule_reference x do_not_emit_span x pest_optimizer); cases = every rule x all strings "
                     "up to length 4 over the grammar's alphabet + random longer ones x {parse_partial, parse}; one evaluation = one case "
                     "compared between the default option set and another one; non-trivial = the default run consumed input, left a stack or recorded "
                     "attempts under several rules; distinct by (grammar, rule, input)")
    d = suite_opts(ctx.tier, ctx.seed)
    meta = json.load(open(os.path.join(d, "meta.json")))
    cases = [tuple(x) for x in json.load(open(os.path.join(d, "cases.json")))]
    n = len(cases)
    tie_optimizer_mirror(ctx, meta)         # the Lean mirror of pest_meta's optimizer against pest_meta's own output
    sets = meta["sets"]
    by_name = {s["name"]: s for s in sets}
    ctx.assumptions += [
        "node tags (`grammar-extras`: emit_tagged_node_reference / truncate_getter_at_node_tag, OptimizedExpr::NodeTag / RepOnce arms) are outside the Lean model; they are observed model-free with the feature built in (harness/opts_runner_extras, tgen_tool_extras, a runner workspace): option on/off leaves the syn-parsed rule types equal, tagged and untagged twins parse alike, streams are deterministic",
        "do_not_emit_span and simulate_pair_api are parsed into Config and never read (generator/src: no use besides typed.rs:111,121); no_warnings only guards an eprintln! in parse_typed_derive; the model (`emitWith`) has all options and reads the same three the code reads — T-gen:structure (10 option sets) and T-gen:accessors compare the real output under every option with it",
        "pest_meta's optimizer is external: both ASTs are inputs of the model; raw-vs-optimized differences caused by its `unroll` (with skip rules) and `list` passes are known findings F-OPT-3 / F-OPT-1",
        "`compiles` is validated on the corpus (rustc), not proved; the Lean theorem C20_cycles_boxed proves that every reference cycle keeps a boxed rule",
    ]

    # ---------------- determinism ----------------
    det = meta["determinism"]
    nd_total = 0
    for name, r in det.items():
        nd_total += 1
        if len(set(r["digests"])) != 1:
            ctx.violation("nondeterministic token stream across processes", (",".join(r["differing"][:5]), "*", "derive", "tokens", 0, 0, ""),
                          option_set=r["attrs"], digests=r["digests"], grammars=r["differing"][:20])
        if r["panics"] or r["missing"]:
            ctx.tie_broken("opts_runner", {"set": name, "panics": r["panics"], "missing": r["missing"]})
    # ---------------- structure on the token stream ----------------
    for st in meta["structure"]:
        for e in st["differ_beyond_boxing"]:
            ctx.violation("token stream differs beyond the storage decision", (e["gid"], "*", "derive", "tokens", 0, 0, ""),
                          option_set=st["attrs"], reference=st["ref_attrs"], first_difference=e["first"])
    for fm in meta["file_mode"]:
        if not fm["deterministic"]:
            ctx.violation("nondeterministic token stream across processes", ("*", "*", "derive", "tokens", 0, 0, ""),
                          option_set=fm["attrs"], source="#[grammar = \"file\"]")
        for gid in fm["differ_from_inline"][:10]:
            ctx.violation("token stream depends on how the grammar source is given (file vs inline)", (gid, "*", "derive", "tokens", 0, 0, ""),
                          option_set=fm["attrs"] or "(default)", grammar=meta["grammars"][gid]["text"])
        if fm["include_str"] != fm["grammars"]:
            ctx.tie_broken("opts_runner", {"error": "file mode did not go through include_str!", **{k: fm[k] for k in ("attrs", "include_str", "grammars")}})
    # ---------------- the readers of the emitted code agree with each other and are not vacuous ----------------
    ctx.ties["T-gen:extractors"] = {"cases": meta["edge_checked"], "agree": meta["edge_checked"] - meta["n_extractor_diffs"],
                                    "observables": ["$boxed and rule references of every emitted rule type: syn reading = regex reading; references = the AST's rule references"],
                                    "references_read": meta["edge_total"]}
    if meta["n_extractor_diffs"] or meta["syn_problems"]:
        ctx.tie_broken("T-gen:extractors", {"disagreements": meta["n_extractor_diffs"], "first": meta["extractor_diffs"][:5], "unreadable": meta["syn_problems"][:5]})
    if meta["edge_total"] == 0:
        ctx.tie_broken("T-gen:extractors", {"error": "no rule reference was read off any emitted module: the boxing oracle would be vacuous"})
    # ---------------- T-gen: accessor functions per option set (Model.GenOpts.emitWith) ----------------
    atot = aagree = 0
    adiffs = []
    with_acc = 0
    for ds in meta["dsets"]:
        for gid, impl_acc in meta["acc_impl"][ds["name"]].items():
            line = meta["acc_model"][ds["bits3"]].get(gid, "")
            model_acc = {}
            if line.startswith("acc="):
                for part in line[4:].split(";"):
                    if ":" in part:
                        nm, _, lst = part.partition(":")
                        model_acc[nm] = [x for x in lst.split(",") if x]
            atot += 1
            with_acc += any(impl_acc.values())
            if impl_acc == model_acc:
                aagree += 1
            elif len(adiffs) < 5:
                adiffs.append({"set": ds["name"], "attrs": ds["attrs"], "grammar": gid, "impl": impl_acc, "model": model_acc})
    ctx.ties["T-gen:accessors"] = {"cases": atot, "agree": aagree, "observables": ["names of the accessor functions in every rule's impl block"],
                                   "modules_with_accessors": with_acc}
    if atot != aagree:
        ctx.tie_broken("T-gen:accessors", {"disagreements": atot - aagree, "first": adiffs})
    if with_acc == 0:
        ctx.tie_broken("T-gen:accessors", {"error": "no accessor function was read off any emitted module"})
    # ---------------- cargo feature grammar-extras ----------------
    ex = meta["extras"]
    if "error" in ex:
        ctx.tie_broken("extras", {"error": ex["error"]})
    else:
        for td in ex.get("types_differ", []):
            ctx.violation("emit_tagged_node_reference / truncate_getter_at_node_tag change the emitted rule types", ("x_tags", "*", "derive", "tokens", 0, 0, ""), **td)
        for td in ex.get("reponce_differ", []):
            ctx.violation("grammar-extras: `e+` on the optimized path is not the type of the raw path", ("x_reponce", "*", "derive", "tokens", 0, 0, ""), **td)
        for nd in ex.get("nondeterministic", []):
            ctx.violation("nondeterministic token stream across processes", (",".join(nd["grammars"][:5]), "*", "derive", "tokens", 0, 0, ""),
                          option_set=nd["option_set"], feature="grammar-extras")
        for nc in ex.get("not_compiling", []):
            ctx.violation(P_NOCOMPILE, (nc["gid"], "*", "rustc", "build", 0, 0, ""), grammar=nc["grammar"], option_set=nc["attrs"],
                          feature="grammar-extras", rustc=nc["rustc"])
        if ex.get("build_rc", 0) != 0 and not ex.get("not_compiling"):
            ctx.tie_broken("extras", {"error": "the grammar-extras workspace does not build", "cargo": ex.get("build_err", "")})
        for rd in ex.get("run_differ", []):
            c = tuple(rd["case"])
            ctx.violation("a node tag / tag option changes a parse result (grammar-extras)", c, **{k: v for k, v in rd.items() if k != "case"})
        if ex.get("tag_modules_emitted", 0) == 0:
            ctx.tie_broken("extras", {"error": "no `pub mod tags` in any stream: the feature does not seem to be on"})
        ctx.coverage["grammar_extras"] = {k: ex.get(k) for k in ("pairs", "E1_compared", "E2_compared", "E4_compared", "tag_modules_emitted", "build_rc")}
    # ---------------- T-gen: boxed decisions ----------------
    tot = agree = 0
    bdiffs = []
    for s in sets:
        for gid, flags in meta["boxed_impl"][s["name"]].items():
            tot += 1
            impl = "boxed=" + ",".join(f"{nm}:{b}" for nm, b in flags)
            mod = meta["boxed_model"][s["bits"]].get(gid)
            if impl == mod:
                agree += 1
            elif len(bdiffs) < 5:
                bdiffs.append({"set": s["name"], "grammar": gid, "impl": impl, "model": mod})
    ctx.ties["T-gen:boxed"] = {"cases": tot, "agree": agree, "observables": ["$boxed argument of every rule!"]}
    if tot != agree:
        ctx.tie_broken("T-gen:boxed", {"disagreements": tot - agree, "first": bdiffs})
    # ---------------- rustc: every option set must compile every grammar pest accepts ----------------
    for nc in meta["not_compiling"]:
        ctx.violation(P_NOCOMPILE_BOX if nc["box"] else P_NOCOMPILE, (nc["gid"], "*", "rustc", "build", 0, 0, ""),
                      grammar=nc["grammar"], option_set=nc["attrs"] or "(default)", rustc=nc["rustc"],
                      replay="derive TypedParser on `grammar` with the attributes `option_set` and run cargo build")
    if meta["build_rc"] != 0:
        ctx.tie_broken("harness", {"error": "the option workspace still does not build after isolating the grammars rustc pointed at",
                                   "excluded": meta["excluded"], "cargo": meta["build_err"]})
    # ---------------- boxing soundness read off the emitted code ----------------
    for bc in meta["box_cycles"]:
        ctx.violation(P_CYCLE, (bc["gid"], bc["cycle"][0], "derive", "tokens", 0, 0, ""),
                      grammar=meta["grammars"][bc["gid"]]["text"], option_set=bc["attrs"] or "(default)",
                      cycle=" -> ".join(bc["cycle"]), boxed=bc["boxed"], edges=bc["edges"])

    # ---------------- ties: model under each option set ----------------
    impl = {s["name"]: _read(d, f"impl_{s['name']}.txt", n) for s in sets}
    model = {b: _read(d, f"model_{b}.txt", n) for b in sorted({s["bits"] for s in sets})}
    for s in sets:
        ex = set(meta["excluded"].get(s["name"], ()))
        ctx.tie(f"T-opts:{s['name']}[{s['attrs'] or 'default'}]", _Rows(cases, impl[s["name"]], model[s["bits"]]), TIE_KEYS,
                lambda c, ex=ex: c[0] not in ex)

    # ---------------- oracle: option invariance on the implementation ----------------
    def plain(s):
        return (s["box"], s["ref"], s["nospan"], s["nowarn"])
    ref = min((s for s in sets if s["opt"]), key=plain)               # the default option set
    raws = [s for s in sets if not s["opt"]]
    ref_raw = min(raws, key=plain) if raws else None
    ref_obs = [suites.parse_obs(l) for l in impl[ref["name"]]]
    dist = {"same_ast_compared": 0, "cross_ast_compared": 0, "cross_ast_differ": 0, "accepted": 0, "rejected": 0,
            "recursive_grammars": sum(1 for g in meta["grammars"] if g.startswith(("m_", "rec")) or g == "s_rec"),
            "grammars": len(meta["grammars"]), "option_sets": len(sets), "processes_per_option_set": NPROC_DET,
            "determinism_option_sets": nd_total, "cycle_shape_grammars": sum(1 for g in meta["grammars"] if g.startswith("y_")),
            "boxing_oracle_checked": meta["box_cycle_checked"], "not_compiling": len(meta["not_compiling"])}
    for c, io in zip(cases, ref_obs):
        dist["accepted" if io.get("v") == "ok" else "rejected"] += 1
    cross = []
    for s in sets:
        base = ref if s["opt"] else ref_raw
        if s is base:
            continue
        base_obs = ref_obs if base is ref else [suites.parse_obs(l) for l in impl[base["name"]]]
        for c, io_r, line in zip(cases, base_obs, impl[s["name"]]):
            io = suites.parse_obs(line)
            if io.get("v") == "nobuild" or io_r.get("v") == "nobuild":
                continue
            ctx.count(c, props.nontrivial_obs(io_r))
            dist["same_ast_compared"] += 1
            bad = [k for k in SAME_AST_KEYS if io.get(k) != io_r.get(k)]
            if bad:
                ctx.violation("options that keep the AST change " + ",".join(bad), c, option_set=s["attrs"],
                              reference_set=base["attrs"] or "(default)", reference=_obs(io_r, TIE_KEYS), other=_obs(io, TIE_KEYS))
    if ref_raw is not None:
        for c, io_r, line in zip(cases, ref_obs, impl[ref_raw["name"]]):
            io = suites.parse_obs(line)
            if io.get("v") == "nobuild" or io_r.get("v") == "nobuild":
                continue
            ctx.count(c, props.nontrivial_obs(io_r))
            dist["cross_ast_compared"] += 1
            if _cross_differs(io_r, io):
                dist["cross_ast_differ"] += 1
                cross.append((c, io_r, io, ref_raw["attrs"]))
    for c, io in zip(cases, ref_obs):
        ctx.sample(c, io)
    # the raw path of every non-optimized set walks the same AST: attribute each distinct case once
    seen = {}
    for c, io_r, io, attrs in cross:
        seen.setdefault(c, (io_r, io, attrs))
    diffs = [(c, v[0], v[1]) for c, v in seen.items()]
    classes = classify_raw_vs_opt(meta, diffs) if diffs else []
    cls_count = {}
    for (c, io_r, io), (what, detail) in zip(diffs, classes):
        cls_count[what] = cls_count.get(what, 0) + 1
        ctx.violation(what, c, option_set=seen[c][2], default=_obs(io_r, ["v", "end", "stk", "tok"]),
                      raw=_obs(io, ["v", "end", "stk", "tok"]), **detail)
    dist["cross_ast_classes"] = cls_count
    dist["timing"] = meta["timing"]
    ctx.coverage["distribution"] = dist
    ctx.coverage["option_sets"] = [{"name": s["name"], "attrs": s["attrs"] or "(default)"} for s in sets]
    ctx.coverage["determinism"] = {k: {"attrs": v["attrs"], "bytes": v["bytes"], "identical": len(set(v["digests"])) == 1} for k, v in det.items()}
    ctx.coverage["structure"] = meta["structure"]
