"""Tie T-gen (structure): the module the REAL generator emits versus `Model.Gen` / `Model.GenOpts`.

impl side : `harness/tgen_tool` runs /repo's `derive_typed_parser` as a library, parses the emitted token stream
            with `syn`, resolves every path of every `rule!` argument through the emitted `generics` / `rules` /
            `constant_wrappers` / `unicode` modules and the runtime crate's alias definitions (read from
            /repo/main/src at run time) and prints a `(nodegrammar …)` S-expression;
model side: `model_driver`: `tgen <opts> <gid>` prints `gen ast` / `genWith cfg optimized raw` in the same syntax.

Compared: rule order, names, `$atomicity` / `$emission` / `$boxed` tokens, the `Skipped` alias, and every node of
every rule body (arities, every SKIP flag, rule indices, string constants, ranges, slice bounds, repetition
bounds).  A difference is localised to the first differing rule and, inside it, the first differing sub-term.

    from .tgen import tie_tgen;  tie_tgen(ctx, ctx.tier, ctx.seed)
"""
import collections, concurrent.futures, hashlib, json, os, re, subprocess, time
from . import common
from .common import BUILD, CACHE, LEAN
import corpus, opts as optsmod

HERE = os.path.dirname(os.path.abspath(__file__))
TOOL_DIR = os.path.join(corpus.HERE, "tgen_tool")
TOOL = os.path.join(corpus.TARGET, "debug", "tgen_tool")
DRIVER = os.path.join(LEAN, ".lake", "build", "bin", "model_driver")
RUNTIME_SRC = "/repo/main/src"
TIE = "T-gen:structure"
HEAD = re.compile(r"\((\w+)")

# (name, derive attributes, `tgen <opts>` of the model driver)
# model option string = <box_only_if_needed><pest_optimizer><emit_rule_reference><do_not_emit_span><no_warnings> (Driver/TGen.lean
# `config`): the model (`Model/GenOpts.lean`) HAS all of these options; that the last three do not change a `rule!`
# argument is exactly what this tie observes (`Props/C20Emit.lean` proves it of the model)
OPTION_SETS = [
    ("default", "", "default"),
    ("raw", "#[pest_optimizer = false]", "00"),
    ("boxmin", "#[box_only_if_needed]", "11"),
    ("raw+boxmin", "#[pest_optimizer = false] #[box_only_if_needed]", "10"),
    ("ref", "#[emit_rule_reference]", "01100"),
    ("nospan+nowarn", "#[do_not_emit_span] #[no_warnings]", "01011"),
    ("allon", "#[emit_rule_reference] #[box_only_if_needed] #[no_warnings] #[do_not_emit_span]", "11111"),
    ("raw+ref+nospan", "#[pest_optimizer = false] #[emit_rule_reference] #[do_not_emit_span]", "00110"),
    ("raw+boxmin+ref+nowarn", "#[pest_optimizer = false] #[box_only_if_needed] #[emit_rule_reference] #[no_warnings]", "10101"),
    ("tag-options", "#[emit_tagged_node_reference] #[truncate_getter_at_node_tag = false] #[simulate_pair_api] #[no_warnings]", "01001"),
]


def designed_grammars():
    """Grammars aimed at the generator's structure (not at parsing): every built-in, Unicode properties, the
    `seq!` / `choices!` invocations emitted for arities >= 12, counted repetitions, slices, the four `Skipped`
    aliases, strings that need escaping."""
    gs = []

    def add(name, text):
        gs.append({"gid": name, "text": text})
    add("t_builtins", r'''
b0 = { ANY ~ SOI ~ EOI ~ NEWLINE }
b1 = { PEEK ~ PEEK_ALL ~ POP ~ POP_ALL ~ DROP }
b2 = { ASCII_DIGIT ~ ASCII_NONZERO_DIGIT ~ ASCII_BIN_DIGIT ~ ASCII_OCT_DIGIT ~ ASCII_HEX_DIGIT }
b3 = { ASCII_ALPHA_LOWER | ASCII_ALPHA_UPPER | ASCII_ALPHA | ASCII_ALPHANUMERIC | ASCII }
b4 = @{ (ASCII_DIGIT | ASCII_OCT_DIGIT)+ ~ !ASCII_HEX_DIGIT ~ &ASCII_ALPHANUMERIC ~ ASCII_BIN_DIGIT? }
b5 = ${ PUSH(ASCII_ALPHA+) ~ (POP | DROP | PEEK)* ~ EOI }
''')
    add("t_implicit_unused", r'''
a = { "a" ~ WHITESPACE ~ COMMENT }
''')
    add("t_unicode", r'''
u0 = { LETTER ~ UPPERCASE_LETTER ~ LOWERCASE_LETTER ~ NUMBER }
u1 = @{ (XID_START ~ XID_CONTINUE*) | ALPHABETIC+ | WHITE_SPACE }
u2 = { HAN | HIRAGANA | LATIN | EMOJI }
u3 = !{ !PUNCTUATION ~ &SYMBOL ~ MATH? ~ DECIMAL_NUMBER{2} }
''')
    terms13 = " ~ ".join(f'"{c}"' for c in "abcdefghijklm")
    alts14 = " | ".join(f'"{c}"' for c in "abcdefghijklmn")
    add("t_arity", f'''
s12 = {{ {" ~ ".join(f'"{c}"' for c in "abcdefghijkl")} }}
s13 = {{ {terms13} }}
c12 = {{ {" | ".join(f'"{c}"' for c in "abcdefghijkl")} }}
c14 = @{{ {alts14} }}
m = !{{ ({terms13}) | ({alts14}) ~ s13 | c14 }}
s2 = {{ "a" ~ ("b" ~ "c") ~ (("d" ~ "e") ~ "f") }}
c2 = {{ "a" | ("b" | "c") | (("d" | "e") | "f") }}
WHITESPACE = _{{ " " }}
''')
    add("t_counted", r'''
a = { "a" }
r0 = { a{3} ~ a{1} ~ a{10} }
r1 = { a{2,} ~ a{0,} }
r2 = { a{,4} ~ a{,1} }
r3 = @{ a{2,5} ~ a{3,3} ~ a{0,1} }
r4 = !{ (a ~ "b"){2} ~ ("c" | a){1,2} ~ (a?){2} ~ (a*){,2} }
r5 = ${ (a{2}){3} ~ a+ ~ a* ~ a? }
WHITESPACE = _{ " " }
''')
    add("t_slices", r'''
p0 = { PUSH("a") ~ PEEK[0..1] ~ PEEK[..] ~ PEEK[1..] ~ PEEK[..2] }
p1 = { PEEK[-1..] ~ PEEK[..-1] ~ PEEK[-3..-1] ~ PEEK[2..-2] ~ PEEK[0..0] }
p2 = @{ PUSH(PUSH("a") ~ PEEK) ~ PEEK_ALL ~ POP_ALL }
''')
    for name, skip in (("n", ""), ("w", 'WHITESPACE = { " " }\n'), ("c", 'COMMENT = @{ "#" }\n'),
                       ("wc", 'COMMENT = _{ "#" ~ x }\nWHITESPACE = ${ " " | x }\n')):
        add(f"t_skip_{name}", r'''
x = { "x" }
n = { x ~ x* ~ (x ~ x)+ }
s = _{ x ~ x* ~ (x | n)? }
a = @{ x ~ n* ~ s }
c = ${ x ~ a+ ~ n ~ s }
t = !{ x ~ c ~ a* }
''' + skip)
    add("t_strings", "q0 = { \"\\\"\" ~ \"\\\\\" ~ \"\\n\\t\\r\" ~ \"\\u{1F600}\" ~ \"\" ~ \"é中\" ~ \"\\x41\" }\n"
                     "q1 = { ^\"aBc\" ~ ^\"\" ~ ^\"é\" ~ '\\u{00}'..'\\u{10FFFF}' ~ 'a'..'a' ~ '\\''..'\"' }\n"
                     "q2 = @{ (!(\"ab\" | \"c\" | \"é\") ~ ANY)* ~ (!\"\\\"\" ~ ANY)* }\n")
    add("t_preds", r'''
a = { "a" }
p0 = { !a ~ &a ~ !(a ~ a) ~ &(a | a) ~ !!a ~ &!&a }
p1 = @{ (!a ~ ANY)+ ~ (&a ~ a)* ~ (!(a | "b") ~ ANY)* }
p2 = { PUSH(!a ~ ANY) ~ !PEEK ~ &POP }
''')
    add("t_keywords", r'''
type = { "a" ~ fn? }
fn = @{ "b" ~ type* }
w_0 = { type | fn }
rules = _{ w_0 ~ generics }
generics = { "g" }
Rule = { rules }
''')
    return gs


def corpus_grammars(tier, seed):
    nrand = 200 if tier == "quick" else 1500
    gs = designed_grammars() + corpus.systematic_grammars() + corpus.random_grammars(seed, nrand)
    try:
        gs += optsmod.corpus_grammars(tier, seed)
    except Exception:
        pass
    seen, out = set(), []
    for g in gs:
        if g["gid"] not in seen:
            seen.add(g["gid"])
            out.append(dict(g))
    return out


def ensure_tool(tool_dir=TOOL_DIR, env=None):
    lock = os.path.join(tool_dir, "Cargo.lock")
    subprocess.check_call(["cp", "/repo/Cargo.lock", lock])
    p = subprocess.run(["cargo", "build", "--offline", "-q"], cwd=tool_dir, env=env or corpus.ENV, capture_output=True, text=True)
    if p.returncode != 0:
        raise RuntimeError("tgen_tool does not build against /repo's generator:\n" + p.stderr[-3000:])


def ensure_driver():
    p = subprocess.run(["lake", "build", "model_driver"], cwd=LEAN, capture_output=True, text=True)
    if p.returncode != 0:
        raise RuntimeError("model_driver does not build:\n" + p.stdout[-2000:] + p.stderr[-2000:])


def _spread(xs, n, run):
    """Runs `run` on n interleaved slices of xs in parallel (big grammars are adjacent in the corpus) and puts
    the answers back in order."""
    n = max(1, min(n, len(xs)))
    out = [None] * len(xs)
    with concurrent.futures.ThreadPoolExecutor(n) as ex:
        for k, r in enumerate(ex.map(run, [xs[k::n] for k in range(n)])):
            out[k::n] = r
    return out


def run_tool(jobs, tool=TOOL, runtime_src=RUNTIME_SRC, nproc=8):
    """jobs: [(grammar, attrs)] -> [("OK", sexp) | ("PANIC"|"ERR", message)] in order."""
    lines = [f"{g['gid']}\t{corpus.hexs(g['text'])}\t{corpus.hexs(attrs)}" for g, attrs in jobs]
    env = dict(os.environ, TGEN_RUNTIME_SRC=runtime_src)

    def run(chunk):
        p = subprocess.run([tool], input="\n".join(chunk) + "\n", capture_output=True, text=True, env=env)
        res = []
        for l in p.stdout.splitlines():
            f = l.split("\t", 2)
            if len(f) == 3:
                res.append((f[1], f[2] if f[1] == "OK" else corpus.unhex(f[2])))
        res += [("ERR", "tgen_tool gave no answer (exit %s): %s" % (p.returncode, p.stderr[-300:]))] * (len(chunk) - len(res))
        return res[:len(chunk)]
    return _spread(lines, nproc, run)


def run_model(sexp_path, jobs, driver=DRIVER, nproc=8):
    """jobs: [(grammar, model opts)] -> [sexp text] in order."""
    lines = [f"tgen {o} {g['gid']}" for g, o in jobs]

    def run(chunk):
        p = subprocess.run([driver, sexp_path], input="\n".join(chunk) + "\n", capture_output=True, text=True)
        res = p.stdout.split("\n")[:len(chunk)]
        return res + ["v=missing"] * (len(chunk) - len(res))
    return _spread(lines, nproc, run)


# ---------------------------------------------------------------------------------------------
# comparison

def show(sx):
    return sx if isinstance(sx, str) else "(" + " ".join(show(x) for x in sx) + ")"


FIELDS = {"rep": ["skip", "min", "max", "body"], "ref": ["rule", "skip"], "range": ["lo", "hi"], "peekslice": ["start", "end"],
          "array": ["len", "elem"], "pair": ["0", "1"]}


def _label(head, k):
    """Name of the k-th argument of a node: `seq.skip`, `seq[0]`, `choice[2]`, `rep.min`, `ref.rule`, `range.hi`, `opt` …"""
    if head == "seq":
        return "seq.skip" if k == 1 else f"seq[{k - 2}]"
    if head in FIELDS and k - 1 < len(FIELDS[head]):
        return f"{head}.{FIELDS[head][k - 1]}"
    if head in ("opt", "pos", "neg", "push", "atomicrepeat", "skipped"):
        return head
    return f"{head}[{k - 1}]"


def first_diff(a, b, path=()):
    """Path to, and the two versions of, the first (left-most, outermost-first) sub-term that differs and
    cannot be explained by a difference further down."""
    if a == b:
        return None
    if isinstance(a, list) and isinstance(b, list) and a and b and isinstance(a[0], str) and a[0] == b[0] and len(a) == len(b):
        for k in range(1, len(a)):
            d = first_diff(a[k], b[k], path + (_label(a[0], k),))
            if d:
                return d
    return "/".join(path) or ".", show(a), show(b)


def contains_head(sx, head):
    if isinstance(sx, list):
        if sx and sx[0] == head:
            return True
        return any(contains_head(x, head) for x in sx)
    return False


def collect_heads(sx, head, out):
    if isinstance(sx, list):
        if sx and sx[0] == head:
            out.append(show(sx))
        for x in sx:
            collect_heads(x, head, out)


def compare_module(impl_text, model_text):
    """None when equal, else a dict naming the first differing rule and sub-term."""
    try:
        im = corpus.parse_sexp(impl_text)
    except Exception:
        return {"where": "impl S-expression does not parse", "impl": impl_text[:300]}
    try:
        mo = corpus.parse_sexp(model_text)
    except Exception:
        return {"where": "model S-expression does not parse", "model": model_text[:300]}
    if im == mo:
        return None
    if not (isinstance(im, list) and isinstance(mo, list) and len(im) >= 3 and len(mo) >= 3):
        return {"where": "shape", "impl": impl_text[:300], "model": model_text[:300]}
    if im[2] != mo[2]:
        p, x, y = first_diff(im[2], mo[2])
        return {"where": "generics::Skipped", "path": p, "impl": x[:400], "model": y[:400]}
    ir = [x for x in im[3:] if isinstance(x, list) and x and x[0] == "rule"]
    mr = [x for x in mo[3:] if isinstance(x, list) and x and x[0] == "rule"]
    for k in range(max(len(ir), len(mr))):
        if k >= len(ir):
            return {"where": "rule list", "rule": mr[k][1], "rule_index": k + 1, "impl": "(no such rule!)", "model": show(mr[k])[:400]}
        if k >= len(mr):
            return {"where": "rule list", "rule": ir[k][1], "rule_index": k + 1, "impl": show(ir[k])[:400], "model": "(no such rule)"}
        x, y = ir[k], mr[k]
        if x == y:
            continue
        name = x[1] if len(x) > 1 and isinstance(x[1], str) else "?"
        if len(x) != 6 or len(y) != 6:
            return {"where": "rule shape", "rule": name, "rule_index": k + 1, "impl": show(x)[:400], "model": show(y)[:400]}
        for pos, what in ((1, "name"), (2, "$atomicity"), (3, "$emission"), (4, "$boxed")):
            if x[pos] != y[pos]:
                return {"where": what, "rule": name, "rule_index": k + 1, "impl": show(x[pos]), "model": show(y[pos])}
        p, xs, ys = first_diff(x[5], y[5])
        return {"where": "body", "rule": name, "rule_index": k + 1, "path": p, "impl": xs[:400], "model": ys[:400]}
    probs = [show(x) for x in im[3:] if isinstance(x, list) and x and x[0] == "problem"]
    return {"where": "extractor problems", "impl": probs[:5], "model": "(none)"}


# ---------------------------------------------------------------------------------------------

def compute(tier, seed, tool=TOOL, runtime_src=RUNTIME_SRC, grammars=None, option_sets=None, workdir=None):
    """Runs both sides; returns a JSON-able summary."""
    t0 = time.time()
    gs = grammars if grammars is not None else corpus_grammars(tier, seed)
    # grammars pest's validator rejects stay in: when the generator does not refuse them (e.g. a reference to an
    # undefined WHITESPACE -> AlwaysFail) the structure is compared all the same; a refusal there is not a disagreement
    ok, bad = corpus.validate(gs, need_pest=False, need_wf=False)
    sets = option_sets or OPTION_SETS
    workdir = workdir or os.path.join(BUILD, "tgen")
    os.makedirs(workdir, exist_ok=True)
    sexp_path = os.path.join(workdir, f"grammars_{tier}_{seed}.sexp")
    with open(sexp_path, "w") as f:
        for g in ok:
            f.write(g["sexp"] + "\n")
    jobs = [(g, s) for g in ok for s in sets]
    t1 = time.time()
    with concurrent.futures.ThreadPoolExecutor(2) as ex:
        fi = ex.submit(run_tool, [(g, s[1]) for g, s in jobs], tool, runtime_src)
        fm = ex.submit(run_model, sexp_path, [(g, s[2]) for g, s in jobs])
        impl, model = fi.result(), fm.result()
    t2 = time.time()
    agree = rules = 0
    diffs, panics, unsupported = [], [], []
    refused = 0
    kinds = collections.Counter()
    per_set = {s[0]: [0, 0] for s in sets}
    for (g, s), (st, itext), mtext in zip(jobs, impl, model):
        per_set[s[0]][0] += 1
        if st == "PANIC" and not g.get("pestok", True):
            refused += 1
            per_set[s[0]][0] -= 1
            continue
        if st != "OK":
            panics.append({"grammar": g["gid"], "options": s[1], "status": st, "message": itext[:300], "text": g["text"][:300]})
            continue
        if itext == mtext:          # fast path: identical text
            d = None
        else:
            d = compare_module(itext, mtext)
        if "(unsupported" in itext or "(problem" in itext:
            sx = corpus.parse_sexp(itext)
            for h in ("unsupported", "problem"):
                acc = []
                collect_heads(sx, h, acc)
                unsupported += [{"grammar": g["gid"], "options": s[1], "construct": x[:300]} for x in acc[:3]]
        rules += itext.count("(rule ")
        kinds.update(HEAD.findall(itext))
        if d is None:
            agree += 1
            per_set[s[0]][1] += 1
        else:
            diffs.append({"grammar": g["gid"], "options": s[1] or "(default)", **d, "text": g["text"][:400]})
    return {"grammars": len(ok), "rejected_by_validate": len(bad), "option_sets": [s[0] for s in sets], "cases": len(jobs) - refused,
            "refused_pest_invalid": refused,
            "agree": agree, "rules_compared": rules, "node_kinds": dict(sorted(kinds.items())), "per_set": per_set, "diffs": diffs[:50], "ndiffs": len(diffs),
            "panics": panics[:20], "npanics": len(panics), "unsupported": unsupported[:20], "nunsupported": len(unsupported),
            "wall_s": round(time.time() - t0, 2), "run_s": round(t2 - t1, 2)}


def printer_roundtrip(workdir=None):
    """`TGen.showNode` is checked to be a right inverse of `Driver.toNode` on the T-raw corpus (hand-built `Node`
    terms covering the constructors the generator never emits: skipchars, array, pair, raw eoi, …): the driver
    reads `rawgen.grammar_sexp(g)` and must print it back."""
    import rawgen
    gs = rawgen.all_raw()
    workdir = workdir or os.path.join(BUILD, "tgen")
    os.makedirs(workdir, exist_ok=True)
    path = os.path.join(workdir, "raw_roundtrip.sexp")
    texts = [rawgen.grammar_sexp(g) for g in gs]
    open(path, "w").write("\n".join(texts) + "\n")
    out = run_model(path, [(g, "default") for g in gs], nproc=1)
    bad = []
    nodes = 0
    for g, t, o in zip(gs, texts, out):
        a = corpus.parse_sexp(t)
        nodes += t.count("(")
        try:
            b = corpus.parse_sexp(o)
        except Exception:
            b = None
        if a != b:
            d = compare_module(o, t) if b is not None else {"where": "driver output does not parse", "impl": o[:200]}
            bad.append({"grammar": g["gid"], **(d or {})})
    return {"cases": len(gs), "agree": len(gs) - len(bad), "terms": nodes, "bad": bad[:5]}


def _own_key():
    return common.tree_hash([os.path.join(HERE, "tgen.py"), TOOL_DIR, os.path.join(corpus.HERE, "corpus.py"), os.path.join(corpus.HERE, "opts.py"), os.path.join(corpus.HERE, "rawgen.py"),
                             os.path.join(LEAN, "Driver"), os.path.join(LEAN, "PestTyped", "Model", "Gen.lean"),
                             os.path.join(LEAN, "PestTyped", "Model", "GenOpts.lean"), os.path.join(LEAN, "PestTyped", "Model", "Node.lean"),
                             os.path.join(LEAN, "PestTyped", "Model", "Pest.lean")])


def summary(tier, seed):
    """Cached per (content of /repo's sources, this machinery, tier, seed): the three checks that call the tie
    share one run."""
    os.makedirs(CACHE, exist_ok=True)
    key = hashlib.sha256(f"{common.repo_key()}|{_own_key()}|{tier}|{seed}".encode()).hexdigest()[:20]
    path = os.path.join(CACHE, f"tgen-{tier}-{key}.json")
    if os.path.exists(path):
        try:
            return json.load(open(path))
        except Exception:
            pass
    ensure_tool()
    ensure_driver()
    res = compute(tier, seed)
    res["roundtrip"] = printer_roundtrip()
    tmp = path + f".{os.getpid()}.tmp"
    with open(tmp, "w") as f:
        json.dump(res, f, ensure_ascii=False)
    os.replace(tmp, path)
    return res


def tie_tgen(ctx, tier=None, seed=None):
    """Adds `ctx.ties["T-gen:structure"]`; a disagreement is a broken tie carrying the first differing rule and
    the first differing sub-term of its body."""
    tier = tier or ctx.tier
    seed = ctx.seed if seed is None else seed
    try:
        from checks import suites as _suites
        with _suites.workspace_lock("tgen"):
            r = summary(tier, seed)
    except Exception as e:
        ctx.ties[TIE] = {"cases": 0, "agree": 0, "observables": ["(not run)"]}
        ctx.tie_broken(TIE, {"error": str(e)[-2000:]})
        return None
    ctx.ties[TIE] = {"cases": r["cases"], "agree": r["agree"],
                     "observables": ["generics::Skipped", "rule order", "rule name", "$atomicity", "$emission", "$boxed",
                                     "body: node kinds, arities, SKIP flags, rule indices, string constants, ranges, slice bounds, repetition bounds"],
                     "grammars": r["grammars"], "option_sets": r["option_sets"], "rules_compared": r["rules_compared"], "node_kinds": r.get("node_kinds", {}),
                     "unsupported_constructs": r["nunsupported"], "generator_panics": r["npanics"]}
    rt = r.get("roundtrip")
    if rt:
        ctx.ties["T-gen:printer-roundtrip"] = {"cases": rt["cases"], "agree": rt["agree"], "terms": rt["terms"],
                                               "observables": ["showNode (toNode s) = s on the T-raw Node corpus"]}
        if rt["agree"] != rt["cases"]:
            ctx.tie_broken("T-gen:printer-roundtrip", {"disagreements": rt["cases"] - rt["agree"], "first": rt["bad"]})
    if r["ndiffs"]:
        ctx.tie_broken(TIE, {"disagreements": r["ndiffs"], "first": r["diffs"][:5]})
    if r["npanics"]:
        ctx.tie_broken(TIE, {"note": "the generator (or the extractor) fails on a grammar pest_meta and pest's validator accept",
                             "count": r["npanics"], "first": r["panics"][:3]})
    return r


if __name__ == "__main__":
    import sys
    tier = sys.argv[1] if len(sys.argv) > 1 else "quick"
    seed = int(sys.argv[2]) if len(sys.argv) > 2 else int(os.environ.get("VERIF_SEED", "20260927"))
    t0 = time.time()
    ensure_tool()
    ensure_driver()
    r = compute(tier, seed)
    print(json.dumps({k: v for k, v in r.items() if k not in ("diffs", "panics", "unsupported")}, indent=1))
    for d in r["diffs"][:10]:
        print("DIFF", json.dumps(d, ensure_ascii=False)[:1500])
    for d in r["panics"][:10]:
        print("PANIC", json.dumps(d, ensure_ascii=False)[:800])
    for d in r["unsupported"][:10]:
        print("UNSUPPORTED", json.dumps(d, ensure_ascii=False)[:800])
    print("roundtrip", json.dumps(printer_roundtrip(), ensure_ascii=False)[:1500])
    print(f"total {time.time() - t0:.1f}s")
