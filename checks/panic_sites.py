#!/usr/bin/env python3
"""T-src:panic-sites — source inventory tie for C09 ("never panics").

The Lean theorems about panics (Props/C09Panic, C09Run, C09Sites) are statements about a hand-picked list of
places where the Rust code can panic / be undefined.  This module ties that list to the CURRENT text of
/repo/main/src: it scans every file for panic-capable constructs and compares the result with the reviewed
inventory `checks/panic_sites.json`.  A site in the source that is not in the inventory, or an inventory site
that vanished, is a broken tie (`T-src:panic-sites`), listed site by site.

Scanned constructs (`kind`):
  unwrap, expect                    `.unwrap()`, `.expect(` (also `unwrap_unchecked`, `unwrap_err`, `expect_err`)
  macro:<name>                      panic! unreachable! unimplemented! todo! assert! assert_eq! assert_ne!
                                    debug_assert! debug_assert_eq! debug_assert_ne!
  unchecked:<name>                  any identifier ending in `_unchecked` / `_unchecked_mut` (get_unchecked,
                                    from_utf8_unchecked, new_unchecked, unreachable_unchecked …), `transmute`
  unsafe-block, unsafe-fn, unsafe-impl, unsafe-trait
  index, index-range                `x[i]`, `x[a..b]`: `[` directly after an identifier, `)`, `]` or `?`
                                    (attributes, types, array literals, `vec![..]` are not in that position)
  cast:<type>                       `as u8|u16|u32|u64|u128|usize|i8|i16|i32|i64|i128|isize|char` (may truncate / wrap)
  arith:<op>                        binary `+ - * / % << >>` and `+= -= *= /= %=` inside function / macro bodies (overflow
                                    panics in debug, wraps in release; `/ %` panic on zero in every profile); syntactic:
                                    operand types are not known, string `+` and float arithmetic are listed too
  method:<name>                     std methods that panic on a bad index / argument: split_at split_at_mut swap_remove
                                    remove drain split_off copy_from_slice clone_from_slice step_by chunks chunks_exact
                                    windows swap to_digit from_digit repeat pow div_euclid rem_euclid next_power_of_two;
                                    process::abort / exit
  ctor:<Type>, call:<name>          where a cursor / position / span over some input comes into being: struct literals
                                    `Position {`, `Span {`, `SubInput1 {`, `SubInput2 {` and calls of `from_start`,
                                    `as_input` (input-identity sites: `assert_eq!` in `Position::cmp`, `ptr::eq` in
                                    `Position::span`, `debug_assert_eq!` in the tracker compare the INPUTS of two
                                    positions; the argument that they are equal is "one input per run")
  field-write:<name>                assignment to a field named input / pos / cursor / start / end (same reason)

Not scanned (stated, not guessed): stack exhaustion by recursion, allocation failure, panics inside callees from
other crates, arithmetic hidden in operator traits.  Comments, doc comments, string / char literals,
attributes and items under `#[cfg(test)]` / `#[test]` are removed by a real lexer before scanning.

A site's key is (file, path of the enclosing items, kind, ordinal among the sites of that kind in that item) —
no line numbers, so unrelated edits do not move keys.  `line` / `text` in the json are informational.  For slicing /
indexing sites and `*_unchecked` calls the json also holds the reviewed OPERAND (`arg`: the index / range expression, the
call's arguments); for sites on the parse path a different operand in the source is reported too (`changed_operands`):
`get_unchecked(self.cursor..self.end)` -> `get_unchecked(self.cursor..)` keeps the key but not the operand.

Inventory (`checks/panic_sites.json`): `arguments` = the reviewed arguments (id -> disposition, model / theorems / reason /
covered_by), `sites` = one entry per site pointing to its argument.  Dispositions: `proved-unreachable` (Lean theorems
named; every name must exist as `theorem`/`def` in a module imported by PestTyped/All.lean — checked on every run),
`modelled` (the model's semantics includes the failure, theorems show it is not reached), `not-on-parse-path` (reason +
the property whose check covers the code, if any), `open` (no argument yet: listed in the evidence, does not fail).

The generated parser code (generator/src, emitted through `quote!`) and the other crates are NOT scanned: the parse path
of a generated parser consists of instantiations of the generic combinators and macros of main/src, which are.

Thorough tier (or VERIF_MIRI=1): `run_miri` — `cargo +nightly miri run` on harness/miri_runner in the dev and in the
release profile (37 cases each); support, not proof.

    python3 checks/panic_sites.py --list      print the table (current source joined with the inventory)
    python3 checks/panic_sites.py --update    rewrite checks/panic_sites.json keeping dispositions (new sites: `open`)
"""
import json, os, re, subprocess, sys

HERE = os.path.dirname(os.path.abspath(__file__))
VERIF = os.path.dirname(HERE)
SRC_ROOT = "/repo/main/src"
INVENTORY = os.path.join(HERE, "panic_sites.json")
LEAN_SRC = os.path.join(VERIF, "lean", "PestTyped")
DISPOSITIONS = ("proved-unreachable", "not-on-parse-path", "modelled", "open")

KEYWORDS = set("""as break const continue crate dyn else enum extern false fn for if impl in let loop match mod move mut pub
ref return static struct super trait true type unsafe use where while async await union macro_rules""".split())
# `self` / `Self` are operands, not keywords, for the purposes below
PANIC_MACROS = {"panic", "unreachable", "unimplemented", "todo", "assert", "assert_eq", "assert_ne",
                "debug_assert", "debug_assert_eq", "debug_assert_ne"}
INT_TYPES = {"u8", "u16", "u32", "u64", "u128", "usize", "i8", "i16", "i32", "i64", "i128", "isize", "char"}
PANIC_METHODS = {"split_at", "split_at_mut", "swap_remove", "remove", "drain", "split_off", "copy_from_slice",
                 "clone_from_slice", "step_by", "chunks", "chunks_exact", "windows", "swap", "to_digit", "from_digit",
                 "repeat", "abort", "exit", "pow", "div_euclid", "rem_euclid", "next_power_of_two"}
CURSOR_TYPES = {"Position", "Span", "SubInput1", "SubInput2"}
CURSOR_CALLS = {"from_start", "as_input"}
CURSOR_FIELDS = {"input", "pos", "cursor", "start", "end"}
NON_OPERAND_START = KEYWORDS - {"unsafe", "if", "match", "loop"}
ARITH = {"+", "-", "*", "/", "%", "+=", "-=", "*=", "/=", "%=", "<<", ">>"}

PUNCT3 = ("..=", "...", "<<=", ">>=")
PUNCT2 = ("::", "->", "=>", "==", "!=", "<=", ">=", "&&", "||", "+=", "-=", "*=", "/=", "%=", "^=", "&=", "|=", "..")


class LexError(Exception):
    pass


def lex(src):
    """Rust lexer, enough for the scan: returns [(kind, text, line)], kind in id|life|num|str|chr|p.
    Comments (line, nested block, doc) are dropped; string / char literal CONTENTS are dropped."""
    out = []
    i, n, line = 0, len(src), 1
    while i < n:
        c = src[i]
        if c == "\n":
            line += 1
            i += 1
            continue
        if c.isspace():
            i += 1
            continue
        if src.startswith("//", i):
            j = src.find("\n", i)
            i = n if j < 0 else j
            continue
        if src.startswith("/*", i):
            depth, j = 1, i + 2
            while j < n and depth:
                if src.startswith("/*", j):
                    depth += 1
                    j += 2
                elif src.startswith("*/", j):
                    depth -= 1
                    j += 2
                else:
                    if src[j] == "\n":
                        line += 1
                    j += 1
            if depth:
                raise LexError(f"unterminated block comment at line {line}")
            i = j
            continue
        # raw strings r"..", r#".."#, br#".."#, cr#".."#
        m = re.match(r"(?:b|c)?r(#*)\"", src[i:i + 40])
        if m and (i == 0 or not (src[i - 1].isalnum() or src[i - 1] == "_")):
            close = '"' + m.group(1)
            j = src.find(close, i + m.end())
            if j < 0:
                raise LexError(f"unterminated raw string at line {line}")
            out.append(("str", '""', line))
            line += src.count("\n", i, j)
            i = j + len(close)
            continue
        if c == '"' or (c in "bc" and i + 1 < n and src[i + 1] == '"'):
            j = i + (1 if c == '"' else 2)
            while j < n and src[j] != '"':
                if src[j] == "\\":
                    j += 1
                if j < n and src[j] == "\n":
                    line += 1
                j += 1
            if j >= n:
                raise LexError(f"unterminated string at line {line}")
            out.append(("str", '""', line))
            i = j + 1
            continue
        if c == "'" or (c == "b" and i + 1 < n and src[i + 1] == "'"):
            k = i + (1 if c == "'" else 2)
            if k < n and src[k] == "\\":
                j = k + 2
                while j < n and src[j] != "'":
                    j += 1
                out.append(("chr", "''", line))
                i = j + 1
                continue
            if k + 1 < n and src[k + 1] == "'" and src[k] != "'":
                out.append(("chr", "''", line))
                i = k + 2
                continue
            if c == "'":
                m = re.match(r"'[A-Za-z_][A-Za-z0-9_]*", src[i:])
                if m:
                    out.append(("life", m.group(0), line))
                    i += m.end()
                    continue
            if c == "'":
                raise LexError(f"stray quote at line {line}")
        if c.isalpha() or c == "_":
            m = re.match(r"(?:r#)?[A-Za-z_][A-Za-z0-9_]*", src[i:])
            out.append(("id", m.group(0), line))
            i += m.end()
            continue
        if c.isdigit():
            m = re.match(r"[0-9][0-9A-Za-z_]*(?:\.[0-9][0-9A-Za-z_]*)?", src[i:])
            out.append(("num", m.group(0), line))
            i += m.end()
            continue
        for grp in (PUNCT3, PUNCT2):
            hit = next((p for p in grp if src.startswith(p, i)), None)
            if hit:
                break
        if hit:
            out.append(("p", hit, line))
            i += len(hit)
            continue
        out.append(("p", c, line))
        i += 1
    return out


def match_brackets(toks):
    """index of the matching bracket for every ( [ { ) ] } (angle brackets are not brackets here)."""
    match, stack = {}, []
    pairs = {")": "(", "]": "[", "}": "{"}
    for i, (k, t, _) in enumerate(toks):
        if k != "p":
            continue
        if t in "([{" and len(t) == 1:
            stack.append(i)
        elif t in pairs:
            if not stack or toks[stack[-1]][1] != pairs[t]:
                raise LexError(f"unbalanced {t} at line {toks[i][2]}")
            j = stack.pop()
            match[i], match[j] = j, i
    if stack:
        raise LexError(f"unclosed {toks[stack[-1]][1]} at line {toks[stack[-1]][2]}")
    return match


def _impl_header(toks):
    """`impl<'i, R: RuleType> Input<'i> for Tracker<'i, R> where ..` -> `Input for Tracker<R>`."""
    ts = [t for (_, t, _) in toks]
    # leading generics of the impl itself
    if ts and ts[0] == "<":
        d, j = 0, 0
        for j, t in enumerate(ts):
            d += t == "<"
            d -= t == ">"
            if d == 0:
                break
        ts = ts[j + 1:]
    if "where" in ts:
        ts = ts[:ts.index("where")]
    ts = [t for t in ts if not t.startswith("'")]
    s = ""
    for t in ts:
        if t == "for":
            s += " for "
        elif t == ",":
            s += ","
        else:
            s += t
    s = re.sub(r"<,*>", "", s)
    s = re.sub(r"<,+", "<", s)
    s = re.sub(r",+>", ">", s)
    s = re.sub(r",,+", ",", s)
    return s.strip()


def scan_source(src, fname):
    """-> list of sites {file, path, kind, line, text}; ordinals are assigned by the caller."""
    toks = lex(src)
    match = match_brackets(toks)
    lines = src.split("\n")
    n = len(toks)
    sites = []
    scopes = []          # (closing token index, kind, name)
    pending = None       # [kind, name, start index] of an item header whose `{` has not been seen
    depth_pending = 0

    def path():
        return "::".join(nm for (_, kd, nm) in scopes if nm)

    def in_code():
        return any(kd in ("fn", "macro") for (_, kd, _) in scopes)

    def add(kind, i, group=None):
        ln = toks[i][2]
        site = {"file": fname, "path": path() or "(file)", "kind": kind, "line": ln, "text": lines[ln - 1].strip()[:140]}
        if group is not None:      # the reviewed operand: index / range expression, argument of an `*_unchecked` call
            site["arg"] = "".join(x[1] for x in toks[group + 1:match[group]])[:160]
        sites.append(site)

    def tk(i):
        return toks[i][1] if 0 <= i < n else ""

    def kd(i):
        return toks[i][0] if 0 <= i < n else ""

    def operand_end(i):
        k, t = kd(i), tk(i)
        return (k == "id" and t not in KEYWORDS) or k in ("num", "str", "chr") or (k == "p" and t in (")", "]", "?"))

    def operand_start(i):
        k, t = kd(i), tk(i)
        return (k == "id" and t not in NON_OPERAND_START) or k in ("num", "str", "chr") or \
            (k == "p" and t in ("(", "-", "!", "&", "*", "$", "|", "["))

    i = 0
    while i < n:
        while scopes and scopes[-1][0] <= i:
            scopes.pop()
        k, t, ln = toks[i]
        # ---- attributes: skipped; #[cfg(test)] / #[test] skip the item that follows
        if k == "p" and t == "#" and (tk(i + 1) == "[" or (tk(i + 1) == "!" and tk(i + 2) == "[")):
            ob = i + 1 if tk(i + 1) == "[" else i + 2
            cb = match[ob]
            inner = " ".join(x[1] for x in toks[ob + 1:cb])
            is_test = bool(re.match(r"^(test|cfg \( test \))$", inner)) and tk(i + 1) == "["
            i = cb + 1
            if is_test:
                # skip further attributes, then the item: up to `;` or the matching `}` of its first `{` at depth 0
                while tk(i) == "#" and tk(i + 1) == "[":
                    i = match[i + 1] + 1
                while i < n:
                    if tk(i) in ("(", "["):
                        i = match[i] + 1
                    elif tk(i) == "{":
                        i = match[i] + 1
                        break
                    elif tk(i) == ";":
                        i += 1
                        break
                    else:
                        i += 1
            continue
        # ---- item headers
        if k == "id" and pending is None:
            if t == "fn" and kd(i + 1) == "id":
                pending = ["fn", tk(i + 1), i]
                depth_pending = 0
                i += 2
                continue
            if t == "impl" and tk(i - 1) not in (":", "->", "(", ",", "<", "&", "=", "+", "dyn"):
                pending = ["impl", None, i]
                depth_pending = 0
                i += 1
                continue
            if t in ("trait", "mod", "struct", "enum", "union") and kd(i + 1) == "id" and tk(i - 1) != "::":
                pending = [t, t + " " + tk(i + 1), i]
                depth_pending = 0
                i += 2
                continue
            if t == "macro_rules" and tk(i + 1) == "!" and kd(i + 2) == "id":
                name = tk(i + 2)
                ob = i + 3
                if tk(ob) in ("{", "(", "["):
                    scopes.append((match[ob], "macro", f"macro {name}!"))
                    i = ob + 1
                    continue
        if pending is not None and k == "p":
            if t in ("(", "["):
                # jump over the group but still scan inside a fn signature? signatures hold no sites of interest
                # except default-less; types only.  `impl` headers may hold `[T; N]`.
                i = match[i] + 1
                continue
            if t == ";" :
                pending = None
                i += 1
                continue
            if t == "{":
                kind_p, name_p, start = pending
                if kind_p == "impl":
                    name_p = _impl_header(toks[start + 1:i])
                scopes.append((match[i], "fn" if kind_p == "fn" else ("type" if kind_p in ("struct", "enum", "union") else kind_p), name_p))
                pending = None
                i += 1
                continue
            if t == "=" and pending[0] in ("struct", "enum", "union", "trait", "mod"):
                pending = None
        if pending is not None:
            i += 1
            continue
        in_type_def = bool(scopes) and scopes[-1][1] == "type"
        # ---- constructs
        if k == "id":
            nxt, prv = tk(i + 1), tk(i - 1)
            if t in ("unwrap", "expect", "unwrap_err", "expect_err") and prv == "." and nxt == "(":
                add("unwrap" if t.startswith("unwrap") else "expect", i)
            elif t in PANIC_MACROS and nxt == "!" and tk(i + 2) in ("(", "[", "{"):
                add("macro:" + t, i)
            elif (t.endswith("_unchecked") or t.endswith("_unchecked_mut") or t == "transmute") and tk(i - 1) != "fn":
                add("unchecked:" + t, i, i + 1 if nxt == "(" else None)
            elif t == "unsafe":
                what = {"{": "unsafe-block", "fn": "unsafe-fn", "impl": "unsafe-impl", "trait": "unsafe-trait"}.get(nxt, "unsafe-other")
                add(what, i)
            elif t == "as" and kd(i + 1) == "id" and nxt in INT_TYPES and in_code():
                add("cast:" + nxt, i)
            elif t in PANIC_METHODS and nxt == "(" and prv in (".", "::") and in_code():
                add("method:" + t, i)
            elif t in CURSOR_TYPES and nxt == "{" and in_code() and prv not in ("struct", "for", "impl", "enum"):
                add("ctor:" + t, i)
            elif t in CURSOR_CALLS and nxt == "(" and prv in (".", "::"):
                add("call:" + t, i)
            elif t in CURSOR_FIELDS and prv == "." and nxt in ("=", "+=", "-=") and in_code():
                add("field-write:" + t, i)
            if t == "fn" and kd(i + 1) != "id":
                pass
        elif k == "p":
            if t == "[" and operand_end(i - 1) and not in_type_def:
                cb = match[i]
                rng = any(toks[j][1] in ("..", "..=") and _depth0(toks, match, i, j) for j in range(i + 1, cb))
                add("index-range" if rng else "index", i, i)
            elif t in ARITH and in_code() and not in_type_def:
                if t in ("+=", "-=", "*=", "/=", "%="):
                    add("arith:" + t, i)
                elif operand_end(i - 1) and operand_start(i + 1):
                    rep = tk(i - 1) == ")" and tk(match[i - 1] - 1) == "$"      # `$( .. )+` / `$( .. )*` repetition
                    if not rep and not (t in ("<<", ">>")):
                        add("arith:" + t, i)
            elif t in ("<", ">") and tk(i + 1) == t and toks[i + 1][2] == ln and in_code() and operand_end(i - 1) and \
                    kd(i + 2) in ("num",) :
                add("arith:" + t + t, i)
        i += 1
    return sites


def _depth0(toks, match, ob, j):
    """is token j directly inside the bracket opened at ob (not inside a nested group)?"""
    k = ob + 1
    while k < j:
        if toks[k][1] in ("(", "[", "{") and toks[k][0] == "p":
            if match[k] > j:
                return False
            k = match[k] + 1
        else:
            k += 1
    return True


def scan_tree(root=SRC_ROOT):
    sites = []
    errors = []
    for dp, _, fs in sorted(os.walk(root)):
        for f in sorted(fs):
            if not f.endswith(".rs"):
                continue
            p = os.path.join(dp, f)
            rel = os.path.relpath(p, root)
            try:
                sites += scan_source(open(p, encoding="utf-8").read(), rel)
            except LexError as e:
                errors.append(f"{rel}: {e}")
    counts = {}
    for s in sites:
        k = (s["file"], s["path"], s["kind"])
        s["ordinal"] = counts.get(k, 0)
        counts[k] = s["ordinal"] + 1
    return sites, errors


def key_of(s):
    return (s["file"], s["path"], s["kind"], s["ordinal"])


def load_inventory():
    if not os.path.exists(INVENTORY):
        return {"format": 1, "arguments": {}, "sites": []}
    return json.load(open(INVENTORY, encoding="utf-8"))


_LEAN_NAMES = None


def lean_theorem_names():
    """every `theorem X` / `def X` of the modules listed in PestTyped/All.lean"""
    global _LEAN_NAMES
    if _LEAN_NAMES is None:
        allf = open(os.path.join(LEAN_SRC, "All.lean"), encoding="utf-8").read()
        names = set()
        for mod in re.findall(r"^import\s+PestTyped\.([A-Za-z0-9_.]+)", allf, re.M):
            p = os.path.join(LEAN_SRC, *mod.split(".")) + ".lean"
            if os.path.exists(p):
                names.update(re.findall(r"^(?:theorem|def)\s+([A-Za-z0-9_.?!']+)", open(p, encoding="utf-8").read(), re.M))
        _LEAN_NAMES = names
    return _LEAN_NAMES


def compare(sites, inv):
    cur = {key_of(s): s for s in sites}
    old = {key_of(s): s for s in inv.get("sites", [])}
    new = [cur[k] for k in cur if k not in old]
    gone = [old[k] for k in old if k not in cur]
    return cur, old, new, gone


def split_drift(inv, diffs):
    """New / vanished sites inside code the inventory classifies ENTIRELY as not on the parse path (the enclosing item has
    inventoried sites and all of them are `not-on-parse-path`, or every inventoried site of the file is) are drift of the
    inventory, not a change of the parse path: they are reported (evidence, --list) but do not break the C09 tie.
    Everything else — any item with a site on the parse path, any item or file the inventory does not know — does."""
    by_item, by_file = {}, {}
    for s in inv.get("sites", []):
        off = s.get("disposition") == "not-on-parse-path"
        by_item.setdefault((s["file"], s["path"]), []).append(off)
        by_file.setdefault(s["file"], []).append(off)
    alarm, drift = [], []
    for s in diffs:
        item, fil = by_item.get((s["file"], s["path"])), by_file.get(s["file"])
        (drift if (item and all(item)) or (fil and all(fil)) else alarm).append(s)
    return alarm, drift


def changed_operands(cur, old):
    """sites on the parse path whose reviewed operand (slice range, argument of an unchecked call) is not the one reviewed"""
    return [(old[k], cur[k]) for k in cur if k in old and "arg" in old[k] and old[k].get("disposition") != "not-on-parse-path"
            and old[k]["arg"] != cur[k].get("arg")]


def audit_inventory(inv):
    """structural problems of the json itself: unknown disposition, missing argument, theorem that does not exist."""
    problems = []
    args = inv.get("arguments", {})
    names = lean_theorem_names()
    for aid, a in args.items():
        if a.get("disposition") not in DISPOSITIONS:
            problems.append(f"argument {aid}: unknown disposition {a.get('disposition')!r}")
        if a.get("disposition") in ("proved-unreachable", "modelled") and not a.get("theorems"):
            problems.append(f"argument {aid}: disposition {a.get('disposition')} without a theorem")
        if a.get("disposition") == "not-on-parse-path" and not a.get("reason"):
            problems.append(f"argument {aid}: not-on-parse-path without a reason")
        for th in a.get("theorems", []):
            if th not in names:
                problems.append(f"argument {aid}: theorem {th} not found in the modules of PestTyped/All.lean")
    for s in inv.get("sites", []):
        a = args.get(s.get("argument"))
        if a is None:
            problems.append(f"site {key_of(s)}: unknown argument {s.get('argument')!r}")
        elif s.get("disposition") != a["disposition"]:
            problems.append(f"site {key_of(s)}: disposition {s.get('disposition')!r} differs from its argument's ({a['disposition']})")
    return problems


def fmt_site(s):
    return f"{s['file']}:{s.get('line', '?')}  [{s['path']}]  {s['kind']} #{s['ordinal']}   {s.get('text', '')}"


def check(ctx):
    """called from check_C09 on every run"""
    sites, errors = scan_tree()
    inv = load_inventory()
    cur, old, new, gone = compare(sites, inv)
    problems = audit_inventory(inv) + [f"lexer: {e}" for e in errors]
    changed = changed_operands(cur, old)
    by_disp = {}
    for s in inv.get("sites", []):
        by_disp[s["disposition"]] = by_disp.get(s["disposition"], 0) + 1
    open_sites = [fmt_site(dict(s, line=cur.get(key_of(s), s).get("line"))) for s in inv.get("sites", []) if s["disposition"] == "open"]
    new_alarm, new_drift = split_drift(inv, new)
    gone_alarm, gone_drift = split_drift(inv, gone)
    ctx.ties["T-src:panic-sites"] = {"cases": len(cur), "agree": len(cur) - len(new), "observables": ["file", "item path", "construct", "ordinal"],
                                     "inventory": len(old), "vanished": len(gone)}
    ctx.coverage["panic_sites"] = {"files_scanned": sum(f.endswith(".rs") for _, _, fs in os.walk(SRC_ROOT) for f in fs),
                                   "files_with_sites": len({s["file"] for s in sites}), "sites_in_source": len(cur), "by_disposition": by_disp,
                                   "by_kind": _hist(s["kind"].split(":")[0] for s in sites), "open": open_sites,
                                   "drift_off_parse_path": {"new": [fmt_site(s) for s in new_drift[:40]], "vanished": [fmt_site(s) for s in gone_drift[:40]]}}
    if new_alarm or gone_alarm or problems or changed:
        ctx.tie_broken("T-src:panic-sites", {
            "diffs": len(new_alarm) + len(gone_alarm) + len(problems) + len(changed),
            "changed_operands": [f"{fmt_site(c)}   reviewed operand: {o['arg']}   now: {c.get('arg')}" for o, c in changed[:40]],
            "new_sites": [fmt_site(s) for s in new_alarm[:60]],
            "vanished_sites": [fmt_site(s) for s in gone_alarm[:60]],
            "inventory_problems": problems[:40],
            "examples": [{"case": fmt_site(s), "keys": ["new panic-capable site not in checks/panic_sites.json"]} for s in new_alarm[:5]] +
                        [{"case": fmt_site(s), "keys": ["inventory site no longer in the source"]} for s in gone_alarm[:5]] +
                        [{"case": fmt_site(c), "keys": ["operand differs from the reviewed one"]} for _, c in changed[:5]],
            "hint": "review the site, then `python3 checks/panic_sites.py --update` and give it a disposition"})
    return new, gone, problems, changed


def _hist(it):
    h = {}
    for x in it:
        h[x] = h.get(x, 0) + 1
    return h


# ------------------------------------------------------------------------------------------------------------
# Miri support run (thorough tier): SUPPORT, not proof

MIRI_DIR = os.path.join(VERIF, "harness", "miri_runner")
MIRI_TARGET = os.path.join(VERIF, "build", "target-miri")


def run_miri(ctx, timeout=900):
    """`cargo +nightly miri run` on harness/miri_runner, in the dev profile (debug assertions: checked slicing, the
    `debug_assert!`s) and in the release profile (`get_unchecked`); a case Miri objects to (undefined behaviour, panic,
    abort) is a violation with the command that replays it."""
    import time
    env = dict(os.environ, CARGO_NET_OFFLINE="true", CARGO_TARGET_DIR=MIRI_TARGET, CARGO_INCREMENTAL="0",
               MIRIFLAGS=os.environ.get("MIRIFLAGS", "-Zmiri-disable-isolation"))
    subprocess.call(["cp", "/repo/Cargo.lock", os.path.join(MIRI_DIR, "Cargo.lock")])
    base = ["cargo", "+nightly", "miri", "run", "--offline", "-q"]
    cov = {"cases": 0, "ok": 0, "profiles": {}, "flags": env["MIRIFLAGS"], "mode": "generated parser (pest_typed_derive), path deps on /repo"}
    ctx.coverage["miri"] = cov
    t_end = time.time() + timeout
    for profile, flag in (("dev", []), ("release", ["--release"])):
        try:
            listed = subprocess.run(base + flag + ["--", "--list"], cwd=MIRI_DIR, env=env, capture_output=True, text=True,
                                    timeout=max(60, t_end - time.time()))
        except subprocess.TimeoutExpired:
            ctx.tie_broken("T-miri:timeout", {"error": f"miri build ({profile}) exceeded the {timeout}s budget"})
            return
        if listed.returncode != 0:
            ctx.tie_broken("T-miri:build", {"profile": profile, "error": (listed.stderr or listed.stdout)[-3000:]})
            cov["error"] = f"runner does not build / list under miri ({profile})"
            return
        names = [l.strip() for l in listed.stdout.splitlines() if l.strip()]
        try:
            p = subprocess.run(base + flag, cwd=MIRI_DIR, env=env, capture_output=True, text=True, timeout=max(60, t_end - time.time()))
            out, err, rc = p.stdout, p.stderr, p.returncode
        except subprocess.TimeoutExpired as e:
            out = e.stdout.decode("utf-8", "replace") if isinstance(e.stdout, bytes) else (e.stdout or "")
            err, rc = "timeout", -1
        done = [l.split("\t") for l in out.splitlines() if l.startswith("case\t")]
        ok = [d for d in done if len(d) >= 3 and d[2] == "ok"]
        bad = [d for d in done if len(d) >= 3 and d[2] != "ok"]
        cov["cases"] += len(names)
        cov["ok"] += len(ok)
        cov["profiles"][profile] = {"cases": len(names), "ok": len(ok)}
        if rc != 0 or bad or len(ok) != len(names):
            if err == "timeout" and not bad:
                ctx.tie_broken("T-miri:timeout", {"error": f"miri run ({profile}) exceeded the {timeout}s budget after {len(ok)} cases"})
                return
            finished = {d[1] for d in done}
            # a panic is caught and reported by the runner; undefined behaviour stops Miri in the first case that did not report
            culprit = bad[0][1] if bad else next((nm for nm in names if nm not in finished), "?")
            case = ("miri_runner", culprit, "miri-" + profile, "str", 0, 0, "")
            ctx.violation(f"Miri reports undefined behaviour or a panic in the support run [{profile}]", case,
                          replay_cmd=f"cd {MIRI_DIR} && CARGO_NET_OFFLINE=true CARGO_TARGET_DIR={MIRI_TARGET} MIRIFLAGS={env['MIRIFLAGS']} "
                                     f"cargo +nightly miri run --offline {' '.join(flag)} -- {culprit}",
                          miri_stderr="\n".join(l for l in err.splitlines() if "non-local" not in l)[-2500:])
            return


# ------------------------------------------------------------------------------------------------------------
# command line

def _update():
    sites, errors = scan_tree()
    if errors:
        print("\n".join(errors))
        return 1
    inv = load_inventory()
    old = {key_of(s): s for s in inv.get("sites", [])}
    args = inv.setdefault("arguments", {})
    args.setdefault("open", {"disposition": "open", "reason": "no argument yet"})
    out = []
    for s in sites:
        o = old.get(key_of(s), {})
        arg = o.get("argument", "open")
        e = {"file": s["file"], "path": s["path"], "kind": s["kind"], "ordinal": s["ordinal"], "line": s["line"],
             "text": s["text"], "disposition": args[arg]["disposition"] if arg in args else "open",
             "argument": arg if arg in args else "open"}
        if "arg" in s:
            e["arg"] = s["arg"]
        out.append(e)
    inv["format"] = 1
    inv["source_root"] = SRC_ROOT
    inv["sites"] = out
    with open(INVENTORY, "w", encoding="utf-8") as f:
        f.write("{\n \"format\": 1,\n \"source_root\": " + json.dumps(SRC_ROOT) + ",\n \"arguments\": {\n")
        f.write(",\n".join(f"  {json.dumps(k)}: {json.dumps(v, ensure_ascii=False)}" for k, v in args.items()))
        f.write("\n },\n \"sites\": [\n")
        f.write(",\n".join("  " + json.dumps(s, ensure_ascii=False) for s in out))
        f.write("\n ]\n}\n")
    new = [s for s in out if key_of(s) not in old]
    print(f"{len(out)} sites written, {len(new)} new (disposition open), {len(set(old) - {key_of(s) for s in out})} dropped")
    for s in new:
        print("  new:", fmt_site(s))
    return 0


def _list():
    sites, errors = scan_tree()
    inv = load_inventory()
    cur, old, new, gone = compare(sites, inv)
    for e in errors:
        print("LEX ERROR", e)
    for s in sites:
        o = old.get(key_of(s))
        tag = "NEW" if s in split_drift(inv, [s])[0] else "NEW(off-path)"
        print(f"{(o or {}).get('disposition', tag):18} {(o or {}).get('argument', '-'):28} {fmt_site(s)}")
    for s in gone:
        print(f"{'VANISHED' if s in split_drift(inv, [s])[0] else 'VANISHED(off-path)':18} {s.get('argument', '-'):28} {fmt_site(s)}")
    for o, c in changed_operands(cur, old):
        print(f"CHANGED-OPERAND    {fmt_site(c)}   reviewed: {o['arg']}   now: {c.get('arg')}")
    for p in audit_inventory(inv):
        print("PROBLEM", p)
    print(f"-- {len(sites)} sites in source, {len(old)} in inventory, {len(new)} new, {len(gone)} vanished")
    return 0


if __name__ == "__main__":
    if "--update" in sys.argv:
        sys.exit(_update())
    sys.exit(_list())
