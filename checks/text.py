"""Checks of the text layer: C12 (Position::line_col / line_of), C13 (Span operations), C14 (Display of
Span / Position).

Tie T-text: the Lean model (PestTyped/Model/Text.lean, run by model_driver on `text …` case lines)
against pest-typed built from /repo's current working tree (harness/text_runner), on the same cases.
Oracles on the implementation: pest 2.7.14 (C12, C13 — a bounded differential test against the code's own
ancestor), a specification-level recomputation in this file (C12; C13 on the short and the extended
strings, and alone where pest itself overflows), and an independent renderer inside the runner plus
"no panic" (C14).

Families per property (sizes in coverage.exhaustive_bound of the evidence file):
* exhaustive over the property's own quantifier (all strings up to the stated length over the stated
  alphabet x all offsets / spans / sub-ranges / span pairs) — in BOTH tiers;
* short strings over an EXTENDED alphabet: TAB, VT, FF, NEL, U+2028/2029 (characters an edit could start
  to treat as line breaks), zero-width space and combining acute (no display cell), 4-byte emoji (lead byte
  0xF0, wide), NUL / DEL — next to line breaks;
* seeded random longer texts over the extended alphabet; C12: texts beyond 2^16 bytes at sampled offsets;
* C13: `get` / `new` with bounds up to usize::MAX in a debug AND a release build of the runner; two different
  input objects (merge_spans, ==, Hash); spans with start > end built by Position::span (release);
* C14: every one of the 33 control characters; texts of 12 / 101 / 1001 lines around the lines where the
  number column widens; display() with custom options whose callbacks fail.

Bulky observables travel as FNV-1a-64 digests and are re-run verbosely only when two sides disagree."""
import concurrent.futures, os, random, re, shutil, subprocess
from . import common
from .common import BUILD, LEAN, VERIF, sh

RUNNER_DIR = os.path.join(VERIF, "harness", "text_runner")
TARGET = os.path.join(BUILD, "target")
RUNNER = os.path.join(TARGET, "debug", "text_runner")
RUNNER_RELEASE = os.path.join(TARGET, "release", "text_runner")
DRIVER = os.path.join(LEAN, ".lake", "build", "bin", "model_driver")
NPROC = min(16, os.cpu_count() or 4)


# ---------------------------------------------------------------------------------------------
# plumbing

def hexs(s):
    b = s.encode("utf-8")
    return b.hex() if b else "-"


def unhex(h):
    return "" if h == "-" else bytes.fromhex(h).decode("utf-8")


BUILD_NOTES = {}


def build_runner(release=False):
    """Builds harness/text_runner against /repo's CURRENT working tree (cargo is incremental); `release`: also the
    release profile (no overflow checks), used for the `c13x` family."""
    shutil.copyfile("/repo/Cargo.lock", os.path.join(RUNNER_DIR, "Cargo.lock"))
    # measure widths with the unicode-width pest_typed itself links: same version requirement as /repo/main/Cargo.toml,
    # so that cargo unifies the two (a pin of the runner's own could select a second, different version)
    m = re.search(r'^unicode-width\s*=\s*(?:\{[^}\n]*version\s*=\s*"([^"]+)"[^}\n]*\}|"([^"]+)")', open("/repo/main/Cargo.toml").read(), flags=re.M)
    if m:
        req = m.group(1) or m.group(2)
        toml = os.path.join(RUNNER_DIR, "Cargo.toml")
        cur = open(toml).read()
        new = re.sub(r'^unicode-width\s*=.*$', f'unicode-width = "{req}"', cur, flags=re.M)
        if new != cur:
            open(toml, "w").write(new)
    env = dict(os.environ, CARGO_NET_OFFLINE="true", CARGO_TARGET_DIR=TARGET, CARGO_INCREMENTAL="0")
    BUILD_NOTES.pop("srcincl_error", None)
    for prof in ([[]] + ([["--release"]] if release else [])):
        p = sh(["cargo", "build", "--offline", "-q"] + prof, cwd=RUNNER_DIR, env=env)
        if p.returncode != 0:
            # the source-included copy (custom FormatOption) may stop compiling after a change in /repo: run the
            # public API only (the runner then reports opt=default-only) — and SAY SO: check_C14 reports the lost
            # observable as a broken tie, with this compiler output
            p2 = sh(["cargo", "build", "--offline", "-q", "--no-default-features"] + prof, cwd=RUNNER_DIR, env=env)
            if p2.returncode != 0:
                raise RuntimeError("text_runner does not build:\n" + p.stderr[-3000:])
            BUILD_NOTES["srcincl_error"] = p.stderr[-3000:]
    p = sh(["lake", "build", "model_driver"], cwd=LEAN)
    if p.returncode != 0:
        raise RuntimeError("model_driver does not build:\n" + (p.stdout + p.stderr)[-3000:])


def run_lines(cmd, lines, nproc=NPROC):
    """Feeds the case lines to `nproc` copies of the process, returns one output line per case."""
    if not lines:
        return []
    k = max(1, min(nproc * 4, len(lines) // 200 + 1))
    size = (len(lines) + k - 1) // k
    chunks = [lines[i:i + size] for i in range(0, len(lines), size)]

    def run(chunk):
        p = subprocess.run(cmd, input="\n".join(chunk) + "\n", capture_output=True, text=True)
        got = p.stdout.split("\n")
        if got and got[-1] == "":
            got.pop()
        got += ["v=missing"] * (len(chunk) - len(got))
        return got[:len(chunk)]
    out = []
    with concurrent.futures.ThreadPoolExecutor(nproc) as ex:
        for res in ex.map(run, chunks):
            out.extend(res)
    return out


def obs(line):
    d = {}
    for kv in line.split("\t"):
        if "=" in kv:
            k, v = kv.split("=", 1)
            d[k] = v
    return d


def strings(alpha, n):
    res = [""]
    fr = [""]
    for _ in range(n):
        fr = [s + c for s in fr for c in alpha]
        res += fr
    return res


def boundaries(s):
    out = [0]
    o = 0
    for c in s:
        o += len(c.encode("utf-8"))
        out.append(o)
    return out


def spans_of(s):
    bs = boundaries(s)
    return [(a, b) for a in bs for b in bs if b >= a]


def violation(ctx, what, case, **detail):
    """Text cases are dicts (input, offset / span), not the 7-tuples of the grammar suites."""
    ctx.violations.append({"what": what, "case": case, **detail})


def show(s):
    return s.encode("unicode_escape").decode("ascii")


def tie(ctx, name, cases, impl, model, keys, describe):
    """Model vs implementation on the `t.*` observables."""
    bad = []
    for c, i, m in zip(cases, impl, model):
        diff = [k for k in keys if i.get(k) != m.get(k)]
        if diff:
            bad.append((c, diff, i, m))
    ctx.ties[name] = {"cases": len(cases), "agree": len(cases) - len(bad), "observables": keys}
    bad.sort(key=lambda x: len(x[0]) if isinstance(x[0], str) else sum(len(t) for t in x[0]))   # shortest inputs first
    if bad:
        ctx.tie_broken(name, {"disagreements": len(bad), "first": [describe(c, d, i, m) for c, d, i, m in bad[:5]]})
    return len(bad)


def first_diff(xs, ys):
    for k, (x, y) in enumerate(zip(xs, ys)):
        if x != y:
            return k
    return min(len(xs), len(ys)) if len(xs) != len(ys) else None


# ---------------------------------------------------------------------------------------------
# C12

C12_ALPHA = ["\n", "\r", "a", "é", "中", "\U0001F600"]
# beyond the property's alphabet: characters an edit could start to treat as line breaks (VT, FF, NEL, LS, PS), as wide
# columns (TAB, CJK, emoji) or as no column at all (zero-width space, combining acute)
C12_EXTRA = ["\t", "\x0b", "\x0c", "\u0085", "\u2028", "\u2029", "\u200b", "\u0301"]
C12_EXT = C12_ALPHA + C12_EXTRA


def spec_line_col(b, p):
    """(1 + number of LF before p, 1 + characters since the last LF)."""
    pre = b[:p]
    return pre.count(b"\n") + 1, len(pre[pre.rfind(b"\n") + 1:].decode("utf-8")) + 1


def spec_line_of(b, p):
    """The maximal LF-terminated (or final) segment containing p; end of input is in the last one."""
    start = b.rfind(b"\n", 0, p) + 1
    e = b.find(b"\n", p)
    return start, (e + 1 if e >= 0 else len(b))


def check_C12(ctx):
    n = 7                                     # the property's own bound, in both tiers
    next_ = 3 if ctx.tier == "quick" else 4
    nrand = 300 if ctx.tier == "quick" else 3000
    nlong = 2 if ctx.tier == "quick" else 6
    ctx.rule_text = (f"T-text: all strings of length <= {n} over {{LF, CR, 'a', 2-byte, 3-byte, 4-byte char}} x every byte "
                     f"offset 0..len+1 (Position::new) and every boundary offset (line_col, line_of); all strings of length <= "
                     f"{next_} over that alphabet extended by TAB, VT, FF, NEL, U+2028, U+2029, zero-width space, combining acute; "
                     f"{nrand} seeded random texts of 20..400 characters over the extended alphabet with frequent CR/LF; {nlong} "
                     "texts of more than 2^16 bytes at sampled offsets; an evaluation is one (string, offset) pair; non-trivial "
                     "when the string contains a line break and the offset is not 0")
    build_runner()
    ins = strings(C12_ALPHA, n)
    core = len(ins)
    seen = set(ins)
    ins += [s for s in strings(C12_EXT, next_) if s not in seen]
    rnd = random.Random(ctx.seed)
    weights = [6, 4, 6, 2, 2, 1] + [1] * len(C12_EXTRA)
    ins += ["".join(rnd.choices(C12_EXT, weights)[0] for _ in range(rnd.randint(20, 400))) for _ in range(nrand)]
    lines = ["text c12 " + hexs(s) for s in ins]
    # long texts (> 2^16 bytes): sampled offsets only (every operation is linear in the text)
    longs = []
    for _ in range(nlong):
        t = "".join(rnd.choices(C12_EXT, weights)[0] for _ in range(rnd.randint(40000, 50000)))
        bs = boundaries(t)
        pick = sorted(set([0, 1, len(bs) - 2, len(bs) - 1] + [rnd.randrange(len(bs)) for _ in range(24)]
                          + [k for k in range(len(bs)) if 65530 <= bs[k] <= 65540]))
        longs.append((t, [bs[k] for k in pick]))
        lines.append("text c12 " + hexs(t) + " " + ",".join(str(bs[k]) for k in pick))
    impl = [obs(l) for l in run_lines([RUNNER], lines)]
    model = [obs(l) for l in run_lines([DRIVER], lines)]
    cases = ins + [t for t, _ in longs]
    offsets = [None] * len(ins) + [o for _, o in longs]
    keys = ["t.new", "t.lc", "t.lo"]
    tie(ctx, "T-text:position", cases, impl, model, keys,
        lambda s, d, i, m: {"input": show(s) if len(s) < 500 else show(s[:200]) + f"… ({len(s)} chars, seed {ctx.seed})", "keys": d,
                            "impl": {k: i.get(k, "")[:300] for k in d}, "model": {k: m.get(k, "")[:300] for k in d}})
    names = {"new": "Position::new", "lc": "line_col", "lo": "line_of"}
    for s, offs, io in zip(cases, offsets, impl):
        b = s.encode("utf-8")
        bs = boundaries(s) if offs is None else offs
        label = show(s) if len(s) < 500 else {"long_text_chars": len(s), "seed": ctx.seed, "hex_prefix": hexs(s[:64])}
        ctx.evaluations += (len(b) + 2 if offs is None else 0) + 2 * len(bs)
        if "\n" in s or "\r" in s:
            ctx.nontrivial += 2 * (len(bs) - 1)
        if "t.lc" not in io:
            violation(ctx, "C12 runner gave no answer", {"input": label}, got=io)
            continue
        if len(ctx.samples) < 5 and len(s) == n and "\r\n" in s:
            ctx.samples.append({"case": {"input": show(s)}, "impl": {k: io.get(k) for k in keys}})
        for f in ("new", "lc", "lo"):
            t, p = io.get("t." + f, ""), io.get("p." + f, "")
            if t != p:
                if f == "new":
                    k = first_diff(t, p)
                    violation(ctx, "C12 Position::new differs from pest", {"input": label, "offset": k},
                              typed=t[k:k + 1], pest=p[k:k + 1])
                else:
                    tl, pl = t.split(","), p.split(",")
                    k = first_diff(tl, pl)
                    violation(ctx, f"C12 {names[f]} differs from pest", {"input": label, "offset": bs[k] if k < len(bs) else None},
                              typed=tl[k] if k < len(tl) else None, pest=pl[k] if k < len(pl) else None)
        # specification-level recomputation (independent of pest and of the model)
        if offs is None:
            want_new = "".join("1" if (q <= len(b) and (q == len(b) or (b[q] & 0xC0) != 0x80)) else "0" for q in range(len(b) + 2))
            if io["t.new"] != want_new:
                k = first_diff(io["t.new"], want_new)
                violation(ctx, "C12 Position::new is not 'Some exactly on character boundaries'", {"input": label, "offset": k},
                          typed=io["t.new"][k:k + 1], expected=want_new[k:k + 1])
        lc, lo = io["t.lc"].split(","), io["t.lo"].split(",")
        for k, q in enumerate(bs):
            if lc[k] == "P" or lo[k] == "P":
                violation(ctx, "C12 line_col / line_of panics on a boundary offset", {"input": label, "offset": q},
                          line_col=lc[k], line_of=lo[k])
                continue
            wl, wc = spec_line_col(b, q)
            if lc[k] != f"{wl}:{wc}":
                violation(ctx, "C12 line_col differs from the specification", {"input": label, "offset": q},
                          typed=lc[k], expected=f"{wl}:{wc}")
            ws, we = spec_line_of(b, q)
            if lo[k] != f"{ws}:{we}":
                violation(ctx, "C12 line_of differs from the specification", {"input": label, "offset": q},
                          typed=lo[k], expected=f"{ws}:{we}")
    ctx.coverage["strings"] = len(cases)
    ctx.coverage["exhaustive_bound"] = {"core_alphabet_max_length": n, "core_strings": core,
                                        "extended_alphabet_max_length": next_, "stated_bound": 7}
    ctx.coverage["pest_oracle"] = ("pest 2.7.14's position.rs is the textual ancestor of /repo's: 'agrees with pest' is a bounded "
                                   "differential test; the independent oracle is the specification recomputation in checks/text.py")


# ---------------------------------------------------------------------------------------------
# C13

C13_ALPHA = ["\n", "\r", "a", "é", "中"]
# beyond the property's alphabet: a 4-byte character (lead byte 0xF0), other "line separators", TAB, a zero-width character
C13_EXT = C13_ALPHA + ["\U0001F600", "\t", "\u0085", "\u2028", "\u200b"]
C13_FIELDS = [("new", "Span::new"), ("str", "as_str"), ("split", "split/start/end"), ("lines", "lines"),
              ("ls", "lines_span"), ("get", "get"), ("merge", "merge_spans")]
USIZE_MAX = 2 ** 64 - 1


def c13_evals(s, light=False):
    nb = len(s.encode("utf-8"))
    sp = spans_of(s)
    if light:
        return (nb + 2) ** 2 + 4 * len(sp)
    per = sum(4 * (b - a + 2) ** 2 + 4 * (b - a + 2) + 1 for a, b in sp)
    return (nb + 2) ** 2 + 4 * len(sp) + per + len(sp) ** 2


def get_forms(bounds_x, bounds_y):
    """The enumeration order of the `get` matrix: (lo kind, hi kind, x, y)."""
    for lo in "ieu":
        for hi in "ieu":
            for x in ([0] if lo == "u" else bounds_x):
                for y in ([0] if hi == "u" else bounds_y):
                    yield lo, hi, x, y


def show_bounds(lo, hi, x, y):
    f = lambda k, v: {"i": f"Bound::Included({v})", "e": f"Bound::Excluded({v})", "u": "Bound::Unbounded"}[k]
    return f"span.get(({f(lo, x)}, {f(hi, y)}))"


def is_boundary(b, q):
    return q <= len(b) and (q == len(b) or (b[q] & 0xC0) != 0x80)


def spec_get(b, a, e, lo, hi, x, y):
    """What `Span(a..e).get((lo x, hi y))` must be: the resolved offsets relative to the span start when they are
    ordered, inside the span and on character boundaries; None otherwise — in particular when a bound does not fit."""
    st = {"i": x, "e": x + 1, "u": 0}[lo]
    en = {"i": y + 1, "e": y, "u": e - a}[hi]
    if st > USIZE_MAX or en > USIZE_MAX:
        return "-"
    if st <= en <= e - a and is_boundary(b, a + st) and is_boundary(b, a + en):
        return f"{a + st}:{a + en}"
    return "-"


def spec_line_table(b):
    t, st = [], 0
    for i, c in enumerate(b):
        if c == 10:
            t.append((st, i + 1))
            st = i + 1
    if st < len(b):
        t.append((st, len(b)))
    return t


def spec_c13(s):
    """Specification-level recomputation of the verbose `t.*` fields (independent of pest and of the model)."""
    b = s.encode("utf-8")
    nb = len(b)
    sp = spans_of(s)
    hx = lambda x: x.hex() if x else "-"
    tab = spec_line_table(b)
    out = {"t.new": "".join("1" if (x <= y and is_boundary(b, x) and is_boundary(b, y)) else "0"
                            for x in range(nb + 2) for y in range(nb + 2)),
           "t.str": ";".join(hx(b[x:y]) for x, y in sp),
           "t.split": ";".join(f"{x}:{y}" for x, y in sp)}
    # every line of the table meeting [start, end] (closed at `end`), in order
    touched = [[(u, v) for u, v in tab if x < v and u <= y] for x, y in sp]
    out["t.ls"] = ";".join(",".join(f"{u}:{v}" for u, v in t) for t in touched)
    out["t.lines"] = ";".join(",".join(hx(b[u:v]) for u, v in t) for t in touched)
    out["t.get"] = ";".join(",".join(spec_get(b, x, y, lo, hi, p, q) for lo, hi, p, q in
                                     get_forms(range(y - x + 2), range(y - x + 2))) for x, y in sp)
    out["t.merge"] = ",".join(f"{min(x, u)}:{max(y, v)}" if (y >= u and x <= v) else "-" for x, y in sp for u, v in sp)
    return out


def c13_locate(s, field, xs, ys):
    """Which span / range / pair is the first differing entry of a verbose field?"""
    sp = spans_of(s)
    nb = len(s.encode("utf-8"))
    if field == "new":
        k = first_diff(xs, ys)
        return {"call": f"Span::new(input, {k // (nb + 2)}, {k % (nb + 2)})"}, xs[k:k + 1], ys[k:k + 1]
    if field == "merge":
        xl, yl = xs.split(","), ys.split(",")
        k = first_diff(xl, yl)
        return {"a": list(sp[k // len(sp)]), "b": list(sp[k % len(sp)])}, xl[k], yl[k]
    xl, yl = xs.split(";"), ys.split(";")
    k = first_diff(xl, yl)
    if k is None or k >= len(sp):
        return {"span": None}, xs[:200], ys[:200]
    a, b = sp[k]
    if field != "get":
        return {"span": [a, b]}, xl[k], yl[k]
    gx, gy = xl[k].split(","), yl[k].split(",")
    j = first_diff(gx, gy)
    for idx, (lo, hi, x, y) in enumerate(get_forms(range(b - a + 2), range(b - a + 2))):
        if idx == j:
            return {"span": [a, b], "call": show_bounds(lo, hi, x, y)}, gx[j], gy[j]
    return {"span": [a, b]}, None, None


def big_bounds(l, n):
    v = []
    for x in (0, l, l + 1, n, n + 1, USIZE_MAX - 1, USIZE_MAX):
        if x not in v:
            v.append(x)
    return v


C13X_NATIVE = ["span.get(..=usize::MAX)", "span.get(usize::MAX..)", "span.get(..usize::MAX)", "span.get(0..=usize::MAX)",
               "span.get(usize::MAX..=usize::MAX)", "span.get(0..usize::MAX)", "span.get((Bound::Excluded(usize::MAX), Bound::Unbounded))"]
C13X_NATIVE_FORMS = [("u", "i", 0, USIZE_MAX), ("i", "u", USIZE_MAX, 0), ("u", "e", 0, USIZE_MAX), ("i", "i", 0, USIZE_MAX),
                     ("i", "i", USIZE_MAX, USIZE_MAX), ("i", "e", 0, USIZE_MAX), ("e", "u", USIZE_MAX, 0)]
C13X_NEW = ["Span::new(input, usize::MAX, usize::MAX)", "Span::new(input, 0, usize::MAX)", "Span::new(input, usize::MAX, 0)",
            "Span::new(input, len, usize::MAX)", "Span::new(input, usize::MAX-1, usize::MAX)", "Position::new(input, usize::MAX)",
            "Position::new(input, usize::MAX-1)"]


def c13x_family(ctx):
    """`get` / `new` with bounds at the top of the usize range, in both build profiles; the oracle is the specification
    (None, no panic) and the model's `Span.getU 64`; pest 2.7.14 itself overflows there and is not consulted."""
    ins = strings(C13_ALPHA + ["\U0001F600"], 3)
    lines = ["text c13x " + hexs(s) for s in ins]
    model = [obs(l) for l in run_lines([DRIVER], lines)]
    keys = ["t.gx", "t.gn", "t.nx", "t.nf", "t.iv"]
    for build, exe in (("debug", RUNNER), ("release", RUNNER_RELEASE)):
        impl = [obs(l) for l in run_lines([exe], lines)]
        if any(io.get("build") != build for io in impl):
            ctx.tie_broken("T-text:span-usize:" + build, {"error": "the runner does not report build=" + build, "got": impl[0]})
            continue

        def describe(s, d, i, m, build=build):
            k = d[0]
            xl, yl = i.get(k, "").replace(";", ",").split(","), m.get(k, "").replace(";", ",").split(",")
            j = first_diff(xl, yl)
            return {"input": show(s), "build": build, "field": k, "entry": j, "impl": xl[j] if j is not None and j < len(xl) else None,
                    "model": yl[j] if j is not None and j < len(yl) else None}
        # a span with start > end: `Position::span` builds it unchecked in release; with debug assertions the constructor
        # panics (`debug_assert!` in `new_unchecked`), so the operations on it are observable in the release build only
        bkeys = keys if build == "release" else [k for k in keys if k != "t.iv"]
        tie(ctx, "T-text:span-usize:" + build, ins, impl, model, bkeys, describe)
        for s, io in zip(ins, impl):
            b = s.encode("utf-8")
            sp = spans_of(s)
            if "t.gx" not in io:
                violation(ctx, "C13 runner gave no answer", {"input": show(s), "build": build}, got=io)
                continue
            gx, gn = io["t.gx"].split(";"), io["t.gn"].split(";")
            for (x, y), g, gnat in zip(sp, gx, gn):
                bb = big_bounds(y - x, len(b))
                got = g.split(",")
                forms = list(get_forms(bb, bb))
                ctx.evaluations += len(forms) + len(C13X_NATIVE)
                ctx.nontrivial += len(forms) + len(C13X_NATIVE)
                for (lo, hi, p, q), r in zip(forms, got):
                    want = spec_get(b, x, y, lo, hi, p, q)
                    if r != want:
                        what = ("C13 get panics for a bound at the top of the usize range" if r == "P" else
                                "C13 get is not None for a range that does not fit the span")
                        violation(ctx, what, {"input": show(s), "span": [x, y], "call": show_bounds(lo, hi, p, q), "build": build},
                                  typed="panic" if r == "P" else r, expected=want)
                for call, (lo, hi, p, q), r in zip(C13X_NATIVE, C13X_NATIVE_FORMS, gnat.split(",")):
                    want = spec_get(b, x, y, lo, hi, p, q)
                    if r != want:
                        what = ("C13 get panics for a bound at the top of the usize range" if r == "P" else
                                "C13 get is not None for a range that does not fit the span")
                        violation(ctx, what, {"input": show(s), "span": [x, y], "call": call, "build": build},
                                  typed="panic" if r == "P" else r, expected=want)
            if io.get("t.nf") != f"0:{len(b)}":
                violation(ctx, "C13 Span::new_full is not the span 0..len of the input", {"input": show(s), "build": build},
                          typed=io.get("t.nf"), expected=f"0:{len(b)}")
            if io.get("t.iv") != io.get("p.iv"):
                tl, pl = io.get("t.iv", "").split(","), io.get("p.iv", "").split(",")
                k = first_diff(tl, pl)
                violation(ctx, "C13 operations on a span with start > end (built by Position::span) differ from pest",
                          {"input": show(s), "build": build}, typed=tl[k] if k is not None and k < len(tl) else None,
                          pest=pl[k] if k is not None and k < len(pl) else None)
            for call, r in zip(C13X_NEW, io["t.nx"].split(",")):
                ctx.evaluations += 1
                if r != "-":
                    violation(ctx, "C13 Span::new / Position::new at the top of the usize range is not None",
                              {"input": show(s), "call": call, "build": build}, typed="panic" if r == "P" else r, expected="-")
    ctx.coverage["usize_family"] = {"strings": len(ins), "profiles": ["debug (overflow checks)", "release (wrapping)"],
                                    "bounds": "0, span_len, span_len+1, input_len, input_len+1, usize::MAX-1, usize::MAX"}


def c13i_family(ctx):
    """Spans of two DIFFERENT input objects: merge_spans, `==`, Hash."""
    base = strings(["\n", "a", "é", "\U0001F600"], 2)
    pairs = [(a, b) for a in base for b in base]
    lines = [f"text c13i {hexs(a)} {hexs(b)}" for a, b in pairs]
    impl = [obs(l) for l in run_lines([RUNNER], lines)]
    model = [obs(l) for l in run_lines([DRIVER], lines)]
    keys = ["t.xm", "t.xe", "t.se", "t.hc"]
    tie(ctx, "T-text:span-identity", pairs, impl, model, keys,
        lambda c, d, i, m: {"inputs": [show(c[0]), show(c[1])], "keys": d, "impl": {k: i.get(k, "")[:200] for k in d},
                            "model": {k: m.get(k, "")[:200] for k in d}})
    for (a, b), io in zip(pairs, impl):
        if "t.xm" not in io:
            violation(ctx, "C13 runner gave no answer", {"inputs": [show(a), show(b)]}, got=io)
            continue
        ba = a.encode("utf-8")
        sa, sb = spans_of(a), spans_of(b)
        ctx.evaluations += 2 * len(sa) * len(sb) + len(sa) ** 2
        ctx.nontrivial += 2 * len(sa) * len(sb)
        for f, name in (("xm", "merge_spans of spans of different inputs"), ("xe", "== of spans of different inputs"),
                        ("se", "== of spans of one input")):
            if io.get("t." + f) != io.get("p." + f):
                violation(ctx, f"C13 {name} differs from pest", {"inputs": [show(a), show(b)]},
                          typed=io.get("t." + f, "")[:200], pest=io.get("p." + f, "")[:200])
        # specification: the hull, validated against and pointing into the FIRST span's input; identity-based equality
        want = ",".join((f"{min(x, u)}:{max(y, v)}a" if (min(x, u) <= max(y, v) and is_boundary(ba, min(x, u)) and is_boundary(ba, max(y, v)))
                         else "-") if (y >= u and x <= v) else "-" for x, y in sa for u, v in sb)
        if io["t.xm"] != want:
            xl, wl = io["t.xm"].split(","), want.split(",")
            k = first_diff(xl, wl)
            violation(ctx, "C13 merge_spans of spans of different inputs is not the hull on the first input",
                      {"inputs": [show(a), show(b)], "a": list(sa[k // len(sb)]), "b": list(sb[k % len(sb)])}, typed=xl[k], expected=wl[k])
        if "1" in io["t.xe"]:
            k = io["t.xe"].index("1")
            violation(ctx, "C13 spans of different input objects compare equal",
                      {"inputs": [show(a), show(b)], "a": list(sa[k // len(sb)]), "b": list(sb[k % len(sb)])})
        want_se = "".join("1" if p == q else "0" for p in sa for q in sa)
        if io["t.se"] != want_se:
            k = first_diff(io["t.se"], want_se)
            violation(ctx, "C13 == of spans of one input is not equality of the offsets",
                      {"input": show(a), "a": list(sa[k // len(sa)]), "b": list(sa[k % len(sa)])}, typed=io["t.se"][k], expected=want_se[k])
        if io["t.hc"] != "1":
            violation(ctx, "C13 equal spans hash differently", {"inputs": [show(a), show(b)]})
    ctx.coverage["identity_family"] = {"input_pairs": len(pairs)}


def check_C13(ctx):
    n = 6                                     # the property's own bound, in both tiers
    nspec = 4
    next_ = 3 if ctx.tier == "quick" else 4
    nlong = 40 if ctx.tier == "quick" else 400
    ctx.rule_text = (f"T-text: all strings of length <= {n} over {{LF, CR, 'a', 2-byte, 3-byte char}} x all (start, end) in "
                     "0..len+1 (Span::new) x every valid span (as_str, split/start/end, lines, lines_span) x all nine bound forms "
                     "(Included/Excluded/Unbounded start and end) with both offsets in 0..span_len+1 (get) x all ordered pairs of "
                     f"valid spans (merge_spans); the same for all strings of length <= {next_} over that alphabet extended by a 4-byte "
                     f"character, TAB, NEL, U+2028, zero-width space; {nlong} seeded texts of 20..80 characters (lines / lines_span / "
                     "as_str of every span); get / new with bounds up to usize::MAX in debug and release builds; merge_spans, == and "
                     "Hash across two input objects; an evaluation is one call; non-trivial strings contain a line break or a "
                     "multi-byte character")
    build_runner(release=True)
    core = strings(C13_ALPHA, n)
    seen = set(core)
    ext = [s for s in strings(C13_EXT, next_) if s not in seen]
    rnd = random.Random(ctx.seed)
    longs = ["".join(rnd.choices(C13_EXT, [5, 2, 5, 1, 1, 1, 1, 1, 1, 1])[0] for _ in range(rnd.randint(20, 80))) for _ in range(nlong)]
    # verbose (so that the specification can be recomputed here): the short core strings and the extended family
    verbose_set = [s for s in core if len(s) <= nspec] + ext
    vset = set(verbose_set)
    digest_set = [s for s in core if s not in vset]
    ins = digest_set + verbose_set + longs
    modes = ["d"] * len(digest_set) + ["v"] * len(verbose_set) + ["dl"] * len(longs)
    lines = [f"text c13 {hexs(s)} {m}" for s, m in zip(ins, modes)]
    impl = [obs(l) for l in run_lines([RUNNER], lines)]
    model = [obs(l) for l in run_lines([DRIVER], lines)]
    keys = ["t." + f for f, _ in C13_FIELDS]

    def verbose(s):
        line = [f"text c13 {hexs(s)} v" + ("l" if len(s) > 12 else "")]
        return obs(run_lines([RUNNER], line)[0]), obs(run_lines([DRIVER], line)[0])

    def describe(s, d, i, m):
        vi, vm = verbose(s)
        k = next((k for k in d if vi.get(k) != vm.get(k)), d[0])
        where, x, y = c13_locate(s, k[2:], vi.get(k, ""), vm.get(k, ""))
        return {"input": show(s), "keys": d, "first": {"field": k, **where, "impl": x, "model": y}}
    tie(ctx, "T-text:span", ins, impl, model, keys, describe)
    reported = 0
    for s, mode, io in zip(ins, modes, impl):
        ev = c13_evals(s, "l" in mode)
        ctx.evaluations += ev
        if any(ord(c) > 127 or c in "\r\n" for c in s):
            ctx.nontrivial += ev
        if "t.ls" not in io:
            # the runner unwraps Span::new on every ordered pair of boundaries: if that failed, say which call
            b = s.encode("utf-8")
            want = "".join("1" if (x <= y and is_boundary(b, x) and is_boundary(b, y)) else "0"
                           for x in range(len(b) + 2) for y in range(len(b) + 2))
            got = io.get("t.new", "")
            if got and not got.startswith("#") and got != want:
                k = first_diff(got, want)
                violation(ctx, "C13 Span::new differs from the specification",
                          {"input": show(s), "call": f"Span::new(input, {k // (len(b) + 2)}, {k % (len(b) + 2)})"}, typed=got[k:k + 1], expected=want[k:k + 1])
            else:
                violation(ctx, "C13 runner gave no answer", {"input": show(s)}, got={k: v[:80] for k, v in io.items()})
            continue
        if io.get("t.np") != "0":
            vi, _ = verbose(s)
            f = next((f for f, _ in C13_FIELDS if "P" in vi.get("t." + f, "").replace(";", ",").split(",") or "P" in vi.get("t.new", "")), "?")
            violation(ctx, "C13 a Span operation panics", {"input": show(s), "operation": f}, panics=io.get("t.np"))
        for f, name in C13_FIELDS:
            if io.get("t." + f) != io.get("p." + f):
                vi, _ = verbose(s) if reported < 50 else (None, None)
                reported += 1
                if vi:
                    where, x, y = c13_locate(s, f, vi.get("t." + f, ""), vi.get("p." + f, ""))
                    violation(ctx, f"C13 {name} differs from pest", {"input": show(s), **where}, typed=x, pest=y)
                else:
                    violation(ctx, f"C13 {name} differs from pest", {"input": show(s)})
        if mode == "v":
            # specification-level recomputation (independent of pest and of the model)
            want = spec_c13(s)
            for f, name in C13_FIELDS:
                if io.get("t." + f) != want["t." + f]:
                    where, x, y = c13_locate(s, f, io.get("t." + f, ""), want["t." + f])
                    violation(ctx, f"C13 {name} differs from the specification", {"input": show(s), **where}, typed=x, expected=y)
    c13x_family(ctx)
    c13i_family(ctx)
    # the replay shows the first violation: let it be one on a short input
    ctx.violations.sort(key=lambda v: len(v["case"]["input"]) if isinstance(v["case"].get("input"), str) else
                        sum(len(t) for t in v["case"].get("inputs", [])) if "inputs" in v["case"] else 10 ** 6)
    for s in ("a\nb\nc", "中\n\r\na"):
        vi, _ = verbose(s)
        ctx.samples.append({"case": {"input": show(s)}, "impl": {k: vi.get(k, "")[:160] for k in ("t.new", "t.lines", "t.ls", "t.merge")}})
    ctx.coverage["strings"] = len(ins)
    ctx.coverage["exhaustive_bound"] = {"core_alphabet_max_length": n, "core_strings": len(core), "stated_bound": 6,
                                        "extended_alphabet_max_length": next_, "extended_strings": len(ext),
                                        "specification_recomputed_on": len(verbose_set), "long_texts": len(longs)}
    ctx.coverage["pest_oracle"] = ("pest 2.7.14's span.rs is the textual ancestor of /repo's: 'agrees with pest' is a bounded differential "
                                   "test; independent oracles: the specification recomputation (strings <= 4 and the extended family) and, "
                                   "for bounds near usize::MAX where pest itself overflows, the specification alone")


# ---------------------------------------------------------------------------------------------
# C14

C14_ALPHA = ["\n", "\r", "\t", "a", "中", "é"]
# Verdicts of the runner's oracle -> `what` strings, one per defect class.  The first two classes were
# repaired in /repo (F-FMT-1, F-FMT-2): they are REQUIRED to be right now, a regression of either is an
# unlisted violation under exactly these strings.  Only the last one (F-FMT-3) is a known finding.
C14_WHAT = {
    "panic-empty-input": "C14 display of empty input panics",
    "panic": "C14 display panics on non-empty input",
    "nothing-at-end-of-input": "C14 position at end of input renders nothing",
    "from-previous-line": "C14 span starting on the first byte of a later line is drawn from the previous line",
}


def c14_what(kind, cls):
    if cls in C14_WHAT:
        return C14_WHAT[cls]
    return f"C14 {kind} display wrong: {cls[4:] if cls.startswith('bad:') else cls}"


C14_CONTROLS = [chr(c) for c in range(0x20)] + ["\x7f"]
# beyond the property's alphabet: other control characters (their pictures), characters WITHOUT a display cell
# (zero-width space, combining acute; NEL / U+2028 count as such for unicode-width or not — whatever it says), a 4-byte wide
# character; next to line breaks in the exhaustive short strings
C14_EXT = C14_ALPHA + ["\x0b", "\x00", "\x7f", "\u0085", "\u2028", "\u200b", "\u0301", "\U0001F600"]


def numbered_text(nlines, rnd, alpha):
    return "".join("".join(rnd.choice(alpha) for _ in range(rnd.randint(0, 2))) + "\n" for _ in range(nlines - 1)) + "z"


def selection_around(s, line_numbers):
    """Spans and positions that start / end on the given 1-based lines (first byte, second byte, last byte)."""
    b = s.encode("utf-8")
    starts = [0] + [i + 1 for i, c in enumerate(b) if c == 10 and i + 1 < len(b)]
    bs = set(boundaries(s))
    offs = []
    for n in line_numbers:
        if 1 <= n <= len(starts):
            u = starts[n - 1]
            v = starts[n] if n < len(starts) else len(b)
            offs += [q for q in (u, u + 1, v - 1, v) if q in bs]
    offs = sorted(set(offs))
    return [(x, y) for x in offs for y in offs if y >= x], offs


FAIL_MARKS = {1: ("<S:", "<S!"), 2: ("<M:", "<M!"), 3: ("<N:|>", "<N!"), 4: (None, "<N!")}


def spec_failing(full, which):
    """What display() with the `which`-th failing option must have written, given the full bracketed rendering: everything
    up to the first call of the failing callback, its mark, and Err; the whole rendering and Ok when it is never called."""
    if which == 4:
        k, pos = 0, -1
        while True:
            k = full.find("<N:", k)
            if k < 0:
                break
            if not full.startswith("<N:|>", k):
                pos = k
                break
            k += 3
    else:
        pos = full.find(FAIL_MARKS[which][0])
    if pos < 0:
        return full, "K"
    return full[:pos] + FAIL_MARKS[which][1], "E"


def c14e_family(ctx, wt, custom):
    """display() with a custom option one of whose callbacks returns Err: `?` must stop there, keep what was written, and
    return Err — never panic.  Tie with the model's `displaySpanE` / `displayPositionE`; oracle: prefix of the full rendering."""
    if not custom:
        return
    ins = strings(C14_ALPHA, 4) + [c + "\n" + c + "x" for c in C14_CONTROLS] + strings(["\n", "\u200b", "\U0001F600", "a"], 3)
    ins = list(dict.fromkeys(ins))
    lines = [f"text c14e {hexs(s)} {wt}" for s in ins]
    impl = [obs(l) for l in run_lines([RUNNER], lines)]
    model = [obs(l) for l in run_lines([DRIVER], lines)]
    tie(ctx, "T-text:display-failing-callback", ins, impl, model, ["t.es", "t.ep"],
        lambda s, d, i, m: {"input": show(s), "keys": d, "impl": {k: i.get(k, "")[:300] for k in d}, "model": {k: m.get(k, "")[:300] for k in d}})
    for s, io in zip(ins, impl):
        if "t.es" not in io:
            violation(ctx, "C14 runner gave no answer", {"input": show(s)}, got=io)
            continue
        for kind, items, got, full in (("span", spans_of(s), io["t.es"], io["full.s"]), ("position", boundaries(s), io["t.ep"], io["full.p"])):
            for it, g, f in zip(items, got.split(","), full.split(",")):
                case = {"input": show(s), "span": list(it)} if kind == "span" else {"input": show(s), "offset": it}
                if f == "panic":
                    continue                      # reported by the main family
                fulltext = unhex(f)
                for which, r in enumerate(g.split("|"), start=1):
                    ctx.evaluations += 1
                    ctx.nontrivial += 1
                    name = {1: "span", 2: "marker", 3: "number (on the bar)", 4: "number (on a line number)"}[which]
                    if r == "panic":
                        violation(ctx, "C14 display with a failing callback panics", {**case, "failing_callback": name})
                        continue
                    h, _, res = r.rpartition(":")
                    want, wres = spec_failing(fulltext, which)
                    if unhex(h) != want or res != wres:
                        violation(ctx, "C14 display with a failing callback does not stop at the first Err",
                                  {**case, "failing_callback": name}, written=unhex(h), result=res, expected=want, expected_result=wres)
    ctx.coverage["failing_callback_family"] = {"strings": len(ins), "options": 4}


def check_C14(ctx):
    n = 6                                     # the property's own bound, in both tiers
    next_ = 3 if ctx.tier == "quick" else 4
    nlong = 200 if ctx.tier == "quick" else 3000
    ctx.rule_text = (f"T-text: all strings of length <= {n} over {{LF, CR, TAB, 'a', wide CJK, 2-byte letter}} (the empty string "
                     f"included) x all valid spans and all boundary positions; the same for all strings of length <= {next_} over that "
                     "alphabet extended by VT, NUL, DEL, NEL, U+2028, zero-width space, combining acute, a 4-byte emoji; every one of the "
                     f"33 control characters in three contexts; {nlong} seeded texts of 6..16 lines over the extended alphabet; texts of "
                     "12, 101 and 1001 lines at spans / positions around the lines where the number column widens (9/10, 99/100, "
                     "999/1000); Display (default option, real crate) and display() with a bracketing FormatOption (source-included "
                     "copy, the type is not exported); an evaluation is one rendering; non-trivial when the input has more than one "
                     "line or a control / wide / zero-width character")
    build_runner()
    wt = obs(run_lines([RUNNER], ["text w " + hexs("".join(C14_EXT) + "".join(C14_CONTROLS) + "0123456789 |^v.z")])[0]).get("w", "")
    core = strings(C14_ALPHA, n)
    seen = set(core)
    ext = [s for s in strings(C14_EXT, next_) if s not in seen]
    ctrl = [t for c in C14_CONTROLS for t in (c, "a" + c + "b", c + "\n" + c + "x") if t not in seen]
    rnd = random.Random(ctx.seed)
    longs = []
    for _ in range(nlong):
        nl = rnd.randint(6, 16)
        longs.append("".join("".join(rnd.choice(C14_EXT[1:]) for _ in range(rnd.randint(0, 3))) + "\n" for _ in range(nl))
                     + rnd.choice(["", "a", "中\t", "\u200b"]))
    # the number column: 1 -> 2 -> 3 -> 4 digits (first in the list: the 1001-line text is the slowest single case)
    ins, sels = [], []
    for nl, around in ((1001, [1, 999, 1000, 1001]), (101, [1, 9, 10, 99, 100, 101]), (12, [1, 9, 10, 11, 12])):
        t = numbered_text(nl, rnd, ["a", "中", "\t", "\u200b"])
        sp, ps = selection_around(t, around)
        ins.append(t)
        sels.append((sp, ps))
    ins += core + ext + ctrl + longs
    sels += [None] * (len(ins) - len(sels))
    lines = []
    for s, sel in zip(ins, sels):
        l = f"text c14 {hexs(s)} d {wt}"
        if sel:
            l += " " + ",".join(f"{a}:{b}" for a, b in sel[0]) + ";" + ",".join(str(q) for q in sel[1])
        lines.append(l)
    impl = [obs(l) for l in run_lines([RUNNER], lines)]
    model = [obs(l) for l in run_lines([DRIVER], lines)]
    keys = ["t.sd", "t.sb", "t.pd", "t.pb"]
    custom = all(io.get("opt") == "custom" for io in impl) and "srcincl_error" not in BUILD_NOTES
    ctx.ties["T-text:custom-FormatOption"] = {"cases": len(ins), "agree": len(ins) if custom else 0, "observables": [
        "display() with a custom FormatOption: formatter.rs / position.rs / span.rs of /repo's working tree compiled into the runner "
        "(#[path]) because the type is not exported"]}
    if not custom:
        keys = ["t.sd", "t.pd"]
        # LOUD: the custom-option observable is lost; the default option is still checked below
        ctx.tie_broken("T-text:custom-FormatOption", {
            "error": "the source-included copy of formatter.rs / position.rs / span.rs no longer compiles inside harness/text_runner: "
                     "display() with a custom FormatOption was NOT exercised in this run (adapt the #[path] block of "
                     "harness/text_runner/src/main.rs to the new module dependencies)",
            "compiler": BUILD_NOTES.get("srcincl_error", "")[-1500:]})

    def verbose(s, sel, with_model=True):
        l = f"text c14 {hexs(s)} v {wt}"
        if sel:
            l += " " + ",".join(f"{a}:{b}" for a, b in sel[0]) + ";" + ",".join(str(q) for q in sel[1])
        return obs(run_lines([RUNNER], [l])[0]), (obs(run_lines([DRIVER], [l])[0]) if with_model else None)
    sel_of = {s: sel for s, sel in zip(ins, sels) if sel}
    label = lambda s: show(s) if len(s) < 300 else {"lines": s.count("\n") + 1, "seed": ctx.seed, "hex_prefix": hexs(s[:40])}

    def describe(s, d, i, m):
        sel = sel_of.get(s)
        vi, vm = verbose(s, sel)
        k = next((k for k in d if vi.get(k) != vm.get(k)), d[0])
        xl, yl = vi.get(k, "").split(","), vm.get(k, "").split(",")
        j = first_diff(xl, yl)
        sp, ps = sel if sel else (spans_of(s), boundaries(s))
        what = sp[j] if k in ("t.sd", "t.sb") else ps[j]
        dec = lambda h: h if h in ("panic", None) else show(unhex(h))
        return {"input": label(s), "keys": d, "first": {"field": k, "at": what, "impl": dec(xl[j]), "model": dec(yl[j])}}
    tie(ctx, "T-text:display", ins, impl, model, keys, describe)
    nonadd = [label(s) for s, io in zip(ins, impl) if io.get("wadd") != "1"]
    ctx.ties["T-text:width-additive"] = {"cases": len(ins), "agree": len(ins) - len(nonadd), "observables": ["wadd"]}
    if nonadd:
        ctx.tie_broken("T-text:width-additive", {"disagreements": len(nonadd), "first": nonadd[:5]})
    detailed = {}
    order = sorted(range(len(ins)), key=lambda k: len(ins[k]))      # short inputs first: they get the rendered detail
    for s, sel, io in ((ins[k], sels[k], impl[k]) for k in order):
        sp, bs = sel if sel else (spans_of(s), boundaries(s))
        ctx.evaluations += 2 * (len(sp) + len(bs))
        if s.count("\n") and not s.endswith("\n") or s.count("\n") > 1 or any(ord(c) < 32 or ord(c) > 126 for c in s):
            ctx.nontrivial += 2 * (len(sp) + len(bs))
        if "cls.s" not in io:
            violation(ctx, "C14 runner gave no answer", {"input": label(s)}, got=io)
            continue
        cs, cp = io["cls.s"].split(",") if io["cls.s"] else [], io["cls.p"].split(",") if io["cls.p"] else []
        for kind, classes, items in (("span", cs, sp), ("position", cp, bs)):
            for k, (cls, it) in enumerate(zip(classes, items)):
                if cls == "ok":
                    continue
                what = c14_what(kind, cls)
                case = {"input": label(s), "span": list(it)} if kind == "span" else {"input": label(s), "offset": it}
                extra = {}
                # the rendering, for the first three cases of each class (short inputs first: the known class F-FMT-3
                # occurs on every multi-line text, the big ones need not be rendered again for it)
                if detailed.get(what, 0) < 3 and (len(s) < 300 or cls != "from-previous-line"):
                    detailed[what] = detailed.get(what, 0) + 1
                    vi, _ = verbose(s, sel, with_model=False)
                    h = vi.get("t.sd" if kind == "span" else "t.pd", "").split(",")[k]
                    extra["rendered"] = h if h == "panic" else unhex(h)
                    if len(s) >= 300:
                        extra["input_hex"] = hexs(s)
                violation(ctx, what, case, **extra)
    c14e_family(ctx, wt, custom)
    # the replay shows the first violation: let it be one on a short input
    ctx.violations.sort(key=lambda v: len(v["case"]["input"]) if isinstance(v["case"].get("input"), str) else 10 ** 6)
    for s in ("ab\ncd", "中\ta\r\nb"):
        vi, _ = verbose(s, None, with_model=False)
        ctx.samples.append({"case": {"input": show(s), "span": list(spans_of(s)[1])},
                            "impl": {"rendered": unhex(vi.get("t.sd", "-").split(",")[1]) if vi.get("t.sd") else None}})
    ctx.coverage["strings"] = len(ins)
    ctx.coverage["custom_format_option"] = custom
    ctx.coverage["exhaustive_bound"] = {"core_alphabet_max_length": n, "core_strings": len(core), "stated_bound": 6,
                                        "extended_alphabet_max_length": next_, "extended_strings": len(ext),
                                        "control_characters_rendered": len(C14_CONTROLS), "line_count_texts": [12, 101, 1001]}
